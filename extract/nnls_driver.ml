(* nnls_driver.ml — runs the extracted NnlsModel at exact rationals (QcA).
   input lines:   <id> <mode> <n> <n*n entries of A row-major> <n entries of b>       entries: num/den (decimal ints)
     mode: cur  = block3 as in the source tree (exit test from Generated_nnls.v)
           old  = block3_gen false (exit on nH2 == 0)      new = block3_gen true (repaired exit test)
           spec = optimum by 2^n active-set enumeration (nnls_spec)
           block / updown = NnlsModel2.pjv_block / pjv_updown (nnls_normal_block / nnls_normal_block_updown as in the tree)
           lh   = NnlsModel2.lh_normaleq; the line then reads  <id> lh <n> <tolerance> <min_iterations> <max_iterations> <A> <b>
     entries may also be written h<hex num>/<hex den> (no size limit)
   output line:   R <id> <exit> <iters> <full> H1=<i,..> X <num/den hex ...> T <events>        (spec: S <id> X ... | S <id> NONE)
                  P <id> <exit> <iters> F=<i,..> X <...> T <events>                             (block, updown)
                  L <id> <exit> <iters> P=<i,..> Z=<i,..> LF=<i|-> SK=<0|1> X <...> T <events>   (lh) *)
open Nnlsmodel

let rec pos_of_int n = if n = 1 then XH else if n land 1 = 0 then XO (pos_of_int (n lsr 1)) else XI (pos_of_int (n lsr 1))
let z_of_int n = if n = 0 then Z0 else if n > 0 then Zpos (pos_of_int n) else Zneg (pos_of_int (-n))
let rec int_of_nat = function O -> 0 | S n -> 1 + int_of_nat n
let hex_of_pos p =
  let rec lsb p = match p with XH -> [1] | XO q -> 0 :: lsb q | XI q -> 1 :: lsb q in
  let l = Array.of_list (lsb p) in
  let n = Array.length l in
  let nd = (n + 3) / 4 in
  let b = Buffer.create nd in
  for k = nd - 1 downto 0 do
    let v = ref 0 in
    for j = 3 downto 0 do let idx = 4 * k + j in v := !v * 2 + (if idx < n then l.(idx) else 0) done;
    Buffer.add_char b "0123456789abcdef".[!v]
  done; Buffer.contents b
let str_of_qc (q : Obj.t) : string =
  let q : q = Obj.obj q in
  let s = match q.qnum with Z0 -> "0" | Zpos p -> hex_of_pos p | Zneg p -> "-" ^ hex_of_pos p in
  s ^ "/" ^ hex_of_pos q.qden
let hexval c = match c with '0'..'9' -> Char.code c - 48 | 'a'..'f' -> Char.code c - 87 | 'A'..'F' -> Char.code c - 55 | _ -> failwith "bad hex"
(* positive from a hex string (most significant digit first); None when the value is 0 *)
let pos_of_hex (s : string) : positive option =
  let acc = ref None in
  String.iter (fun c ->
    let v = hexval c in
    for j = 3 downto 0 do
      let bit = (v lsr j) land 1 in
      acc := (match !acc with
              | None -> if bit = 1 then Some XH else None
              | Some p -> Some (if bit = 1 then XI p else XO p))
    done) s;
  !acc
let z_of_hex (s : string) : z =
  let neg = String.length s > 0 && s.[0] = '-' in
  let body = if neg then String.sub s 1 (String.length s - 1) else s in
  match pos_of_hex body with None -> Z0 | Some p -> if neg then Zneg p else Zpos p
let qc_of_string (s : string) : Obj.t =
  if String.length s > 0 && s.[0] = 'h' then begin
    let t = String.sub s 1 (String.length s - 1) in
    let (a, d) = match String.index_opt t '/' with
      | Some i -> (String.sub t 0 i, String.sub t (i + 1) (String.length t - i - 1))
      | None -> (t, "1") in
    let den = match pos_of_hex d with Some p -> p | None -> failwith "zero denominator" in
    Obj.repr (q2Qc { qnum = z_of_hex a; qden = den })
  end else
  let (a, d) = match String.index_opt s '/' with
    | Some i -> (int_of_string (String.sub s 0 i), int_of_string (String.sub s (i + 1) (String.length s - i - 1)))
    | None -> (int_of_string s, 1) in
  Obj.repr (q2Qc { qnum = z_of_int a; qden = pos_of_int d })

let exit_name = function NormalExit -> "normal" | MaxIter -> "maxiter" | InnerFuel -> "innerfuel" | SolveFailed -> "solvefailed"
let ev_str = function
  | EvFree k -> Printf.sprintf "free:%d" (int_of_nat k)
  | EvSolve k -> Printf.sprintf "solve:%d" (int_of_nat k)
  | EvFeas -> "feas"
  | EvBound k -> Printf.sprintf "bound:%d" (int_of_nat k)
  | EvAlpha (k, h, r) -> Printf.sprintf "alpha:%d:%d:%d" (int_of_nat k) (int_of_nat h) (if r then 1 else 0)

let pev_str = function
  | PvStuck (t, h1, h2) -> Printf.sprintf "stuck:%s:%d:%d" (match t with Z0 -> "0" | Zpos p -> string_of_int (int_of_string ("0x" ^ hex_of_pos p)) | Zneg p -> "-" ^ string_of_int (int_of_string ("0x" ^ hex_of_pos p))) (int_of_nat h1) (int_of_nat h2)
  | PvH1 i -> Printf.sprintf "h1:%d" (int_of_nat i)
  | PvH2 i -> Printf.sprintf "h2:%d" (int_of_nat i)
  | PvIter (k, ninf) -> Printf.sprintf "iter:%d:%d" (int_of_nat k) (int_of_nat ninf)
  | PvSolve k -> Printf.sprintf "solve:%d" (int_of_nat k)
let lev_str = function
  | LvFree (i, nz, np) -> Printf.sprintf "free:%d:%d:%d" (int_of_nat i) (int_of_nat nz) (int_of_nat np)
  | LvBind (i, nz, np) -> Printf.sprintf "bind:%d:%d:%d" (int_of_nat i) (int_of_nat nz) (int_of_nat np)
let lh_exit_name = function
  | LhAllPassive -> "allpassive" | LhWmax -> "wmax" | LhTol -> "tol" | LhEquilibrium -> "equilibrium" | LhMaxIter -> "maxiter"
  | LhMathFailed -> "mathfailed" | LhSolveFailed -> "singular" | LhInnerFuel -> "innerfuel" | LhOuterFuel -> "outerfuel"
let rec nat_of_int n = if n <= 0 then O else S (nat_of_int (n - 1))
let idx_str l = String.concat "," (List.map (fun i -> string_of_int (int_of_nat i)) l)

let rec take n l = if n = 0 then ([], l) else match l with [] -> failwith "short line" | a :: r -> let (x, y) = take (n - 1) r in (a :: x, y)
let rec rows n k l = if k = 0 then [] else let (r, rest) = take n l in r :: rows n (k - 1) rest

let () =
  try
    while true do
      let line = input_line stdin in
      match List.filter (fun s -> s <> "") (String.split_on_char ' ' line) with
      | [] -> ()
      | id :: "lh" :: ns :: tol :: mi :: ma :: rest ->
          let n = int_of_string ns in
          let vals = List.map qc_of_string rest in
          let (av, bv) = take (n * n) vals in
          let m = rows n n av in
          let r = lh_normaleq qcA m bv (qc_of_string tol) (nat_of_int (int_of_string mi)) (nat_of_int (int_of_string ma)) in
          Printf.printf "L %s %s %d P=%s Z=%s LF=%s SK=%d X %s T %s\n" id (lh_exit_name r.lr_exit) (int_of_nat r.lr_iters)
            (idx_str r.lr_P) (idx_str r.lr_Z) (match r.lr_lf with Some i -> string_of_int (int_of_nat i) | None -> "-")
            (if lh_skipped qcA r then 1 else 0)
            (String.concat " " (List.map str_of_qc r.lr_x)) (String.concat " " (List.map lev_str r.lr_trace));
          flush stdout
      | id :: (("block" | "updown") as mode) :: ns :: rest ->
          let n = int_of_string ns in
          let vals = List.map qc_of_string rest in
          let (av, bv) = take (n * n) vals in
          let m = rows n n av in
          let r = if mode = "block" then pjv_block qcA m bv else pjv_updown qcA m bv in
          Printf.printf "P %s %s %d F=%s X %s T %s\n" id (exit_name r.pr_exit) (int_of_nat r.pr_iters) (idx_str r.pr_F)
            (String.concat " " (List.map str_of_qc r.pr_x)) (String.concat " " (List.map pev_str r.pr_trace));
          flush stdout
      | id :: mode :: ns :: rest ->
          let n = int_of_string ns in
          let vals = List.map qc_of_string rest in
          let (av, bv) = take (n * n) vals in
          let m = rows n n av in
          if mode = "spec" then begin
            match nnls_spec qcA m bv with
            | Some x -> Printf.printf "S %s X %s\n" id (String.concat " " (List.map str_of_qc x))
            | None -> Printf.printf "S %s NONE\n" id
          end else begin
            let r = match mode with
              | "old" -> block3_gen qcA false m bv
              | "new" -> block3_gen qcA true m bv
              | _ -> block3 qcA m bv in
            Printf.printf "R %s %s %d %d H1=%s X %s T %s\n" id (exit_name r.r_exit) (int_of_nat r.r_iters) (if r.r_full then 1 else 0)
              (String.concat "," (List.map (fun i -> string_of_int (int_of_nat i)) r.r_H1))
              (String.concat " " (List.map str_of_qc r.r_x)) (String.concat " " (List.map ev_str r.r_trace))
          end;
          flush stdout
      | _ -> failwith "bad line"
    done
  with End_of_file -> ()
