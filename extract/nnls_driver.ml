(* nnls_driver.ml — runs the extracted NnlsModel at exact rationals (QcA).
   input lines:   <id> <mode> <n> <n*n entries of A row-major> <n entries of b>       entries: num/den (decimal ints)
     mode: cur  = block3 as in the source tree (exit test from Generated_nnls.v)
           old  = block3_gen false (exit on nH2 == 0)      new = block3_gen true (repaired exit test)
           spec = optimum by 2^n active-set enumeration (nnls_spec)
   output line:   R <id> <exit> <iters> <full> H1=<i,..> X <num/den hex ...> T <events>        (spec: S <id> X ... | S <id> NONE) *)
open Nnlsmodel

let rec pos_of_int n = if n = 1 then XH else if n land 1 = 0 then XO (pos_of_int (n lsr 1)) else XI (pos_of_int (n lsr 1))
let z_of_int n = if n = 0 then Z0 else if n > 0 then Zpos (pos_of_int n) else Zneg (pos_of_int (-n))
let rec int_of_nat = function O -> 0 | S n -> 1 + int_of_nat n
let hex_of_pos p =
  let rec lsb p = match p with XH -> [1] | XO q -> 0 :: lsb q | XI q -> 1 :: lsb q in
  let l = Array.of_list (lsb p) in
  let n = Array.length l in
  let nd = (n + 3) / 4 in
  let b = Buffer.create nd in
  for k = nd - 1 downto 0 do
    let v = ref 0 in
    for j = 3 downto 0 do let idx = 4 * k + j in v := !v * 2 + (if idx < n then l.(idx) else 0) done;
    Buffer.add_char b "0123456789abcdef".[!v]
  done; Buffer.contents b
let str_of_qc (q : Obj.t) : string =
  let q : q = Obj.obj q in
  let s = match q.qnum with Z0 -> "0" | Zpos p -> hex_of_pos p | Zneg p -> "-" ^ hex_of_pos p in
  s ^ "/" ^ hex_of_pos q.qden
let qc_of_string (s : string) : Obj.t =
  let (a, d) = match String.index_opt s '/' with
    | Some i -> (int_of_string (String.sub s 0 i), int_of_string (String.sub s (i + 1) (String.length s - i - 1)))
    | None -> (int_of_string s, 1) in
  Obj.repr (q2Qc { qnum = z_of_int a; qden = pos_of_int d })

let exit_name = function NormalExit -> "normal" | MaxIter -> "maxiter" | InnerFuel -> "innerfuel" | SolveFailed -> "solvefailed"
let ev_str = function
  | EvFree k -> Printf.sprintf "free:%d" (int_of_nat k)
  | EvSolve k -> Printf.sprintf "solve:%d" (int_of_nat k)
  | EvFeas -> "feas"
  | EvBound k -> Printf.sprintf "bound:%d" (int_of_nat k)
  | EvAlpha (k, h, r) -> Printf.sprintf "alpha:%d:%d:%d" (int_of_nat k) (int_of_nat h) (if r then 1 else 0)

let rec take n l = if n = 0 then ([], l) else match l with [] -> failwith "short line" | a :: r -> let (x, y) = take (n - 1) r in (a :: x, y)
let rec rows n k l = if k = 0 then [] else let (r, rest) = take n l in r :: rows n (k - 1) rest

let () =
  try
    while true do
      let line = input_line stdin in
      match List.filter (fun s -> s <> "") (String.split_on_char ' ' line) with
      | [] -> ()
      | id :: mode :: ns :: rest ->
          let n = int_of_string ns in
          let vals = List.map qc_of_string rest in
          let (av, bv) = take (n * n) vals in
          let m = rows n n av in
          if mode = "spec" then begin
            match nnls_spec qcA m bv with
            | Some x -> Printf.printf "S %s X %s\n" id (String.concat " " (List.map str_of_qc x))
            | None -> Printf.printf "S %s NONE\n" id
          end else begin
            let r = match mode with
              | "old" -> block3_gen qcA false m bv
              | "new" -> block3_gen qcA true m bv
              | _ -> block3 qcA m bv in
            Printf.printf "R %s %s %d %d H1=%s X %s T %s\n" id (exit_name r.r_exit) (int_of_nat r.r_iters) (if r.r_full then 1 else 0)
              (String.concat "," (List.map (fun i -> string_of_int (int_of_nat i)) r.r_H1))
              (String.concat " " (List.map str_of_qc r.r_x)) (String.concat " " (List.map ev_str r.r_trace))
          end;
          flush stdout
      | _ -> failwith "bad line"
    done
  with End_of_file -> ()
