(* C08_driver.ml — runs the extracted C08 models.  C08_driver <listfile>; one command per line:
     bytes <id> <tablefile> <out>            cf_bytes t -> out;  prints "id len=<n> crb=<0|1> wf=<0|1> sched=<nops>:<off0> file=<calls> mem=<calls>"
     crash <id> <tablefile> <k> <out>        crash_of (cf_bytes t) k -> out, read_bytes of it -> out.dump;  prints "id ok"
     run   <id> <tablefile> <file|mem> <new|old> <i,j,...|->   run_writer with the oracle "call index in the set"; prints "id Success" / "id Failed j"
   Table text format: tools/props/C06.py. *)
open C08model

let rec pos_of_int64 (x:int64) : positive =
  let rest = Int64.shift_right_logical x 1 in
  if rest = 0L then XH else if Int64.logand x 1L = 1L then XI (pos_of_int64 rest) else XO (pos_of_int64 rest)
let n_of_int64 (x:int64) : n = if x = 0L then N0 else Npos (pos_of_int64 x)
let n_of_int (x:int) : n = n_of_int64 (Int64.of_int x)
let rec int64_of_pos = function XH -> 1L | XO p -> Int64.shift_left (int64_of_pos p) 1
  | XI p -> Int64.logor (Int64.shift_left (int64_of_pos p) 1) 1L
let int64_of_n = function N0 -> 0L | Npos p -> int64_of_pos p
let int_of_n x = Int64.to_int (int64_of_n x)
let n_of_hex s = n_of_int64 (Int64.of_string ("0x" ^ s))
let hex64 x = Printf.sprintf "%016Lx" (int64_of_n x)
let hex32 x = Printf.sprintf "%08Lx" (int64_of_n x)
let rec nat_to_int = function O -> 0 | S m -> 1 + nat_to_int m
let nat_of_int (k:int) : nat = let r = ref O in for _ = 1 to k do r := S !r done; !r
let list_length_int l = List.fold_left (fun a _ -> a + 1) 0 l

let hexstr (l:n list) : string = if l = [] then "-" else String.concat "" (List.map (fun c -> Printf.sprintf "%02x" ((int_of_n c) land 255)) l)
let unhex (h:string) : n list = if h = "-" then [] else List.init (String.length h / 2) (fun i -> n_of_int (int_of_string ("0x" ^ String.sub h (2*i) 2)))
let write_bytes path (l:n list) = let oc = open_out_bin path in List.iter (fun c -> output_char oc (Char.chr ((int_of_n c) land 255))) l; close_out oc

let err_name = function
  | ENoHDU -> "ENoHDU" | ETruncHeader -> "ETruncHeader" | ETruncData -> "ETruncData" | ENotFits -> "ENotFits"
  | EBadMandatory -> "EBadMandatory" | EBadBitpix -> "EBadBitpix" | ENegAxis -> "ENegAxis" | EFuel -> "EFuel"
  | ENotImage -> "ENotImage" | EBadDim -> "EBadDim" | EOrder -> "EOrder" | ECoeffRead -> "ECoeffRead"
  | EKnotsMissing -> "EKnotsMissing" | EKnotsCount -> "EKnotsCount" | EKnotsRead -> "EKnotsRead"
  | EExtentsRead -> "EExtentsRead" | EUnsupported -> "EUnsupported"

let split_ws s = List.filter (fun w -> w <> "") (String.split_on_char ' ' (String.trim s))
let dec_n x = Printf.sprintf "%Lu" (int64_of_n x)

let dump_table oc (t:table) =
  let pl name f l = output_string oc name; List.iter (fun x -> output_char oc ' '; output_string oc (f x)) l; output_char oc '\n' in
  Printf.fprintf oc "ndim %d\n" (nat_to_int (t_ndim t));
  pl "order" dec_n t.t_order; pl "naxes" dec_n t.t_naxes; pl "strides" dec_n t.t_strides;
  pl "nknots" (fun k -> string_of_int (List.length k)) t.t_knots;
  List.iteri (fun i k -> pl (Printf.sprintf "knots %d" i) hex64 k) t.t_knots;
  pl "coef" hex32 t.t_coeffs;
  (match t.t_extents with None -> output_string oc "extents none\n" | Some e -> pl "extents" hex64 e);
  Printf.fprintf oc "naux %d\n" (List.length t.t_aux);
  List.iter (fun (k,v) -> Printf.fprintf oc "aux %s %s\n" (hexstr k) (hexstr v)) t.t_aux;
  output_string oc "end\n"

let parse_table path : table =
  let ic = open_in path in
  let order = ref [] and knots = ref [] and naxes = ref [] and strides = ref [] and coef = ref [] and ext = ref None
  and per = ref None and aux = ref [] in
  (try while true do
    let w = split_ws (input_line ic) in
    (match w with
     | "order" :: r -> order := List.map (fun s -> n_of_int64 (Int64.of_string s)) r
     | "naxes" :: r -> naxes := List.map (fun s -> n_of_int64 (Int64.of_string s)) r
     | "strides" :: r -> strides := List.map (fun s -> n_of_int64 (Int64.of_string s)) r
     | "knots" :: _ :: r -> knots := (List.map n_of_hex r) :: !knots
     | "coef" :: r -> coef := List.map n_of_hex r
     | "extents" :: "none" :: _ -> ext := None
     | "extents" :: r -> ext := Some (List.map n_of_hex r)
     | "periodtok" :: "none" :: _ -> per := None
     | "periodtok" :: r -> per := Some (List.map (fun s -> if s = "-" then None else Some (unhex s)) r)
     | "aux" :: k :: v :: _ -> aux := (unhex k, unhex v) :: !aux
     | "aux" :: k :: [] -> aux := (unhex k, []) :: !aux
     | _ -> ())
  done with End_of_file -> ());
  close_in ic;
  { t_order = !order; t_knots = List.rev !knots; t_naxes = !naxes; t_strides = !strides; t_coeffs = !coef;
    t_extents = !ext; t_periods = !per; t_aux = List.rev !aux }

let call_name = function CCreateFile -> "ffinit" | CCreateMem -> "ffimem" | CCreateImg -> "ffcrim" | CWriteKey -> "ffpky"
  | CUpdateKey -> "ffuky" | CWritePix -> "ffppx" | CClose -> "ffclos"
let calls w t = String.concat "," (List.map (fun s -> call_name s.s_call) (steps w t))

let cache_path = ref "" and cache_t = ref None and cache_final = ref None
let table_of path = if !cache_path = path then (match !cache_t with Some t -> t | None -> assert false)
  else begin let t = parse_table path in cache_path := path; cache_t := Some t; cache_final := None; t end
let final_of path = let t = table_of path in
  match !cache_final with Some f -> f | None -> let f = cf_bytes t in cache_final := Some f; f

let () =
  let ic = open_in Sys.argv.(1) in
  (try while true do
    match split_ws (input_line ic) with
    | "bytes" :: id :: tf :: out :: _ ->
      (try
        let t = table_of tf in let f = final_of tf in
        write_bytes out f;
        let sc = coalesce (sched t) in
        let off0 = match sc with (o, _) :: _ -> nat_to_int o | [] -> -1 in
        Printf.printf "%s len=%d crb=%d wf=%d sched=%d:%d file=%s mem=%s\n%!" id (list_length_int f)
          (if complete_reads_back t then 1 else 0) (if wf_table t then 1 else 0) (list_length_int sc) off0 (calls WFile t) (calls WMem t)
      with ex -> Printf.printf "%s EXC %s\n%!" id (Printexc.to_string ex))
    | "crash" :: id :: tf :: k :: out :: _ ->
      (try
        let f = final_of tf in
        let b = crash_of f (nat_of_int (int_of_string k)) in
        write_bytes out b;
        let oc = open_out (out ^ ".dump") in
        (match read_bytes b with Ok t -> dump_table oc t | Error e -> Printf.fprintf oc "ERROR %s\n" (err_name e));
        close_out oc;
        Printf.printf "%s ok\n%!" id
      with ex -> Printf.printf "%s EXC %s\n%!" id (Printexc.to_string ex))
    | "run" :: id :: tf :: w :: ver :: set :: _ ->
      (try
        let t = table_of tf in
        let idx = if set = "-" then [] else List.map int_of_string (String.split_on_char ',' set) in
        let fails k = List.mem (nat_to_int k) idx in
        let wr = if w = "mem" then WMem else WFile in
        (match (if ver = "old" then run_writer_old wr t fails else run_writer wr t fails) with
         | Success -> Printf.printf "%s Success\n%!" id
         | Failed j -> Printf.printf "%s Failed %d\n%!" id (nat_to_int j))
      with ex -> Printf.printf "%s EXC %s\n%!" id (Printexc.to_string ex))
    | _ -> ()
  done with End_of_file -> ())
