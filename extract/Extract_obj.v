(* Extraction of the object/ownership model (C20). ExtrOcamlBasic only. *)
From Coq Require Import ExtrOcamlBasic.
From PS Require Import ObjResource ObjModel.
Extraction "objmodel.ml" step run world0 cfg_orig cfg_fixed fault_at no_fault built get claim get_obj balancedb replay find_key tbl_ok.
