(* Extraction of the fit model (C09). ExtrOcamlBasic only; nat, N, Z, positive, Qc stay the extracted
   inductives. *)
From Coq Require Import ExtrOcamlBasic.
From PS Require Import Arith FitModel.
Extraction "fitmodel.ml" QcA fit_system bsplinebasis box calc_penalty penalty_matrix Farr Rarr reshape_F
  flatten_to_matrix slicemultiply divided_diffs design_row wrss.
