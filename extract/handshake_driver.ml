(* handshake_driver.ml — generates schedules of the extracted hand-shake transition system (Handshake.v)
   to be forced on the real walk_descents, and explores small configurations exhaustively (as a TEST of
   the theorems and to produce state/transition-covering schedules; never a substitute for them).

   stdin, one request per line:
     <id> <N> <na> <fixed 0|1> <ranks: na ints, comma separated> rand <count> <seed> <spur_percent>
     <id> <N> <na> <fixed 0|1> <ranks> cover <maxcount> <seed>
     <id> <N> <na> <fixed 0|1> <ranks> one <moves, comma separated: t or 1000+t>
     <id> <N> <na> <fixed 0|1> <ranks> longest
   lt a b := rank[a] < rank[b]   (rank = order of the real residuals)
   stdout:
     S <id> <k> <fin|dead|cut|bad> <chosen|-> <feasible 0|1|-> | <tid:LABEL ...>
        LABEL: C<k> L U W R B J<tid> I (internal, no pthread call) X (spurious wake-up of tid)
     info <id> states <n> edges <n> deadlocks <n> races <n> races_common <n> early_reads <n> badresults <n> spec <a> <f>
     longest <id> <len|cycle> states <n> | <a longest schedule of thread steps from init, comma separated>
        (exact, by memoised depth-first search of the step-only graph; "cycle" if that graph is not acyclic — a TEST of
         C12_terminates: len must be <= B0 N na)
*)
open Handshakemodel

let rec nat_of_int n = if n <= 0 then O else S (nat_of_int (n - 1))
let rec int_of_nat = function O -> 0 | S n -> 1 + int_of_nat n

type move = Step of int | Spur of int

let lab_str = function
  | OCreate k -> "C" ^ string_of_int (int_of_nat k)
  | OLock -> "L" | OUnlock -> "U" | OWait -> "W" | OReacq -> "R" | OBcast -> "B"
  | OJoin k -> "J" ^ string_of_int (int_of_nat k + 1)
  | OInternal -> "I" | ONone -> "?"

(* splitmix-like PRNG on OCaml ints *)
let rng = ref 1
let seed_rng s = rng := (s * 2654435761 + 12345) land 0x3FFFFFFFFFFFFFFF
let next () =
  rng := (!rng * 2862933555777941757 + 3037000493) land 0x3FFFFFFFFFFFFFFF;
  (!rng lsr 17) land 0x3FFFFFFF
let below n = if n <= 0 then 0 else next () mod n

let () =
  try
    while true do
      let line = input_line stdin in
      match String.split_on_char ' ' (String.trim line) with
      | id :: n_s :: na_s :: fx_s :: ranks_s :: mode :: rest ->
        let n = int_of_string n_s and na = int_of_string na_s in
        let fixed = fx_s = "1" in
        let ranks = Array.of_list (List.map int_of_string (String.split_on_char ',' ranks_s)) in
        let nN = nat_of_int n and nNa = nat_of_int na in
        let lt a b = let a = int_of_nat a and b = int_of_nat b in
          if a < Array.length ranks && b < Array.length ranks then ranks.(a) < ranks.(b) else false in
        let stepf s t = step nN nNa lt fixed s (nat_of_int t) in
        let spurf s t = spurious nN s (nat_of_int t) in
        let tids = List.init (n + 1) (fun t -> t) in
        let enabled s = List.filter (fun t -> stepf s t <> None) tids in
        let spurable s = List.filter (fun t -> spurf s t <> None) tids in
        let apply s = function Step t -> stepf s t | Spur t -> spurf s t in
        let mv_str s = function
          | Step t -> string_of_int t ^ ":" ^ lab_str (label nN nNa s (nat_of_int t))
          | Spur t -> string_of_int t ^ ":X" in
        let result_str s =
          match s.result with
          | Some (Some a, f) -> string_of_int (int_of_nat a) ^ " " ^ (if f then "1" else "0")
          | Some (None, f) -> "garbage " ^ (if f then "1" else "0")
          | None -> "- -" in
        let spec_str = match walk_spec nNa lt with
          | Some (Some a, f) -> string_of_int (int_of_nat a) ^ " " ^ (if f then "1" else "0")
          | _ -> "- -" in
        (* run a prefix of moves, then continue randomly (spur_pct percent chance of a spurious wake-up when possible) *)
        let emit k prefix spur_pct =
          let buf = Buffer.create 256 in
          let rec go s moves steps =
            match moves with
            | m :: r ->
              (match apply s m with
               | Some s' -> Buffer.add_char buf ' '; Buffer.add_string buf (mv_str s m); go s' r (steps + 1)
               | None -> ("bad", s))
            | [] ->
              if finishedb s then ("fin", s)
              else if steps > 20000 then ("cut", s)
              else begin
                let sp = spurable s in
                if sp <> [] && below 100 < spur_pct then go s [Spur (List.nth sp (below (List.length sp)))] steps
                else match enabled s with
                  | [] -> ("dead", s)
                  | en -> go s [Step (List.nth en (below (List.length en)))] steps
              end in
          let (e, s) = go init prefix 0 in
          Printf.printf "S %s %d %s %s |%s\n" id k e (if e = "fin" then result_str s else "- -") (Buffer.contents buf) in
        (match mode, rest with
         | "rand", [count; seed; sp] ->
           seed_rng (int_of_string seed);
           for k = 0 to int_of_string count - 1 do emit k [] (int_of_string sp) done
         | "one", [moves] ->
           let ms = List.map (fun x -> let v = int_of_string x in if v >= 1000 then Spur (v - 1000) else Step v)
               (List.filter (fun x -> x <> "") (String.split_on_char ',' moves)) in
           seed_rng 1; emit 0 ms 0
         | "cover", [maxcount; seed] ->
           seed_rng (int_of_string seed);
           let key s = Marshal.to_string (observe nN s) [] in
           let seen : (string, unit) Hashtbl.t = Hashtbl.create 4096 in
           let q = Queue.create () in
           let edges = ref [] and nedges = ref 0 and nstates = ref 0 in
           let dead = ref 0 and races = ref 0 and races_c = ref 0 and early = ref 0 and badres = ref 0 in
           (* races: the model of the code as it is (shared_common = false, one cholmod_common per worker) on EVERY location,
              the caller's common and the per-worker commons included (C12_race_free);
              races_common: the old shape (shared_common = true) on the caller's common (C12_refuted_race_common), information only *)
           let locs = List.concat (List.init n (fun j -> let j = nat_of_int j in [LState j; LAlpha j; LOut j; LWCommon j])) @ [LX; LCommon] in
           Hashtbl.add seen (key init) (); Queue.add (init, []) q;
           while not (Queue.is_empty q) do
             let (s, rpath) = Queue.pop q in
             incr nstates;
             if stuckb nN nNa lt fixed s then incr dead;
             if finishedb s && result_str s <> spec_str then incr badres;
             List.iter (fun t1 -> List.iter (fun t2 -> if t1 < t2 then begin
                 List.iter (fun l -> if raceb nN nNa lt fixed false s (nat_of_int t1) (nat_of_int t2) l then incr races) locs;
                 if raceb nN nNa lt fixed true s (nat_of_int t1) (nat_of_int t2) LCommon then incr races_c end) tids) tids;
             (match s.cp with
              | CRead -> for j = 0 to n - 1 do
                  if in_block nN nNa s.blk (nat_of_int j) then
                    (match s.out (nat_of_int j) with
                     | Some a when int_of_nat a = int_of_nat s.blk * n + j -> ()
                     | _ -> incr early) done
              | _ -> ());
             let moves = List.map (fun t -> Step t) (enabled s) @ List.map (fun t -> Spur t) (spurable s) in
             List.iter (fun m ->
                 match apply s m with
                 | None -> ()
                 | Some s' ->
                   incr nedges; edges := (m :: rpath) :: !edges;
                   let k = key s' in
                   if not (Hashtbl.mem seen k) then begin Hashtbl.add seen k (); Queue.add (s', m :: rpath) q end) moves
           done;
           let arr = Array.of_list !edges in
           let len = Array.length arr in
           for i = len - 1 downto 1 do let j = below (i + 1) in let t = arr.(i) in arr.(i) <- arr.(j); arr.(j) <- t done;
           let cnt = min len (int_of_string maxcount) in
           for k = 0 to cnt - 1 do emit k (List.rev arr.(k)) 0 done;
           Printf.printf "info %s states %d edges %d deadlocks %d races %d races_common %d early_reads %d badresults %d spec %s\n"
             id !nstates !nedges !dead !races !races_c !early !badres spec_str
         | "longest", [] ->
           let key s = Marshal.to_string (observe nN s) [] in
           (* memo: key -> (length of the longest step-only path from the state, first thread of such a path); -2 = on the stack *)
           let memo : (string, int * int) Hashtbl.t = Hashtbl.create 4096 in
           let cyclic = ref false in
           let rec longest s =
             let k = key s in
             match Hashtbl.find_opt memo k with
             | Some (-2, _) -> cyclic := true; 0
             | Some (l, _) -> l
             | None ->
               Hashtbl.replace memo k (-2, -1);
               let best = ref 0 and bt = ref (-1) in
               List.iter (fun t -> match stepf s t with
                   | None -> ()
                   | Some s' -> let l = 1 + longest s' in if l > !best then begin best := l; bt := t end) tids;
               Hashtbl.replace memo k (!best, !bt); !best in
           let l = longest init in
           let buf = Buffer.create 256 in
           let rec path s = match Hashtbl.find_opt memo (key s) with
             | Some (_, t) when t >= 0 ->
               (match stepf s t with Some s' -> Buffer.add_string buf (string_of_int t); Buffer.add_char buf ','; path s' | None -> ())
             | _ -> () in
           if not !cyclic then path init;
           Printf.printf "longest %s %s states %d | %s\n" id (if !cyclic then "cycle" else string_of_int l) (Hashtbl.length memo) (Buffer.contents buf)
         | _ -> Printf.printf "error %s bad mode\n" id);
        flush stdout
      | _ -> ()
    done
  with End_of_file -> ()
