(* perm_driver.ml — runs the extracted PermModel on a case file written by tools/props/C15.py.
   Input (one table, then operations on it; every numeric field is decimal, every other field an opaque token):
     table <id>
     ndim <n> / order .. / nknots .. / naxes .. / strides .. / knots tok.. / ext lo:hi.. / per none|tok.. / coef tok..
     seq <tag> <m|c> <fixed 0|1> <perm>...      perm = comma separated indices, "-" for the empty vector
   Each seq applies the permutations one after the other to a fresh copy of the table and prints
     <tag> st=<status>,... nd=.. order=.. nknots=.. naxes=.. strides=.. knots=.. ext=.. per=.. coef=..   *)
open Permmodel

let rec nat_of_int n = if n <= 0 then O else S (nat_of_int (n - 1))
let rec int_of_nat = function O -> 0 | S n -> 1 + int_of_nat n
let rec pos_of_int n = if n = 1 then XH else if n land 1 = 0 then XO (pos_of_int (n lsr 1)) else XI (pos_of_int (n lsr 1))
let z_of_int n = if n = 0 then Z0 else if n > 0 then Zpos (pos_of_int n) else Zneg (pos_of_int (-n))
let rec int_of_pos = function XH -> 1 | XO p -> 2 * int_of_pos p | XI p -> 2 * int_of_pos p + 1
let int_of_z = function Z0 -> 0 | Zpos p -> int_of_pos p | Zneg p -> - (int_of_pos p)

(* size_t argument values: decimal, up to 2^64-1 *)
let n_of_string w =
  let v = Int64.of_string ("0u" ^ w) in
  if v = 0L then N0 else begin
    let rec bits v = if v = 1L then XH else
      let r = bits (Int64.shift_right_logical v 1) in if Int64.logand v 1L = 0L then XO r else XI r in
    Npos (bits v) end
let words s = List.filter (fun w -> w <> "") (String.split_on_char ' ' (String.trim s))
let join sep f l = String.concat sep (List.map f l)
let err_name = function ErrLength -> "Length" | ErrTooLarge -> "TooLarge" | ErrDuplicate -> "Duplicate" | ErrMissing -> "Missing"

let dump (t : (string, string, string) table) =
  Printf.sprintf "nd=%d order=%s nknots=%s naxes=%s strides=%s knots=%s ext=%s per=%s coef=%s"
    (int_of_nat t.t_ndim)
    (join "," (fun z -> string_of_int (int_of_z z)) t.t_order)
    (join "," (fun z -> string_of_int (int_of_z z)) t.t_nknots)
    (join "," (fun z -> string_of_int (int_of_z z)) t.t_naxes)
    (join "," (fun z -> string_of_int (int_of_z z)) t.t_strides)
    (join ";" (fun s -> s) t.t_knots)
    (join ";" (fun (a, b) -> a ^ ":" ^ b) t.t_extents)
    (match t.t_periods with None -> "none" | Some l -> join ";" (fun s -> s) l)
    (join "," (fun s -> s) t.t_coeffs)

let () =
  let ic = open_in Sys.argv.(1) in
  let nd = ref 0 and order = ref [] and nknots = ref [] and naxes = ref [] and strides = ref [] and knots = ref []
  and ext = ref [] and per = ref None and coef = ref [] in
  let zl ws = List.map (fun w -> z_of_int (int_of_string w)) ws in
  (try while true do
    let line = input_line ic in
    match words line with
    | [] -> ()
    | "table" :: _ -> ()
    | "ndim" :: [n] -> nd := int_of_string n
    | "order" :: ws -> order := zl ws
    | "nknots" :: ws -> nknots := zl ws
    | "naxes" :: ws -> naxes := zl ws
    | "strides" :: ws -> strides := zl ws
    | "knots" :: ws -> knots := ws
    | "ext" :: ws -> ext := List.map (fun w -> match String.split_on_char ':' w with [a; b] -> (a, b) | _ -> failwith "ext") ws
    | "per" :: ["none"] -> per := None
    | "per" :: ws -> per := Some ws
    | "coef" :: ws -> coef := ws
    | "seq" :: tag :: api :: fixed :: perms ->
        let t0 = { t_ndim = nat_of_int !nd; t_order = !order; t_nknots = !nknots; t_knots = !knots; t_extents = !ext;
                   t_periods = !per; t_naxes = !naxes; t_strides = !strides; t_coeffs = !coef } in
        let fx = (fixed = "1") in
        let sts = ref [] in
        let t = List.fold_left (fun t ps ->
          let p = if ps = "-" then [] else List.map n_of_string (String.split_on_char ',' ps) in
          if api = "c" then begin
            let (rc, t') = c_permute_gen fx "JUNK" t p in
            sts := ("rc" ^ string_of_int (int_of_z rc)) :: !sts; t' end
          else begin
            let (e, t') = permute_checked_gen fx "JUNK" t p in
            sts := (match e with None -> "ok" | Some e -> err_name e) :: !sts; t' end) t0 perms in
        Printf.printf "%s st=%s %s\n" tag (String.concat "," (List.rev !sts)) (dump t)
    | w :: _ -> failwith ("unknown line " ^ w)
  done with End_of_file -> ());
  close_in ic
