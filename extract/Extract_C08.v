(* Extraction of the C08 models (writers as fallible steps, write schedule, cfitsio's bytes) with the FITS reader model. *)
From Coq Require Import ExtrOcamlBasic.
From PS Require Import Generated_fits FitsModel FitsWf WriteModel.
Extraction "C08model.ml" cf_bytes sched crash_of crash coalesce total read_bytes steps steps_old run_writer run_writer_old nsteps
  complete_reads_back same_okc_b wf_table t_ndim.
