(* conv_driver.ml — runs the extracted convolution model (ConvModel.v) on a case file (format: harness/C14_harness.cpp)
   with two arithmetic instances: native binary64 with [rnd] = round-to-binary32 (the C++ computes everything in
   double and stores the accumulated coefficients into float), and exact rationals (Qc, extracted) for the
   transfer matrix that the exact convolution oracle is compared with. One output line per V/U line.
   The coefficient update is executed in its loop-nest form (ConvModel.apply_trafo_rows, proved equal to the positional
   form in C14_Rows.v).
   argv: cases [shipped|signflip|fixed] — which historical variant of the code the model follows: as shipped
   (factorial(0) = 0 and the (-1)^k factor), after the factorial fix only, or the current tree (default). *)
open Convmodel

let rec pos_of_int n = if n = 1 then XH else if n land 1 = 0 then XO (pos_of_int (n lsr 1)) else XI (pos_of_int (n lsr 1))
let z_of_int n = if n = 0 then Z0 else if n > 0 then Zpos (pos_of_int n) else Zneg (pos_of_int (-n))
let rec int_of_pos = function XH -> 1 | XO p -> 2 * int_of_pos p | XI p -> 2 * int_of_pos p + 1
let int_of_z = function Z0 -> 0 | Zpos p -> int_of_pos p | Zneg p -> - (int_of_pos p)
let rec nat_of_int n = if n <= 0 then O else S (nat_of_int (n - 1))
let rec int_of_nat = function O -> 0 | S n -> 1 + int_of_nat n

let r32 (x : float) = Int32.float_of_bits (Int32.bits_of_float x)
let mk_float (rnd : float -> float) : arith =
  { add0 = Obj.magic (fun (a : float) (b : float) -> a +. b);
    sub0 = Obj.magic (fun (a : float) (b : float) -> a -. b);
    mul0 = Obj.magic (fun (a : float) (b : float) -> a *. b);
    div = Obj.magic (fun (a : float) (b : float) -> a /. b);
    opp0 = Obj.magic (fun (a : float) -> -. a);
    zero = Obj.repr 0.0; one = Obj.repr 1.0;
    ofZ = (fun z -> Obj.repr (float_of_int (int_of_z z)));
    ltb = Obj.magic (fun (a : float) (b : float) -> a < b);
    leb0 = Obj.magic (fun (a : float) (b : float) -> a <= b);
    rnd = Obj.magic rnd }
let f32 = mk_float r32       (* double arithmetic, float stores *)

let rec shl p s = if s = 0 then p else shl (XO p) (s - 1)
let qc_of_float (d : float) : Obj.t =
  if d = 0.0 then Obj.repr (q2Qc { qnum = Z0; qden = XH }) else begin
    let (m, e) = Float.frexp d in
    let mi = Int64.to_int (Int64.of_float (Float.ldexp m 53)) in
    let e = e - 53 in
    let a = abs mi in
    let (num, den) = if e >= 0 then (shl (pos_of_int a) e, XH) else (pos_of_int a, shl XH (-e)) in
    Obj.repr (q2Qc { qnum = (if mi > 0 then Zpos num else Zneg num); qden = den })
  end
let hex_of_pos p =
  let rec lsb p = match p with XH -> [1] | XO q -> 0 :: lsb q | XI q -> 1 :: lsb q in
  let l = Array.of_list (lsb p) in
  let n = Array.length l in
  let nd = (n + 3) / 4 in
  let b = Buffer.create nd in
  for k = nd - 1 downto 0 do
    let v = ref 0 in
    for j = 3 downto 0 do let idx = 4 * k + j in v := !v * 2 + (if idx < n then l.(idx) else 0) done;
    Buffer.add_char b "0123456789abcdef".[!v]
  done; Buffer.contents b
let str_of_qc (q : Obj.t) : string =
  let q : q = Obj.obj q in
  let s = match q.qnum with Z0 -> "0" | Zpos p -> hex_of_pos p | Zneg p -> "-" ^ hex_of_pos p in
  s ^ "/" ^ hex_of_pos q.qden

let dbl_of_hex s = Int64.float_of_bits (Int64.of_string ("0x" ^ s))
let flt_of_hex s = Int32.float_of_bits (Int32.of_string ("0x" ^ s))
let hex_of_dbl (d : float) = Printf.sprintf "%016Lx" (Int64.bits_of_float d)
let hex_of_flt (d : float) = Printf.sprintf "%08lx" (Int32.bits_of_float d)

type rawtable = { orders : int array; knots : float array array; coefs : float array; ext : float array }

let mk_ctable (conv : float -> Obj.t) (rt : rawtable) : ctable =
  let nd = Array.length rt.orders in
  let naxes = Array.init nd (fun i -> Array.length rt.knots.(i) - rt.orders.(i) - 1) in
  let strides = Array.make nd 1 in
  for i = nd - 2 downto 0 do strides.(i) <- strides.(i + 1) * naxes.(i + 1) done;
  let dims = List.init nd (fun i ->
    let (lo, hi) = if Array.length rt.ext = 2 * nd then (rt.ext.(2 * i), rt.ext.(2 * i + 1))
                   else (rt.knots.(i).(rt.orders.(i)), rt.knots.(i).(naxes.(i))) in
    { c_order = nat_of_int rt.orders.(i); c_knots = List.map conv (Array.to_list rt.knots.(i));
      c_naxes = nat_of_int naxes.(i); c_stride = nat_of_int strides.(i); c_ext = (conv lo, conv hi) }) in
  { c_dims = dims; c_coef = List.map conv (Array.to_list rt.coefs) }

let join f l = String.concat "," (List.map f l)

let () =
  let ic = open_in Sys.argv.(1) in
  let variant = if Array.length Sys.argv > 2 then Sys.argv.(2) else "fixed" in
  let shipped = variant = "shipped" and flip = (variant = "shipped" || variant = "signflip") in
  let pend_dims = ref [] and coefs = ref [||] and ext = ref [||] in
  (try while true do
    let line = input_line ic in
    let tk = String.split_on_char ' ' (String.trim line) |> List.filter (fun s -> s <> "") in
    match tk with
    | "T" :: _ -> pend_dims := []; coefs := [||]; ext := [||]
    | "D" :: o :: _n :: ks -> pend_dims := (int_of_string o, Array.of_list (List.map dbl_of_hex ks)) :: !pend_dims
    | "C" :: _n :: cs -> coefs := Array.of_list (List.map flt_of_hex cs)
    | "E" :: es -> ext := Array.of_list (List.map dbl_of_hex es)
    | "U" :: id :: n :: _ ->
        let n = nat_of_int (int_of_string n) in
        Printf.printf "%s factorial=%d\n" id (int_of_z (if shipped then factorial_shipped n else factorial n))
    | "V" :: id :: dim :: n :: rest ->
        let n = int_of_string n and dim = int_of_string dim in
        let kk = List.filteri (fun i _ -> i < n) rest |> List.map dbl_of_hex in
        let flags = List.filteri (fun i _ -> i >= n) rest in
        let ds = Array.of_list (List.rev !pend_dims) in
        let rt = { orders = Array.map fst ds; knots = Array.map snd ds; coefs = !coefs; ext = !ext } in
        let t = mk_ctable Obj.repr rt in
        (* the loop-nest form (= the positional form on well-formed tables: C14_loop_nest_is_cellwise) is the one executed;
           on tables of at most 2000 coefficients the positional form is executed as well and must give the identical table *)
        let conv = if shipped then convolve_rows_shipped else if flip then convolve_rows_signflip else convolve_rows in
        let t' = conv f32 (isort f32) t (nat_of_int dim) (List.map Obj.repr kk) in
        if Array.length !coefs <= 2000 then begin
          let conv_pos = if shipped then convolve_shipped else if flip then convolve_signflip else convolve in
          let tp = conv_pos f32 (isort f32) t (nat_of_int dim) (List.map Obj.repr kk) in
          let bits l = List.map (fun (v : Obj.t) -> Int64.bits_of_float (Obj.obj v : float)) l in
          if bits tp.c_coef <> bits t'.c_coef then begin
            prerr_endline ("conv_driver: loop-nest form and positional form of the model differ on case " ^ id); exit 3 end
        end;
        let b = Buffer.create 4096 in
        let asd (v : Obj.t) = hex_of_dbl (Obj.obj v : float) and asf (v : Obj.t) = hex_of_flt (Obj.obj v : float) in
        let nat s = string_of_int (int_of_nat s) in
        Buffer.add_string b (Printf.sprintf "%s status=ok ndim=%d" id (List.length t'.c_dims));
        Buffer.add_string b (" order=" ^ join (fun d -> nat d.c_order) t'.c_dims);
        Buffer.add_string b (" nknots=" ^ join (fun d -> string_of_int (List.length d.c_knots)) t'.c_dims);
        Buffer.add_string b (" naxes=" ^ join (fun d -> nat d.c_naxes) t'.c_dims);
        Buffer.add_string b (" strides=" ^ join (fun d -> nat d.c_stride) t'.c_dims);
        List.iteri (fun i d ->
          Buffer.add_string b (Printf.sprintf " ext.%d=%s,%s" i (asd (fst d.c_ext)) (asd (snd d.c_ext)));
          Buffer.add_string b (Printf.sprintf " knots.%d=%s" i (join asd d.c_knots))) t'.c_dims;
        Buffer.add_string b (Printf.sprintf " ncoef=%d coef=%s" (List.length t'.c_coef) (join asf t'.c_coef));
        let rows = List.fold_left (fun acc f ->
            if String.length f > 1 && f.[0] = 'r' then
              (match String.split_on_char ':' (String.sub f 1 (String.length f - 1)) with
               | [lo; hi] -> Some (int_of_string lo, int_of_string hi) | _ -> acc)
            else acc) None flags in
        if List.mem "x" flags || rows <> None then begin
          (* exact transfer matrix (or the rows lo..hi-1 of it) of the same Gallina term at Qc *)
          let d = List.nth (mk_ctable qc_of_float rt).c_dims dim in
          let kq = List.map qc_of_float kk in
          let rho = isort qcA (pairwise_sums qcA d.c_knots kq) in
          let k = rt.orders.(dim) + 1 and q = n - 1 in
          let na_old = Array.length rt.knots.(dim) - rt.orders.(dim) - 1 in
          let na_new = Array.length rt.knots.(dim) * n - (rt.orders.(dim) + n - 1) - 1 in
          let nrm = norm_with qcA (if shipped then factorial_shipped else factorial) flip (nat_of_int k) (nat_of_int q) in
          let (lo, hi) = match rows with Some (lo, hi) -> (max 0 lo, min na_new hi) | None -> (0, na_new) in
          let tr = List.init (max 0 (hi - lo)) (fun r ->
            List.init na_old (fun j -> trafo_entry qcA nrm d.c_knots kq rho (nat_of_int k) (nat_of_int q) (nat_of_int (lo + r)) (nat_of_int j))) in
          Buffer.add_string b (Printf.sprintf " qrows=%d:%d" lo hi);
          Buffer.add_string b (" qtrafo=" ^ String.concat ";" (List.map (join str_of_qc) tr))
        end;
        print_endline (Buffer.contents b)
    | _ -> ()
  done with End_of_file -> ())
