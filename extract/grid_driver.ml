(* grid_driver.ml — runs the extracted grid-evaluation model (GridModel.v) on a case file (format: tools/props/C17.py)
   with native binary64 closures, and — for grids flagged exact — with exact rationals (Qc, extracted).
   Output records (all for grid <id>):
     B <id> <dim> <nrow> <ncol> r,c:hex64 ...          basis_matrix, entries != 0, sorted by (r,c)
     R <id> model <ndim> ranges=.. n=<rows> idx:hex64 ...   grideval@binary64, rows sorted by index tuple   (or "R <id> model THROW")
     Y <id> <num/den> ...    nd_get (grideval@Qc) at every grid point, row-major in the grid indices
     X <id> <num/den>|<num/den> ...   grid_spec@Qc | grid_abs@Qc at every grid point *)
open Gridmodel

let rec pos_of_int n = if n = 1 then XH else if n land 1 = 0 then XO (pos_of_int (n lsr 1)) else XI (pos_of_int (n lsr 1))
let z_of_int n = if n = 0 then Z0 else if n > 0 then Zpos (pos_of_int n) else Zneg (pos_of_int (-n))
let rec int_of_pos = function XH -> 1 | XO p -> 2 * int_of_pos p | XI p -> 2 * int_of_pos p + 1
let int_of_z = function Z0 -> 0 | Zpos p -> int_of_pos p | Zneg p -> - (int_of_pos p)
let rec nat_of_int n = if n <= 0 then O else S (nat_of_int (n - 1))
let rec int_of_nat = function O -> 0 | S n -> 1 + int_of_nat n

let f64 : arith =
  { add0 = Obj.magic (fun (a : float) (b : float) -> a +. b);
    sub0 = Obj.magic (fun (a : float) (b : float) -> a -. b);
    mul0 = Obj.magic (fun (a : float) (b : float) -> a *. b);
    div0 = Obj.magic (fun (a : float) (b : float) -> a /. b);
    opp0 = Obj.magic (fun (a : float) -> -. a);
    zero = Obj.repr 0.0; one = Obj.repr 1.0;
    ofZ = (fun z -> Obj.repr (float_of_int (int_of_z z)));
    ltb0 = Obj.magic (fun (a : float) (b : float) -> a < b);
    leb0 = Obj.magic (fun (a : float) (b : float) -> a <= b);
    rnd = Obj.magic (fun (x : float) -> x) }

let rec shl p s = if s = 0 then p else shl (XO p) (s - 1)
let qc_of_float (d : float) : Obj.t =
  if d = 0.0 then Obj.repr (q2Qc { qnum = Z0; qden = XH }) else begin
    let (m, e) = Float.frexp d in
    let mi = Int64.to_int (Int64.of_float (Float.ldexp m 53)) in
    let e = e - 53 in
    let a = abs mi in
    let (num, den) = if e >= 0 then (shl (pos_of_int a) e, XH) else (pos_of_int a, shl XH (-e)) in
    Obj.repr (q2Qc { qnum = (if mi > 0 then Zpos num else Zneg num); qden = den })
  end
let hex_of_pos p =
  let rec lsb p = match p with XH -> [1] | XO q -> 0 :: lsb q | XI q -> 1 :: lsb q in
  let l = Array.of_list (lsb p) in
  let n = Array.length l in
  let nd = (n + 3) / 4 in
  let b = Buffer.create nd in
  for k = nd - 1 downto 0 do
    let v = ref 0 in
    for j = 3 downto 0 do let idx = 4 * k + j in v := !v * 2 + (if idx < n then l.(idx) else 0) done;
    Buffer.add_char b "0123456789abcdef".[!v]
  done; Buffer.contents b
let str_of_qc (q : Obj.t) : string =
  let q : q = Obj.obj q in
  let s = match q.qnum with Z0 -> "0" | Zpos p -> hex_of_pos p | Zneg p -> "-" ^ hex_of_pos p in
  s ^ "/" ^ hex_of_pos q.qden

let dbl_of_hex s = Int64.float_of_bits (Int64.of_string ("0x" ^ s))
let flt_of_hex s = Int32.float_of_bits (Int32.of_string ("0x" ^ s))
let hex_of_dbl (d : float) = Printf.sprintf "%016Lx" (Int64.bits_of_float d)

type rawtable = { orders : int array; nknots : int array; knots : float array array; coefs : float array; pad : float }

let mk_table (conv : float -> Obj.t) (rt : rawtable) : table =
  let nd = Array.length rt.orders in
  let naxes = Array.init nd (fun i -> rt.nknots.(i) - rt.orders.(i) - 1) in
  let strides = Array.make nd 1 in
  for i = nd - 2 downto 0 do strides.(i) <- strides.(i + 1) * naxes.(i + 1) done;
  let padv = conv rt.pad in
  let dims = List.init nd (fun i ->
    let k = Array.map conv rt.knots.(i) in
    let n = rt.nknots.(i) in
    { d_order = nat_of_int rt.orders.(i); d_nknots = z_of_int n; d_naxes = z_of_int naxes.(i);
      d_stride = z_of_int strides.(i);
      d_kn = (fun z -> let j = int_of_z z in if j >= 0 && j < n then k.(j) else padv) }) in
  let ncoef = if nd = 0 then 0 else naxes.(0) * strides.(0) in
  (* the harness zero-fills a short coefficient list up to naxes[0]*strides[0] *)
  let c = Array.init ncoef (fun j -> conv (if j < Array.length rt.coefs then rt.coefs.(j) else 0.0)) in
  { dims = dims; coef = (fun z -> let j = int_of_z z in if j >= 0 && j < ncoef then c.(j) else padv) }

let rec take_grid nd toks =
  if nd = 0 then [] else match toks with
  | n :: rest ->
      let n = int_of_string n in
      let rec take k l acc = if k = 0 then (List.rev acc, l) else match l with x :: r -> take (k - 1) r (dbl_of_hex x :: acc) | [] -> failwith "short grid" in
      let (xs, rest') = take n rest [] in
      xs :: take_grid (nd - 1) rest'
  | [] -> failwith "short grid"

let () =
  let ic = open_in Sys.argv.(1) in
  let pend_dims = ref [] and pend_pad = ref nan in
  let tables = ref (None : (table * rawtable) option) in
  let qctab = ref (None : table option) in
  (try while true do
    let line = input_line ic in
    let tk = String.split_on_char ' ' (String.trim line) |> List.filter (fun s -> s <> "") in
    match tk with
    | "T" :: _nd :: pad :: _ -> pend_pad := dbl_of_hex pad; pend_dims := []
    | "D" :: o :: n :: ks ->
        pend_dims := (int_of_string o, int_of_string n, Array.of_list (List.map dbl_of_hex ks)) :: !pend_dims
    | "C" :: _n :: cs ->
        let ds = Array.of_list (List.rev !pend_dims) in
        let rt = { orders = Array.map (fun (o, _, _) -> o) ds; nknots = Array.map (fun (_, n, _) -> n) ds;
                   knots = Array.map (fun (_, _, k) -> k) ds; coefs = Array.of_list (List.map flt_of_hex cs); pad = !pend_pad } in
        tables := Some (mk_table Obj.repr rt, rt);
        qctab := None
    | "G" :: id :: exact :: rest ->
        let (t64, rt) = match !tables with Some x -> x | None -> failwith "G before table" in
        let nd = Array.length rt.orders in
        let grids = take_grid nd rest in
        let og = List.map (List.map Obj.repr) grids in
        (* basis matrices *)
        List.iteri (fun d (dm, xs) ->
          let m = basis_matrix f64 dm xs in
          let b = Buffer.create 256 in
          let ncol = rt.nknots.(d) - rt.orders.(d) - 1 in
          Buffer.add_string b (Printf.sprintf "B %s %d %d %d" id d (List.length m) ncol);
          List.iteri (fun r row -> List.iteri (fun c (v : Obj.t) ->
            let v : float = Obj.obj v in
            if v <> 0.0 then Buffer.add_string b (Printf.sprintf " %d,%d:%s" r c (hex_of_dbl v))) row) m;
          print_endline (Buffer.contents b)) (List.combine t64.dims og);
        (* grid evaluation, binary64 *)
        (match grideval f64 t64 og with
         | GThrow -> Printf.printf "R %s model THROW\n" id
         | GOk a ->
            let es = List.map (fun (idx, (v : Obj.t)) -> (List.map int_of_nat idx, (Obj.obj v : float))) a.nd_entries in
            let es = List.sort (fun (i1, _) (i2, _) -> compare i1 i2) es in
            let b = Buffer.create 1024 in
            Buffer.add_string b (Printf.sprintf "R %s model %d ranges=%s n=%d" id (List.length a.nd_ranges)
              (String.concat "," (List.map (fun r -> string_of_int (int_of_nat r)) a.nd_ranges)) (List.length es));
            List.iter (fun (idx, v) -> Buffer.add_string b (Printf.sprintf " %s:%s" (String.concat "," (List.map string_of_int idx)) (hex_of_dbl v))) es;
            print_endline (Buffer.contents b));
        if exact = "1" then begin
          let tq = match !qctab with Some t -> t | None -> let t = mk_table qc_of_float { rt with pad = 0.0 } in qctab := Some t; t in
          let gq = List.map (List.map qc_of_float) grids in
          let lens = List.map List.length grids in
          let total = List.fold_left ( * ) 1 lens in
          let index_of n = (* row-major decomposition *)
            let rec go n ls = match ls with [] -> [] | _ -> 
              let rl = List.rev ls in let last = List.hd rl in let rest = List.rev (List.tl rl) in
              go (n / last) rest @ [n mod last] in
            go n lens in
          let res = grideval qcA tq gq in
          let by = Buffer.create 1024 and bx = Buffer.create 1024 in
          Buffer.add_string by ("Y " ^ id); Buffer.add_string bx ("X " ^ id);
          for n = 0 to total - 1 do
            let g = List.map nat_of_int (index_of n) in
            (match res with
             | GThrow -> Buffer.add_string by " THROW"
             | GOk a -> Buffer.add_string by (" " ^ str_of_qc (nd_get qcA a g)));
            let xs = grid_point qcA gq g in
            Buffer.add_string bx (" " ^ str_of_qc (grid_spec qcA tq xs) ^ "|" ^ str_of_qc (grid_abs qcA tq xs))
          done;
          print_endline (Buffer.contents by); print_endline (Buffer.contents bx)
        end
    | _ -> ()
  done with End_of_file -> ())
