(* Extraction of the C13 model. ExtrOcamlBasic only; N/positive/nat stay the extracted inductives. *)
From Coq Require Import ExtrOcamlBasic.
From PS Require Import FitArgs Generated_fitargs FitArgsModel C13_Proofs.
Extraction "fitargsmodel.ml" fit_check fit_check_v0 fit_contract fit_contract_v0 fit_step glamfit_c c_view c_arrays_ok mk fit_checks_src.
