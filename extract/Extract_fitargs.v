(* Extraction of the C13 model. ExtrOcamlBasic only; N/positive/nat stay the extracted inductives. *)
From Coq Require Import ExtrOcamlBasic.
(* only the model files: the model must still extract when a proof obligation of C13_Proofs.v is broken *)
From PS Require Import FitArgs Generated_fitargs FitArgsModel.
Extraction "fitargsmodel.ml" fit_check fit_check_v0 fit_contract fit_contract_v0 fit_step glamfit_c c_view c_arrays_ok mk fit_checks_src.
