(* Extraction of the permuteDimensions model (PermModel.v). ExtrOcamlBasic only; nat/Z stay the extracted
   inductives; the abstract element types K/E/C become OCaml type variables (the driver uses strings). *)
From Coq Require Import ExtrOcamlBasic.
From PS Require Import PermModel.
Extraction "permmodel.ml" permute_checked_gen c_permute_gen validate inverse_perm.
