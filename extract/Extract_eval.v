(* Extraction of the executable models. ExtrOcamlBasic only: bool/option/list/prod/unit/sumbool map to
   OCaml natives; Z, N, positive, nat, Qc, ascii, string stay the extracted inductives.
   No Extract Constant / Extract Inductive of our own. *)
From Coq Require Import ExtrOcamlBasic.
From PS Require Import Arith EvalModel BSpline Generated Dispatch.
Extraction "evalmodel.ml" QcA searchcenters ndsplineeval ndsplineeval_deriv ndsplineeval_gradient call_operator
  core_generic core_D core_Fixed core_Known localbases_mask localbases_derivk lane_bases nonzero_bases
  spline_spec spline_abs select ev_ndsplineeval ev_ndsplineeval_deriv ev_gradient MAXDIM.
