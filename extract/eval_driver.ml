(* eval_driver.ml — runs the extracted evaluation models on a case file (see tools/props/evalfam.py for the
   format) with three arithmetic instances: native binary64, binary32 emulated by re-rounding each stored
   value, and exact rationals (Qc, extracted) for the specification. One output line per query. *)
open Evalmodel

let rec pos_of_int n = if n = 1 then XH else if n land 1 = 0 then XO (pos_of_int (n lsr 1)) else XI (pos_of_int (n lsr 1))
let z_of_int n = if n = 0 then Z0 else if n > 0 then Zpos (pos_of_int n) else Zneg (pos_of_int (-n))
let rec int_of_pos = function XH -> 1 | XO p -> 2 * int_of_pos p | XI p -> 2 * int_of_pos p + 1
let int_of_z = function Z0 -> 0 | Zpos p -> int_of_pos p | Zneg p -> - (int_of_pos p)
let rec nat_of_int n = if n <= 0 then O else S (nat_of_int (n - 1))
let rec int_of_nat = function O -> 0 | S n -> 1 + int_of_nat n

let r32 (x : float) = Int32.float_of_bits (Int32.bits_of_float x)
let mk_float (rnd : float -> float) : arith =
  { add0 = Obj.magic (fun (a : float) (b : float) -> a +. b);
    sub0 = Obj.magic (fun (a : float) (b : float) -> a -. b);
    mul0 = Obj.magic (fun (a : float) (b : float) -> a *. b);
    div0 = Obj.magic (fun (a : float) (b : float) -> a /. b);
    opp0 = Obj.magic (fun (a : float) -> -. a);
    zero = Obj.repr 0.0; one = Obj.repr 1.0;
    ofZ = (fun z -> Obj.repr (float_of_int (int_of_z z)));
    ltb0 = Obj.magic (fun (a : float) (b : float) -> a < b);
    leb0 = Obj.magic (fun (a : float) (b : float) -> a <= b);
    rnd = Obj.magic rnd }
let f64 = mk_float (fun x -> x)
let f32 = mk_float r32

(* exact rational of a finite double *)
let rec shl p s = if s = 0 then p else shl (XO p) (s - 1)
let qc_of_float (d : float) : Obj.t =
  if d = 0.0 then Obj.repr (q2Qc { qnum = Z0; qden = XH }) else begin
    let (m, e) = Float.frexp d in
    let mi = Int64.to_int (Int64.of_float (Float.ldexp m 53)) in   (* |mi| < 2^53, exact *)
    let e = e - 53 in
    let a = abs mi in
    let (num, den) = if e >= 0 then (shl (pos_of_int a) e, XH) else (pos_of_int a, shl XH (-e)) in
    Obj.repr (q2Qc { qnum = (if mi > 0 then Zpos num else Zneg num); qden = den })
  end
let hex_of_pos p =
  (* binary positive -> hex string, least significant first in the inductive *)
  let rec bits p acc = match p with XH -> 1 :: acc | XO q -> bits q (0 :: acc) | XI q -> bits q (1 :: acc) in
  (* bits returns msb first after this accumulation?  we accumulate lsb first into acc front => acc is msb last; fix below *)
  let rec lsb p = match p with XH -> [1] | XO q -> 0 :: lsb q | XI q -> 1 :: lsb q in
  ignore bits;
  let l = Array.of_list (lsb p) in
  let n = Array.length l in
  let nd = (n + 3) / 4 in
  let b = Buffer.create nd in
  for k = nd - 1 downto 0 do
    let v = ref 0 in
    for j = 3 downto 0 do let idx = 4 * k + j in v := !v * 2 + (if idx < n then l.(idx) else 0) done;
    Buffer.add_char b "0123456789abcdef".[!v]
  done; Buffer.contents b
let str_of_qc (q : Obj.t) : string =
  let q : q = Obj.obj q in
  let s = match q.qnum with Z0 -> "0" | Zpos p -> hex_of_pos p | Zneg p -> "-" ^ hex_of_pos p in
  s ^ "/" ^ hex_of_pos q.qden

let dbl_of_hex s = Int64.float_of_bits (Int64.of_string ("0x" ^ s))
let flt_of_hex s = Int32.float_of_bits (Int32.of_string ("0x" ^ s))
let hex_of_dbl (d : float) = Printf.sprintf "%016Lx" (Int64.bits_of_float d)

type rawtable = { orders : int array; nknots : int array; knots : float array array; coefs : float array; pad : float }

let mk_table (conv : float -> Obj.t) (rt : rawtable) : table =
  let nd = Array.length rt.orders in
  let naxes = Array.init nd (fun i -> rt.nknots.(i) - rt.orders.(i) - 1) in
  let strides = Array.make nd 1 in
  for i = nd - 2 downto 0 do strides.(i) <- strides.(i + 1) * naxes.(i + 1) done;
  let padv = conv rt.pad in
  let dims = List.init nd (fun i ->
    let k = Array.map conv rt.knots.(i) in
    let n = rt.nknots.(i) in
    { d_order = nat_of_int rt.orders.(i); d_nknots = z_of_int n; d_naxes = z_of_int naxes.(i);
      d_stride = z_of_int strides.(i);
      d_kn = (fun z -> let j = int_of_z z in if j >= 0 && j < n then k.(j) else padv) }) in
  let c = Array.map conv rt.coefs in
  let nc = Array.length c in
  let oob = padv in
  { dims = dims; coef = (fun z -> let j = int_of_z z in if j >= 0 && j < nc then c.(j) else oob) }

let variant_label = function
  | VGeneric -> "G"
  | VD d -> Printf.sprintf "D%d" (int_of_nat d)
  | VFixed (d, o) -> Printf.sprintf "F%d_%d" (int_of_nat d) (int_of_nat o)
  | VKnown os -> "K" ^ String.concat "_" (List.map (fun o -> string_of_int (int_of_nat o)) os)

let () =
  let ic = open_in Sys.argv.(1) in
  let exact_limit = if Array.length Sys.argv > 2 then int_of_string Sys.argv.(2) else 4000 in
  let cur = ref None in
  let pend_dims = ref [] and pend_nd = ref 0 and pend_pad = ref nan in
  let tables = ref (None : (table * table * rawtable) option) in
  let qctab = ref (None : table option) in
  (try while true do
    let line = input_line ic in
    let tk = String.split_on_char ' ' (String.trim line) |> List.filter (fun s -> s <> "") in
    match tk with
    | "T" :: nd :: pad :: _ -> pend_nd := int_of_string nd; pend_pad := dbl_of_hex pad; pend_dims := []; cur := None
    | "D" :: o :: n :: ks ->
        pend_dims := (int_of_string o, int_of_string n, Array.of_list (List.map dbl_of_hex ks)) :: !pend_dims
    | "C" :: _n :: cs ->
        let ds = Array.of_list (List.rev !pend_dims) in
        let rt = { orders = Array.map (fun (o, _, _) -> o) ds; nknots = Array.map (fun (_, n, _) -> n) ds;
                   knots = Array.map (fun (_, _, k) -> k) ds; coefs = Array.of_list (List.map flt_of_hex cs); pad = !pend_pad } in
        tables := Some (mk_table Obj.repr rt, mk_table Obj.repr rt, rt);
        qctab := None
    | "Q" :: id :: rest ->
        let (t64, t32, rt) = match !tables with Some x -> x | None -> failwith "Q before table" in
        let nd = Array.length rt.orders in
        (* sections: X ..  M ..  K .. *)
        let sect = ref "" and xs = ref [] and ms = ref [] and ks = ref [] and flags = ref [] in
        List.iter (fun s -> if s = "X" || s = "M" || s = "K" || s = "F" then sect := s else
          match !sect with
          | "X" -> xs := dbl_of_hex s :: !xs
          | "M" -> ms := int_of_string s :: !ms
          | "K" -> ks := List.map int_of_string (String.split_on_char ',' s) :: !ks
          | "F" -> flags := s :: !flags
          | _ -> ()) rest;
        let xs = List.rev !xs and ms = List.rev !ms and ks = List.rev !ks in
        let want_exact = List.mem "exact" !flags in
        let b = Buffer.create 256 in
        Buffer.add_string b id;
        let xo = List.map Obj.repr xs in
        let os = List.map nat_of_int (Array.to_list rt.orders) in
        (* lookup: comparisons only, identical for both precisions *)
        let res = searchcenters f64 t64 xo in
        (match res with
         | COutside -> Buffer.add_string b " sc=0:"
         | CNoFuel -> Buffer.add_string b " sc=2:"
         | CFound cs -> Buffer.add_string b (" sc=1:" ^ String.concat "," (List.map (fun z -> string_of_int (int_of_z z)) cs)));
        List.iter (fun templ ->
          match select templ os with
          | Some (ev, vev) -> Buffer.add_string b (Printf.sprintf " var.%s=%s,%s" (if templ then "t" else "n") (variant_label ev) (variant_label vev))
          | None -> Buffer.add_string b (Printf.sprintf " var.%s=none" (if templ then "t" else "n"))) [true; false];
        (match res with
         | CFound cs ->
            let run pfx (a : arith) (t : table) =
              let asd (v : Obj.t) = hex_of_dbl (Obj.obj v : float) in
              List.iter (fun m ->
                Buffer.add_string b (Printf.sprintf " %s.m%d=%s" pfx m (asd (ndsplineeval a t xo cs (z_of_int m))));
                List.iter (fun templ ->
                  match select templ os with
                  | Some (ev, _) -> Buffer.add_string b (Printf.sprintf " %s.m%d.ev%s=%s" pfx m (if templ then "t" else "n") (asd (ev_ndsplineeval a ev t xo cs (z_of_int m))))
                  | None -> ()) [true; false]) ms;
              if nd + 1 <= int_of_nat mAXDIM then begin
                Buffer.add_string b (Printf.sprintf " %s.g=%s" pfx (String.concat "," (List.map asd (ndsplineeval_gradient a t xo cs))));
                List.iter (fun templ ->
                  match select templ os with
                  | Some (_, vev) -> Buffer.add_string b (Printf.sprintf " %s.g.ev%s=%s" pfx (if templ then "t" else "n") (String.concat "," (List.map asd (ev_gradient a vev t xo cs))))
                  | None -> ()) [true; false]
              end else Buffer.add_string b (Printf.sprintf " %s.g=THROW" pfx);
              List.iter (fun kv ->
                let kl = String.concat "," (List.map string_of_int kv) in
                Buffer.add_string b (Printf.sprintf " %s.k%s=%s" pfx kl (asd (ndsplineeval_deriv a t xo cs (List.map nat_of_int kv))))) ks;
              Buffer.add_string b (Printf.sprintf " %s.op=%s" pfx (asd (ndsplineeval a t xo cs Z0))) in
            run "f" f32 t32; run "d" f64 t64;
            if want_exact then begin
              let nblock = Array.fold_left (fun acc n -> acc * n) 1 (Array.mapi (fun i n -> n - rt.orders.(i) - 1) rt.nknots) in
              let finite = List.for_all Float.is_finite xs && Array.for_all Float.is_finite rt.coefs in
              if nblock <= exact_limit && finite then begin
                let tq = match !qctab with Some t -> t | None -> let t = mk_table qc_of_float { rt with pad = 0.0 } in qctab := Some t; t in
                let xq = List.map qc_of_float xs in
                let klists = (List.map (fun m -> (Printf.sprintf "m%d" m, List.init nd (fun d -> if (m lsr d) land 1 = 1 then 1 else 0))) ms)
                             @ (List.map (fun kv -> ("k" ^ String.concat "," (List.map string_of_int kv), kv)) ks) in
                List.iter (fun (lbl, kv) ->
                  let kn = List.map nat_of_int kv in
                  Buffer.add_string b (Printf.sprintf " q.%s=%s q.%s.abs=%s" lbl (str_of_qc (spline_spec qcA tq xq kn)) lbl (str_of_qc (spline_abs qcA tq xq kn)))) klists
              end
            end
         | _ ->
            Buffer.add_string b (Printf.sprintf " f.op=%s d.op=%s" (hex_of_dbl 0.0) (hex_of_dbl 0.0)));
        print_endline (Buffer.contents b)
    | _ -> ()
  done with End_of_file -> ())
