(* Extraction of the C19 memory model. ExtrOcamlBasic only; N, positive, nat stay the extracted inductives. *)
From Coq Require Import ExtrOcamlBasic.
From PS Require Import Resource Generated_mem MemModel.
Extraction "memmodel.ml" read_trace convolve_trace destroy_trace shape_after_conv estimate estimate_before_fix
  peak live wf card_limits valid_conv no_quotes est_naux_from_primary.
