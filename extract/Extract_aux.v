(* Extraction of the executable aux-key model (C16). ExtrOcamlBasic only. *)
From Coq Require Import ExtrOcamlBasic.
From PS Require Import AuxModel Generated_aux.
Extraction "auxmodel.ml" gen_params gen_remove_key_compiles upstream_params write_key write_int remove_key get read_str read_int parse_Z print_Z
  nth_key naux roundtrip harness_prelude accepts check_key rstrip step run.
