(* mem_driver.ml — runs the extracted C19 model. One input line per case:
     <nd> <naxis:nknots:order,...> <keylen:vallen:strip,...|-> <extaux> <n> <dim>
   (n = 0: no convolution: estimate sh 1 0 and an empty convolve trace).  Output (one line per item, then "end"):
     est <bytes> / load <events> / conv <events> / destroy <events> / peak <bytes> / endlive <bytes> /
     hyps card_limits=<0|1> valid_conv=<0|1> no_quotes=<0|1> wf=<0|1> *)
open Memmodel

let rec pos_of_int n = if n = 1 then XH else if n land 1 = 0 then XO (pos_of_int (n lsr 1)) else XI (pos_of_int (n lsr 1))
let n_of_int n = if n = 0 then N0 else Npos (pos_of_int n)
let rec int_of_pos = function XH -> 1 | XO p -> 2 * int_of_pos p | XI p -> 2 * int_of_pos p + 1
let int_of_n = function N0 -> 0 | Npos p -> int_of_pos p
let rec nat_of_int n = if n <= 0 then O else S (nat_of_int (n - 1))

let split c s = if s = "" || s = "-" then [] else String.split_on_char c s
let ev_str = function Alloc b -> "A" ^ string_of_int (int_of_n b) | Free b -> "F" ^ string_of_int (int_of_n b)
let tr_str tr = String.concat " " (List.map ev_str tr)
let b2s b = if b then "1" else "0"

let () =
  try
    while true do
      let line = input_line stdin in
      (match String.split_on_char ' ' (String.trim line) with
       | [_nd; ds; axs; ext; n; dim] ->
         let dims = List.map (fun d -> match List.map int_of_string (split ':' d) with
             | [a; k; o] -> { naxis = n_of_int a; nknots = n_of_int k; order = n_of_int o }
             | _ -> failwith "dim") (split ',' ds) in
         let auxs = List.map (fun a -> match List.map int_of_string (split ':' a) with
             | [k; v; s] -> { keylen = n_of_int k; vallen = n_of_int v; strip = n_of_int s }
             | _ -> failwith "aux") (split ',' axs) in
         let sh = { dims = dims; auxs = auxs; ext_naux = n_of_int (int_of_string ext) } in
         let n = int_of_string n and dim = int_of_string dim in
         let (ne, de) = if n = 0 then (1, 0) else (n, dim) in
         let rd = read_trace sh in
         let cv = if n = 0 then [] else convolve_trace sh (n_of_int n) (nat_of_int dim) in
         let sh' = if n = 0 then sh else shape_after_conv sh (n_of_int n) (nat_of_int dim) in
         let ds = destroy_trace sh' in
         Printf.printf "est %d\n" (int_of_n (estimate sh (n_of_int ne) (nat_of_int de)));
         Printf.printf "est_before_fix %d\n" (int_of_n (estimate_before_fix sh (n_of_int ne) (nat_of_int de)));
         Printf.printf "load %s\nconv %s\ndestroy %s\n" (tr_str rd) (tr_str cv) (tr_str ds);
         Printf.printf "peak %d\n" (int_of_n (peak (rd @ cv)));
         Printf.printf "endlive %d\n" (int_of_n (live (rd @ cv @ ds)));
         Printf.printf "hyps card_limits=%s valid_conv=%s no_quotes=%s wf=%s naux_primary=%s\n" (b2s (card_limits sh))
           (b2s (valid_conv sh (n_of_int ne) (nat_of_int de))) (b2s (no_quotes sh)) (b2s (wf (rd @ cv @ ds))) (b2s est_naux_from_primary)
       | _ -> print_string "error parse\n");
      print_string "end\n"; flush stdout
    done
  with End_of_file -> ()
