(* Extraction of the FITS model (C06/C07/C08). ExtrOcamlBasic only; N, Z, positive, nat stay extracted inductives. *)
From Coq Require Import ExtrOcamlBasic.
From PS Require Import Generated_fits FitsModel FitsWf.
Extraction "fitsmodel.ml" to_doc of_doc encode decode decode_prefix to_bytes of_bytes read_bytes t_ndim wf_table wf_doc wf_table' reserved aux_key_ok write_key_offer aux_entry_ok aux_reloaded aux_value.
