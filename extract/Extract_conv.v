(* Extraction of the convolution model (C14). ExtrOcamlBasic only; no Extract Constant / Extract Inductive of our own. *)
From Coq Require Import ExtrOcamlBasic.
From PS Require Import Arith EvalModel ConvModel.
Extraction "convmodel.ml" QcA convolve convolve_signflip convolve_shipped convolve_rows convolve_rows_signflip convolve_rows_shipped isort factorial factorial_shipped norm_with trafo_matrix trafo_entry
  pairwise_sums wf_table.
