(* aux_driver.ml — runs the extracted AuxModel on the case file of harness/C16_harness.cpp and prints the same
   line format ("<seq>.<idx> <op> res=<result> store=<hexkey>:<hexval>,..."). "res=*" = not modelled (double reads). *)
open Auxmodel

let rec pos_of_int n = if n = 1 then XH else if n land 1 = 0 then XO (pos_of_int (n lsr 1)) else XI (pos_of_int (n lsr 1))
let z_of_int n = if n = 0 then Z0 else if n > 0 then Zpos (pos_of_int n) else Zneg (pos_of_int (-n))
let rec int_of_pos = function XH -> 1 | XO p -> 2 * int_of_pos p | XI p -> 2 * int_of_pos p + 1
let int_of_z = function Z0 -> 0 | Zpos p -> int_of_pos p | Zneg p -> - (int_of_pos p)
let rec nat_of_int n = if n <= 0 then O else S (nat_of_int (n - 1))
let rec int_of_nat = function O -> 0 | S n -> 1 + int_of_nat n

let ascii_of_char (c : char) : ascii =
  let n = Char.code c in let b i = (n lsr i) land 1 = 1 in
  Ascii (b 0, b 1, b 2, b 3, b 4, b 5, b 6, b 7)
let char_of_ascii (Ascii (b0, b1, b2, b3, b4, b5, b6, b7)) : char =
  let v b i = if b then 1 lsl i else 0 in
  Char.chr (v b0 0 + v b1 1 + v b2 2 + v b3 3 + v b4 4 + v b5 5 + v b6 6 + v b7 7)
let coq_of_string (s : Stdlib.String.t) : Auxmodel.string =
  let r = ref EmptyString in
  for i = String.length s - 1 downto 0 do r := String (ascii_of_char s.[i], !r) done; !r
let string_of_coq (s : Auxmodel.string) : Stdlib.String.t =
  let b = Buffer.create 16 in
  let rec go = function EmptyString -> () | String (c, r) -> Buffer.add_char b (char_of_ascii c); go r in
  go s; Buffer.contents b

let unhex h = if h = "-" then "" else String.init (String.length h / 2) (fun i -> Char.chr (int_of_string ("0x" ^ String.sub h (2 * i) 2)))
let hexs s = if s = "" then "-" else String.concat "" (List.map (fun c -> Printf.sprintf "%02x" (Char.code c)) (List.of_seq (String.to_seq s)))
let dump (s : (Auxmodel.string * Auxmodel.string) list) =
  if s = [] then "-" else String.concat "," (List.map (fun (k, v) -> hexs (string_of_coq k) ^ ":" ^ hexs (string_of_coq v)) s)

let err_name = function
  | E_reserved -> "E_reserved" | E_shortchar -> "E_shortchar" | E_eq -> "E_eq" | E_lower -> "E_lower"
  | E_longkey -> "E_longkey" | E_blank -> "E_blank" | E_toolong -> "E_toolong" | E_keychar -> "E_keychar" | E_valchar -> "E_valchar"
let wres_str = function W_appended -> "1" | W_overwritten -> "0" | W_rejected e -> err_name e
let wres_rc = function W_rejected _ -> "rc1" | _ -> "rc0"

let params = ref gen_params

let () =
  let file = Sys.argv.(1) in
  if Array.length Sys.argv > 2 && Sys.argv.(2) = "upstream" then params := upstream_params;
  let p = !params in
  let ic = open_in file in
  let seq = ref "?" and idx = ref 0 and st = ref [] in
  (try while true do
    let line = input_line ic in
    let tk = List.filter (fun x -> x <> "") (String.split_on_char ' ' line) in
    match tk with
    | [] -> ()
    | "S" :: id :: _ -> seq := id; idx := 0; st := []
    | op :: rest ->
      let k = match rest with h :: _ -> coq_of_string (unhex h) | [] -> EmptyString in
      let arg2 () = List.nth rest 1 in
      let res =
        match op with
        | "Ws" | "Wc" -> let (s', r) = write_key p k (coq_of_string (unhex (arg2 ()))) !st in st := s'; wres_str r
        | "Wd" -> let (s', r) = write_key p k (coq_of_string (unhex (List.nth rest 2))) !st in st := s'; wres_str r
        | "Cd" -> let (s', r) = write_key p k (coq_of_string (unhex (List.nth rest 2))) !st in st := s'; wres_rc r
        | "Wi" -> let (s', r) = write_int p k (z_of_int (int_of_string (arg2 ()))) !st in st := s'; wres_str r
        | "Ci" -> let (s', r) = write_int p k (z_of_int (int_of_string (arg2 ()))) !st in st := s'; wres_rc r
        | "R" -> if gen_remove_key_compiles || p != gen_params then (let (s', b) = remove_key k !st in st := s'; if b then "1" else "0") else "UNSUPPORTED"
        | "G" -> (match get k !st with Some v -> let h = hexs (string_of_coq v) in h | None -> "NULL")
        | "Ri" -> (match read_int k !st with Some z -> "ok:" ^ string_of_int (int_of_z z) | None -> "fail")
        | "Rs" -> (match read_str k !st with Some v -> "ok:" ^ hexs (string_of_coq v) | None -> "fail")
        | "Rd" | "Xd" -> "*"
        | "Xi" ->
          (* value left in *result: untouched when the key is absent; 0 when nothing parses; clamped on overflow (C++11 num_get) *)
          let ok = read_int k !st <> None in
          let v = match get k !st with
            | None -> -777
            | Some t when Stdlib.String.trim (string_of_coq t) = "" -> -777   (* the sentry fails at end of input: nothing is stored *)
            | Some t -> (match parse_Z t with None -> 0
                         | Some z -> (match read_int k !st with Some z' -> int_of_z z'
                                      | None -> (match z with Zneg _ -> -2147483648 | _ -> 2147483647))) in
          (if ok || not p.p_c_read_reports then "rc0:" else "rc1:") ^ string_of_int v
        | "K" -> (match nth_key (nat_of_int (int_of_string (List.hd rest))) !st with Some v -> hexs (string_of_coq v) | None -> "range")
        | "FD" | "FM" -> (match roundtrip p harness_prelude !st with Some s' -> st := s'; "ok" | None -> "E_writeaux")
        | _ -> failwith ("bad op " ^ op) in
      Printf.printf "%s.%d %s res=%s store=%s\n" !seq !idx op res (dump !st);
      incr idx
  done with End_of_file -> ());
  close_in ic
