(* Extraction of the grid-evaluation model (C17). ExtrOcamlBasic only; no Extract Constant / Extract Inductive. *)
From Coq Require Import ExtrOcamlBasic.
From PS Require Import Arith EvalModel BSpline GridModel.
Extraction "gridmodel.ml" QcA grideval basis_matrix grid_spec grid_abs grid_point nd_get nd_listed slicemultiply initial_nd.
