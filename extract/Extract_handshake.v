(* Extraction of the hand-shake transition system (C12). ExtrOcamlBasic only. *)
From Coq Require Import ExtrOcamlBasic.
From PS Require Import Handshake.
Extraction "handshakemodel.ml" init step spurious run label acc raceb stuckb finishedb enabledb observe walk_spec nblocks in_block.
