(* fits_driver.ml — runs the extracted FITS model as an independent reader / writer.
     fits_driver decode <list>   lines "id fitsfile outdump": bytes -> Fitsmodel.of_bytes (and read_bytes) -> table dump
     fits_driver encode <list>   lines "id tablefile outfits": table -> Fitsmodel.to_bytes -> file
     fits_driver reserved <list> lines "id hexkey -": Fitsmodel.reserved / aux_key_ok
     fits_driver offer <list>    lines "id hexkey hexvalue": Fitsmodel.write_key_offer, aux_entry_ok, aux_reloaded
   Table text format: tools/props/C06.py. *)
open Fitsmodel

let rec pos_of_int64 (x:int64) : positive =
  let rest = Int64.shift_right_logical x 1 in
  if rest = 0L then XH else if Int64.logand x 1L = 1L then XI (pos_of_int64 rest) else XO (pos_of_int64 rest)
let n_of_int64 (x:int64) : n = if x = 0L then N0 else Npos (pos_of_int64 x)
let n_of_int (x:int) : n = n_of_int64 (Int64.of_int x)
let rec int64_of_pos = function XH -> 1L | XO p -> Int64.shift_left (int64_of_pos p) 1
  | XI p -> Int64.logor (Int64.shift_left (int64_of_pos p) 1) 1L
let int64_of_n = function N0 -> 0L | Npos p -> int64_of_pos p
let int_of_n x = Int64.to_int (int64_of_n x)
(* decimal rendering of an N that may exceed 2^63 is not needed: counts are small; words are printed in hex *)
let n_of_hex s = n_of_int64 (Int64.of_string ("0x" ^ s))
let hex64 x = Printf.sprintf "%016Lx" (int64_of_n x)
let hex32 x = Printf.sprintf "%08Lx" (int64_of_n x)
let rec nat_to_int = function O -> 0 | S m -> 1 + nat_to_int m

let str_of_string (s:string) : n list = List.init (String.length s) (fun i -> n_of_int (Char.code s.[i]))
let string_of_str (l:n list) : string = let b = Buffer.create 16 in List.iter (fun c -> Buffer.add_char b (Char.chr ((int_of_n c) land 255))) l; Buffer.contents b
let hexstr (l:n list) : string = if l = [] then "-" else String.concat "" (List.map (fun c -> Printf.sprintf "%02x" ((int_of_n c) land 255)) l)
let unhex (h:string) : n list = if h = "-" then [] else List.init (String.length h / 2) (fun i -> n_of_int (int_of_string ("0x" ^ String.sub h (2*i) 2)))

let read_file path = let ic = open_in_bin path in let n = in_channel_length ic in let s = really_input_string ic n in close_in ic; s
let bytes_of_file path : n list =
  let s = read_file path in
  let small = Array.init 256 n_of_int in
  let rec go i acc = if i < 0 then acc else go (i-1) (small.(Char.code s.[i]) :: acc) in go (String.length s - 1) []
let write_bytes path (l:n list) = let oc = open_out_bin path in List.iter (fun c -> output_char oc (Char.chr ((int_of_n c) land 255))) l; close_out oc

let err_name = function
  | ENoHDU -> "ENoHDU" | ETruncHeader -> "ETruncHeader" | ETruncData -> "ETruncData" | ENotFits -> "ENotFits"
  | EBadMandatory -> "EBadMandatory" | EBadBitpix -> "EBadBitpix" | ENegAxis -> "ENegAxis" | EFuel -> "EFuel"
  | ENotImage -> "ENotImage" | EBadDim -> "EBadDim" | EOrder -> "EOrder" | ECoeffRead -> "ECoeffRead"
  | EKnotsMissing -> "EKnotsMissing" | EKnotsCount -> "EKnotsCount" | EKnotsRead -> "EKnotsRead"
  | EExtentsRead -> "EExtentsRead" | EUnsupported -> "EUnsupported"

let split_ws s = List.filter (fun w -> w <> "") (String.split_on_char ' ' (String.trim s))
let dec_n x = Printf.sprintf "%Lu" (int64_of_n x)

let dump_table oc (t:table) =
  let pl name f l = output_string oc name; List.iter (fun x -> output_char oc ' '; output_string oc (f x)) l; output_char oc '\n' in
  Printf.fprintf oc "ndim %d\n" (nat_to_int (t_ndim t));
  pl "order" dec_n t.t_order; pl "naxes" dec_n t.t_naxes; pl "strides" dec_n t.t_strides;
  pl "nknots" (fun k -> string_of_int (List.length k)) t.t_knots;
  List.iteri (fun i k -> pl (Printf.sprintf "knots %d" i) hex64 k) t.t_knots;
  pl "coef" hex32 t.t_coeffs;
  (match t.t_extents with None -> output_string oc "extents none\n" | Some e -> pl "extents" hex64 e);
  (match t.t_periods with None -> output_string oc "periodtok none\n"
   | Some ps -> pl "periodtok" (function None -> "-" | Some p -> hexstr p) ps);
  Printf.fprintf oc "naux %d\n" (List.length t.t_aux);
  List.iter (fun (k,v) -> Printf.fprintf oc "aux %s %s\n" (hexstr k) (hexstr v)) t.t_aux;
  output_string oc "end\n"

let parse_table path : table =
  let ic = open_in path in
  let order = ref [] and knots = ref [] and naxes = ref [] and strides = ref [] and coef = ref [] and ext = ref None
  and per = ref None and aux = ref [] in
  (try while true do
    let w = split_ws (input_line ic) in
    (match w with
     | "order" :: r -> order := List.map (fun s -> n_of_int64 (Int64.of_string s)) r
     | "naxes" :: r -> naxes := List.map (fun s -> n_of_int64 (Int64.of_string s)) r
     | "strides" :: r -> strides := List.map (fun s -> n_of_int64 (Int64.of_string s)) r
     | "knots" :: _ :: r -> knots := (List.map n_of_hex r) :: !knots
     | "coef" :: r -> coef := List.map n_of_hex r
     | "extents" :: "none" :: _ -> ext := None
     | "extents" :: r -> ext := Some (List.map n_of_hex r)
     | "periodtok" :: "none" :: _ -> per := None
     | "periodtok" :: r -> per := Some (List.map (fun s -> if s = "-" then None else Some (unhex s)) r)
     | "aux" :: k :: v :: _ -> aux := (unhex k, unhex v) :: !aux
     | "aux" :: k :: [] -> aux := (unhex k, []) :: !aux
     | _ -> ())
  done with End_of_file -> ());
  close_in ic;
  { t_order = !order; t_knots = List.rev !knots; t_naxes = !naxes; t_strides = !strides; t_coeffs = !coef;
    t_extents = !ext; t_periods = !per; t_aux = List.rev !aux }

let () =
  let mode = Sys.argv.(1) and list = Sys.argv.(2) in
  let ic = open_in list in
  (try while true do
    match split_ws (input_line ic) with
    | id :: src :: dst :: _ ->
      (try
        if mode = "reserved" then begin
          (* FitsModel.reserved (reservedFitsKeyword with the lists translated from the current source tree) and
             FitsWf.aux_key_ok on one key: src = the key in hex ("-" = the empty key) *)
          let k = if src = "-" then [] else unhex src in
          Printf.printf "%s reserved=%d aux_key_ok=%d ok\n%!" id (if reserved k then 1 else 0) (if aux_key_ok k then 1 else 0)
        end else if mode = "offer" then begin
          (* one (key, value) offered to write_key: src = key, dst = value, both in hex ("-" = empty).
             offer    = FitsModel.write_key_offer (reserved name / key longer than 66 / encoded value length, every quote counted
                        twice, above maxdatalen / stored) — tied to C16's AuxModel.accepts by C06_write_key_offer_is_C16_write_key
             entry_ok = FitsWf.aux_entry_ok, the auxiliary conjunct of wf_table'
             reloaded = FitsWf.aux_reloaded value: what table_eq_upto_padding (the conclusion of C06_roundtrip) says a reader returns *)
          let k = unhex src and v = unhex dst in
          let o = match write_key_offer k v with Stored -> "Stored" | RefusedReserved -> "RefusedReserved"
                  | RefusedLongKey -> "RefusedLongKey" | RefusedTooLong -> "RefusedTooLong" in
          Printf.printf "%s offer=%s entry_ok=%d reloaded=%s ok\n%!" id o (if aux_entry_ok (k, v) then 1 else 0) (hexstr (aux_reloaded v))
        end else if mode = "decode" then begin
          let b = bytes_of_file src in
          let oc = open_out dst in
          (match of_bytes b with
           | Ok t -> dump_table oc t
           | Error e -> Printf.fprintf oc "ERROR %s\n" (err_name e));
          close_out oc;
          (* the lenient reader must agree with the strict one on files that parse completely *)
          let oc2 = open_out (dst ^ ".lenient") in
          (match read_bytes b with
           | Ok t -> dump_table oc2 t
           | Error e -> Printf.fprintf oc2 "ERROR %s\n" (err_name e));
          close_out oc2;
          Printf.printf "%s ok\n%!" id
        end else begin
          let t = parse_table src in
          write_bytes dst (to_bytes t);
          (* the hypothesis of C06_roundtrip (wf_table'), of C06_roundtrip_L1 (wf_table) and the conclusion of C06_wf_doc,
             evaluated on this very table *)
          Printf.printf "%s wf_table=%d wf_table'=%d wf_doc=%d ok\n%!" id (if wf_table t then 1 else 0)
            (if wf_table' t then 1 else 0) (if wf_doc (to_doc t) then 1 else 0)
        end
      with ex -> Printf.printf "%s EXC %s\n%!" id (Printexc.to_string ex))
    | _ -> ()
  done with End_of_file -> ())
