(* Extraction of the NNLS model (C11). ExtrOcamlBasic only; Qc, Z, positive, nat stay the extracted inductives. *)
From Coq Require Import ExtrOcamlBasic.
From PS Require Import Arith Generated_nnls NnlsModel NnlsModel2.
Extraction "nnlsmodel.ml" QcA block3 block3_gen nnls_spec kkt_check block3_tol block3_exit_requires_full_step block3_max_iter
  pjv_block pjv_updown pjv_run pjv_tol lh_normaleq lh_skipped.
