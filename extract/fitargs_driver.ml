(* fitargs_driver.ml — runs the extracted C13 model on a case file (same lines as harness/C13_harness.cpp).
   Output, one line per case:
     M <id> check=<accept|reject:<cond>[:<dim>]|fault:<cond>[:<dim>]> contract=<0|1> out=<done|logic|runtime|undefined|nonzero> ret=<0|1|-> same=<0|1>
   `out`/`ret`/`same` are the model's prediction for the entry point of the case with solver_ok = true. *)
open Fitargsmodel

let rec pos_of_int n = if n = 1 then XH else if n land 1 = 0 then XO (pos_of_int (n lsr 1)) else XI (pos_of_int (n lsr 1))
let n_of_int n = if n = 0 then N0 else Npos (pos_of_int n)
let rec nat_of_int n = if n <= 0 then O else S (nat_of_int (n - 1))
let rec int_of_nat = function O -> 0 | S n -> 1 + int_of_nat n

let plist s = if s = "-" || s = "" then [] else List.map int_of_string (String.split_on_char ',' s)

let gname = function GNdimZero -> "GNdimZero" | GRowsZero -> "GRowsZero" | GWeights -> "GWeights" | GNCoords -> "GNCoords"
  | GNOrders -> "GNOrders" | GNKnotVecs -> "GNKnotVecs" | GNSmooth -> "GNSmooth" | GNPenalty -> "GNPenalty" | GMonodim -> "GMonodim"
let dname = function DMaxIdx -> "DMaxIdx" | DCoordLen -> "DCoordLen" | DKnotCount -> "DKnotCount" | DUnsorted -> "DUnsorted"
  | DPenaltyOrder -> "DPenaltyOrder"
let cref = function G g -> gname g | D (c, d) -> dname c ^ ":" ^ string_of_int (int_of_nat d)
let verdict = function Accept -> "accept" | Reject r -> "reject:" ^ cref r | CheckFault r -> "fault:" ^ cref r

let () =
  let ic = open_in Sys.argv.(1) in
  (try
    while true do
      let line = input_line ic in
      if String.length line > 0 && line.[0] <> '#' then begin
        let toks = List.filter (fun s -> s <> "") (String.split_on_char ' ' line) in
        match toks with
        | id :: entry :: rest ->
          let kv = List.map (fun t -> let i = String.index t '=' in (String.sub t 0 i, String.sub t (i + 1) (String.length t - i - 1))) rest in
          let g k = List.assoc k kv in
          let nl k = List.map n_of_int (plist (g k)) in
          let kl = plist (g "kl") and ks = plist (g "ks") in
          let kvs = List.map2 (fun l s -> (n_of_int l, s <> 0)) kl ks in
          let sm = List.map (fun x -> x <> 0) (plist (g "sm")) in
          let mono = let m = int_of_string (g "mono") in if m < 0 then None else Some (n_of_int m) in
          let a = mk (n_of_int (int_of_string (g "rows"))) (nl "rg") (nl "mx") (n_of_int (int_of_string (g "nw"))) (nl "cl") (nl "od") kvs sm (nl "po") mono in
          let s0 = if g "pop" = "1" then TFitted ([n_of_int 2], [n_of_int 8]) else TEmpty in
          let v0 = verdict (fit_check_v0 a) in
          if entry = "cpp" then begin
            let (s1, o) = fit_step s0 a true in
            let os = match o with Done -> "done" | ThrowLogic _ -> "logic" | ThrowRuntime -> "runtime" | Undefined -> "undefined" in
            Printf.printf "M %s check=%s contract=%d out=%s ret=- same=%d v0=%s c0=%d\n" id (verdict (fit_check a)) (if fit_contract a then 1 else 0) os
              (if s1 = s0 then 1 else 0) v0 (if fit_contract_v0 a then 1 else 0)
          end else begin
            let n = { table_null = (entry = "c_nulltable"); table_nodata = (entry = "c_nodata"); data_null = (entry = "c_nulldata") } in
            let (s1, r) = glamfit_c n s0 a true in
            let ca = c_view a in
            Printf.printf "M %s check=%s contract=%d out=%s ret=%d same=%d v0=%s c0=%d\n" id (verdict (fit_check ca)) (if fit_contract ca then 1 else 0)
              (if r = N0 then "done" else "nonzero") (if r = N0 then 0 else 1) (if s1 = s0 then 1 else 0) (verdict (fit_check_v0 ca)) (if fit_contract_v0 ca then 1 else 0)
          end
        | _ -> ()
      end
    done
  with End_of_file -> ())
