(* obj_driver.ml — runs the extracted ObjModel on a case file (format: tools/props/C20.py) and prints, after every
   operation, the outcome, every live object's ownership picture and the allocator state in the same shape as
   harness/C20_harness.cpp.  usage: obj_driver <casefile> *)
open Objmodel

let rec nat_of_int n = if n <= 0 then O else S (nat_of_int (n - 1))
let rec int_of_nat = function O -> 0 | S n -> 1 + int_of_nat n
let n = nat_of_int
let i = int_of_nat

let toks s = List.filter (fun x -> x <> "") (String.split_on_char ' ' (String.trim s))
let rec take k l = if k = 0 then ([], l) else match l with [] -> failwith "short line" | h :: t -> let (a, b) = take (k - 1) t in (h :: a, b)
let ints l = List.map int_of_string l
let nats l = List.map (fun x -> n (int_of_string x)) l

let phase_of code arg = match code with
  | 0 -> PNone | 1 -> PHdu | 2 -> PDim | 3 -> POrder | 4 -> PImgSize | 5 -> PCoeff
  | 6 -> PKnotSize (n arg) | 7 -> PKnotData (n arg) | 8 -> PExtents | _ -> failwith "phase"

(* file := open_fails phase_code phase_arg ndim o*ndim nk*ndim nax*ndim naux (key klen vlen alloc)*naux *)
let parse_file l =
  match l with
  | opf :: pc :: pa :: nd :: rest ->
      let nd = int_of_string nd in
      let (os, rest) = take nd rest in let (ks, rest) = take nd rest in let (ns, rest) = take nd rest in
      (match rest with
       | na :: rest ->
           let na = int_of_string na in
           let rec aux k r = if k = 0 then [] else match r with
             | key :: kl :: vl :: al :: r' ->
                 ({ akey = n (int_of_string key); aklen = n (int_of_string kl); avlen = n (int_of_string vl) }, n (int_of_string al)) :: aux (k - 1) r'
             | _ -> failwith "aux" in
           { f_open_fails = (opf = "1"); f_fail = phase_of (int_of_string pc) (int_of_string pa); f_ndim = n nd;
             f_orders = nats os; f_nknots = nats ks; f_naxes = nats ns; f_aux = aux na rest }
       | _ -> failwith "file")
  | _ -> failwith "file"

let parse_op w = match w with
  | "new" :: j :: _ -> ONew (n (int_of_string j))
  | "newread" :: j :: f -> ONewRead (n (int_of_string j), parse_file f)
  | "read" :: j :: f -> ORead (n (int_of_string j), parse_file f)
  | "fit" :: j :: inv :: fails :: nd :: rest ->
      let nd = int_of_string nd in let (os, rest) = take nd rest in let (ks, _) = take nd rest in
      OFit (n (int_of_string j), { ft_invalid = (inv = "1"); ft_fails = (fails = "1"); ft_orders = nats os; ft_nknots = nats ks })
  | "wkey" :: j :: inv :: key :: kl :: vl :: _ ->
      OWriteKey (n (int_of_string j), (inv = "1"), { akey = n (int_of_string key); aklen = n (int_of_string kl); avlen = n (int_of_string vl) })
  | "conv" :: j :: d :: nk :: _ -> OConvolve (n (int_of_string j), n (int_of_string d), n (int_of_string nk))
  | "perm" :: j :: p -> OPermute (n (int_of_string j), nats p)
  | "movector" :: j :: k :: _ -> OMoveCtor (n (int_of_string j), n (int_of_string k))
  | "moveasg" :: j :: k :: _ -> OMoveAssign (n (int_of_string j), n (int_of_string k))
  | "eq" :: j :: k :: _ -> OEq (n (int_of_string j), n (int_of_string k))
  | "write" :: j :: f :: _ -> OWrite (n (int_of_string j), (f = "1"))
  | "eval" :: j :: _ -> OEval (n (int_of_string j))
  | "del" :: j :: _ -> ODestroy (n (int_of_string j))
  | "dkey" :: j :: key :: _ -> ORemoveKey (n (int_of_string j), n (int_of_string key))
  | _ -> failwith ("op: " ^ String.concat " " w)

let cfg_of_bits s =
  let b k = String.length s > k && s.[k] = '1' in
  { fx_aux = b 0; fx_clear = b 1; fx_conv = b 2; fx_fit = b 3; fx_eq = b 4; fx_perm = b 5; fx_moveasg = b 6; fx_auxsize = b 7; fx_rmkey = b 8 }

let slot_s = function Null -> "N" | Unset | Dangling -> "X" | Owned (_, b) -> "L" ^ string_of_int (i b)
let owned_with o f bytes = match get o f with Owned (_, b) -> i b = bytes | _ -> false
let is_owned_s = function Owned _ -> true | _ -> false
let commas f l = String.concat "," (List.map f l)
let range k = List.init k (fun x -> x)

let dump j o =
  let nd = i o.ndim and na = i o.naux in
  let b = Buffer.create 256 in
  Buffer.add_string b (Printf.sprintf "d %d ndim=%d naux=%d order=%s knots=%s nknots=%s extents=%s periods=%s coeff=%s naxes=%s strides=%s aux=%s"
    j nd na (slot_s (get o FOrder)) (slot_s (get o FKnots)) (slot_s (get o FNknots)) (slot_s (get o FExtents)) (slot_s (get o FPeriods))
    (slot_s (get o FCoeff)) (slot_s (get o FNaxes)) (slot_s (get o FStrides)) (slot_s (get o FAux)));
  Buffer.add_string b (" extents0=" ^ (if nd <> 0 && owned_with o FExtents (8 * nd) then slot_s (get o FExtents0) else "-"));
  Buffer.add_string b (" knoti=" ^ (if nd <> 0 && owned_with o FKnots (8 * nd) then commas (fun k -> slot_s (get o (FKnot (n k)))) (range nd) else "-"));
  if nd <> 0 && tbl_ok o then begin
    Buffer.add_string b (" orders=" ^ commas (fun x -> string_of_int (i x)) o.orders);
    Buffer.add_string b (" nk=" ^ commas (fun x -> string_of_int (i x)) o.nknots);
    Buffer.add_string b (" nax=" ^ commas (fun x -> string_of_int (i x)) o.naxes)
  end;
  Buffer.add_string b " auxe=";
  if na <> 0 && owned_with o FAux (8 * na) then
    Buffer.add_string b (commas (fun k ->
      let e = get o (FAuxE (n k)) in
      let s = slot_s e in
      if (match e with Owned (_, bb) -> i bb = 16 | _ -> false) then begin
        let ks = get o (FAuxK (n k)) and vs = get o (FAuxV (n k)) in
        let s = s ^ "/" ^ slot_s ks ^ "/" ^ slot_s vs in
        if is_owned_s ks && is_owned_s vs then
          let a = List.nth o.auxs k in s ^ Printf.sprintf "/k%d=%d" (i a.akey) (i a.avlen - 1)
        else s
      end else s) (range na))
  else Buffer.add_string b "-";
  print_endline (Buffer.contents b)

let heapline (m : mem) =
  let sizes = List.sort compare (List.map (fun (_, b) -> i b) m.hp) in
  let errs = List.rev_map (function ErrBadFree _ -> "badfree" | ErrSize (a, c) -> Printf.sprintf "sizemismatch:alloc%d:free%d" (i a) (i c)) m.errs in
  Printf.printf "h%s | allocs=%d nullfree=%d lost=%d errs=%s\n" (String.concat "" (List.map (fun x -> " " ^ string_of_int x) sizes))
    (i m.nalloc) (i m.nullfrees) (List.length m.lost) (String.concat "," errs)

let reason_s = function RRefused -> "refused" | ROpen -> "open" | RInput -> "input" | RAlloc -> "alloc" | RInvalid -> "invalid" | REmpty -> "empty"
let outcome_s = function Ok -> "ok -" | Failed r -> "fail " ^ reason_s r | UB -> "UB -" | Skipped -> "skipped -"

let () =
  let ic = open_in Sys.argv.(1) in
  let w = ref world0 and c = ref cfg_orig and f = ref no_fault and k = ref 0 in
  (try while true do
    let line = input_line ic in
    match toks line with
    | [] -> ()
    | "case" :: id :: fault :: bits :: _ ->
        Printf.printf "case %s\n" id;
        w := world0; c := cfg_of_bits bits; k := 0;
        let fk = int_of_string fault in
        f := if fk = 0 then no_fault else fault_at (n fk)
    | "end" :: _ ->
        Printf.printf "end balanced=%b\n" (balancedb (List.rev (!w).wm.trace))
    | "op" :: rest ->
        let x = parse_op rest in
        let hit = (match x with
          | ORemoveKey (j, key) -> (match get_obj !w j with
                                    | Some o -> (match find_key key o.auxs O with Some _ -> "hit" | None -> "miss")
                                    | None -> "-")
          | _ -> "-") in
        let (w', out) = step !c !f !w x in
        w := w';
        let os = (match out with Ok when hit <> "-" -> "ok " ^ hit | _ -> outcome_s out) in
        Printf.printf "r %d %s %s\n" !k (List.hd rest) os;
        List.iteri (fun j o -> match o with Some o -> dump j o | None -> ()) w'.objs;
        heapline w'.wm;
        incr k
    | _ -> ()
  done with End_of_file -> ());
  close_in ic
