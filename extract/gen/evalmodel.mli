
type __ = Obj.t

val negb : bool -> bool

type nat =
| O
| S of nat

val fst : ('a1 * 'a2) -> 'a1

val snd : ('a1 * 'a2) -> 'a2

val length : 'a1 list -> nat

val app : 'a1 list -> 'a1 list -> 'a1 list

type comparison =
| Eq
| Lt
| Gt

val compOpp : comparison -> comparison

val add : nat -> nat -> nat

val mul : nat -> nat -> nat

val sub : nat -> nat -> nat

type positive =
| XI of positive
| XO of positive
| XH

type z =
| Z0
| Zpos of positive
| Zneg of positive

module Nat :
 sig
  val eqb : nat -> nat -> bool

  val leb : nat -> nat -> bool

  val ltb : nat -> nat -> bool

  val min : nat -> nat -> nat
 end

module Pos :
 sig
  type mask =
  | IsNul
  | IsPos of positive
  | IsNeg
 end

module Coq_Pos :
 sig
  val succ : positive -> positive

  val add : positive -> positive -> positive

  val add_carry : positive -> positive -> positive

  val pred_double : positive -> positive

  type mask = Pos.mask =
  | IsNul
  | IsPos of positive
  | IsNeg

  val succ_double_mask : mask -> mask

  val double_mask : mask -> mask

  val double_pred_mask : positive -> mask

  val sub_mask : positive -> positive -> mask

  val sub_mask_carry : positive -> positive -> mask

  val sub : positive -> positive -> positive

  val mul : positive -> positive -> positive

  val size_nat : positive -> nat

  val compare_cont : comparison -> positive -> positive -> comparison

  val compare : positive -> positive -> comparison

  val eqb : positive -> positive -> bool

  val ggcdn : nat -> positive -> positive -> positive * (positive * positive)

  val ggcd : positive -> positive -> positive * (positive * positive)

  val iter_op : ('a1 -> 'a1 -> 'a1) -> positive -> 'a1 -> 'a1

  val to_nat : positive -> nat

  val of_succ_nat : nat -> positive
 end

module Z :
 sig
  val double : z -> z

  val succ_double : z -> z

  val pred_double : z -> z

  val pos_sub : positive -> positive -> z

  val add : z -> z -> z

  val opp : z -> z

  val sub : z -> z -> z

  val mul : z -> z -> z

  val compare : z -> z -> comparison

  val sgn : z -> z

  val leb : z -> z -> bool

  val ltb : z -> z -> bool

  val eqb : z -> z -> bool

  val abs : z -> z

  val to_nat : z -> nat

  val of_nat : nat -> z

  val to_pos : z -> positive

  val pos_div_eucl : positive -> z -> z * z

  val div_eucl : z -> z -> z * z

  val div : z -> z -> z

  val odd : z -> bool

  val ggcd : z -> z -> z * (z * z)
 end

val nth : nat -> 'a1 list -> 'a1 -> 'a1

val last : 'a1 list -> 'a1 -> 'a1

val rev : 'a1 list -> 'a1 list

val map : ('a1 -> 'a2) -> 'a1 list -> 'a2 list

val flat_map : ('a1 -> 'a2 list) -> 'a1 list -> 'a2 list

val fold_left : ('a1 -> 'a2 -> 'a1) -> 'a2 list -> 'a1 -> 'a1

val existsb : ('a1 -> bool) -> 'a1 list -> bool

val forallb : ('a1 -> bool) -> 'a1 list -> bool

val filter : ('a1 -> bool) -> 'a1 list -> 'a1 list

val find : ('a1 -> bool) -> 'a1 list -> 'a1 option

val combine : 'a1 list -> 'a2 list -> ('a1 * 'a2) list

val firstn : nat -> 'a1 list -> 'a1 list

val skipn : nat -> 'a1 list -> 'a1 list

val seq : nat -> nat -> nat list

val repeat : 'a1 -> nat -> 'a1 list

type q = { qnum : z; qden : positive }

val inject_Z : z -> q

val qcompare : q -> q -> comparison

val qplus : q -> q -> q

val qmult : q -> q -> q

val qopp : q -> q

val qinv : q -> q

val qred : q -> q

type qc = q
  (* singleton inductive, whose constructor was Qcmake *)

val this : qc -> q

val q2Qc : q -> qc

val qccompare : qc -> qc -> comparison

val qcplus : qc -> qc -> qc

val qcmult : qc -> qc -> qc

val qcopp : qc -> qc

val qcminus : qc -> qc -> qc

val qcinv : qc -> qc

val qcdiv : qc -> qc -> qc

type arith = { add0 : (__ -> __ -> __); sub0 : (__ -> __ -> __);
               mul0 : (__ -> __ -> __); div0 : (__ -> __ -> __);
               opp0 : (__ -> __); zero : __; one : __; ofZ : (z -> __);
               ltb0 : (__ -> __ -> bool); leb0 : (__ -> __ -> bool);
               rnd : (__ -> __) }

type t = __

val gtb : arith -> t -> t -> bool

val geb : arith -> t -> t -> bool

val qc_ltb : qc -> qc -> bool

val qc_leb : qc -> qc -> bool

val qcA : arith

val bsearch : arith -> (z -> t) -> nat -> t -> z -> z -> z option

type lookup =
| Outside
| Found of z
| NoFuel

val search_dim : arith -> (z -> t) -> z -> nat -> z -> z -> t -> lookup

val walk_down : arith -> (z -> t) -> nat -> t -> z -> z

val walk_up : arith -> (z -> t) -> z -> nat -> t -> z -> z

val adjust_left : arith -> (z -> t) -> z -> z -> t -> z -> z

val dr : arith -> (z -> t) -> z -> t -> nat -> t

val dl : arith -> (z -> t) -> z -> t -> nat -> t

val deboor_inner :
  arith -> (z -> t) -> z -> t -> nat -> nat -> t list -> t -> t list

val deboor_round : arith -> (z -> t) -> z -> t -> nat -> t list -> t list

val deboor_rounds :
  arith -> (z -> t) -> z -> t -> nat -> nat -> t list -> t list

val rearrange : arith -> nat -> z -> z -> t list -> t list

val bsplvb_simple : arith -> (z -> t) -> z -> nat -> t -> z -> t list

val kdiff : arith -> (z -> t) -> z -> z -> z -> t

val deriv_mid : arith -> (z -> t) -> z -> nat -> nat -> t -> t list -> t list

val deriv_combine : arith -> (z -> t) -> z -> nat -> t list -> t list

val bspline_deriv_nonzero : arith -> (z -> t) -> z -> nat -> t -> z -> t list

val bspline_nonzero :
  arith -> (z -> t) -> z -> nat -> t -> z -> t list * t list

val bspline : arith -> (z -> t) -> nat -> t -> z -> t

val bspline_deriv : arith -> (z -> t) -> nat -> t -> z -> nat -> t

type dimn = { d_order : nat; d_nknots : z; d_naxes : z; d_stride : z;
              d_kn : (z -> t) }

type table = { dims : dimn list; coef : (z -> t) }

val fuel_of : arith -> dimn -> nat

type centers_result =
| COutside
| CFound of z list
| CNoFuel

val searchcenters_dims : arith -> dimn list -> t list -> centers_result

val searchcenters : arith -> table -> t list -> centers_result

val localbasis_val : arith -> dimn -> t -> z -> t list

val localbasis_der : arith -> dimn -> t -> z -> t list

val localbases_mask :
  arith -> dimn list -> t list -> z list -> z -> t list list

val localbasis_derivk : arith -> dimn -> t -> z -> nat -> t list

val localbases_derivk :
  arith -> dimn list -> t list -> z list -> nat list -> t list list

val chunk : arith -> (z -> t) -> t -> t list -> z -> t -> t

type digit = (nat * z) * nat

val odo_incr : digit list -> digit list * z

val digit_pos : digit -> nat

val bt_of : arith -> t list list -> nat list -> t

val core_loop :
  arith -> (z -> t) -> nat -> t list list -> t list -> digit list -> z -> t
  -> t

val core_loop_peeled :
  arith -> (z -> t) -> nat -> t list list -> t list -> digit list -> z -> t
  -> t

val init_pos : nat list -> z list -> z list -> z

val nchunks_of : nat list -> nat

val core_run :
  arith -> (z -> t) -> bool -> nat -> nat list -> nat list -> nat list -> nat
  -> z list -> z list -> t list list -> t

val orders_of : arith -> table -> nat list

val strides_of : arith -> table -> z list

val ndim_of : arith -> table -> nat

val core_generic : arith -> table -> z list -> t list list -> t

val core_D : arith -> nat -> table -> z list -> t list list -> t

val core_Fixed : arith -> nat -> nat -> table -> z list -> t list list -> t

val core_Known : arith -> nat list -> table -> z list -> t list list -> t

val ndsplineeval : arith -> table -> t list -> z list -> z -> t

val ndsplineeval_deriv : arith -> table -> t list -> z list -> nat list -> t

val call_operator : arith -> table -> t list -> t

val nonzero_bases :
  arith -> table -> t list -> z list -> (t list * t list) list

val lane_bases : arith -> (t list * t list) list -> nat -> t list list

val ndsplineeval_gradient : arith -> table -> t list -> z list -> t list

val eqbK : arith -> t -> t -> bool

val wdiv : arith -> t -> t -> t

val b0 : arith -> (z -> t) -> bool -> z -> t -> t

val bfun : arith -> (z -> t) -> bool -> nat -> z -> t -> t

val dBfun : arith -> (z -> t) -> bool -> nat -> nat -> z -> t -> t

val side_of : arith -> dimn -> t -> bool

val sum_range : arith -> (z -> t) -> z -> nat -> t

val tensor_sum :
  arith -> (z -> t) -> dimn list -> t list -> nat list -> z -> t -> t

val spline_spec : arith -> table -> t list -> nat list -> t

val absK : arith -> t -> t

val dBabs : arith -> (z -> t) -> bool -> nat -> nat -> z -> t -> t

val tensor_abs :
  arith -> (z -> t) -> dimn list -> t list -> nat list -> z -> t -> t

val spline_abs : arith -> table -> t list -> nat list -> t

type variant =
| VGeneric
| VD of nat
| VFixed of nat * nat
| VKnown of nat list

type dcase = { dc_templ : bool; dc_corder : nat option; dc_ndim : nat option;
               dc_ev : variant; dc_vev : variant }

type dknown = { dk_templ : bool; dk_orders : nat list; dk_ev : variant;
                dk_vev : variant }

val dispatch_cases : dcase list

val dispatch_known : dknown list

val mAXDIM : nat

val const_order : nat list -> nat

val active : bool -> bool -> bool

val label_is : nat option -> nat -> bool

val is_default : nat option -> bool

val outer_labels : bool -> nat list

val outer_choice : bool -> nat -> nat option

val same_outer : nat option -> nat option -> bool

val select_case : bool -> nat list -> dcase option

val orders_are : nat list -> nat list -> bool

val select_known : bool -> nat list -> dknown option

val select : bool -> nat list -> (variant * variant) option

val run_variant : arith -> variant -> table -> z list -> t list list -> t

val run_variant_multi :
  arith -> variant -> table -> z list -> t list list -> t

val ev_ndsplineeval : arith -> variant -> table -> t list -> z list -> z -> t

val ev_ndsplineeval_deriv :
  arith -> variant -> table -> t list -> z list -> nat list -> t

val ev_gradient : arith -> variant -> table -> t list -> z list -> t list
