
type __ = Obj.t

(** val negb : bool -> bool **)

let negb = function
| true -> false
| false -> true

type nat =
| O
| S of nat

(** val fst : ('a1 * 'a2) -> 'a1 **)

let fst = function
| (x, _) -> x

(** val snd : ('a1 * 'a2) -> 'a2 **)

let snd = function
| (_, y) -> y

(** val length : 'a1 list -> nat **)

let rec length = function
| [] -> O
| _ :: l' -> S (length l')

(** val app : 'a1 list -> 'a1 list -> 'a1 list **)

let rec app l m =
  match l with
  | [] -> m
  | a :: l1 -> a :: (app l1 m)

type comparison =
| Eq
| Lt
| Gt

(** val compOpp : comparison -> comparison **)

let compOpp = function
| Eq -> Eq
| Lt -> Gt
| Gt -> Lt

module Coq__1 = struct
 (** val add : nat -> nat -> nat **)
 let rec add n m =
   match n with
   | O -> m
   | S p -> S (add p m)
end
include Coq__1

(** val mul : nat -> nat -> nat **)

let rec mul n m =
  match n with
  | O -> O
  | S p -> add m (mul p m)

(** val sub : nat -> nat -> nat **)

let rec sub n m =
  match n with
  | O -> n
  | S k -> (match m with
            | O -> n
            | S l -> sub k l)

type positive =
| XI of positive
| XO of positive
| XH

type z =
| Z0
| Zpos of positive
| Zneg of positive

module Nat =
 struct
  (** val eqb : nat -> nat -> bool **)

  let rec eqb n m =
    match n with
    | O -> (match m with
            | O -> true
            | S _ -> false)
    | S n' -> (match m with
               | O -> false
               | S m' -> eqb n' m')

  (** val leb : nat -> nat -> bool **)

  let rec leb n m =
    match n with
    | O -> true
    | S n' -> (match m with
               | O -> false
               | S m' -> leb n' m')

  (** val ltb : nat -> nat -> bool **)

  let ltb n m =
    leb (S n) m

  (** val min : nat -> nat -> nat **)

  let rec min n m =
    match n with
    | O -> O
    | S n' -> (match m with
               | O -> O
               | S m' -> S (min n' m'))
 end

module Pos =
 struct
  type mask =
  | IsNul
  | IsPos of positive
  | IsNeg
 end

module Coq_Pos =
 struct
  (** val succ : positive -> positive **)

  let rec succ = function
  | XI p -> XO (succ p)
  | XO p -> XI p
  | XH -> XO XH

  (** val add : positive -> positive -> positive **)

  let rec add x y =
    match x with
    | XI p ->
      (match y with
       | XI q0 -> XO (add_carry p q0)
       | XO q0 -> XI (add p q0)
       | XH -> XO (succ p))
    | XO p ->
      (match y with
       | XI q0 -> XI (add p q0)
       | XO q0 -> XO (add p q0)
       | XH -> XI p)
    | XH -> (match y with
             | XI q0 -> XO (succ q0)
             | XO q0 -> XI q0
             | XH -> XO XH)

  (** val add_carry : positive -> positive -> positive **)

  and add_carry x y =
    match x with
    | XI p ->
      (match y with
       | XI q0 -> XI (add_carry p q0)
       | XO q0 -> XO (add_carry p q0)
       | XH -> XI (succ p))
    | XO p ->
      (match y with
       | XI q0 -> XO (add_carry p q0)
       | XO q0 -> XI (add p q0)
       | XH -> XO (succ p))
    | XH ->
      (match y with
       | XI q0 -> XI (succ q0)
       | XO q0 -> XO (succ q0)
       | XH -> XI XH)

  (** val pred_double : positive -> positive **)

  let rec pred_double = function
  | XI p -> XI (XO p)
  | XO p -> XI (pred_double p)
  | XH -> XH

  type mask = Pos.mask =
  | IsNul
  | IsPos of positive
  | IsNeg

  (** val succ_double_mask : mask -> mask **)

  let succ_double_mask = function
  | IsNul -> IsPos XH
  | IsPos p -> IsPos (XI p)
  | IsNeg -> IsNeg

  (** val double_mask : mask -> mask **)

  let double_mask = function
  | IsPos p -> IsPos (XO p)
  | x0 -> x0

  (** val double_pred_mask : positive -> mask **)

  let double_pred_mask = function
  | XI p -> IsPos (XO (XO p))
  | XO p -> IsPos (XO (pred_double p))
  | XH -> IsNul

  (** val sub_mask : positive -> positive -> mask **)

  let rec sub_mask x y =
    match x with
    | XI p ->
      (match y with
       | XI q0 -> double_mask (sub_mask p q0)
       | XO q0 -> succ_double_mask (sub_mask p q0)
       | XH -> IsPos (XO p))
    | XO p ->
      (match y with
       | XI q0 -> succ_double_mask (sub_mask_carry p q0)
       | XO q0 -> double_mask (sub_mask p q0)
       | XH -> IsPos (pred_double p))
    | XH -> (match y with
             | XH -> IsNul
             | _ -> IsNeg)

  (** val sub_mask_carry : positive -> positive -> mask **)

  and sub_mask_carry x y =
    match x with
    | XI p ->
      (match y with
       | XI q0 -> succ_double_mask (sub_mask_carry p q0)
       | XO q0 -> double_mask (sub_mask p q0)
       | XH -> IsPos (pred_double p))
    | XO p ->
      (match y with
       | XI q0 -> double_mask (sub_mask_carry p q0)
       | XO q0 -> succ_double_mask (sub_mask_carry p q0)
       | XH -> double_pred_mask p)
    | XH -> IsNeg

  (** val sub : positive -> positive -> positive **)

  let sub x y =
    match sub_mask x y with
    | IsPos z0 -> z0
    | _ -> XH

  (** val mul : positive -> positive -> positive **)

  let rec mul x y =
    match x with
    | XI p -> add y (XO (mul p y))
    | XO p -> XO (mul p y)
    | XH -> y

  (** val size_nat : positive -> nat **)

  let rec size_nat = function
  | XI p0 -> S (size_nat p0)
  | XO p0 -> S (size_nat p0)
  | XH -> S O

  (** val compare_cont : comparison -> positive -> positive -> comparison **)

  let rec compare_cont r x y =
    match x with
    | XI p ->
      (match y with
       | XI q0 -> compare_cont r p q0
       | XO q0 -> compare_cont Gt p q0
       | XH -> Gt)
    | XO p ->
      (match y with
       | XI q0 -> compare_cont Lt p q0
       | XO q0 -> compare_cont r p q0
       | XH -> Gt)
    | XH -> (match y with
             | XH -> r
             | _ -> Lt)

  (** val compare : positive -> positive -> comparison **)

  let compare =
    compare_cont Eq

  (** val eqb : positive -> positive -> bool **)

  let rec eqb p q0 =
    match p with
    | XI p0 -> (match q0 with
                | XI q1 -> eqb p0 q1
                | _ -> false)
    | XO p0 -> (match q0 with
                | XO q1 -> eqb p0 q1
                | _ -> false)
    | XH -> (match q0 with
             | XH -> true
             | _ -> false)

  (** val ggcdn :
      nat -> positive -> positive -> positive * (positive * positive) **)

  let rec ggcdn n a b =
    match n with
    | O -> (XH, (a, b))
    | S n0 ->
      (match a with
       | XI a' ->
         (match b with
          | XI b' ->
            (match compare a' b' with
             | Eq -> (a, (XH, XH))
             | Lt ->
               let (g, p) = ggcdn n0 (sub b' a') a in
               let (ba, aa) = p in (g, (aa, (add aa (XO ba))))
             | Gt ->
               let (g, p) = ggcdn n0 (sub a' b') b in
               let (ab, bb) = p in (g, ((add bb (XO ab)), bb)))
          | XO b1 ->
            let (g, p) = ggcdn n0 a b1 in
            let (aa, bb) = p in (g, (aa, (XO bb)))
          | XH -> (XH, (a, XH)))
       | XO a0 ->
         (match b with
          | XI _ ->
            let (g, p) = ggcdn n0 a0 b in
            let (aa, bb) = p in (g, ((XO aa), bb))
          | XO b1 -> let (g, p) = ggcdn n0 a0 b1 in ((XO g), p)
          | XH -> (XH, (a, XH)))
       | XH -> (XH, (XH, b)))

  (** val ggcd : positive -> positive -> positive * (positive * positive) **)

  let ggcd a b =
    ggcdn (Coq__1.add (size_nat a) (size_nat b)) a b

  (** val iter_op : ('a1 -> 'a1 -> 'a1) -> positive -> 'a1 -> 'a1 **)

  let rec iter_op op p a =
    match p with
    | XI p0 -> op a (iter_op op p0 (op a a))
    | XO p0 -> iter_op op p0 (op a a)
    | XH -> a

  (** val to_nat : positive -> nat **)

  let to_nat x =
    iter_op Coq__1.add x (S O)

  (** val of_succ_nat : nat -> positive **)

  let rec of_succ_nat = function
  | O -> XH
  | S x -> succ (of_succ_nat x)
 end

module Z =
 struct
  (** val double : z -> z **)

  let double = function
  | Z0 -> Z0
  | Zpos p -> Zpos (XO p)
  | Zneg p -> Zneg (XO p)

  (** val succ_double : z -> z **)

  let succ_double = function
  | Z0 -> Zpos XH
  | Zpos p -> Zpos (XI p)
  | Zneg p -> Zneg (Coq_Pos.pred_double p)

  (** val pred_double : z -> z **)

  let pred_double = function
  | Z0 -> Zneg XH
  | Zpos p -> Zpos (Coq_Pos.pred_double p)
  | Zneg p -> Zneg (XI p)

  (** val pos_sub : positive -> positive -> z **)

  let rec pos_sub x y =
    match x with
    | XI p ->
      (match y with
       | XI q0 -> double (pos_sub p q0)
       | XO q0 -> succ_double (pos_sub p q0)
       | XH -> Zpos (XO p))
    | XO p ->
      (match y with
       | XI q0 -> pred_double (pos_sub p q0)
       | XO q0 -> double (pos_sub p q0)
       | XH -> Zpos (Coq_Pos.pred_double p))
    | XH ->
      (match y with
       | XI q0 -> Zneg (XO q0)
       | XO q0 -> Zneg (Coq_Pos.pred_double q0)
       | XH -> Z0)

  (** val add : z -> z -> z **)

  let add x y =
    match x with
    | Z0 -> y
    | Zpos x' ->
      (match y with
       | Z0 -> x
       | Zpos y' -> Zpos (Coq_Pos.add x' y')
       | Zneg y' -> pos_sub x' y')
    | Zneg x' ->
      (match y with
       | Z0 -> x
       | Zpos y' -> pos_sub y' x'
       | Zneg y' -> Zneg (Coq_Pos.add x' y'))

  (** val opp : z -> z **)

  let opp = function
  | Z0 -> Z0
  | Zpos x0 -> Zneg x0
  | Zneg x0 -> Zpos x0

  (** val sub : z -> z -> z **)

  let sub m n =
    add m (opp n)

  (** val mul : z -> z -> z **)

  let mul x y =
    match x with
    | Z0 -> Z0
    | Zpos x' ->
      (match y with
       | Z0 -> Z0
       | Zpos y' -> Zpos (Coq_Pos.mul x' y')
       | Zneg y' -> Zneg (Coq_Pos.mul x' y'))
    | Zneg x' ->
      (match y with
       | Z0 -> Z0
       | Zpos y' -> Zneg (Coq_Pos.mul x' y')
       | Zneg y' -> Zpos (Coq_Pos.mul x' y'))

  (** val compare : z -> z -> comparison **)

  let compare x y =
    match x with
    | Z0 -> (match y with
             | Z0 -> Eq
             | Zpos _ -> Lt
             | Zneg _ -> Gt)
    | Zpos x' -> (match y with
                  | Zpos y' -> Coq_Pos.compare x' y'
                  | _ -> Gt)
    | Zneg x' ->
      (match y with
       | Zneg y' -> compOpp (Coq_Pos.compare x' y')
       | _ -> Lt)

  (** val sgn : z -> z **)

  let sgn = function
  | Z0 -> Z0
  | Zpos _ -> Zpos XH
  | Zneg _ -> Zneg XH

  (** val leb : z -> z -> bool **)

  let leb x y =
    match compare x y with
    | Gt -> false
    | _ -> true

  (** val ltb : z -> z -> bool **)

  let ltb x y =
    match compare x y with
    | Lt -> true
    | _ -> false

  (** val eqb : z -> z -> bool **)

  let eqb x y =
    match x with
    | Z0 -> (match y with
             | Z0 -> true
             | _ -> false)
    | Zpos p -> (match y with
                 | Zpos q0 -> Coq_Pos.eqb p q0
                 | _ -> false)
    | Zneg p -> (match y with
                 | Zneg q0 -> Coq_Pos.eqb p q0
                 | _ -> false)

  (** val abs : z -> z **)

  let abs = function
  | Zneg p -> Zpos p
  | x -> x

  (** val to_nat : z -> nat **)

  let to_nat = function
  | Zpos p -> Coq_Pos.to_nat p
  | _ -> O

  (** val of_nat : nat -> z **)

  let of_nat = function
  | O -> Z0
  | S n0 -> Zpos (Coq_Pos.of_succ_nat n0)

  (** val to_pos : z -> positive **)

  let to_pos = function
  | Zpos p -> p
  | _ -> XH

  (** val pos_div_eucl : positive -> z -> z * z **)

  let rec pos_div_eucl a b =
    match a with
    | XI a' ->
      let (q0, r) = pos_div_eucl a' b in
      let r' = add (mul (Zpos (XO XH)) r) (Zpos XH) in
      if ltb r' b
      then ((mul (Zpos (XO XH)) q0), r')
      else ((add (mul (Zpos (XO XH)) q0) (Zpos XH)), (sub r' b))
    | XO a' ->
      let (q0, r) = pos_div_eucl a' b in
      let r' = mul (Zpos (XO XH)) r in
      if ltb r' b
      then ((mul (Zpos (XO XH)) q0), r')
      else ((add (mul (Zpos (XO XH)) q0) (Zpos XH)), (sub r' b))
    | XH -> if leb (Zpos (XO XH)) b then (Z0, (Zpos XH)) else ((Zpos XH), Z0)

  (** val div_eucl : z -> z -> z * z **)

  let div_eucl a b =
    match a with
    | Z0 -> (Z0, Z0)
    | Zpos a' ->
      (match b with
       | Z0 -> (Z0, a)
       | Zpos _ -> pos_div_eucl a' b
       | Zneg b' ->
         let (q0, r) = pos_div_eucl a' (Zpos b') in
         (match r with
          | Z0 -> ((opp q0), Z0)
          | _ -> ((opp (add q0 (Zpos XH))), (add b r))))
    | Zneg a' ->
      (match b with
       | Z0 -> (Z0, a)
       | Zpos _ ->
         let (q0, r) = pos_div_eucl a' b in
         (match r with
          | Z0 -> ((opp q0), Z0)
          | _ -> ((opp (add q0 (Zpos XH))), (sub b r)))
       | Zneg b' -> let (q0, r) = pos_div_eucl a' (Zpos b') in (q0, (opp r)))

  (** val div : z -> z -> z **)

  let div a b =
    let (q0, _) = div_eucl a b in q0

  (** val odd : z -> bool **)

  let odd = function
  | Z0 -> false
  | Zpos p -> (match p with
               | XO _ -> false
               | _ -> true)
  | Zneg p -> (match p with
               | XO _ -> false
               | _ -> true)

  (** val ggcd : z -> z -> z * (z * z) **)

  let ggcd a b =
    match a with
    | Z0 -> ((abs b), (Z0, (sgn b)))
    | Zpos a0 ->
      (match b with
       | Z0 -> ((abs a), ((sgn a), Z0))
       | Zpos b1 ->
         let (g, p) = Coq_Pos.ggcd a0 b1 in
         let (aa, bb) = p in ((Zpos g), ((Zpos aa), (Zpos bb)))
       | Zneg b1 ->
         let (g, p) = Coq_Pos.ggcd a0 b1 in
         let (aa, bb) = p in ((Zpos g), ((Zpos aa), (Zneg bb))))
    | Zneg a0 ->
      (match b with
       | Z0 -> ((abs a), ((sgn a), Z0))
       | Zpos b1 ->
         let (g, p) = Coq_Pos.ggcd a0 b1 in
         let (aa, bb) = p in ((Zpos g), ((Zneg aa), (Zpos bb)))
       | Zneg b1 ->
         let (g, p) = Coq_Pos.ggcd a0 b1 in
         let (aa, bb) = p in ((Zpos g), ((Zneg aa), (Zneg bb))))
 end

(** val nth : nat -> 'a1 list -> 'a1 -> 'a1 **)

let rec nth n l default =
  match n with
  | O -> (match l with
          | [] -> default
          | x :: _ -> x)
  | S m -> (match l with
            | [] -> default
            | _ :: t0 -> nth m t0 default)

(** val last : 'a1 list -> 'a1 -> 'a1 **)

let rec last l d =
  match l with
  | [] -> d
  | a :: l0 -> (match l0 with
                | [] -> a
                | _ :: _ -> last l0 d)

(** val rev : 'a1 list -> 'a1 list **)

let rec rev = function
| [] -> []
| x :: l' -> app (rev l') (x :: [])

(** val map : ('a1 -> 'a2) -> 'a1 list -> 'a2 list **)

let rec map f = function
| [] -> []
| a :: t0 -> (f a) :: (map f t0)

(** val flat_map : ('a1 -> 'a2 list) -> 'a1 list -> 'a2 list **)

let rec flat_map f = function
| [] -> []
| x :: t0 -> app (f x) (flat_map f t0)

(** val fold_left : ('a1 -> 'a2 -> 'a1) -> 'a2 list -> 'a1 -> 'a1 **)

let rec fold_left f l a0 =
  match l with
  | [] -> a0
  | b :: t0 -> fold_left f t0 (f a0 b)

(** val existsb : ('a1 -> bool) -> 'a1 list -> bool **)

let rec existsb f = function
| [] -> false
| a :: l0 -> (||) (f a) (existsb f l0)

(** val forallb : ('a1 -> bool) -> 'a1 list -> bool **)

let rec forallb f = function
| [] -> true
| a :: l0 -> (&&) (f a) (forallb f l0)

(** val filter : ('a1 -> bool) -> 'a1 list -> 'a1 list **)

let rec filter f = function
| [] -> []
| x :: l0 -> if f x then x :: (filter f l0) else filter f l0

(** val find : ('a1 -> bool) -> 'a1 list -> 'a1 option **)

let rec find f = function
| [] -> None
| x :: tl -> if f x then Some x else find f tl

(** val combine : 'a1 list -> 'a2 list -> ('a1 * 'a2) list **)

let rec combine l l' =
  match l with
  | [] -> []
  | x :: tl ->
    (match l' with
     | [] -> []
     | y :: tl' -> (x, y) :: (combine tl tl'))

(** val firstn : nat -> 'a1 list -> 'a1 list **)

let rec firstn n l =
  match n with
  | O -> []
  | S n0 -> (match l with
             | [] -> []
             | a :: l0 -> a :: (firstn n0 l0))

(** val skipn : nat -> 'a1 list -> 'a1 list **)

let rec skipn n l =
  match n with
  | O -> l
  | S n0 -> (match l with
             | [] -> []
             | _ :: l0 -> skipn n0 l0)

(** val seq : nat -> nat -> nat list **)

let rec seq start = function
| O -> []
| S len0 -> start :: (seq (S start) len0)

(** val repeat : 'a1 -> nat -> 'a1 list **)

let rec repeat x = function
| O -> []
| S k -> x :: (repeat x k)

type q = { qnum : z; qden : positive }

(** val inject_Z : z -> q **)

let inject_Z x =
  { qnum = x; qden = XH }

(** val qcompare : q -> q -> comparison **)

let qcompare p q0 =
  Z.compare (Z.mul p.qnum (Zpos q0.qden)) (Z.mul q0.qnum (Zpos p.qden))

(** val qplus : q -> q -> q **)

let qplus x y =
  { qnum = (Z.add (Z.mul x.qnum (Zpos y.qden)) (Z.mul y.qnum (Zpos x.qden)));
    qden = (Coq_Pos.mul x.qden y.qden) }

(** val qmult : q -> q -> q **)

let qmult x y =
  { qnum = (Z.mul x.qnum y.qnum); qden = (Coq_Pos.mul x.qden y.qden) }

(** val qopp : q -> q **)

let qopp x =
  { qnum = (Z.opp x.qnum); qden = x.qden }

(** val qinv : q -> q **)

let qinv x =
  match x.qnum with
  | Z0 -> { qnum = Z0; qden = XH }
  | Zpos p -> { qnum = (Zpos x.qden); qden = p }
  | Zneg p -> { qnum = (Zneg x.qden); qden = p }

(** val qred : q -> q **)

let qred q0 =
  let { qnum = q1; qden = q2 } = q0 in
  let (r1, r2) = snd (Z.ggcd q1 (Zpos q2)) in
  { qnum = r1; qden = (Z.to_pos r2) }

type qc = q
  (* singleton inductive, whose constructor was Qcmake *)

(** val this : qc -> q **)

let this q0 =
  q0

(** val q2Qc : q -> qc **)

let q2Qc =
  qred

(** val qccompare : qc -> qc -> comparison **)

let qccompare p q0 =
  qcompare (this p) (this q0)

(** val qcplus : qc -> qc -> qc **)

let qcplus x y =
  q2Qc (qplus (this x) (this y))

(** val qcmult : qc -> qc -> qc **)

let qcmult x y =
  q2Qc (qmult (this x) (this y))

(** val qcopp : qc -> qc **)

let qcopp x =
  q2Qc (qopp (this x))

(** val qcminus : qc -> qc -> qc **)

let qcminus x y =
  qcplus x (qcopp y)

(** val qcinv : qc -> qc **)

let qcinv x =
  q2Qc (qinv (this x))

(** val qcdiv : qc -> qc -> qc **)

let qcdiv x y =
  qcmult x (qcinv y)

type arith = { add0 : (__ -> __ -> __); sub0 : (__ -> __ -> __);
               mul0 : (__ -> __ -> __); div0 : (__ -> __ -> __);
               opp0 : (__ -> __); zero : __; one : __; ofZ : (z -> __);
               ltb0 : (__ -> __ -> bool); leb0 : (__ -> __ -> bool);
               rnd : (__ -> __) }

type t = __

(** val gtb : arith -> t -> t -> bool **)

let gtb a a0 b =
  a.ltb0 b a0

(** val geb : arith -> t -> t -> bool **)

let geb a a0 b =
  a.leb0 b a0

(** val qc_ltb : qc -> qc -> bool **)

let qc_ltb a b =
  match qccompare a b with
  | Lt -> true
  | _ -> false

(** val qc_leb : qc -> qc -> bool **)

let qc_leb a b =
  match qccompare a b with
  | Gt -> false
  | _ -> true

(** val qcA : arith **)

let qcA =
  { add0 = (Obj.magic qcplus); sub0 = (Obj.magic qcminus); mul0 =
    (Obj.magic qcmult); div0 = (Obj.magic qcdiv); opp0 = (Obj.magic qcopp);
    zero = (Obj.magic q2Qc { qnum = Z0; qden = XH }); one =
    (Obj.magic q2Qc { qnum = (Zpos XH); qden = XH }); ofZ = (fun z0 ->
    Obj.magic q2Qc (inject_Z z0)); ltb0 = (Obj.magic qc_ltb); leb0 =
    (Obj.magic qc_leb); rnd = (fun x -> x) }

(** val bsearch : arith -> (z -> t) -> nat -> t -> z -> z -> z option **)

let rec bsearch a kn fuel x mn mx =
  match fuel with
  | O -> None
  | S f ->
    let c = Z.div (Z.add mx mn) (Zpos (XO XH)) in
    let lt = a.ltb0 x (kn c) in
    let mx' = if lt then Z.sub c (Zpos XH) else mx in
    let mn' = if lt then mn else Z.add c (Zpos XH) in
    if (||) lt (geb a x (kn (Z.add c (Zpos XH))))
    then bsearch a kn f x mn' mx'
    else Some c

type lookup =
| Outside
| Found of z
| NoFuel

(** val search_dim :
    arith -> (z -> t) -> z -> nat -> z -> z -> t -> lookup **)

let search_dim a kn nknots fuel order naxes x =
  if negb ((&&) (gtb a x (kn Z0)) (a.leb0 x (kn (Z.sub nknots (Zpos XH)))))
  then Outside
  else if a.ltb0 x (kn order)
       then Found order
       else if geb a x (kn naxes)
            then Found (Z.sub naxes (Zpos XH))
            else (match bsearch a kn fuel x order
                          (Z.sub nknots (Zpos (XO XH))) with
                  | Some c ->
                    Found (if Z.eqb c naxes then Z.sub c (Zpos XH) else c)
                  | None -> NoFuel)

(** val walk_down : arith -> (z -> t) -> nat -> t -> z -> z **)

let rec walk_down a kn fuel x left =
  match fuel with
  | O -> left
  | S f ->
    if (&&) (Z.leb Z0 left) (a.ltb0 x (kn left))
    then walk_down a kn f x (Z.sub left (Zpos XH))
    else left

(** val walk_up : arith -> (z -> t) -> z -> nat -> t -> z -> z **)

let rec walk_up a kn nknots fuel x left =
  match fuel with
  | O -> left
  | S f ->
    if (&&) (Z.ltb left (Z.sub nknots (Zpos XH)))
         (gtb a x (kn (Z.add left (Zpos XH))))
    then walk_up a kn nknots f x (Z.add left (Zpos XH))
    else left

(** val adjust_left : arith -> (z -> t) -> z -> z -> t -> z -> z **)

let adjust_left a kn nknots n x left =
  let left1 =
    if Z.eqb left n
    then walk_down a kn (Z.to_nat (Z.add left (Zpos XH))) x left
    else left
  in
  if Z.eqb left1 (Z.sub (Z.sub nknots n) (Zpos (XO XH)))
  then walk_up a kn nknots (Z.to_nat (Z.sub (Z.sub nknots (Zpos XH)) left1))
         x left1
  else left1

(** val dr : arith -> (z -> t) -> z -> t -> nat -> t **)

let dr a kn left x i =
  a.sub0 (kn (Z.add (Z.add left (Z.of_nat i)) (Zpos XH))) x

(** val dl : arith -> (z -> t) -> z -> t -> nat -> t **)

let dl a kn left x i =
  a.sub0 x (kn (Z.sub left (Z.of_nat i)))

(** val deboor_inner :
    arith -> (z -> t) -> z -> t -> nat -> nat -> t list -> t -> t list **)

let rec deboor_inner a kn left x j i b saved =
  match b with
  | [] -> (a.rnd saved) :: []
  | bi :: rest ->
    let term =
      a.div0 bi (a.add0 (dr a kn left x i) (dl a kn left x (sub j i)))
    in
    (a.rnd (a.add0 saved (a.mul0 (dr a kn left x i) term))) :: (deboor_inner
                                                                 a kn left x
                                                                 j (S i) rest
                                                                 (a.mul0
                                                                   (dl a kn
                                                                    left x
                                                                    (sub j i))
                                                                   term))

(** val deboor_round :
    arith -> (z -> t) -> z -> t -> nat -> t list -> t list **)

let deboor_round a kn left x j b =
  deboor_inner a kn left x j O b a.zero

(** val deboor_rounds :
    arith -> (z -> t) -> z -> t -> nat -> nat -> t list -> t list **)

let rec deboor_rounds a kn left x jlow count b =
  match count with
  | O -> b
  | S c ->
    deboor_rounds a kn left x (S jlow) c (deboor_round a kn left x jlow b)

(** val rearrange : arith -> nat -> z -> z -> t list -> t list **)

let rearrange a len i_left i_right b =
  if Z.ltb Z0 i_left
  then app (skipn (Z.to_nat i_left) b)
         (repeat a.zero (Nat.min (Z.to_nat i_left) len))
  else if Z.ltb Z0 i_right
       then app (repeat a.zero (Nat.min (Z.to_nat i_right) len))
              (firstn (sub len (Z.to_nat i_right)) b)
       else b

(** val bsplvb_simple : arith -> (z -> t) -> z -> nat -> t -> z -> t list **)

let bsplvb_simple a kn nknots n x left0 =
  let left = adjust_left a kn nknots (Z.of_nat n) x left0 in
  let b = deboor_rounds a kn left x O n ((a.rnd a.one) :: []) in
  rearrange a (S n) (Z.sub (Z.of_nat n) left)
    (Z.sub (Z.add (Z.add left (Z.of_nat n)) (Zpos (XO XH))) nknots) b

(** val kdiff : arith -> (z -> t) -> z -> z -> z -> t **)

let kdiff a kn left n i =
  a.sub0 (kn (Z.add left i)) (kn (Z.sub (Z.add left i) n))

(** val deriv_mid :
    arith -> (z -> t) -> z -> nat -> nat -> t -> t list -> t list **)

let rec deriv_mid a kn left n i temp = function
| [] ->
  (a.rnd
    (a.div0 (a.mul0 (a.ofZ (Z.of_nat n)) temp)
      (kdiff a kn left (Z.of_nat n) (Z.of_nat n)))) :: []
| vi :: rest ->
  let a0 =
    a.div0 (a.mul0 (a.ofZ (Z.of_nat n)) temp)
      (kdiff a kn left (Z.of_nat n) (Z.of_nat i))
  in
  (a.rnd
    (a.sub0 a0
      (a.div0 (a.mul0 (a.ofZ (Z.of_nat n)) vi)
        (kdiff a kn left (Z.of_nat n) (Z.add (Z.of_nat i) (Zpos XH)))))) :: 
  (deriv_mid a kn left n (S i) vi rest)

(** val deriv_combine : arith -> (z -> t) -> z -> nat -> t list -> t list **)

let deriv_combine a kn left n = function
| [] -> []
| v0 :: rest ->
  (a.rnd
    (a.div0 (a.opp0 (a.mul0 (a.ofZ (Z.of_nat n)) v0))
      (kdiff a kn left (Z.of_nat n) (Zpos XH)))) :: (deriv_mid a kn left n (S
                                                      O) v0 rest)

(** val bspline_deriv_nonzero :
    arith -> (z -> t) -> z -> nat -> t -> z -> t list **)

let bspline_deriv_nonzero a kn nknots n x left0 =
  match n with
  | O -> a.zero :: []
  | S n1 ->
    let left = adjust_left a kn nknots (Z.of_nat n) x left0 in
    let v = deboor_rounds a kn left x O n1 ((a.rnd a.one) :: []) in
    rearrange a (S n) (Z.sub (Z.of_nat n) left)
      (Z.sub (Z.add (Z.add left (Z.of_nat n)) (Zpos (XO XH))) nknots)
      (deriv_combine a kn left n v)

(** val bspline_nonzero :
    arith -> (z -> t) -> z -> nat -> t -> z -> t list * t list **)

let bspline_nonzero a kn nknots n x left0 =
  match n with
  | O -> (((a.rnd a.one) :: []), (a.zero :: []))
  | S n1 ->
    let left = adjust_left a kn nknots (Z.of_nat n) x left0 in
    let v = deboor_rounds a kn left x O n1 ((a.rnd a.one) :: []) in
    let d = deriv_combine a kn left n v in
    let vals = deboor_rounds a kn left x n1 (S O) v in
    let il = Z.sub (Z.of_nat n) left in
    let ir = Z.sub (Z.add (Z.add left (Z.of_nat n)) (Zpos (XO XH))) nknots in
    ((rearrange a (S n) il ir vals), (rearrange a (S n) il ir d))

(** val bspline : arith -> (z -> t) -> nat -> t -> z -> t **)

let rec bspline a kn n x i =
  match n with
  | O ->
    if (&&) (geb a x (kn i)) (a.ltb0 x (kn (Z.add i (Zpos XH))))
    then a.one
    else a.zero
  | S n1 ->
    let nz = Z.of_nat n in
    a.add0
      (a.div0 (a.mul0 (a.sub0 x (kn i)) (bspline a kn n1 x i))
        (a.sub0 (kn (Z.add i nz)) (kn i)))
      (a.div0
        (a.mul0 (a.sub0 (kn (Z.add (Z.add i nz) (Zpos XH))) x)
          (bspline a kn n1 x (Z.add i (Zpos XH))))
        (a.sub0 (kn (Z.add (Z.add i nz) (Zpos XH))) (kn (Z.add i (Zpos XH)))))

(** val bspline_deriv : arith -> (z -> t) -> nat -> t -> z -> nat -> t **)

let rec bspline_deriv a kn n x i order =
  match n with
  | O -> a.zero
  | S n1 ->
    let nz = Z.of_nat n in
    let d1 = a.sub0 (kn (Z.add i nz)) (kn i) in
    let d2 =
      a.sub0 (kn (Z.add (Z.add i nz) (Zpos XH))) (kn (Z.add i (Zpos XH)))
    in
    (match order with
     | O ->
       a.sub0 (a.div0 (a.mul0 (a.ofZ nz) (bspline a kn n1 x i)) d1)
         (a.div0 (a.mul0 (a.ofZ nz) (bspline a kn n1 x (Z.add i (Zpos XH))))
           d2)
     | S o1 ->
       (match o1 with
        | O ->
          a.sub0 (a.div0 (a.mul0 (a.ofZ nz) (bspline a kn n1 x i)) d1)
            (a.div0
              (a.mul0 (a.ofZ nz) (bspline a kn n1 x (Z.add i (Zpos XH)))) d2)
        | S _ ->
          a.sub0
            (a.div0 (a.mul0 (a.ofZ nz) (bspline_deriv a kn n1 x i o1)) d1)
            (a.div0
              (a.mul0 (a.ofZ nz)
                (bspline_deriv a kn n1 x (Z.add i (Zpos XH)) o1)) d2)))

type dimn = { d_order : nat; d_nknots : z; d_naxes : z; d_stride : z;
              d_kn : (z -> t) }

type table = { dims : dimn list; coef : (z -> t) }

(** val fuel_of : arith -> dimn -> nat **)

let fuel_of _ d =
  S (Z.to_nat d.d_nknots)

type centers_result =
| COutside
| CFound of z list
| CNoFuel

(** val searchcenters_dims :
    arith -> dimn list -> t list -> centers_result **)

let rec searchcenters_dims a ds xs =
  match ds with
  | [] -> CFound []
  | d :: ds' ->
    (match xs with
     | [] -> CFound []
     | x :: xs' ->
       (match search_dim a d.d_kn d.d_nknots (fuel_of a d)
                (Z.of_nat d.d_order) d.d_naxes x with
        | Outside -> COutside
        | Found c ->
          (match searchcenters_dims a ds' xs' with
           | CFound cs -> CFound (c :: cs)
           | x0 -> x0)
        | NoFuel -> CNoFuel))

(** val searchcenters : arith -> table -> t list -> centers_result **)

let searchcenters a t0 xs =
  searchcenters_dims a t0.dims xs

(** val localbasis_val : arith -> dimn -> t -> z -> t list **)

let localbasis_val a d x c =
  bsplvb_simple a d.d_kn d.d_nknots d.d_order x c

(** val localbasis_der : arith -> dimn -> t -> z -> t list **)

let localbasis_der a d x c =
  bspline_deriv_nonzero a d.d_kn d.d_nknots d.d_order x c

(** val localbases_mask :
    arith -> dimn list -> t list -> z list -> z -> t list list **)

let rec localbases_mask a ds xs cs mask0 =
  match ds with
  | [] -> []
  | d :: ds' ->
    (match xs with
     | [] -> []
     | x :: xs' ->
       (match cs with
        | [] -> []
        | c :: cs' ->
          (if Z.odd mask0
           then localbasis_der a d x c
           else localbasis_val a d x c) :: (localbases_mask a ds' xs' cs'
                                             (Z.div mask0 (Zpos (XO XH))))))

(** val localbasis_derivk : arith -> dimn -> t -> z -> nat -> t list **)

let localbasis_derivk a d x c k = match k with
| O -> localbasis_val a d x c
| S n ->
  (match n with
   | O -> localbasis_der a d x c
   | S _ ->
     map (fun i ->
       a.rnd
         (bspline_deriv a d.d_kn d.d_order x
           (Z.add (Z.sub c (Z.of_nat d.d_order)) (Z.of_nat i)) k))
       (seq O (S d.d_order)))

(** val localbases_derivk :
    arith -> dimn list -> t list -> z list -> nat list -> t list list **)

let rec localbases_derivk a ds xs cs ks =
  match ds with
  | [] -> []
  | d :: ds' ->
    (match xs with
     | [] -> []
     | x :: xs' ->
       (match cs with
        | [] -> []
        | c :: cs' ->
          (match ks with
           | [] -> []
           | k :: ks' ->
             (localbasis_derivk a d x c k) :: (localbases_derivk a ds' xs'
                                                cs' ks'))))

(** val chunk : arith -> (z -> t) -> t -> t list -> z -> t -> t **)

let rec chunk a cf bt lb pos res =
  match lb with
  | [] -> res
  | l :: r ->
    chunk a cf bt r (Z.add pos (Zpos XH))
      (a.rnd (a.add0 res (a.rnd (a.mul0 (a.rnd (a.mul0 bt l)) (cf pos)))))

type digit = (nat * z) * nat

(** val odo_incr : digit list -> digit list * z **)

let rec odo_incr = function
| [] -> ([], Z0)
| d :: rest ->
  let (p0, p) = d in
  let (o, s) = p0 in
  if Nat.ltb o (S p)
  then let (rest', dpos) = odo_incr rest in
       ((((o, s), O) :: rest'),
       (Z.sub (Z.add s dpos) (Z.mul (Z.of_nat (S p)) s)))
  else ((((o, s), (S p)) :: rest), s)

(** val digit_pos : digit -> nat **)

let digit_pos =
  snd

(** val bt_of : arith -> t list list -> nat list -> t **)

let bt_of a lbs dp =
  fold_left (fun acc lp -> a.rnd (a.mul0 acc (nth (snd lp) (fst lp) a.zero)))
    (combine lbs dp) (a.rnd a.one)

(** val core_loop :
    arith -> (z -> t) -> nat -> t list list -> t list -> digit list -> z -> t
    -> t **)

let rec core_loop a cf fuel lbs lb_last rd pos res =
  match fuel with
  | O -> res
  | S f ->
    let res' =
      chunk a cf (bt_of a lbs (rev (map digit_pos rd))) lb_last pos res
    in
    (match f with
     | O -> res'
     | S _ ->
       let (rd', dpos) = odo_incr rd in
       core_loop a cf f lbs lb_last rd' (Z.add pos dpos) res')

(** val core_loop_peeled :
    arith -> (z -> t) -> nat -> t list list -> t list -> digit list -> z -> t
    -> t **)

let rec core_loop_peeled a cf k lbs lb_last rd pos res =
  match k with
  | O -> chunk a cf (bt_of a lbs (rev (map digit_pos rd))) lb_last pos res
  | S k' ->
    let res' =
      chunk a cf (bt_of a lbs (rev (map digit_pos rd))) lb_last pos res
    in
    let (rd', dpos) = odo_incr rd in
    core_loop_peeled a cf k' lbs lb_last rd' (Z.add pos dpos) res'

(** val init_pos : nat list -> z list -> z list -> z **)

let rec init_pos opos strides centers =
  match opos with
  | [] -> Z0
  | o :: os ->
    (match strides with
     | [] -> Z0
     | s :: ss ->
       (match centers with
        | [] -> Z0
        | c :: cs ->
          Z.add (Z.mul (Z.sub c (Z.of_nat o)) s) (init_pos os ss cs)))

(** val nchunks_of : nat list -> nat **)

let nchunks_of ochunks =
  fold_left (fun acc o -> mul acc (S o)) ochunks (S O)

(** val core_run :
    arith -> (z -> t) -> bool -> nat -> nat list -> nat list -> nat list ->
    nat -> z list -> z list -> t list list -> t **)

let core_run a cf peeled d opos ochunks ocarry chunklen strides centers lbs =
  let pos = init_pos (firstn d opos) (firstn d strides) (firstn d centers) in
  let rd =
    rev
      (combine
        (combine (firstn (sub d (S O)) ocarry) (firstn (sub d (S O)) strides))
        (repeat O (sub d (S O))))
  in
  let lb_last = firstn chunklen (nth (sub d (S O)) lbs []) in
  let lbs' = firstn (sub d (S O)) lbs in
  let nch = nchunks_of (firstn (sub d (S O)) ochunks) in
  if peeled
  then core_loop_peeled a cf (sub nch (S O)) lbs' lb_last rd pos a.zero
  else core_loop a cf nch lbs' lb_last rd pos a.zero

(** val orders_of : arith -> table -> nat list **)

let orders_of _ t0 =
  map (fun d -> d.d_order) t0.dims

(** val strides_of : arith -> table -> z list **)

let strides_of _ t0 =
  map (fun d -> d.d_stride) t0.dims

(** val ndim_of : arith -> table -> nat **)

let ndim_of _ t0 =
  length t0.dims

(** val core_generic : arith -> table -> z list -> t list list -> t **)

let core_generic a t0 cs lbs =
  let os = orders_of a t0 in
  core_run a t0.coef false (ndim_of a t0) os os os (S (last os O))
    (strides_of a t0) cs lbs

(** val core_D : arith -> nat -> table -> z list -> t list list -> t **)

let core_D a d t0 cs lbs =
  let os = orders_of a t0 in
  core_run a t0.coef true d os os os (S (nth (sub d (S O)) os O))
    (strides_of a t0) cs lbs

(** val core_Fixed :
    arith -> nat -> nat -> table -> z list -> t list list -> t **)

let core_Fixed a d o t0 cs lbs =
  let os = repeat o d in
  core_run a t0.coef true d os os os (S o) (strides_of a t0) cs lbs

(** val core_Known :
    arith -> nat list -> table -> z list -> t list list -> t **)

let core_Known a os t0 cs lbs =
  let os0 = orders_of a t0 in
  core_run a t0.coef true (length os) os0 os os0 (S (last os O))
    (strides_of a t0) cs lbs

(** val ndsplineeval : arith -> table -> t list -> z list -> z -> t **)

let ndsplineeval a t0 xs cs mask0 =
  core_generic a t0 cs (localbases_mask a t0.dims xs cs mask0)

(** val ndsplineeval_deriv :
    arith -> table -> t list -> z list -> nat list -> t **)

let ndsplineeval_deriv a t0 xs cs ks =
  core_generic a t0 cs (localbases_derivk a t0.dims xs cs ks)

(** val call_operator : arith -> table -> t list -> t **)

let call_operator a t0 xs =
  match searchcenters a t0 xs with
  | CFound cs -> ndsplineeval a t0 xs cs Z0
  | _ -> a.zero

(** val nonzero_bases :
    arith -> table -> t list -> z list -> (t list * t list) list **)

let nonzero_bases a t0 xs cs =
  map (fun dxc ->
    bspline_nonzero a (fst (fst dxc)).d_kn (fst (fst dxc)).d_nknots
      (fst (fst dxc)).d_order (snd (fst dxc)) (snd dxc))
    (combine (combine t0.dims xs) cs)

(** val lane_bases : arith -> (t list * t list) list -> nat -> t list list **)

let lane_bases _ vb lane =
  map (fun nb ->
    if Nat.eqb lane (S (fst nb)) then snd (snd nb) else fst (snd nb))
    (combine (seq O (length vb)) vb)

(** val ndsplineeval_gradient :
    arith -> table -> t list -> z list -> t list **)

let ndsplineeval_gradient a t0 xs cs =
  let vb = nonzero_bases a t0 xs cs in
  map (fun lane -> core_generic a t0 cs (lane_bases a vb lane))
    (seq O (S (ndim_of a t0)))

(** val eqbK : arith -> t -> t -> bool **)

let eqbK a a0 b =
  (&&) (a.leb0 a0 b) (a.leb0 b a0)

(** val wdiv : arith -> t -> t -> t **)

let wdiv a a0 b =
  if eqbK a b a.zero then a.zero else a.div0 a0 b

(** val b0 : arith -> (z -> t) -> bool -> z -> t -> t **)

let b0 a kn side i x =
  if side
  then if (&&) (a.leb0 (kn i) x) (a.ltb0 x (kn (Z.add i (Zpos XH))))
       then a.one
       else a.zero
  else if (&&) (a.ltb0 (kn i) x) (a.leb0 x (kn (Z.add i (Zpos XH))))
       then a.one
       else a.zero

(** val bfun : arith -> (z -> t) -> bool -> nat -> z -> t -> t **)

let rec bfun a kn side n i x =
  match n with
  | O -> b0 a kn side i x
  | S n1 ->
    let nz = Z.of_nat n in
    a.add0
      (a.mul0 (wdiv a (a.sub0 x (kn i)) (a.sub0 (kn (Z.add i nz)) (kn i)))
        (bfun a kn side n1 i x))
      (a.mul0
        (wdiv a (a.sub0 (kn (Z.add (Z.add i nz) (Zpos XH))) x)
          (a.sub0 (kn (Z.add (Z.add i nz) (Zpos XH)))
            (kn (Z.add i (Zpos XH)))))
        (bfun a kn side n1 (Z.add i (Zpos XH)) x))

(** val dBfun : arith -> (z -> t) -> bool -> nat -> nat -> z -> t -> t **)

let rec dBfun a kn side k n i x =
  match k with
  | O -> bfun a kn side n i x
  | S k1 ->
    (match n with
     | O -> a.zero
     | S n1 ->
       let nz = Z.of_nat n in
       a.mul0 (a.ofZ nz)
         (a.sub0
           (wdiv a (dBfun a kn side k1 n1 i x)
             (a.sub0 (kn (Z.add i nz)) (kn i)))
           (wdiv a (dBfun a kn side k1 n1 (Z.add i (Zpos XH)) x)
             (a.sub0 (kn (Z.add (Z.add i nz) (Zpos XH)))
               (kn (Z.add i (Zpos XH)))))))

(** val side_of : arith -> dimn -> t -> bool **)

let side_of a d x =
  a.ltb0 x (d.d_kn d.d_naxes)

(** val sum_range : arith -> (z -> t) -> z -> nat -> t **)

let rec sum_range a f i = function
| O -> a.zero
| S c -> a.add0 (f i) (sum_range a f (Z.add i (Zpos XH)) c)

(** val tensor_sum :
    arith -> (z -> t) -> dimn list -> t list -> nat list -> z -> t -> t **)

let rec tensor_sum a cf ds xs ks pos pr =
  match ds with
  | [] -> a.mul0 pr (cf pos)
  | d :: ds' ->
    (match xs with
     | [] -> a.mul0 pr (cf pos)
     | x :: xs' ->
       (match ks with
        | [] -> a.mul0 pr (cf pos)
        | k :: ks' ->
          sum_range a (fun i ->
            let b = dBfun a d.d_kn (side_of a d x) k d.d_order i x in
            if eqbK a b a.zero
            then a.zero
            else tensor_sum a cf ds' xs' ks' (Z.add pos (Z.mul i d.d_stride))
                   (a.mul0 pr b)) Z0 (Z.to_nat d.d_naxes)))

(** val spline_spec : arith -> table -> t list -> nat list -> t **)

let spline_spec a t0 xs ks =
  tensor_sum a t0.coef t0.dims xs ks Z0 a.one

(** val absK : arith -> t -> t **)

let absK a a0 =
  if a.ltb0 a0 a.zero then a.opp0 a0 else a0

(** val dBabs : arith -> (z -> t) -> bool -> nat -> nat -> z -> t -> t **)

let rec dBabs a kn side k n i x =
  match k with
  | O -> absK a (bfun a kn side n i x)
  | S k1 ->
    (match n with
     | O -> a.zero
     | S n1 ->
       let nz = Z.of_nat n in
       a.mul0 (a.ofZ nz)
         (a.add0
           (wdiv a (dBabs a kn side k1 n1 i x)
             (absK a (a.sub0 (kn (Z.add i nz)) (kn i))))
           (wdiv a (dBabs a kn side k1 n1 (Z.add i (Zpos XH)) x)
             (absK a
               (a.sub0 (kn (Z.add (Z.add i nz) (Zpos XH)))
                 (kn (Z.add i (Zpos XH))))))))

(** val tensor_abs :
    arith -> (z -> t) -> dimn list -> t list -> nat list -> z -> t -> t **)

let rec tensor_abs a cf ds xs ks pos pr =
  match ds with
  | [] -> a.mul0 pr (absK a (cf pos))
  | d :: ds' ->
    (match xs with
     | [] -> a.mul0 pr (absK a (cf pos))
     | x :: xs' ->
       (match ks with
        | [] -> a.mul0 pr (absK a (cf pos))
        | k :: ks' ->
          sum_range a (fun i ->
            let b = dBabs a d.d_kn (side_of a d x) k d.d_order i x in
            if eqbK a b a.zero
            then a.zero
            else tensor_abs a cf ds' xs' ks' (Z.add pos (Z.mul i d.d_stride))
                   (a.mul0 pr b)) Z0 (Z.to_nat d.d_naxes)))

(** val spline_abs : arith -> table -> t list -> nat list -> t **)

let spline_abs a t0 xs ks =
  tensor_abs a t0.coef t0.dims xs ks Z0 a.one

type variant =
| VGeneric
| VD of nat
| VFixed of nat * nat
| VKnown of nat list

type dcase = { dc_templ : bool; dc_corder : nat option; dc_ndim : nat option;
               dc_ev : variant; dc_vev : variant }

type dknown = { dk_templ : bool; dk_orders : nat list; dk_ev : variant;
                dk_vev : variant }

(** val dispatch_cases : dcase list **)

let dispatch_cases =
  { dc_templ = true; dc_corder = (Some (S (S O))); dc_ndim = (Some (S O));
    dc_ev = (VFixed ((S O), (S (S O)))); dc_vev = (VFixed ((S O), (S (S
    O)))) } :: ({ dc_templ = true; dc_corder = (Some (S (S O))); dc_ndim =
    (Some (S (S O))); dc_ev = (VFixed ((S (S O)), (S (S O)))); dc_vev =
    (VFixed ((S (S O)), (S (S O)))) } :: ({ dc_templ = true; dc_corder =
    (Some (S (S O))); dc_ndim = (Some (S (S (S O)))); dc_ev = (VFixed ((S (S
    (S O))), (S (S O)))); dc_vev = (VFixed ((S (S (S O))), (S (S
    O)))) } :: ({ dc_templ = true; dc_corder = (Some (S (S O))); dc_ndim =
    (Some (S (S (S (S O))))); dc_ev = (VFixed ((S (S (S (S O)))), (S (S
    O)))); dc_vev = (VFixed ((S (S (S (S O)))), (S (S
    O)))) } :: ({ dc_templ = true; dc_corder = (Some (S (S O))); dc_ndim =
    (Some (S (S (S (S (S O)))))); dc_ev = (VFixed ((S (S (S (S (S O))))), (S
    (S O)))); dc_vev = (VFixed ((S (S (S (S (S O))))), (S (S
    O)))) } :: ({ dc_templ = true; dc_corder = (Some (S (S O))); dc_ndim =
    (Some (S (S (S (S (S (S O))))))); dc_ev = (VFixed ((S (S (S (S (S (S
    O)))))), (S (S O)))); dc_vev = (VFixed ((S (S (S (S (S (S O)))))), (S (S
    O)))) } :: ({ dc_templ = true; dc_corder = (Some (S (S O))); dc_ndim =
    (Some (S (S (S (S (S (S (S O)))))))); dc_ev = (VFixed ((S (S (S (S (S (S
    (S O))))))), (S (S O)))); dc_vev = (VFixed ((S (S (S (S (S (S (S
    O))))))), (S (S O)))) } :: ({ dc_templ = true; dc_corder = (Some (S (S
    O))); dc_ndim = (Some (S (S (S (S (S (S (S (S O))))))))); dc_ev = (VFixed
    ((S (S (S (S (S (S (S (S O)))))))), (S (S O)))); dc_vev = (VFixed ((S (S
    (S (S (S (S (S (S O)))))))), (S (S O)))) } :: ({ dc_templ = true;
    dc_corder = (Some (S (S O))); dc_ndim = None; dc_ev = VGeneric; dc_vev =
    VGeneric } :: ({ dc_templ = true; dc_corder = (Some (S (S (S O))));
    dc_ndim = (Some (S O)); dc_ev = (VFixed ((S O), (S (S (S O))))); dc_vev =
    (VFixed ((S O), (S (S (S O))))) } :: ({ dc_templ = true; dc_corder =
    (Some (S (S (S O)))); dc_ndim = (Some (S (S O))); dc_ev = (VFixed ((S (S
    O)), (S (S (S O))))); dc_vev = (VFixed ((S (S O)), (S (S (S
    O))))) } :: ({ dc_templ = true; dc_corder = (Some (S (S (S O))));
    dc_ndim = (Some (S (S (S O)))); dc_ev = (VFixed ((S (S (S O))), (S (S (S
    O))))); dc_vev = (VFixed ((S (S (S O))), (S (S (S
    O))))) } :: ({ dc_templ = true; dc_corder = (Some (S (S (S O))));
    dc_ndim = (Some (S (S (S (S O))))); dc_ev = (VFixed ((S (S (S (S O)))),
    (S (S (S O))))); dc_vev = (VFixed ((S (S (S (S O)))), (S (S (S
    O))))) } :: ({ dc_templ = true; dc_corder = (Some (S (S (S O))));
    dc_ndim = (Some (S (S (S (S (S O)))))); dc_ev = (VFixed ((S (S (S (S (S
    O))))), (S (S (S O))))); dc_vev = (VFixed ((S (S (S (S (S O))))), (S (S
    (S O))))) } :: ({ dc_templ = true; dc_corder = (Some (S (S (S O))));
    dc_ndim = (Some (S (S (S (S (S (S O))))))); dc_ev = (VFixed ((S (S (S (S
    (S (S O)))))), (S (S (S O))))); dc_vev = (VFixed ((S (S (S (S (S (S
    O)))))), (S (S (S O))))) } :: ({ dc_templ = true; dc_corder = (Some (S (S
    (S O)))); dc_ndim = (Some (S (S (S (S (S (S (S O)))))))); dc_ev = (VFixed
    ((S (S (S (S (S (S (S O))))))), (S (S (S O))))); dc_vev = (VFixed ((S (S
    (S (S (S (S (S O))))))), (S (S (S O))))) } :: ({ dc_templ = true;
    dc_corder = (Some (S (S (S O)))); dc_ndim = (Some (S (S (S (S (S (S (S (S
    O))))))))); dc_ev = (VFixed ((S (S (S (S (S (S (S (S O)))))))), (S (S (S
    O))))); dc_vev = (VFixed ((S (S (S (S (S (S (S (S O)))))))), (S (S (S
    O))))) } :: ({ dc_templ = true; dc_corder = (Some (S (S (S O))));
    dc_ndim = None; dc_ev = VGeneric; dc_vev = VGeneric } :: ({ dc_templ =
    true; dc_corder = None; dc_ndim = (Some (S O)); dc_ev = (VD (S O));
    dc_vev = (VD (S O)) } :: ({ dc_templ = true; dc_corder = None; dc_ndim =
    (Some (S (S O))); dc_ev = (VD (S (S O))); dc_vev = (VD (S (S
    O))) } :: ({ dc_templ = true; dc_corder = None; dc_ndim = (Some (S (S (S
    O)))); dc_ev = (VD (S (S (S O)))); dc_vev = (VD (S (S (S
    O)))) } :: ({ dc_templ = true; dc_corder = None; dc_ndim = (Some (S (S (S
    (S O))))); dc_ev = (VD (S (S (S (S O))))); dc_vev = (VD (S (S (S (S
    O))))) } :: ({ dc_templ = true; dc_corder = None; dc_ndim = (Some (S (S
    (S (S (S O)))))); dc_ev = (VD (S (S (S (S (S O)))))); dc_vev = (VD (S (S
    (S (S (S O)))))) } :: ({ dc_templ = true; dc_corder = None; dc_ndim =
    (Some (S (S (S (S (S (S O))))))); dc_ev = (VD (S (S (S (S (S (S O)))))));
    dc_vev = (VD (S (S (S (S (S (S O))))))) } :: ({ dc_templ = true;
    dc_corder = None; dc_ndim = (Some (S (S (S (S (S (S (S O)))))))); dc_ev =
    (VD (S (S (S (S (S (S (S O)))))))); dc_vev = (VD (S (S (S (S (S (S (S
    O)))))))) } :: ({ dc_templ = true; dc_corder = None; dc_ndim = (Some (S
    (S (S (S (S (S (S (S O))))))))); dc_ev = (VD (S (S (S (S (S (S (S (S
    O))))))))); dc_vev = (VD (S (S (S (S (S (S (S (S
    O))))))))) } :: ({ dc_templ = false; dc_corder = None; dc_ndim = None;
    dc_ev = VGeneric; dc_vev = VGeneric } :: []))))))))))))))))))))))))))

(** val dispatch_known : dknown list **)

let dispatch_known =
  { dk_templ = true; dk_orders = ((S (S O)) :: ((S (S O)) :: ((S (S
    O)) :: ((S (S (S O))) :: ((S (S O)) :: ((S (S O)) :: [])))))); dk_ev =
    (VKnown ((S (S O)) :: ((S (S O)) :: ((S (S O)) :: ((S (S (S O))) :: ((S
    (S O)) :: ((S (S O)) :: []))))))); dk_vev = (VKnown ((S (S O)) :: ((S (S
    O)) :: ((S (S O)) :: ((S (S (S O))) :: ((S (S O)) :: ((S (S
    O)) :: []))))))) } :: ({ dk_templ = true; dk_orders = ((S (S O)) :: ((S
    (S O)) :: ((S (S O)) :: ((S (S (S (S (S O))))) :: ((S (S O)) :: ((S (S
    O)) :: [])))))); dk_ev = (VKnown ((S (S O)) :: ((S (S O)) :: ((S (S
    O)) :: ((S (S (S (S (S O))))) :: ((S (S O)) :: ((S (S O)) :: [])))))));
    dk_vev = (VKnown ((S (S O)) :: ((S (S O)) :: ((S (S O)) :: ((S (S (S (S
    (S O))))) :: ((S (S O)) :: ((S (S O)) :: []))))))) } :: [])

(** val mAXDIM : nat **)

let mAXDIM =
  S (S (S (S (S (S (S (S O)))))))

(** val const_order : nat list -> nat **)

let const_order = function
| [] -> O
| o :: rest -> if forallb (Nat.eqb o) rest then o else O

(** val active : bool -> bool -> bool **)

let active templates c_templ =
  (||) templates (negb c_templ)

(** val label_is : nat option -> nat -> bool **)

let label_is l n =
  match l with
  | Some k -> Nat.eqb k n
  | None -> false

(** val is_default : nat option -> bool **)

let is_default = function
| Some _ -> false
| None -> true

(** val outer_labels : bool -> nat list **)

let outer_labels templates =
  flat_map (fun c ->
    match c.dc_corder with
    | Some k -> if active templates c.dc_templ then k :: [] else []
    | None -> []) dispatch_cases

(** val outer_choice : bool -> nat -> nat option **)

let outer_choice templates co =
  if existsb (Nat.eqb co) (outer_labels templates) then Some co else None

(** val same_outer : nat option -> nat option -> bool **)

let same_outer a b =
  match a with
  | Some x -> (match b with
               | Some y -> Nat.eqb x y
               | None -> false)
  | None -> (match b with
             | Some _ -> false
             | None -> true)

(** val select_case : bool -> nat list -> dcase option **)

let select_case templates os =
  let oc = outer_choice templates (const_order os) in
  let inner = filter (fun c -> same_outer c.dc_corder oc) dispatch_cases in
  (match find (fun c ->
           (&&) (active templates c.dc_templ) (label_is c.dc_ndim (length os)))
           inner with
   | Some c -> Some c
   | None ->
     find (fun c ->
       (&&) (active templates c.dc_templ) (is_default c.dc_ndim)) inner)

(** val orders_are : nat list -> nat list -> bool **)

let orders_are os guard =
  (&&) (Nat.eqb (length guard) (length os))
    (forallb (fun p -> Nat.eqb (fst p) (snd p)) (combine os guard))

(** val select_known : bool -> nat list -> dknown option **)

let select_known templates os =
  find (fun k ->
    (&&) (active templates k.dk_templ) (orders_are os k.dk_orders))
    dispatch_known

(** val select : bool -> nat list -> (variant * variant) option **)

let select templates os =
  match select_known templates os with
  | Some k -> Some (k.dk_ev, k.dk_vev)
  | None ->
    (match select_case templates os with
     | Some c -> Some (c.dc_ev, c.dc_vev)
     | None -> None)

(** val run_variant :
    arith -> variant -> table -> z list -> t list list -> t **)

let run_variant a v t0 cs lbs =
  match v with
  | VGeneric -> core_generic a t0 cs lbs
  | VD d -> core_D a d t0 cs lbs
  | VFixed (d, o) -> core_Fixed a d o t0 cs lbs
  | VKnown os -> core_Known a os t0 cs lbs

(** val run_variant_multi :
    arith -> variant -> table -> z list -> t list list -> t **)

let run_variant_multi a v t0 cs lbs =
  let os = orders_of a t0 in
  (match v with
   | VGeneric -> core_generic a t0 cs lbs
   | VD d ->
     core_run a t0.coef false d os os os (S (nth (sub d (S O)) os O))
       (strides_of a t0) cs lbs
   | VFixed (d, o) ->
     let fo = repeat o d in
     core_run a t0.coef false d fo fo fo (S o) (strides_of a t0) cs lbs
   | VKnown os0 ->
     core_run a t0.coef false (length os0) os os0 os (S (last os0 O))
       (strides_of a t0) cs lbs)

(** val ev_ndsplineeval :
    arith -> variant -> table -> t list -> z list -> z -> t **)

let ev_ndsplineeval a v t0 xs cs mask0 =
  run_variant a v t0 cs (localbases_mask a t0.dims xs cs mask0)

(** val ev_ndsplineeval_deriv :
    arith -> variant -> table -> t list -> z list -> nat list -> t **)

let ev_ndsplineeval_deriv a v t0 xs cs ks =
  run_variant a v t0 cs (localbases_derivk a t0.dims xs cs ks)

(** val ev_gradient :
    arith -> variant -> table -> t list -> z list -> t list **)

let ev_gradient a v t0 xs cs =
  let vb = nonzero_bases a t0 xs cs in
  map (fun lane -> run_variant_multi a v t0 cs (lane_bases a vb lane))
    (seq O (S (ndim_of a t0)))
