(* Extraction of the monotone-fit back-transformation model (C10). ExtrOcamlBasic only. *)
From Coq Require Import ExtrOcamlBasic.
From PS Require Import Arith MonoModel.
Extraction "monomodel.ml" glam_backtransform flat_loop QcA.
