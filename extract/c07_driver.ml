(* c07_driver.ml — runs the extracted C07 reader model.
     c07_driver read <list>        lines "id fitsfile outdump": bytes -> read_bytes_checked / read_bytes_unchecked.
                                   outdump: "ACCEPT" + table dump | "REJECT <err>" | "INVALID <check>"   (checked reader)
                                   stdout : "id checked=<..> mem=<..> unchecked=<..> safe=<0|1|NA> tail=<err|none>"  (safe = safe_table of the table the
                                   UNCHECKED reader returns)
     c07_driver witnesses <dir>    writes every refutation witness document of C07_Witness.v, encoded, to <dir>/<name>.fits
     c07_driver checks             prints the translated check list and has_required *)
open C07model

let rec pos_of_int64 (x:int64) : positive =
  let rest = Int64.shift_right_logical x 1 in
  if rest = 0L then XH else if Int64.logand x 1L = 1L then XI (pos_of_int64 rest) else XO (pos_of_int64 rest)
let n_of_int64 (x:int64) : n = if x = 0L then N0 else Npos (pos_of_int64 x)
let n_of_int (x:int) : n = n_of_int64 (Int64.of_int x)
let rec int64_of_pos = function XH -> 1L | XO p -> Int64.shift_left (int64_of_pos p) 1
  | XI p -> Int64.logor (Int64.shift_left (int64_of_pos p) 1) 1L
let int64_of_n = function N0 -> 0L | Npos p -> int64_of_pos p
let int_of_n x = Int64.to_int (int64_of_n x)
let hex64 x = Printf.sprintf "%016Lx" (int64_of_n x)
let hex32 x = Printf.sprintf "%08Lx" (int64_of_n x)
let rec nat_to_int = function O -> 0 | S m -> 1 + nat_to_int m
let string_of_str (l:n list) : string = let b = Buffer.create 16 in List.iter (fun c -> Buffer.add_char b (Char.chr ((int_of_n c) land 255))) l; Buffer.contents b
let hexstr (l:n list) : string = if l = [] then "-" else String.concat "" (List.map (fun c -> Printf.sprintf "%02x" ((int_of_n c) land 255)) l)
let read_file path = let ic = open_in_bin path in let n = in_channel_length ic in let s = really_input_string ic n in close_in ic; s
let bytes_of_file path : n list =
  let s = read_file path in
  let small = Array.init 256 n_of_int in
  let rec go i acc = if i < 0 then acc else go (i-1) (small.(Char.code s.[i]) :: acc) in go (String.length s - 1) []
let write_bytes path (l:n list) = let oc = open_out_bin path in List.iter (fun c -> output_char oc (Char.chr ((int_of_n c) land 255))) l; close_out oc

let err_name = function
  | ENoHDU -> "ENoHDU" | ETruncHeader -> "ETruncHeader" | ETruncData -> "ETruncData" | ENotFits -> "ENotFits"
  | EBadMandatory -> "EBadMandatory" | EBadBitpix -> "EBadBitpix" | ENegAxis -> "ENegAxis" | EFuel -> "EFuel"
  | ENotImage -> "ENotImage" | EBadDim -> "EBadDim" | EOrder -> "EOrder" | ECoeffRead -> "ECoeffRead"
  | EKnotsMissing -> "EKnotsMissing" | EKnotsCount -> "EKnotsCount" | EKnotsRead -> "EKnotsRead"
  | EExtentsRead -> "EExtentsRead" | EUnsupported -> "EUnsupported"
let dec_n x = Printf.sprintf "%Lu" (int64_of_n x)
let check_name = function
  | CkAxisPositive -> "CkAxisPositive" | CkKnotsEnough (m,b) -> Printf.sprintf "CkKnotsEnough_%s_%s" (dec_n m) (dec_n b)
  | CkAxesMatch j -> Printf.sprintf "CkAxesMatch_%s" (dec_n j) | CkKnotsFinite -> "CkKnotsFinite" | CkKnotsSorted -> "CkKnotsSorted"

let split_ws s = List.filter (fun w -> w <> "") (String.split_on_char ' ' (String.trim s))

let dump_table oc (t:table) =
  let pl name f l = output_string oc name; List.iter (fun x -> output_char oc ' '; output_string oc (f x)) l; output_char oc '\n' in
  Printf.fprintf oc "ndim %d\n" (nat_to_int (t_ndim t));
  pl "order" dec_n t.t_order; pl "naxes" dec_n t.t_naxes; pl "strides" dec_n t.t_strides;
  pl "nknots" (fun k -> string_of_int (List.length k)) t.t_knots;
  List.iteri (fun i k -> pl (Printf.sprintf "knots %d" i) hex64 k) t.t_knots;
  pl "coef" hex32 t.t_coeffs;
  (match t.t_extents with None -> output_string oc "extents none\n" | Some e -> pl "extents" hex64 e);
  Printf.fprintf oc "naux %d\n" (List.length t.t_aux);
  List.iter (fun (k,v) -> Printf.fprintf oc "aux %s %s\n" (hexstr k) (hexstr v)) t.t_aux;
  output_string oc "end\n"

let res_name = function RAccept _ -> "ACCEPT" | RReject e -> "REJECT:" ^ err_name e | RInvalid c -> "INVALID:" ^ check_name c

let () =
  let mode = Sys.argv.(1) in
  if mode = "checks" then begin
    Printf.printf "checks %s\nhas_required %b\n" (String.concat " " (List.map check_name read_checks)) (has_required read_checks)
  end else if mode = "witnesses" then begin
    let dir = Sys.argv.(2) in
    List.iter (fun (name, doc) -> let nm = string_of_str name in write_bytes (Filename.concat dir (nm ^ ".fits")) (encode doc); Printf.printf "%s\n" nm) witnesses
  end else begin
    let ic = open_in Sys.argv.(2) in
    (try while true do
      match split_ws (input_line ic) with
      | id :: src :: dst :: _ ->
        (try
          let b = bytes_of_file src in
          let rc = read_bytes_checked b and ru = read_bytes_unchecked b and rm = read_mem_checked b in
          let tail = match snd (decode_prefix b) with None -> "none" | Some e -> err_name e in
          let oc = open_out dst in
          (match rc with
           | RAccept t -> output_string oc "ACCEPT\n"; dump_table oc t
           | r -> Printf.fprintf oc "%s\n" (res_name r);
                  (match ru with RAccept t -> dump_table oc t | _ -> ()));
          close_out oc;
          let safe = match ru with RAccept t -> if safe_table t then "1" else "0" | _ -> "NA" in
          Printf.printf "%s checked=%s mem=%s unchecked=%s safe=%s tail=%s\n%!" id (res_name rc) (res_name rm) (res_name ru) safe tail
        with ex -> Printf.printf "%s EXC %s\n%!" id (Printexc.to_string ex))
      | _ -> ()
    done with End_of_file -> ())
  end
