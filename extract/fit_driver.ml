(* ocamlfind-flags: -package zarith -linkpkg *)
(* fit_driver.ml — runs the extracted fit model (FitModel.v) on the case file that also feeds the C++
   harness (format: harness/C09_harness.cpp), in exact rational arithmetic, and prints the normal matrix,
   right-hand side and the intermediate objects as exact rationals "num/den".
   Arithmetic instances:  argv[1] = "zq"  Zarith rationals passed as Arith closures (fast; trusted for the
                                           correspondence check only),
                          argv[1] = "qc"  the extracted Coq instance QcA (the one the theorems' Qc corollaries
                                           are about); the check runs a subset through both and requires
                                           identical output. *)
module ZA = Z
module QA = Q
open Fitmodel

let rec pos_of_int n = if n = 1 then XH else if n land 1 = 0 then XO (pos_of_int (n lsr 1)) else XI (pos_of_int (n lsr 1))
let n_of_int n = if n = 0 then N0 else Npos (pos_of_int n)
let rec int_of_pos = function XH -> 1 | XO p -> 2 * int_of_pos p | XI p -> 2 * int_of_pos p + 1
let int_of_n = function N0 -> 0 | Npos p -> int_of_pos p
let int_of_z = function Z0 -> 0 | Zpos p -> int_of_pos p | Zneg p -> - (int_of_pos p)
let rec nat_of_int n = if n <= 0 then O else S (nat_of_int (n - 1))

(* Zarith <-> extracted binary numbers *)
let rec pos_of_zarith (z : ZA.t) : positive =
  if ZA.equal z ZA.one then XH
  else if ZA.is_even z then XO (pos_of_zarith (ZA.shift_right z 1)) else XI (pos_of_zarith (ZA.shift_right z 1))
let rec zarith_of_pos = function
  | XH -> ZA.one | XO p -> ZA.shift_left (zarith_of_pos p) 1 | XI p -> ZA.succ (ZA.shift_left (zarith_of_pos p) 1)
let coqz_of_zarith (z : ZA.t) = if ZA.sign z = 0 then Z0 else if ZA.sign z > 0 then Zpos (pos_of_zarith z) else Zneg (pos_of_zarith (ZA.neg z))
let zarith_of_coqz = function Z0 -> ZA.zero | Zpos p -> zarith_of_pos p | Zneg p -> ZA.neg (zarith_of_pos p)

(* instance 1: Zarith rationals; division by zero yields 0 as in Coq's Qc (never exercised on the checked inputs:
   the driver reports it) *)
let divzero = ref 0
let zq : arith =
  { add0 = Obj.magic (fun (a : QA.t) (b : QA.t) -> QA.add a b);
    sub0 = Obj.magic (fun (a : QA.t) (b : QA.t) -> QA.sub a b);
    mul0 = Obj.magic (fun (a : QA.t) (b : QA.t) -> QA.mul a b);
    div0 = Obj.magic (fun (a : QA.t) (b : QA.t) -> if QA.equal b QA.zero then (incr divzero; QA.zero) else QA.div a b);
    opp0 = Obj.magic (fun (a : QA.t) -> QA.neg a);
    zero = Obj.repr QA.zero; one = Obj.repr QA.one;
    ofZ = (fun z -> Obj.repr (QA.of_bigint (zarith_of_coqz z)));
    ltb0 = Obj.magic (fun (a : QA.t) (b : QA.t) -> QA.lt a b);
    leb0 = Obj.magic (fun (a : QA.t) (b : QA.t) -> QA.leq a b);
    rnd = Obj.magic (fun (a : QA.t) -> a) }

let dbl_of_hex s = Int64.float_of_bits (Int64.of_string ("0x" ^ s))

type inst = { ar : arith; of_float : float -> Obj.t; to_q : Obj.t -> QA.t }
let inst_zq = { ar = zq; of_float = (fun d -> Obj.repr (QA.of_float d)); to_q = (fun o -> (Obj.obj o : QA.t)) }
let inst_qc =
  { ar = qcA;
    of_float = (fun d -> let q = QA.of_float d in
                 Obj.repr (q2Qc { qnum = coqz_of_zarith (QA.num q); qden = pos_of_zarith (QA.den q) }));
    to_q = (fun o -> let q : q = Obj.obj o in QA.make (zarith_of_coqz q.qnum) (zarith_of_pos q.qden)) }

let () =
  let inst = if Array.length Sys.argv > 1 && Sys.argv.(1) = "qc" then inst_qc else inst_zq in
  let ar = inst.ar in
  let sc = Scanf.Scanning.stdin in
  let tok () = Scanf.bscanf sc " %s" (fun s -> s) in
  let rdi () = int_of_string (tok ()) in
  let rdd () = inst.of_float (dbl_of_hex (tok ())) in
  let pr_q o = print_char ' '; print_string (QA.to_string (inst.to_q o)) in
  let pr_mat tag m =
    let nr = List.length m in let nc = match m with [] -> 0 | r :: _ -> List.length r in
    Printf.printf "%s %d %d" tag nr nc; List.iter (fun row -> List.iter pr_q row) m; print_newline () in
  let pr_arr tag (a : ndarr) =
    Printf.printf "%s %d" tag (List.length a.nd_ranges);
    List.iter (fun r -> Printf.printf " %d" (int_of_n r)) a.nd_ranges;
    Printf.printf " %d" (List.length a.nd_entries);
    List.iter (fun (idx, v) -> List.iter (fun i -> Printf.printf " %d" (int_of_n i)) idx; pr_q v) a.nd_entries;
    print_newline () in
  (try
    while true do
      let w = tok () in
      if w = "" then raise End_of_file;
      if w <> "case" then failwith ("bad token " ^ w);
      let id = tok () in
      let ndim = rdi () in
      let _flags = rdi () in
      let dims = ref [] and porders = ref [] and smooth = ref [] in
      for _ = 1 to ndim do
        let order = rdi () in let porder = rdi () in let sm = rdd () in
        let nk = rdi () in let knots = List.init nk (fun _ -> rdd ()) in
        let np = rdi () in let coords = List.init np (fun _ -> rdd ()) in
        dims := { ds_order = nat_of_int order; ds_knots = knots; ds_coords = coords } :: !dims;
        porders := nat_of_int porder :: !porders; smooth := sm :: !smooth
      done;
      let dims = List.rev !dims and porders = List.rev !porders and smooth = List.rev !smooth in
      let rows = rdi () in
      let data = List.init rows (fun _ ->
        let idx = List.init ndim (fun _ -> n_of_int (rdi ())) in
        let v = rdd () in let wgt = rdd () in ((idx, v), wgt)) in
      Printf.printf "case %s\n" id;
      divzero := 0;
      let nspl = List.map (ds_nsplines ar) dims in
      List.iteri (fun k d ->
        let b = bsplinebasis ar d.ds_knots d.ds_coords d.ds_order in
        pr_mat (Printf.sprintf "basis.%d" k) b;
        let kn = (fun i -> nth i d.ds_knots ar.zero) in
        (* as the harness: only within the limits inside which fit() reaches calc_penalty (porder <= order, porder <= nsplines) *)
        let int_of_nat n = let rec go acc = function O -> acc | S m -> go (acc + 1) m in go 0 n in
        let po = int_of_nat (List.nth porders k) in
        if po <= int_of_nat d.ds_order && po <= int_of_nat (List.nth nspl k) then
          pr_mat (Printf.sprintf "pen.%d" k) (calc_penalty ar nspl kn (nat_of_int k) d.ds_order (List.nth porders k))) dims;
      pr_arr "Farr" (farr ar dims data);
      pr_arr "Rarr" (rarr ar dims data);
      let (a, r) = fit_system ar dims smooth porders data in
      pr_mat "A" a;
      Printf.printf "r %d" (List.length r); List.iter pr_q r; print_newline ();
      Printf.printf "divzero %d\n" !divzero;
      Printf.printf "end %s\n" id;
      flush stdout
    done
  with End_of_file | Scanf.Scan_failure _ -> ())
