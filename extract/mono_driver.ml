(* mono_driver.ml — runs the extracted MonoModel.glam_backtransform (the float store + cumulative-sum loop of
   glamfit_complex) with native arithmetic: additions in binary64 re-rounded to binary32 by [rnd] (for one addition of two
   binary32 values this is the correctly rounded binary32 sum: 53 >= 2*24+2).
   input, one case per line:   <id> <monodim> <ndim> <naxes_0> .. <naxes_{ndim-1}> <n> <n hex doubles (the NNLS solution)>
   output:                     <id> <n hex floats (the coefficients)> *)
open Monomodel

let rec nat_of_int n = if n <= 0 then O else S (nat_of_int (n - 1))
let r32 (x : float) = Int32.float_of_bits (Int32.bits_of_float x)
let f32 : arith =
  { add0 = Obj.magic (fun (a : float) (b : float) -> a +. b);
    sub0 = Obj.magic (fun (a : float) (b : float) -> a -. b);
    mul0 = Obj.magic (fun (a : float) (b : float) -> a *. b);
    div = Obj.magic (fun (a : float) (b : float) -> a /. b);
    opp0 = Obj.magic (fun (a : float) -> -. a);
    zero = Obj.repr 0.0; one = Obj.repr 1.0;
    ofZ = (fun _ -> Obj.repr 0.0);
    ltb0 = Obj.magic (fun (a : float) (b : float) -> a < b);
    leb0 = Obj.magic (fun (a : float) (b : float) -> a <= b);
    rnd = Obj.magic r32 }
let dbl_of_hex s = Int64.float_of_bits (Int64.of_string ("0x" ^ s))
let hex_of_flt (d : float) = Printf.sprintf "%08lx" (Int32.bits_of_float d)

let () =
  try
    while true do
      let line = input_line stdin in
      let tok = Array.of_list (List.filter (fun s -> s <> "") (String.split_on_char ' ' line)) in
      if Array.length tok > 0 then begin
        let id = tok.(0) in
        let monodim = int_of_string tok.(1) in
        let ndim = int_of_string tok.(2) in
        let naxes = List.init ndim (fun i -> nat_of_int (int_of_string tok.(3 + i))) in
        let n = int_of_string tok.(3 + ndim) in
        let xs = List.init n (fun i -> Obj.repr (dbl_of_hex tok.(4 + ndim + i))) in
        let out = glam_backtransform f32 naxes (nat_of_int monodim) xs in
        print_string id;
        List.iter (fun (v : Obj.t) -> print_char ' '; print_string (hex_of_flt (Obj.obj v : float))) out;
        print_newline ()
      end
    done
  with End_of_file -> ()
