(* Extraction of the C07 reader model (checked and unchecked reader, safe_table, refutation witnesses). ExtrOcamlBasic only. *)
From Coq Require Import ExtrOcamlBasic.
From PS Require Import Generated_fits FitsModel FitsWf C07_Checks Generated_readchecks C07_Model C07_Witness.
Extraction "c07model.ml" read_bytes_checked read_mem_checked read_bytes_unchecked decode_prefix whole_blocks safe_table read_checks has_required t_ndim witnesses encode.
