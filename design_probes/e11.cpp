#include "mk.h"
#include <cstdio>
int main(){ // order 2, 9 knots, naxes=6: repeated knot at upper end of full support: k[5]==k[6]
  std::vector<double> k={0,1,2,3,4,5,5,6,7}; std::vector<float> co={1,3,2,5,4,7}; ST t; build(t,{2},{k},co);
  for(double x: {4.999999, 5.0, 5.000001, 3.0}){ int c; bool ok=t.searchcenters(&x,&c); double v=ok?t.ndsplineeval<double>(&x,&c,0):-1; double rl=0, rr=0; for(int i=0;i<6;i++){ rl+=co[i]*B(k,i,2,x,true); rr+=co[i]*B(k,i,2,x,false);} printf("x=%g ok=%d c=%d impl=%g  ref(left-cont)=%g ref(right-cont)=%g\n",x,ok,c,v,rl,rr);} 
  // interior repeated knot (double knot at 3)
  std::vector<double> k2={0,1,2,3,3,4,5,6,7,8}; ST u; build(u,{2},{k2},{1,3,2,5,4,7,6});
  for(double x: {2.999999, 3.0, 3.000001}){ int c; bool ok=u.searchcenters(&x,&c); double v=ok?u.ndsplineeval<double>(&x,&c,0):-1; double rr=0; std::vector<float> c2={1,3,2,5,4,7,6}; for(int i=0;i<7;i++) rr+=c2[i]*B(k2,i,2,x,false); printf("interior x=%g c=%d impl=%g ref=%g\n",x,c,v,rr);} }
