(* Scratch probe: coordinator/worker hand-shake of walk_descents as an executable transition system. *)
From Coq Require Import List Arith Bool Lia. Import ListNotations.
Inductive wst := WAIT | RUN | TERM.
Inductive wpc := WLock1 | WCheck | WCvWait | WWoken | WCompute | WLock2 | WReport | WExited.
Inductive cpc := CLockA | CSetRun | CUnlockA | CLockB | CLoop (checked_first : bool) | CCvWait | CWoken | CRead | CLockT | CSetTerm | CJoin (k : nat) | CDone.
Record cfg := { mtx : option nat (* 0 = coordinator, S j = worker j *); cp : cpc; blk : nat; st : list wst; wp : list wpc }.
Definition upd {A} (l : list A) (k : nat) (v : A) := firstn k l ++ v :: skipn (S k) l.
Definition all_wait (s : list wst) := forallb (fun x => match x with WAIT => true | _ => false end) s.
Section P. Variable fixed : bool. (* false = code as is: wait before checking; true = check before waiting *) Variable nblocks : nat.
Definition wake_all (c : cfg) : cfg := {| mtx := mtx c; cp := (match cp c with CCvWait => CWoken | p => p end); blk := blk c; st := st c;
    wp := map (fun p => match p with WCvWait => WWoken | q => q end) (wp c) |}.
Definition setcp c p := {| mtx := mtx c; cp := p; blk := blk c; st := st c; wp := wp c |}.
Definition setm c m := {| mtx := m; cp := cp c; blk := blk c; st := st c; wp := wp c |}.
Definition setw c j p := {| mtx := mtx c; cp := cp c; blk := blk c; st := st c; wp := upd (wp c) j p |}.
Definition sets c s := {| mtx := mtx c; cp := cp c; blk := blk c; st := s; wp := wp c |}.
Definition free c := match mtx c with None => true | _ => false end.
Definition cstep (c : cfg) : option cfg :=
  match cp c with
  | CLockA => if free c then Some (setcp (setm c (Some 0)) CSetRun) else None
  | CSetRun => Some (setcp (wake_all (sets c (map (fun _ => RUN) (st c)))) CUnlockA)     (* set RUN for the block + broadcast *)
  | CUnlockA => Some (setcp (setm c None) CLockB)
  | CLockB => if free c then Some (setcp (setm c (Some 0)) (CLoop fixed)) else None
  | CLoop true => if all_wait (st c) then Some (setcp (setm c None) CRead) else Some (setcp (setm c None) CCvWait)   (* check; done -> unlock, else cond_wait *)
  | CLoop false => Some (setcp (setm c None) CCvWait)                                    (* code as is: cond_wait first *)
  | CCvWait => None                                                                       (* blocked until broadcast *)
  | CWoken => if free c then Some (setcp (setm c (Some 0)) (CLoop true)) else None         (* re-acquire, then re-check *)
  | CRead => if S (blk c) <? nblocks then Some {| mtx := mtx c; cp := CLockA; blk := S (blk c); st := st c; wp := wp c |} else Some (setcp c CLockT)
  | CLockT => if free c then Some (setcp (setm c (Some 0)) CSetTerm) else None
  | CSetTerm => Some (setcp (setm (wake_all (sets c (map (fun _ => TERM) (st c)))) None) (CJoin 0))
  | CJoin k => match nth_error (wp c) k with Some WExited => Some (setcp c (CJoin (S k))) | Some _ => None | None => Some (setcp c CDone) end
  | CDone => None
  end.
Definition wstep (c : cfg) (j : nat) : option cfg :=
  match nth_error (wp c) j, nth_error (st c) j with
  | Some p, Some s =>
    match p with
    | WLock1 => if free c then Some (setw (setm c (Some (S j))) j WCheck) else None
    | WCheck => match s with WAIT => Some (setw (setm c None) j WCvWait) | TERM => Some (setw (setm c None) j WExited) | RUN => Some (setw (setm c None) j WCompute) end
    | WCvWait => None
    | WWoken => if free c then Some (setw (setm c (Some (S j))) j WCheck) else None
    | WCompute => Some (setw c j WLock2)
    | WLock2 => if free c then Some (setw (setm c (Some (S j))) j WReport) else None
    | WReport => Some (setw (setm (wake_all (sets c (upd (st c) j WAIT))) None) j WLock1)   (* state=WAIT; broadcast; unlock *)
    | WExited => None
    end
  | _, _ => None end.
Definition step (c : cfg) (t : nat) : option cfg := match t with 0 => cstep c | S j => wstep c j end.
Fixpoint run (c : cfg) (sch : list nat) : option cfg := match sch with [] => Some c | t :: r => match step c t with Some c' => run c' r | None => None end end.
Definition init (n : nat) : cfg := {| mtx := None; cp := CLockA; blk := 0; st := repeat WAIT n; wp := repeat WLock1 n |}.
Definition stuck (n : nat) (c : cfg) : bool := match cp c with CDone => false | _ => forallb (fun t => match step c t with None => true | _ => false end) (seq 0 (S n)) end.
End P.
(* lost wake-up, one worker, one block: coordinator starts the block and unlocks; the worker runs to completion and goes back to sleep; the coordinator then waits. *)
Definition witness := [0;0;0; 1;1;1;1;1; 1;1; 0;0].
Eval vm_compute in option_map (fun c => (cp c, wp c, st c, stuck false 1 1 c)) (run false 1 (init 1) witness).
Example refuted_lost_wakeup : exists sch c, run false 1 (init 1) sch = Some c /\ stuck false 1 1 c = true.
Proof. exists witness. eexists. split; [vm_compute; reflexivity | vm_compute; reflexivity]. Qed.
(* the same schedule under the check-before-wait variant is not stuck *)
Eval vm_compute in option_map (fun c => (cp c, stuck true 1 1 c)) (run true 1 (init 1) witness).
