#include "mk.h"
#include <cstdio>
#include <cinttypes>
static uint64_t s=0x9E3779B97F4A7C15ULL; static double rnd(){ s^=s<<13; s^=s>>7; s^=s<<17; return (s>>11)/9007199254740992.0; }
static uint64_t bits(double d){ uint64_t u; memcpy(&u,&d,8); return u; }
int main(){ // emit cases: 2-d tables, orders o0,o1; print knots, coeffs, x, then results bits for float & double
  for(int tc=0; tc<400; tc++){ uint32_t o0=tc%5, o1=(tc/5)%4; int n0=2*o0+2+tc%3, n1=2*o1+3+tc%2;
    std::vector<double> k0,k1; double a=rnd(); for(int i=0;i<n0;i++){ a+=0.01+rnd(); k0.push_back(a);} a=-3*rnd(); for(int i=0;i<n1;i++){ a+=0.001+rnd()*rnd(); k1.push_back(a);} 
    std::vector<float> co; for(int i=0;i<(n0-o0-1)*(n1-o1-1);i++) co.push_back((float)(rnd()*10-5));
    ST t; build(t,{o0,o1},{k0,k1},co);
    for(int p=0;p<5;p++){ double x[2]={k0[0]+(k0.back()-k0[0])*(0.001+0.998*rnd()), k1[0]+(k1.back()-k1[0])*(0.001+0.998*rnd())}; int c[2]; if(!t.searchcenters(x,c)) continue;
      double vf=t.ndsplineeval<float>(x,c,0), vd=t.ndsplineeval<double>(x,c,0);
      printf("%u %u %d %d",o0,o1,n0,n1); for(double k:k0) printf(" %" PRIx64,bits(k)); for(double k:k1) printf(" %" PRIx64,bits(k)); printf(" %zu",co.size()); for(float f:co) printf(" %" PRIx64,bits((double)f));
      printf(" %" PRIx64 " %" PRIx64 " %d %d %" PRIx64 " %" PRIx64 "\n",bits(x[0]),bits(x[1]),c[0],c[1],bits(vf),bits(vd)); } }
}
