#include <stdio.h>
#include <stdlib.h>
#include <math.h>
#include <string.h>
#include <cholmod.h>
#include "photospline/detail/splineutil.h"
static unsigned long long s=88172645463325252ULL; static double rnd(){ s^=s<<13; s^=s>>7; s^=s<<17; return (s>>11)/9007199254740992.0; }
static cholmod_sparse* mk(int n,double*A,cholmod_common*c){ cholmod_dense*d=cholmod_l_allocate_dense(n,n,n,CHOLMOD_REAL,c); memcpy(d->x,A,sizeof(double)*n*n); cholmod_sparse*sp=cholmod_l_dense_to_sparse(d,1,c); cholmod_l_free_dense(&d,c); return sp; }
int main(int argc,char**argv){ cholmod_common c; cholmod_l_start(&c); int bad[4]={0,0,0,0}, tot=0; int which=argc>1?atoi(argv[1]):-1;
 for(int trial=0;trial<300;trial++){ int n=2+trial%5; int m=n+2; double M[64*8],A[64],b[8];
   for(int i=0;i<m*n;i++) M[i]=rnd()*2-0.5; for(int i=0;i<n;i++){ for(int j=0;j<n;j++){ double t=0; for(int k=0;k<m;k++) t+=M[k*n+i]*M[k*n+j]; A[i*n+j]=t;} b[i]=(rnd()*2-1)*3; }
   tot++;
   for(int alg=0;alg<3;alg++){ if(which>=0&&alg!=which) continue; cholmod_sparse*sp=mk(n,A,&c); cholmod_dense*bd=cholmod_l_allocate_dense(n,1,n,CHOLMOD_REAL,&c); memcpy(bd->x,b,8*n);
     cholmod_dense*x= alg==0? nnls_normal_block3(sp,bd,0,&c) : alg==1? nnls_normal_block(sp,bd,0,&c) : nnls_normal_block_updown(sp,bd,0,&c);
     double*xv=x->x; double worst=0; for(int i=0;i<n;i++){ double g=-b[i]; for(int j=0;j<n;j++) g+=A[i*n+j]*xv[j]; double v= xv[i]>1e-9? fabs(g) : (g<0?-g:0); if(xv[i]<-1e-9) v=1e9; if(v>worst) worst=v; }
     if(worst>1e-6){ bad[alg]++; if(bad[alg]<=2){ printf("alg %d trial %d n=%d KKT viol %g x=",alg,trial,n,worst); for(int i=0;i<n;i++) printf("%g ",xv[i]); printf("\n"); } }
     cholmod_l_free_dense(&x,&c); cholmod_l_free_dense(&bd,&c); cholmod_l_free_sparse(&sp,&c);} }
 printf("trials=%d bad block3=%d block=%d updown=%d\n",tot,bad[0],bad[1],bad[2]); cholmod_l_finish(&c); return 0; }
