From Coq Require Import ZArith List Lia Field Bool.
Section DB.
Variable K : Type.
Variables (k0 k1 : K) (kadd kmul ksub : K->K->K) (kopp : K->K) (kdiv : K->K->K) (kinv : K->K).
Hypothesis Kf : field_theory k0 k1 kadd kmul ksub kopp kdiv kinv (@eq K).
Add Field Kfield : Kf.
Notation "a + b" := (kadd a b). Notation "a - b" := (ksub a b). Notation "a * b" := (kmul a b). Notation "a / b" := (kdiv a b).
Variable klt kle : K -> K -> Prop.
Hypothesis klt_irrefl : forall a, ~ klt a a.
Hypothesis kle_lt_trans : forall a b c, kle a b -> klt b c -> klt a c.
Hypothesis klt_le_trans : forall a b c, klt a b -> kle b c -> klt a c.
Variable t : Z -> K. Variable x : K. Variable left : Z.
Hypothesis mono : forall a b, (0 <= a <= b)%Z -> kle (t a) (t b).
Hypothesis nonempty : klt (t left) (t (left+1)).
Lemma sub_neq a b : klt a b -> b - a <> k0.
Proof. intros H E. assert (a = b). { transitivity (b - (b - a)). ring. rewrite E. ring. } subst. eapply klt_irrefl; eauto. Qed.
Lemma denom (a b : Z) : (0 <= a <= left)%Z -> (left + 1 <= b)%Z -> t b - t a <> k0.
Proof. intros Ha Hb. apply sub_neq. eapply kle_lt_trans. apply (mono a left); lia. eapply klt_le_trans. apply nonempty. apply mono; lia. Qed.
(* the core algebraic step of de Boor's recurrence *)
Lemma step (a : Z) (j : Z) (Bm1 Ba : K) : (0 <= a - 1)%Z -> (a <= left)%Z -> (left + 1 <= a + j)%Z ->
  let dr_i := t (a + j + 1) - x in let dl_ji := x - t a in let dr_im1 := t (a + j) - x in let dl_p := x - t (a-1) in
  (dl_p * (Bm1 / (dr_im1 + dl_p))) + dr_i * (Ba / (dr_i + dl_ji))
  = (x - t (a-1)) / (t (a+j) - t (a-1)) * Bm1 + (t (a+j+1) - x) / (t (a+j+1) - t a) * Ba.
Proof. intros. subst dr_i dl_ji dr_im1 dl_p. 
  assert (t (a+j) - t (a-1) <> k0) by (apply denom; lia).
  assert (t (a+j+1) - t a <> k0) by (apply denom; lia).
  field. split; [ intro E; apply H3; rewrite <- E; ring | intro E; apply H2; rewrite <- E; ring ]. Qed.
End DB.
Print Assumptions step.
