#include "mk.h"
#include <cstdio>
int main(){ std::vector<double> k; for(int i=0;i<8;i++) k.push_back(i); 
 const char* kv[][2]={{"A","x"},{"QUOTE","it's"},{"EMPTY",""},{"LEAD","  ab"},{"NUM","123"},{"LONGKEY WITH SP","v"},{"BZERO","5"},{"BSCALE","2"},{"END","1"},{"EXTNAME","FOO"},{"HISTORY","h"},{"A-B","d"},{"A_B","u"},{"DATE","d"},{"CHECKSUM","c"},{"K68","12345678901234567890123456789012345678901234567890123456789012345678"}};
 for(auto& p: kv){ ST t; build(t,{2},{k},{1,2,3,4,5}); bool acc=false; std::string err;
   try{ t.write_key(p[0],std::string(p[1])); acc=true; }catch(std::exception&e){ err="rejected"; }
   if(!acc){ printf("%-16s REJECTED\n",p[0]); continue; }
   try{ auto b=t.write_fits_mem(); ST u; u.read_fits_mem(b.first,b.second); const char* v=u.get_aux_value(p[0]);
     printf("%-16s accepted; back: naux=%zu value=%s%s%s coeff0=%g equal=%d\n",p[0],u.get_naux_values(), v?"[":"", v?v:"<absent>", v?"]":"", u.get_coefficients()[0], (int)(t==u)); free(b.first);
   }catch(std::exception&e){ printf("%-16s accepted; roundtrip threw: %.60s\n",p[0],e.what()); } }
}
