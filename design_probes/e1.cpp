#include "mk.h"
#include <cstdio>
int main(){
  for(int ord=0; ord<=4; ord++) for(int extra=0; extra<=2; extra++){
    int nk=2*ord+2+extra; std::vector<double> k; for(int i=0;i<nk;i++) k.push_back(i*1.0+0.1*i*i);
    std::vector<float> co; for(int i=0;i<nk-ord-1;i++) co.push_back(1.0f+0.5f*i*i);
    ST t; build(t,{(uint32_t)ord},{k},co);
    double worst=0, wx=0;
    for(int s=1;s<=400;s++){ double x=k[0]+(k.back()-k[0])*s/400.0; int c; 
      if(!t.searchcenters(&x,&c)){printf("fail lookup ord=%d x=%g\n",ord,x);continue;}
      double v=t.ndsplineeval<double>(&x,&c,0); double r=0; bool left = x>=k[nk-ord-1];
      for(int i=0;i<nk-ord-1;i++) r+=co[i]*B(k,i,ord,x,left);
      if(!(std::fabs(v-r)<=worst)) {worst=std::fabs(v-r); wx=x;} }
    printf("ord=%d nknots=%d worst |impl-ref|=%g at x=%g (full support [%g,%g])\n",ord,nk,worst,wx,k[ord],k[nk-ord-1]);
  }
}
