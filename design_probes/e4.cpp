#include "mk.h"
#include <cstdio>
#include <sys/resource.h>
#include <signal.h>
#include <sys/stat.h>
int main(int argc,char**argv){
  if(argc>1 && argv[1][0]=='c'){ // convolve order 0 and 1
    for(int ord=0; ord<=1; ord++){ std::vector<double> k; for(int i=0;i<2*ord+6;i++) k.push_back(i); ST t; build(t,{(uint32_t)ord},{k},{});
      double ck[2]={-0.25,0.25}; t.convolve(0,ck,2); double x=2.6; int c; bool ok=t.searchcenters(&x,&c);
      printf("ord %d -> order %u nknots %lu, eval(2.6)=%g (expect 1)\n",ord,t.get_order(0),(unsigned long)t.get_nknots(0), ok? t.ndsplineeval<double>(&x,&c,0):-1); }
    return 0; }
  // write failure: limit file size
  std::vector<double> k; for(int i=0;i<3000;i++) k.push_back(i); ST t; build(t,{2},{k},{});
  signal(SIGXFSZ,SIG_IGN); struct rlimit rl={20000,20000}; setrlimit(RLIMIT_FSIZE,&rl);
  try{ t.write_fits("/tmp/exp/out.fits"); printf("write_fits returned normally\n"); }catch(std::exception&e){ printf("write_fits threw: %s\n",e.what()); }
  struct stat st; stat("/tmp/exp/out.fits",&st); printf("file size %ld (complete would be ~%ld)\n",(long)st.st_size,(long)(2880*2+3000*4+3000*8));
}
