From Coq Require Import ZArith List Lia.
Import ListNotations. Local Open Scope Z_scope.
Fixpoint prod (l : list Z) : Z := match l with [] => 1 | n :: r => n * prod r end.
Fixpoint flat (sh m : list Z) : Z := match sh, m with n :: ns, i :: is => i * prod ns + flat ns is | _, _ => 0 end.
Fixpoint in_shape (sh m : list Z) : Prop := match sh, m with [], [] => True | n :: ns, i :: is => 0 <= i < n /\ in_shape ns is | _, _ => False end.
Definition stride (sh : list Z) (k : nat) : Z := prod (skipn (S k) sh).
Lemma prod_pos sh m : in_shape sh m -> 0 < prod sh.
Proof. revert m; induction sh as [|n ns IH]; intros [|i is] H; simpl in *; try lia; try tauto. destruct H as [H1 H2]. specialize (IH _ H2). nia. Qed.
Lemma flat_bounds sh m : in_shape sh m -> 0 <= flat sh m < prod sh.
Proof. revert m; induction sh as [|n ns IH]; intros [|i is] H; simpl in *; try lia; try tauto. destruct H as [H1 H2]. specialize (IH _ H2). nia. Qed.
Lemma prod_split sh k : (k < length sh)%nat -> prod sh = prod (firstn k sh) * (nth k sh 1 * stride sh k).
Proof. revert k; induction sh as [|n ns IH]; intros k Hk; cbn [length] in *; [lia|]. destruct k as [|k]; unfold stride in *.
  - change (skipn 1 (n :: ns)) with ns. cbn [prod firstn nth]. ring.
  - change (skipn (S (S k)) (n :: ns)) with (skipn (S k) ns). cbn [prod firstn nth]. rewrite (IH k) at 1 by lia. ring. Qed.
Lemma in_shape_pos sh m : in_shape sh m -> Forall (fun n => 0 < n) sh.
Proof. revert m; induction sh as [|n ns IH]; intros [|i is] H; cbn [in_shape] in H; try tauto; constructor; [lia|]. eapply IH; apply H. Qed.
Lemma prod_pos_F sh : Forall (fun n => 0 < n) sh -> 0 < prod sh.
Proof. induction 1; cbn [prod]; nia. Qed.
Lemma Forall_skipn {A} (P : A -> Prop) j l : Forall P l -> Forall P (skipn j l).
Proof. revert l; induction j; intros l H; [exact H|]. destruct H; cbn [skipn]; auto. Qed.
Lemma nth_pos sh k : Forall (fun n => 0 < n) sh -> (k < length sh)%nat -> 0 < nth k sh 1.
Proof. intros H Hk. rewrite Forall_forall in H. apply H. apply nth_In; lia. Qed.
Theorem digit sh m k : in_shape sh m -> (k < length sh)%nat -> (flat sh m / stride sh k) mod (nth k sh 1) = nth k m 0.
Proof. revert m k; induction sh as [|n ns IH]; intros [|i is] k H Hk; cbn [in_shape length] in *; try lia; try tauto.
  destruct H as [Hi Hs]. pose proof (flat_bounds _ _ Hs) as Hb. pose proof (prod_pos _ _ Hs) as Hp. pose proof (in_shape_pos _ _ Hs) as HF.
  destruct k as [|k]; unfold stride.
  - change (skipn 1 (n :: ns)) with ns. cbn [flat nth]. rewrite Z.div_add_l by lia. rewrite Z.div_small by lia. rewrite Z.add_0_r. apply Z.mod_small; lia.
  - change (skipn (S (S k)) (n :: ns)) with (skipn (S k) ns). cbn [flat nth].
    assert (Hk' : (k < length ns)%nat) by lia. specialize (IH is k Hs Hk'). unfold stride in IH.
    rewrite (prod_split ns k Hk'). unfold stride.
    pose proof (prod_pos_F _ (Forall_skipn _ (S k) _ HF)) as Hs0. pose proof (nth_pos _ _ HF Hk') as Hn0.
    set (s := prod (skipn (S k) ns)) in *. set (nk := nth k ns 1) in *. set (q := prod (firstn k ns)).
    replace (i * (q * (nk * s)) + flat ns is) with (flat ns is + (i * q * nk) * s) by ring.
    rewrite Z.div_add by lia. replace (flat ns is / s + i * q * nk) with (flat ns is / s + (i * q) * nk) by ring.
    rewrite Z.mod_add by lia. exact IH. Qed.
Print Assumptions digit.
