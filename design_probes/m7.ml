(* hand model of bsplvb_simple + generic core for 2 dims, parametrised by rounding to F *)
let r32 x = Int32.float_of_bits (Int32.bits_of_float x)
let bsplvb rnd (kn: int -> float) nknots x left degree =
  let b = Array.make degree 0.0 in b.(0) <- rnd 1.0;
  let left = ref left in
  if !left = degree-1 then (while !left >= 0 && x < kn !left do decr left done)
  else if !left = nknots-degree-1 then (while !left < nknots-1 && x > kn (!left+1) do incr left done);
  let left = !left in
  let dr = Array.make (max degree 1) 0.0 and dl = Array.make (max degree 1) 0.0 in
  for j = 0 to degree-2 do
    dr.(j) <- kn (left+j+1) -. x; dl.(j) <- x -. kn (left-j);
    let saved = ref 0.0 in
    for i = 0 to j do
      let term = b.(i) /. (dr.(i) +. dl.(j-i)) in
      b.(i) <- rnd (!saved +. dr.(i) *. term); saved := dl.(j-i) *. term done;
    b.(j+1) <- rnd !saved done;
  let i = degree-1-left in
  if i > 0 then begin for j = 0 to left do b.(j) <- b.(j+i) done; for j = left+1 to degree-1 do b.(j) <- 0.0 done end
  else begin let i = left+degree+1-nknots in if i > 0 then begin for j = degree-1 downto i do b.(j) <- b.(j-i) done; for j = i-1 downto 0 do b.(j) <- 0.0 done end end;
  b
let () =
  let bad = ref 0 and tot = ref 0 in
  (try while true do
    let line = input_line stdin in
    let tk = Array.of_list (String.split_on_char ' ' line) in
    let p = ref 0 in let next () = let v = tk.(!p) in incr p; v in
    let o0 = int_of_string (next ()) in let o1 = int_of_string (next ()) in let n0 = int_of_string (next ()) in let n1 = int_of_string (next ()) in
    let hx () = Int64.float_of_bits (Int64.of_string ("0x" ^ next ())) in
    let k0 = Array.init n0 (fun _ -> hx ()) in let k1 = Array.init n1 (fun _ -> hx ()) in
    let nc = int_of_string (next ()) in let co = Array.init nc (fun _ -> hx ()) in
    let x0 = hx () in let x1 = hx () in let c0 = int_of_string (next ()) in let c1 = int_of_string (next ()) in
    let vf = hx () in let vd = hx () in
    let kn k n i = if i < 0 || i >= n then nan else k.(i) in
    let ev rnd =
      let b0 = bsplvb rnd (kn k0 n0) n0 x0 c0 (o0+1) and b1 = bsplvb rnd (kn k1 n1) n1 x1 c1 (o1+1) in
      let na1 = n1-o1-1 in
      let res = ref (rnd 0.0) in
      for i = 0 to o0 do let bt = rnd (1.0 *. b0.(i)) in   (* basis_tree[1] = basis_tree[0]*lb[0][i] *)
        for j = 0 to o1 do
          let c = co.((c0-o0+i)*na1 + (c1-o1+j)) in
          res := rnd (!res +. rnd (rnd (bt *. b1.(j)) *. c)) done done; !res in
    incr tot;
    if Int64.bits_of_float (ev r32) <> Int64.bits_of_float vf || Int64.bits_of_float (ev (fun x->x)) <> Int64.bits_of_float vd then begin incr bad; if !bad < 4 then Printf.printf "MISMATCH o=%d,%d f:%h vs %h d:%h vs %h\n" o0 o1 (ev r32) vf (ev (fun x->x)) vd end
  done with End_of_file -> ());
  Printf.printf "cases=%d mismatches=%d\n" !tot !bad
