#include "mk.h"
#include <cstdio>
int main(){
  { // NaN lookup on minimal table order 3
    std::vector<double> k; for(int i=0;i<8;i++) k.push_back(i); ST t; build(t,{3},{k},{});
    double x=NAN; int c=-1; bool ok=t.searchcenters(&x,&c); printf("NaN lookup ok=%d center=%d (valid range [%d,%d])\n",ok,c,3,8-3-2);
    if(ok){ double v=t.ndsplineeval<double>(&x,&c,0); printf(" eval=%g\n",v);} }
  { // order-0 derivative via bitmask
    std::vector<double> k={0,1,2,3}; ST t; build(t,{0},{k},{1,2,3});
    double x=1.5; int c; t.searchcenters(&x,&c);
    for(int r=0;r<3;r++){ volatile char junk[256]; memset((void*)junk,0x41+r,256); printf("order0 d/dx bitmask = %g\n", t.ndsplineeval<double>(&x,&c,1)); }
    double g[2]; t.ndsplineeval_gradient<double>(&x,&c,g); printf("order0 gradient = %g %g\n",g[0],g[1]);
    unsigned d[1]={1}; printf("order0 deriv(1) = %g\n", t.ndsplineeval_deriv(&x,&c,d)); d[0]=2; printf("order0 deriv(2) = %g\n", t.ndsplineeval_deriv(&x,&c,d));
  }
  { // 2-d with one order-0 dim, derivative in that dim
    std::vector<double> k0={0,1,2,3}, k1={0,1,2,3,4,5,6}; ST t; build(t,{0,2},{k0,k1},{});
    double x[2]={1.5,3.2}; int c[2]; t.searchcenters(x,c); printf("2d order{0,2} d/dx0 = %g\n", t.ndsplineeval<double>(x,c,1));
  }
  { // second derivative at a knot in upper region, order 2
    std::vector<double> k; for(int i=0;i<9;i++) k.push_back(i+0.05*i*i); std::vector<float> co={1,3,2,5,4,7};
    ST t; build(t,{2},{k},co); int nk=9, ord=2;
    double xs[]={k[3],k[4],k[5],k[6],k[7],k[8], 0.5*(k[6]+k[7])};
    for(double x: xs){ int c; if(!t.searchcenters(&x,&c)) continue; unsigned d[1]={2}; double v=t.ndsplineeval_deriv(&x,&c,d);
      // reference: second derivative of left or right piece by finite differences of exact sum on that side
      double h=1e-4; bool left= x>=k[nk-ord-1]; double s=left?-1:1; auto f=[&](double y){double r=0; for(int i=0;i<nk-ord-1;i++) r+=co[i]*B(k,i,ord,y,left); return r;};
      double ref=(f(x+2*s*h)-2*f(x+s*h)+f(x))/(h*h);
      printf("x=%g center=%d d2 impl=%g ref(%s piece)=%g\n",x,c,v,left?"left":"right",ref);} }
}
