#include "mk.h"
int main(){ std::vector<double> k0,k1; for(int i=0;i<300;i++) k0.push_back(i); for(int i=0;i<200;i++) k1.push_back(i*0.5);
 ST t; build(t,{2,3},{k0,k1},{}); t.write_key("SHORTKEY",123); t.write_key("ALONGERKEY","a string"); t.write_fits("/tmp/exp/o5.fits"); }
