#include "mk.h"
#include <cstdio>
#include <unistd.h>
int main(int argc,char**argv){ int which=atoi(argv[1]);
 if(which==0){ // D10 NaN, order 4 minimal knots
   std::vector<double> k; for(int i=0;i<10;i++) k.push_back(i);
   ST src; build(src,{4},{k},{1,2,3,4,5}); auto b=src.write_fits_mem(); ST t; t.read_fits_mem(b.first,b.second); // library-allocated arrays
   double x=NAN; int c=-1; bool ok=t.searchcenters(&x,&c); printf("ok=%d center=%d valid=[4,4] naxes=%lu\n",ok,c,(unsigned long)t.get_ncoeffs(0)); fflush(stdout);
   if(ok) printf("eval=%g\n",t.ndsplineeval<double>(&x,&c,0)); }
 if(which==1){ // D13: truncated file: drop the KNOTS HDUs
   std::vector<double> k; for(int i=0;i<8;i++) k.push_back(i); ST src; build(src,{2},{k},{}); auto b=src.write_fits_mem();
   size_t cut=2880*2; { ST t; try{ t.read_fits_mem(b.first,cut); printf("read ok?!\n"); }catch(std::exception&e){ printf("threw: %s; ndim now %u\n",e.what(),t.get_ndim()); fflush(stdout);} } printf("destroyed fine\n"); }
 return 0; }
