From Coq Require Import ZArith QArith Qcanon List Field Lia.
Import ListNotations.
Record Arith := { T : Type; add : T -> T -> T; sub : T -> T -> T; mul : T -> T -> T; dv : T -> T -> T; zero : T; one : T; ltb : T -> T -> bool }.
Section M. Variable A : Arith.
Fixpoint sum (l : list (T A)) : T A := match l with [] => zero A | x :: r => add A x (sum r) end.
Definition lerp (a b x : T A) := dv A (sub A x a) (sub A b a).
End M.
Definition QcA : Arith := {| T := Qc; add := Qcplus; sub := Qcminus; mul := Qcmult; dv := Qcdiv; zero := 0%Qc; one := 1%Qc; ltb := fun a b => match Qccompare a b with Lt => true | _ => false end |}.
Eval vm_compute in (this (lerp QcA (Q2Qc (1#3)) (Q2Qc (7#2)) (Q2Qc (5#4)))).
Section F. Variable K : Type. Variables (k0 k1 : K) (kadd kmul ksub : K -> K -> K) (kopp : K -> K) (kdiv : K -> K -> K) (kinv : K -> K).
Hypothesis Kf : field_theory k0 k1 kadd kmul ksub kopp kdiv kinv (@eq K).
Add Field Kfield : Kf.
Lemma t1 a b : b <> k0 -> kmul (kdiv a b) b = a. Proof. intros; field; auto. Qed.
End F.
Require Import Floats. Eval vm_compute in (PrimFloat.div 1%float 3%float).
Require Import ExtrOcamlBasic. Extraction "t.ml" lerp sum QcA.
