#include <sstream>
#include <iostream>
#include <algorithm>
#include <memory>
#include <numeric>
#include <random>
#include <chrono>
#include <array>
#include <string>
#include <fitsio.h>
#include <fitsio2.h>
#include <cstring>
#include <vector>
#include <cmath>
#define private public
#include <photospline/splinetable.h>
#undef private
using ST=photospline::splinetable<>;
// build a table directly
inline void build(ST& t, std::vector<uint32_t> ord, std::vector<std::vector<double>> kn, std::vector<float> co){
  uint32_t nd=ord.size(); t.ndim=nd;
  t.order=t.allocate<uint32_t>(nd); t.nknots=t.allocate<uint64_t>(nd); t.naxes=t.allocate<uint64_t>(nd); t.strides=t.allocate<uint64_t>(nd);
  t.knots=t.allocate<double*>(nd); t.extents=t.allocate<double*>(nd); t.extents[0]=t.allocate<double>(2*nd);
  for(uint32_t i=0;i<nd;i++){ t.order[i]=ord[i]; t.nknots[i]=kn[i].size(); t.naxes[i]=kn[i].size()-ord[i]-1;
    t.knots[i]=t.allocate<double>(kn[i].size()+2*ord[i])+ord[i];
    for(int k=-(int)ord[i];k<(int)(kn[i].size()+ord[i]);k++) t.knots[i][k]=NAN; // poison padding
    std::copy(kn[i].begin(),kn[i].end(),t.knots[i]); t.extents[i]=t.extents[0]+2*i; t.extents[i][0]=kn[i][ord[i]]; t.extents[i][1]=kn[i][kn[i].size()-ord[i]-1]; }
  t.strides[nd-1]=1; for(int i=nd-1;i>0;i--) t.strides[i-1]=t.strides[i]*t.naxes[i];
  uint64_t n=t.strides[0]*t.naxes[0]; t.coefficients=t.allocate<float>(n);
  for(uint64_t i=0;i<n;i++) t.coefficients[i]= i<co.size()?co[i]:1.f;
}
// Cox-de Boor with 0/0=0
inline double B(const std::vector<double>& t,int i,int n,double x,bool left=false){
  if(n==0) return left? (x>t[i]&&x<=t[i+1]) : (x>=t[i]&&x<t[i+1]);
  double a=0,b=0; if(t[i+n]>t[i]) a=(x-t[i])/(t[i+n]-t[i])*B(t,i,n-1,x,left);
  if(t[i+n+1]>t[i+1]) b=(t[i+n+1]-x)/(t[i+n+1]-t[i+1])*B(t,i+1,n-1,x,left); return a+b; }
