#include <sstream>
#include <iostream>
#include <cstdio>
#include <map>
#include <photospline/splinetable.h>
struct Stats{ size_t live=0, peak=0, nalloc=0, nfree=0; std::map<void*,size_t> blocks; bool bad=false; };
static Stats* G;
template<typename T> struct CountAlloc{
  typedef T value_type; Stats* st;
  CountAlloc():st(G){} 
  template<typename U> CountAlloc(const CountAlloc<U>& o):st(o.st){}
  T* allocate(size_t n){ size_t b=n*sizeof(T); void* p=::operator new(b?b:1); st->live+=b; st->nalloc++; if(st->live>st->peak) st->peak=st->live; st->blocks[p]=b; return (T*)p; }
  void deallocate(T* p,size_t n){ if(!p){ return; } auto it=st->blocks.find((void*)p); if(it==st->blocks.end()||it->second!=n*sizeof(T)){ st->bad=true; fprintf(stderr,"bad free %p n=%zu\n",(void*)p,n*sizeof(T)); if(it==st->blocks.end()) return; } st->live-=it->second; st->blocks.erase(it); st->nfree++; ::operator delete((void*)p); }
  template<typename U> bool operator==(const CountAlloc<U>&)const{return true;} template<typename U> bool operator!=(const CountAlloc<U>&)const{return false;}
};
template<> struct CountAlloc<void>{ typedef void value_type; Stats* st; CountAlloc():st(G){} template<typename U> CountAlloc(const CountAlloc<U>& o):st(o.st){} template<typename U> struct rebind{ typedef CountAlloc<U> other; }; };
int main(int argc,char**argv){ Stats s; G=&s; typedef photospline::splinetable<CountAlloc<void>> T;
  for(int i=1;i<argc;i++){ s=Stats(); size_t est=T::estimateMemory(argv[i],3,0); size_t est1=T::estimateMemory(argv[i]);
    { T t(argv[i]); size_t p1=s.peak; double ck[3]={-0.1,0,0.1}; t.convolve(0,ck,3); printf("%s: sizeof=%zu est(no conv)=%zu peak(load)=%zu est(conv3,dim0)=%zu peak(load+conv)=%zu\n",argv[i],sizeof(T),est1,p1,est,s.peak); }
    printf("   after destroy: live=%zu allocs=%zu frees=%zu bad=%d\n",s.live,s.nalloc,s.nfree,(int)s.bad); }
}
