#include <photospline/splinetable.h>
int main(){ photospline::splinetable<> t; t.remove_key("A"); return 0; }
