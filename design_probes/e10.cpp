#include <sstream>
#include <iostream>
#include <cstdio>
#include <vector>
#include <photospline/splinetable.h>
#include <photospline/cinter/splinetable.h>
int main(int argc,char**argv){ int which=atoi(argv[1]);
  const int N=20; std::vector<double> kn; for(int i=0;i<9;i++) kn.push_back(i);
  std::vector<double> co; for(int i=0;i<(which==0?10:N);i++) co.push_back(0.5+i*0.35);   // which==0: coordinate vector shorter than index range
  photospline::ndsparse data(N,1); std::vector<double> w(N,1.0); for(unsigned i=0;i<N;i++){ data.insertEntry(std::sin(i*0.3),&i); }
  std::vector<uint32_t> ord={2}; std::vector<uint32_t> pord={ which==1? 3u : 2u };   // which==1: penalty order = order+1
  photospline::splinetable<> t;
  try{ t.fit(data,w,std::vector<std::vector<double>>{co},ord,std::vector<std::vector<double>>{kn},std::vector<double>{1.0},pord,photospline::splinetable<>::no_monodim,false); printf("fit completed\n"); }
  catch(std::exception&e){ printf("threw: %s\n",e.what()); }
  if(which==2){ struct splinetable h; h.data=&t; std::vector<double> g={1.5,2.5,3.5}; const double* cs[1]={g.data()}; uint32_t nc[1]={3}; struct ndsparse* r=nullptr; int rc=splinetable_grideval(&h,cs,nc,&r); printf("grideval rc=%d rows=%zu\n",rc,r?r->rows:0); ndsparse_destroy(r); }
  return 0; }
