(* FitArgsModel.v — C13: the model of the code that exists: the translated check sequence run in source order,
   the object-level step function of fit(), and the C wrapper.  No proofs in this file. *)
From Coq Require Import List NArith Bool Arith.
Import ListNotations.
From PS Require Import FitArgs Generated_fitargs.
Local Open Scope N_scope.

(* fit.h, `//Sanity checking` .. `//Initialize variables`, as transcribed by tools/translators/fitargs.py *)
Definition fit_check (a : fitargs) : verdict := run_checks fit_checks_src a.
(* the same for the unchanged library *)
Definition fit_check_v0 (a : fitargs) : verdict := run_checks fit_checks_v0 a.

Definition fit_contract (a : fitargs) : bool := fit_contract_with divided_diffs_vla_after_return a.
(* contract of the unchanged glam.c (VLAs declared before the porder==0 return) *)
Definition fit_contract_v0 (a : fitargs) : bool := fit_contract_with false a.

(* ---------------------------------------------------------------------------------------------------- *)
(* Object state at the granularity operator== / the harness dump observe it. *)
Inductive tstate :=
| TEmpty                                         (* default-constructed: ndim = 0, all pointers null *)
| TFitted (ords : list N) (klens : list N).      (* members assigned: order[], nknots[] (naxes, strides, knots, coefficients follow) *)

Inductive outcome :=
| Done
| ThrowLogic (c : cref)        (* std::logic_error from the sanity block *)
| ThrowRuntime                 (* std::runtime_error: the target already contains data, or "GLAM fit failed" (glamfit_complex returned non-zero) *)
| Undefined.                   (* execution left the contract: anything may happen *)

(* fit.h, whole function. [solver_ok] abstracts the numerical outcome of glamfit_complex (CHOLMOD), which is not
   modelled: true = returned 0.  An argument rejection happens before anything else.  After the checks fit refuses a
   table that already contains data (std::runtime_error, table untouched); the members are then assigned BEFORE the
   solver runs, inside a try block whose handler calls clear(): a solver failure leaves the table EMPTY.
   (tools/translators/fitargs.py requires the guard and the handler to be present in the source.) *)
Definition fit_step (s : tstate) (a : fitargs) (solver_ok : bool) : tstate * outcome :=
  match fit_check a with
  | Reject c => (s, ThrowLogic c)
  | CheckFault _ => (s, Undefined)
  | Accept =>
      if fit_contract a
      then match s with
           | TFitted _ _ => (s, ThrowRuntime)                       (* "splinetable already contains data, cannot fit" *)
           | TEmpty => if solver_ok then (TFitted (orders a) (map fst (knotvecs a)), Done) else (TEmpty, ThrowRuntime)
           end
      else (s, Undefined)
  end.

(* ---------------------------------------------------------------------------------------------------- *)
(* src/cinter/splinetable.cpp: splinetable_glamfit.  The wrapper has no length arguments except nknots[]: it builds
   views of data->rows weights, data->ranges[i] abscissae, data->ndim orders / knot vectors / smoothing / penalty
   entries (lines 252-266) — so the container counts seen by fit() are the implied ones. *)
Definition c_view (a : fitargs) : fitargs :=
  {| rows := rows a; ranges := ranges a; maxidx := maxidx a;
     nweights := rows a;                         (* array_view<double> weightsv(weights,data->rows) *)
     coordlens := ranges a;                      (* coordsv[i].reset(coords[i],data->ranges[i]) *)
     orders := firstn (ndim a) (orders a);       (* splineOrderv(splineOrder,data->ndim) *)
     knotvecs := firstn (ndim a) (knotvecs a);   (* knotsv[i].reset(knots[i],nknots[i]), i<data->ndim *)
     smooth_nz := firstn (ndim a) (smooth_nz a); (* smoothingv(smoothing,data->ndim) *)
     porders := firstn (ndim a) (porders a);     (* penaltyOrderv(penaltyOrder,data->ndim) *)
     monodim := monodim a |}.

(* the caller's arrays hold at least data->ndim entries each (the part of the C interface nobody can check) *)
Definition c_arrays_ok (a : fitargs) : bool :=
  (ndim a <=? length (orders a))%nat && (ndim a <=? length (knotvecs a))%nat &&
  (ndim a <=? length (smooth_nz a))%nat && (ndim a <=? length (porders a))%nat.

Record cnulls := { table_null : bool; table_nodata : bool; data_null : bool }.

(* returns (new state, return value) — lines 246-276: `if(!table || !table->data || !data) return(1);`, then
   try{ ... fit ... }catch(std::exception&){return(1);}catch(...){return(1);} return(0); *)
Definition glamfit_c (n : cnulls) (s : tstate) (a : fitargs) (solver_ok : bool) : tstate * N :=
  if table_null n || table_nodata n || data_null n then (s, 1)
  else match fit_step s (c_view a) solver_ok with
       | (s', Done) => (s', 0)
       | (s', _) => (s', 1)
       end.
