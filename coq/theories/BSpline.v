(* BSpline.v — the mathematical specification the evaluation properties refer to: Cox–de Boor basis
   functions with the 0/0 := 0 convention, right- and left-continuous, their derivative formula, and the
   tensor-product sum over ALL stored coefficients. Executable (run on Qc by the oracle); no proofs here. *)
From Coq Require Import ZArith List Bool Lia.
From PS Require Import Arith EvalModel.
Import ListNotations.
Local Open Scope Z_scope.

Section Spec.
Context {A : Arith}.
Notation K := (T A).

Definition eqbK (a b : K) : bool := leb a b && leb b a.
(* a/b with the Cox–de Boor convention that a term with vanishing denominator is dropped *)
Definition wdiv (a b : K) : K := if eqbK b zero then zero else div a b.

Section OneDim.
Variable kn : Z -> K.

(* side = true : right-continuous  (t_i <= x <  t_{i+1});   side = false : left-continuous (t_i < x <= t_{i+1}) *)
Definition B0 (side : bool) (i : Z) (x : K) : K :=
  if side then (if leb (kn i) x && ltb x (kn (i + 1)) then one else zero)
  else (if ltb (kn i) x && leb x (kn (i + 1)) then one else zero).

Fixpoint Bfun (side : bool) (n : nat) (i : Z) (x : K) : K :=
  match n with
  | O => B0 side i x
  | S n1 =>
      let nz := Z.of_nat n in
      add (mul (wdiv (sub x (kn i)) (sub (kn (i + nz)) (kn i))) (Bfun side n1 i x))
          (mul (wdiv (sub (kn (i + nz + 1)) x) (sub (kn (i + nz + 1)) (kn (i + 1)))) (Bfun side n1 (i + 1) x))
  end.

(* k-th derivative by de Boor's formula  B'_{i,n} = n (B_{i,n-1}/(t_{i+n}-t_i) - B_{i+1,n-1}/(t_{i+n+1}-t_{i+1})) *)
Fixpoint dBfun (side : bool) (k : nat) (n : nat) (i : Z) (x : K) : K :=
  match k with
  | O => Bfun side n i x
  | S k1 =>
      match n with
      | O => zero
      | S n1 =>
          let nz := Z.of_nat n in
          mul (ofZ nz)
              (sub (wdiv (dBfun side k1 n1 i x) (sub (kn (i + nz)) (kn i)))
                   (wdiv (dBfun side k1 n1 (i + 1) x) (sub (kn (i + nz + 1)) (kn (i + 1)))))
      end
  end.
End OneDim.

(* the one-sided convention of the property text: right-continuous below the upper end of the fully
   supported range, left-continuous from there upwards *)
Definition side_of (d : dimn) (x : K) : bool := ltb x (d_kn d (d_naxes d)).

(* sum over ALL multi-indices m of coefficient(m) * prod_d d^k_d B_{m_d}(x_d); [pos] and [pr] accumulate
   the flat index and the product of the dimensions already visited *)
Fixpoint sum_range (f : Z -> K) (i : Z) (count : nat) : K :=
  match count with
  | O => zero
  | S c => add (f i) (sum_range f (i + 1) c)
  end.
Fixpoint tensor_sum (cf : Z -> K) (ds : list dimn) (xs : list K) (ks : list nat) (pos : Z) (pr : K) : K :=
  match ds, xs, ks with
  | d :: ds', x :: xs', k :: ks' =>
      sum_range (fun i =>
                   let b := dBfun (d_kn d) (side_of d x) k (d_order d) i x in
                   if eqbK b zero then zero
                   else tensor_sum cf ds' xs' ks' (pos + i * d_stride d) (mul pr b))
                0 (Z.to_nat (d_naxes d))
  | _, _, _ => mul pr (cf pos)
  end.
Definition spline_spec (t : table) (xs : list K) (ks : list nat) : K :=
  tensor_sum (coef t) (dims t) xs ks 0 one.

(* the magnitude of the summed terms, for the measured rounding bound: the same sums with every term
   replaced by its absolute value (inside the derivative formula too) *)
Definition absK (a : K) : K := if ltb a zero then opp a else a.
Fixpoint dBabs (kn : Z -> K) (side : bool) (k : nat) (n : nat) (i : Z) (x : K) : K :=
  match k with
  | O => absK (Bfun kn side n i x)
  | S k1 =>
      match n with
      | O => zero
      | S n1 =>
          let nz := Z.of_nat n in
          mul (ofZ nz)
              (add (wdiv (dBabs kn side k1 n1 i x) (absK (sub (kn (i + nz)) (kn i))))
                   (wdiv (dBabs kn side k1 n1 (i + 1) x) (absK (sub (kn (i + nz + 1)) (kn (i + 1))))))
      end
  end.
Fixpoint tensor_abs (cf : Z -> K) (ds : list dimn) (xs : list K) (ks : list nat) (pos : Z) (pr : K) : K :=
  match ds, xs, ks with
  | d :: ds', x :: xs', k :: ks' =>
      sum_range (fun i =>
                   let b := dBabs (d_kn d) (side_of d x) k (d_order d) i x in
                   if eqbK b zero then zero
                   else tensor_abs cf ds' xs' ks' (pos + i * d_stride d) (mul pr b))
                0 (Z.to_nat (d_naxes d))
  | _, _, _ => mul pr (absK (cf pos))
  end.
Definition spline_abs (t : table) (xs : list K) (ks : list nat) : K :=
  tensor_abs (coef t) (dims t) xs ks 0 one.

End Spec.
