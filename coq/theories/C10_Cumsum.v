(* C10_Cumsum.v — the cumulative-sum back-transformation of glamfit_complex (MonoModel.backtransform):
     * the triple loop with the code's index arithmetic is the flat recurrence  out[p] += out[p - stride2]  over the
       positions whose index along monodim is >= 1, in increasing order (loop_i_flat);
     * its result satisfies  R[p] = fadd a[p] R[p - stride2]  there and  R[p] = a[p]  elsewhere (flat_loop_spec);
     * hence, for any addition with  u >= 0 -> y <= fadd u y  (on "finite" values), the result is non-decreasing along
       monodim (backtransform_monotone) — instantiated in C10_Proofs.v with exact, rounded and IEEE binary32 addition. *)
From Coq Require Import List ZArith Bool PeanoNat Lia.
From PS Require Import Arith MonoModel.
Import ListNotations.

Section Gen.
Variable K : Type.
Variable fadd : K -> K -> K.
Variable dflt : K.
Notation get := (@getK K dflt).

Lemma setK_length (a : list K) : forall p v, length (setK a p v) = length a.
Proof. induction a as [|c a IH]; intros [|p] v; cbn [setK length]; auto. Qed.

Lemma get_setK_same (a : list K) : forall p v, p < length a -> get (setK a p v) p = v.
Proof.
  unfold getK. induction a as [|c a IH]; intros [|p] v H; cbn [setK nth length] in *; try lia; auto; try (apply IH; lia).
Qed.

Lemma get_setK_other (a : list K) : forall p q v, p <> q -> get (setK a p v) q = get a q.
Proof.
  unfold getK. induction a as [|c a IH]; intros [|p] [|q] v H; cbn [setK nth]; auto; try lia; try (apply IH; lia).
Qed.

(* ---- the triple loop is the flat loop ------------------------------------------------------------------ *)
Section Loops.
Variables nm s2 : nat.
Hypothesis Hnm : 1 <= nm.
Hypothesis Hs2 : 1 <= s2.
Notation B := (s2 * nm).
Notation fstep := (flat_step fadd dflt nm s2).

Lemma B_pos : B <> 0.
Proof using Hnm Hs2. intro E. apply Nat.eq_mul_0 in E. lia. Qed.

Lemma row_bound j k : j < nm -> k < s2 -> j * s2 + k < B.
Proof using Hnm Hs2.
  intros Hj Hk. assert (S j * s2 <= nm * s2) by (apply Nat.mul_le_mono_r; lia).
  rewrite (Nat.mul_comm s2 nm). cbn [Nat.mul] in H. lia.
Qed.

Lemma pos_mod i j k : j < nm -> k < s2 -> (i * B + (j * s2 + k)) mod B = j * s2 + k.
Proof using Hnm Hs2.
  intros Hj Hk. rewrite Nat.add_comm. rewrite Nat.mod_add by apply B_pos.
  apply Nat.mod_small. apply row_bound; assumption.
Qed.

Lemma fstep_step a i j k : 1 <= j -> j < nm -> k < s2 ->
  fstep a (i * B + (j * s2 + k)) = step fadd dflt nm s2 a i j k.
Proof using Hnm Hs2.
  intros Hj1 Hj Hk. unfold flat_step, step. rewrite pos_mod by assumption.
  assert (G : (s2 <=? j * s2 + k) = true).
  { apply Nat.leb_le. destruct j as [|j']; [lia|]. cbn [Nat.mul]. lia. }
  rewrite G.
  assert (E1 : i * s2 * nm + j * s2 + k = i * B + (j * s2 + k)) by lia.
  assert (E2 : i * s2 * nm + (j - 1) * s2 + k = i * B + (j * s2 + k) - s2).
  { destruct j as [|j']; [lia|]. replace (S j' - 1) with j' by lia. cbn [Nat.mul]. lia. }
  rewrite E1, E2. reflexivity.
Qed.

Lemma fstep_skip a i k : k < s2 -> fstep a (i * B + k) = a.
Proof using Hnm Hs2.
  intro Hk. unfold flat_step.
  replace (i * B + k) with (i * B + (0 * s2 + k)) by lia. rewrite pos_mod by lia.
  replace (s2 <=? 0 * s2 + k) with false by (symmetry; apply Nat.leb_gt; lia). reflexivity.
Qed.

Lemma row_k i j : 1 <= j -> j < nm -> forall cnt k0 a0, k0 + cnt = s2 ->
  fold_left fstep (seq (i * B + (j * s2 + k0)) cnt) a0 =
  fold_left (fun a k => step fadd dflt nm s2 a i j k) (seq k0 cnt) a0.
Proof using Hnm Hs2.
  intros Hj1 Hj. induction cnt as [|cnt IH]; intros k0 a0 E; [reflexivity|].
  cbn [seq fold_left]. rewrite fstep_step by lia.
  replace (S (i * B + (j * s2 + k0))) with (i * B + (j * s2 + S k0)) by lia.
  apply IH. lia.
Qed.

Lemma rows_j i : forall m j0 a0, 1 <= j0 -> j0 + m = nm ->
  fold_left fstep (seq (i * B + j0 * s2) (m * s2)) a0 =
  fold_left (fun a j => loop_k fadd dflt nm s2 i j a) (seq j0 m) a0.
Proof using Hnm Hs2.
  induction m as [|m IH]; intros j0 a0 Hj E; [reflexivity|].
  assert (R1 : fold_left fstep (seq (i * B + j0 * s2) s2) a0 = loop_k fadd dflt nm s2 i j0 a0).
  { replace (i * B + j0 * s2) with (i * B + (j0 * s2 + 0)) by lia. apply (row_k i j0 Hj ltac:(lia) s2 0 a0). lia. }
  cbn [Nat.mul]. rewrite seq_app, fold_left_app. cbn [seq fold_left]. rewrite R1.
  replace (i * B + j0 * s2 + s2) with (i * B + S j0 * s2) by (cbn [Nat.mul]; lia).
  apply IH; lia.
Qed.

Lemma skip_row i : forall cnt k0 a0, k0 + cnt = s2 -> fold_left fstep (seq (i * B + k0) cnt) a0 = a0.
Proof using Hnm Hs2.
  induction cnt as [|cnt IH]; intros k0 a0 E; [reflexivity|].
  cbn [seq fold_left]. rewrite fstep_skip by lia.
  replace (S (i * B + k0)) with (i * B + S k0) by lia. apply IH. lia.
Qed.

Lemma block_j i a0 : fold_left fstep (seq (i * B) B) a0 = loop_j fadd dflt nm s2 i a0.
Proof using Hnm Hs2.
  assert (EB : B = s2 + (nm - 1) * s2).
  { destruct nm as [|n']; [lia|]. replace (S n' - 1) with n' by lia. rewrite (Nat.mul_comm s2 (S n')). cbn [Nat.mul]. lia. }
  assert (R0 : fold_left fstep (seq (i * B) s2) a0 = a0).
  { replace (i * B) with (i * B + 0) by lia. apply (skip_row i s2 0 a0). lia. }
  replace (seq (i * B) B) with (seq (i * B) s2 ++ seq (i * B + s2) ((nm - 1) * s2)) by (rewrite <- seq_app; f_equal; lia).
  rewrite fold_left_app, R0.
  replace (i * B + s2) with (i * B + 1 * s2) by lia.
  unfold loop_j. apply rows_j; lia.
Qed.

Lemma loop_i_flat : forall s1 a0, loop_i fadd dflt s1 nm s2 a0 = flat_loop fadd dflt nm s2 (s1 * B) a0.
Proof using Hnm Hs2.
  unfold loop_i, flat_loop. induction s1 as [|s1 IH]; intro a0; [reflexivity|].
  replace (S s1) with (s1 + 1) at 1 by lia. rewrite seq_app, fold_left_app. cbn [seq fold_left Nat.add].
  rewrite IH. cbn [Nat.mul]. rewrite (Nat.add_comm B (s1 * B)). rewrite seq_app, fold_left_app. cbn [Nat.add].
  symmetry. apply block_j.
Qed.

(* ---- what the flat loop computes -------------------------------------------------------------------------- *)
Definition guard (p : nat) : bool := s2 <=? p mod B.

Lemma flat_loop_spec (a : list K) : forall t, t <= length a ->
  let R := flat_loop fadd dflt nm s2 t a in
  length R = length a /\
  (forall q, t <= q -> get R q = get a q) /\
  (forall q, q < t -> guard q = true -> get R q = fadd (get a q) (get R (q - s2))) /\
  (forall q, q < t -> guard q = false -> get R q = get a q).
Proof using Hnm Hs2.
  unfold flat_loop. induction t as [|t IH]; intro Ht.
  - cbn. repeat split; auto; intros; lia.
  - replace (S t) with (t + 1) by lia. rewrite seq_app, fold_left_app. cbn [seq fold_left Nat.add].
    destruct (IH ltac:(lia)) as [L [I1 [I2 I3]]]. clear IH.
    set (R := fold_left fstep (seq 0 t) a) in *. cbv zeta.
    unfold flat_step. fold (guard t). destruct (guard t) eqn:G.
    + assert (Hge : s2 <= t).
      { unfold guard in G. apply Nat.leb_le in G. pose proof (Nat.mod_le t B B_pos). lia. }
      split; [rewrite setK_length; exact L|]. split; [|split].
      * intros q Hq. rewrite get_setK_other by lia. apply I1. lia.
      * intros q Hq Gq. destruct (Nat.eq_dec q t) as [->|Hne].
        -- rewrite get_setK_same by lia. rewrite get_setK_other by lia. rewrite (I1 t) by lia. reflexivity.
        -- rewrite !get_setK_other by lia. apply I2; [lia|exact Gq].
      * intros q Hq Gq. destruct (Nat.eq_dec q t) as [->|Hne]; [congruence|].
        rewrite get_setK_other by lia. apply I3; [lia|exact Gq].
    + split; [exact L|]. split; [|split].
      * intros q Hq. apply I1. lia.
      * intros q Hq Gq. destruct (Nat.eq_dec q t) as [->|Hne]; [congruence|]. apply I2; [lia|exact Gq].
      * intros q Hq Gq. destruct (Nat.eq_dec q t) as [->|Hne]; [apply I1; lia|apply I3; [lia|exact Gq]].
Qed.
End Loops.

(* ---- the strides ----------------------------------------------------------------------------------------- *)
Definition prodn (l : list nat) : nat := fold_right Nat.mul 1 l.

Lemma strides_loop_spec : forall naxes i md a1 a2, i <= md -> md < i + length naxes ->
  strides_loop naxes i md a1 a2 =
  (a1 * prodn (firstn (md - i) naxes), a2 * prodn (skipn (S (md - i)) naxes)).
Proof.
  induction naxes as [|n rest IH]; intros i md a1 a2 H1 H2; cbn [length] in H2; [lia|].
  cbn [strides_loop]. destruct (Nat.ltb_spec i md) as [Hlt|Hge].
  - rewrite IH by lia. replace (md - i) with (S (md - S i)) by lia. unfold prodn. cbn [firstn skipn fold_right].
    apply pair_equal_spec; split; [lia | reflexivity].
  - assert (i = md) by lia. subst i. replace (md <? md) with false by (symmetry; apply Nat.ltb_irrefl).
    rewrite Nat.sub_diag. unfold prodn at 1. cbn [firstn skipn fold_right].
    clear IH H1 H2 Hge. rewrite Nat.mul_1_r.
    (* all remaining dimensions are behind monodim *)
    assert (G : forall l j b1 b2, md < j -> strides_loop l j md b1 b2 = (b1, b2 * prodn l)).
    { induction l as [|x l IHl]; intros j b1 b2 Hj; unfold prodn; cbn [strides_loop fold_right]; [apply pair_equal_spec; split; lia|].
      replace (j <? md) with false by (symmetry; apply Nat.ltb_ge; lia).
      replace (md <? j) with true by (symmetry; apply Nat.ltb_lt; lia).
      rewrite IHl by lia. unfold prodn. apply pair_equal_spec; split; lia. }
    apply G. lia.
Qed.

Lemma prodn_split (l : list nat) md : md < length l ->
  prodn l = prodn (firstn md l) * nth md l 0 * prodn (skipn (S md) l).
Proof.
  revert md. induction l as [|x l IH]; intros md H; cbn [length] in H; [lia|].
  destruct md as [|md]; unfold prodn in *.
  - cbn [firstn skipn nth fold_right]. lia.
  - change (skipn (S (S md)) (x :: l)) with (skipn (S md) l). cbn [firstn nth fold_right]. rewrite (IH md) by lia. lia.
Qed.

(* ---- monotonicity for an abstract addition ---------------------------------------------------------------- *)
Section Mono.
Variable le : K -> K -> Prop.
Variables fin nonneg : K -> Prop.
Hypothesis fadd_ge : forall u y, fin u -> nonneg u -> fin y -> fin (fadd u y) -> le y (fadd u y).

Lemma Forall_get (P : K -> Prop) (a : list K) p : Forall P a -> p < length a -> P (get a p).
Proof. intros F H. unfold getK. apply (proj1 (Forall_forall P a) F). apply nth_In. exact H. Qed.

Theorem loop_i_monotone s1 nm s2 (a : list K) :
  length a = s1 * (s2 * nm) ->
  Forall (fun u => fin u /\ nonneg u) a ->
  Forall fin (loop_i fadd dflt s1 nm s2 a) ->
  nondecreasing_along dflt le s1 nm s2 (loop_i fadd dflt s1 nm s2 a).
Proof.
  intros Hlen Hin Hout i j k Hi Hj Hk.
  assert (Hnm : 1 <= nm) by lia. assert (Hs2 : 1 <= s2) by lia.
  rewrite (loop_i_flat nm s2 Hnm Hs2) in *.
  destruct (flat_loop_spec nm s2 Hnm Hs2 a (s1 * (s2 * nm)) ltac:(lia)) as [L [_ [I2 _]]].
  set (R := flat_loop fadd dflt nm s2 (s1 * (s2 * nm)) a) in *.
  assert (Hp : i * (s2 * nm) + (S j * s2 + k) < s1 * (s2 * nm)).
  { pose proof (row_bound nm s2 Hnm Hs2 (S j) k Hj Hk). assert (S i * (s2 * nm) <= s1 * (s2 * nm)) by (apply Nat.mul_le_mono_r; lia).
    cbn [Nat.mul] in H0. lia. }
  assert (E1 : i * s2 * nm + S j * s2 + k = i * (s2 * nm) + (S j * s2 + k)) by lia.
  assert (E0 : i * s2 * nm + j * s2 + k = i * (s2 * nm) + (S j * s2 + k) - s2) by (cbn [Nat.mul]; lia).
  rewrite E1, E0.
  assert (G : guard nm s2 (i * (s2 * nm) + (S j * s2 + k)) = true).
  { unfold guard. rewrite (pos_mod nm s2 Hnm Hs2) by lia. apply Nat.leb_le. cbn [Nat.mul]. lia. }
  rewrite (I2 _ Hp G).
  apply fadd_ge.
  - apply (Forall_get (fun u => fin u /\ nonneg u) a _ Hin). lia.
  - apply (Forall_get (fun u => fin u /\ nonneg u) a _ Hin). lia.
  - apply (Forall_get fin R _ Hout). lia.
  - rewrite <- (I2 _ Hp G). apply (Forall_get fin R _ Hout). lia.
Qed.

Theorem backtransform_monotone (naxes : list nat) (md : nat) (a : list K) :
  wf_call naxes md a ->
  Forall (fun u => fin u /\ nonneg u) a ->
  Forall fin (backtransform fadd dflt naxes md a) ->
  nondecreasing_along dflt le (prodn (firstn md naxes)) (nth md naxes 0) (prodn (skipn (S md) naxes))
                      (backtransform fadd dflt naxes md a).
Proof.
  intros [Hmd Hlen] Hin Hout. unfold backtransform in *.
  rewrite (strides_loop_spec naxes 0 md 1 1 ltac:(lia) ltac:(lia)) in *.
  rewrite Nat.sub_0_r, !Nat.mul_1_l in *.
  apply loop_i_monotone; try assumption.
  rewrite Hlen. fold (prodn naxes). rewrite (prodn_split naxes md Hmd). lia.
Qed.
End Mono.

(* what the loop does NOT change: the length, and (flat_loop_spec) every entry whose index along monodim is 0 *)
Theorem backtransform_length (naxes : list nat) (md : nat) (a : list K) :
  length (backtransform fadd dflt naxes md a) = length a.
Proof.
  unfold backtransform. destruct (strides_loop naxes 0 md 1 1) as [s1 s2].
  unfold loop_i. generalize (seq 0 s1). intro l. revert a. induction l as [|i l IH]; intro a; [reflexivity|].
  cbn [fold_left]. rewrite IH. unfold loop_j. generalize (seq 1 (nth md naxes 0 - 1)). intro lj. revert a.
  induction lj as [|j lj IHj]; intro a; [reflexivity|]. cbn [fold_left]. rewrite IHj.
  unfold loop_k. generalize (seq 0 s2). intro lk. revert a.
  induction lk as [|k lk IHk]; intro a; [reflexivity|]. cbn [fold_left]. rewrite IHk. unfold step. apply setK_length.
Qed.


(* the loop of glamfit_complex is the flat recurrence: with s2 = stride of monodim, nm = naxes[monodim]:
   R[q] = fadd a[q] R[q - s2] when the index of q along monodim is >= 1 (q mod (s2*nm) >= s2), R[q] = a[q] otherwise *)
Theorem backtransform_spec (naxes : list nat) (md : nat) (a : list K) :
  wf_call naxes md a ->
  let nm := nth md naxes 0 in
  let s2 := prodn (skipn (S md) naxes) in
  let R := backtransform fadd dflt naxes md a in
  1 <= nm -> 1 <= s2 ->
  length R = length a /\
  forall q, q < length a ->
    (s2 <= q mod (s2 * nm) -> get R q = fadd (get a q) (get R (q - s2))) /\
    (q mod (s2 * nm) < s2 -> get R q = get a q).
Proof.
  intros [Hmd Hlen] nm s2 R Hnm Hs2. subst R. unfold backtransform.
  rewrite (strides_loop_spec naxes 0 md 1 1 ltac:(lia) ltac:(lia)).
  rewrite Nat.sub_0_r, !Nat.mul_1_l. fold nm. fold s2.
  rewrite (loop_i_flat nm s2 Hnm Hs2).
  assert (Ht : prodn (firstn md naxes) * (s2 * nm) = length a).
  { rewrite Hlen. fold (prodn naxes). rewrite (prodn_split naxes md Hmd). fold nm. fold s2. lia. }
  rewrite Ht.
  destruct (flat_loop_spec nm s2 Hnm Hs2 a (length a) ltac:(lia)) as [L [_ [I2 I3]]].
  split; [exact L|]. intros q Hq. split; intro G.
  - apply I2; [exact Hq|]. unfold guard. apply Nat.leb_le. exact G.
  - apply I3; [exact Hq|]. unfold guard. apply Nat.leb_gt. exact G.
Qed.

End Gen.
