(* FitsModel.v — executable model of photospline's FITS serialisation (properties C06, C07, C08).

   L2 (byte format = the subset of FITS / cfitsio behaviour the library relies on):
        encode : fitsdoc -> list byte          decode : list byte -> fres fitsdoc
   L1 (photospline's own logic, include/photospline/detail/fitsio.h):
        to_doc : table -> fitsdoc  (write_fits_core)       of_doc : fitsdoc -> fres table  (read_fits_core)
   composed:  to_bytes = encode ∘ to_doc,   of_bytes = decode ; of_doc,   read_bytes = lenient variant for C07.

   Bytes and characters are N (0..255); data words are raw bit patterns (N < 2^32 coefficients, N < 2^64 knots and
   extents): no floating-point semantics is needed, NaN payloads / infinities / -0 / denormals are just numbers.
   The reader model is faithful to the code AS WRITTEN, including what it does not validate (no cross-check between
   image axes, ORDERn and knot counts; knot values not looked at).  It is total: malformed input gives Error e.
   No proofs in this file. *)
From Coq Require Import List NArith ZArith Bool Decimal DecimalN.
From Coq Require String Ascii.
From PS Require Import Generated_fits.
Import ListNotations.
Open Scope N_scope.

Definition str := list N.          (* a byte / character string *)

(* ------------------------------------------------------------------------------------------------ *)
(* errors (small enum; the correspondence maps every library exception to "Error") *)
Inductive err :=
| ENoHDU            (* empty file / no primary HDU *)
| ETruncHeader      (* file ends inside a header (no END card found) *)
| ETruncData        (* file ends inside a data unit *)
| ENotFits          (* first card is neither SIMPLE = T nor XTENSION *)
| EBadMandatory     (* BITPIX / NAXIS / NAXISn / PCOUNT / GCOUNT missing, out of place or not an integer *)
| EBadBitpix
| ENegAxis
| EFuel             (* never produced for fuel = length of input; kept for totality *)
| ENotImage         (* "First HDU ... is not an image" *)
| EBadDim           (* "Invalid table dimension" (NAXIS < 1) *)
| EOrder            (* "Unable to read order for dimension i" *)
| ECoeffRead        (* "Error reading table coefficients" *)
| EKnotsMissing     (* "Error reading size of knot vector i" (no image HDU named KNOTSi) *)
| EKnotsCount       (* "Invalid number of knots" (NAXIS1 <= 0) *)
| EKnotsRead        (* "Error reading knot vector i data" *)
| EExtentsRead      (* "Error reading extent data" *)
| EUnsupported.     (* outside the modelled subset: data type conversion (BITPIX other than -32 / -64),
                       NAXIS = 0 in a KNOTS HDU (the code reads an uninitialised size), PCOUNT/GCOUNT images *)

Inductive fres (A : Type) := Ok (a : A) | Error (e : err).
Arguments Ok {A} a.
Arguments Error {A} e.

Definition bind {A B} (r : fres A) (f : A -> fres B) : fres B :=
  match r with Ok a => f a | Error e => Error e end.
Notation "'do' x <- r ; k" := (bind r (fun x => k)) (at level 200, x pattern, r at level 100, k at level 200).

Fixpoint traverse {A B} (f : A -> fres B) (l : list A) : fres (list B) :=
  match l with
  | [] => Ok []
  | a :: r => do b <- f a; do bs <- traverse f r; Ok (b :: bs)
  end.

(* ------------------------------------------------------------------------------------------------ *)
(* characters and string helpers *)
Definition sp : N := 32.
Definition quote : N := 39.
Definition slash : N := 47.
Definition eqc : N := 61.

Module Lits.
Import String.
Local Open Scope string_scope.
Definition lit (s : String.string) : str := List.map Ascii.N_of_ascii (String.list_ascii_of_string s).
Definition s_END      : str := Eval compute in lit "END".
Definition s_END8     : str := Eval compute in lit "END     ".
Definition s_HIER     : str := Eval compute in lit "HIERARCH".
Definition s_HIER9    : str := Eval compute in lit "HIERARCH ".
Definition s_COMMENT8 : str := Eval compute in lit "COMMENT ".
Definition s_HISTORY8 : str := Eval compute in lit "HISTORY ".
Definition s_CONTINUE : str := Eval compute in lit "CONTINUE".
Definition s_BLANK8   : str := Eval compute in lit "        ".
Definition s_SIMPLE   : str := Eval compute in lit "SIMPLE".
Definition s_XTENSION : str := Eval compute in lit "XTENSION".
Definition s_BITPIX   : str := Eval compute in lit "BITPIX".
Definition s_NAXIS    : str := Eval compute in lit "NAXIS".
Definition s_PCOUNT   : str := Eval compute in lit "PCOUNT".
Definition s_GCOUNT   : str := Eval compute in lit "GCOUNT".
Definition s_EXTEND   : str := Eval compute in lit "EXTEND".
Definition s_EXTNAME  : str := Eval compute in lit "EXTNAME".
Definition s_HDUNAME  : str := Eval compute in lit "HDUNAME".
Definition s_TYPE     : str := Eval compute in lit "TYPE".
Definition s_ORDER    : str := Eval compute in lit "ORDER".
Definition s_PERIOD   : str := Eval compute in lit "PERIOD".
Definition s_KNOTS    : str := Eval compute in lit "KNOTS".
Definition s_EXTENTS  : str := Eval compute in lit "EXTENTS".
Definition s_IMAGE    : str := Eval compute in lit "IMAGE".
Definition s_IUEIMAGE : str := Eval compute in lit "IUEIMAGE".
Definition s_T        : str := Eval compute in lit "T".
Definition s_typeString : str := Eval compute in lit "Spline Coefficient Table".   (* fitsio.h: typeString *)
End Lits.
Export Lits.

Fixpoint str_eqb (a b : str) : bool :=
  match a, b with
  | [], [] => true
  | x :: a', y :: b' => (x =? y) && str_eqb a' b'
  | _, _ => false
  end.

Fixpoint starts_with (p l : str) : bool :=
  match p, l with
  | [], _ => true
  | x :: p', y :: l' => (x =? y) && starts_with p' l'
  | _ :: _, [] => false
  end.

Fixpoint drop_spaces (l : str) : str :=
  match l with
  | c :: r => if c =? sp then drop_spaces r else l
  | [] => []
  end.

(* strip trailing blanks *)
Fixpoint strip_trailing (l : str) : str :=
  match l with
  | [] => []
  | c :: r => match strip_trailing r with
              | [] => if c =? sp then [] else [c]
              | r' => c :: r'
              end
  end.

(* characters up to (not including) the first blank *)
Fixpoint until_space (l : str) : str :=
  match l with
  | c :: r => if c =? sp then [] else c :: until_space r
  | [] => []
  end.

(* value token: characters up to the first blank or '/' (cfitsio ffpsvc: strcspn(card+ii, " /")) *)
Fixpoint take_tok (l : str) : str :=
  match l with
  | c :: r => if (c =? sp) || (c =? slash) then [] else c :: take_tok r
  | [] => []
  end.

Definition pad_right (n : nat) (l : str) : str := l ++ repeat sp (n - length l).
Definition pad_left (n : nat) (l : str) : str := repeat sp (n - length l) ++ l.

Definition to_upper (c : N) : N := if (97 <=? c) && (c <=? 122) then c - 32 else c.

(* ------------------------------------------------------------------------------------------------ *)
(* decimal integers (through the standard library's Decimal.uint and N.to_uint / N.of_uint) *)
Fixpoint uint_to_str (u : uint) : str :=
  match u with
  | Nil => []
  | D0 u => 48 :: uint_to_str u | D1 u => 49 :: uint_to_str u | D2 u => 50 :: uint_to_str u
  | D3 u => 51 :: uint_to_str u | D4 u => 52 :: uint_to_str u | D5 u => 53 :: uint_to_str u
  | D6 u => 54 :: uint_to_str u | D7 u => 55 :: uint_to_str u | D8 u => 56 :: uint_to_str u
  | D9 u => 57 :: uint_to_str u
  end.

Definition digit_con (c : N) : option (uint -> uint) :=
  match c with
  | 48 => Some D0 | 49 => Some D1 | 50 => Some D2 | 51 => Some D3 | 52 => Some D4
  | 53 => Some D5 | 54 => Some D6 | 55 => Some D7 | 56 => Some D8 | 57 => Some D9
  | _ => None
  end.

Fixpoint str_to_uint (l : str) : option uint :=
  match l with
  | [] => Some Nil
  | c :: r => match digit_con c, str_to_uint r with
              | Some d, Some u => Some (d u)
              | _, _ => None
              end
  end.

Definition dec (n : N) : str := uint_to_str (N.to_uint n).
Definition parse_nat (l : str) : option N :=
  match l with
  | [] => None
  | _ => option_map N.of_uint (str_to_uint l)
  end.

Definition print_int (z : Z) : str :=
  match z with
  | Zneg p => 45 :: dec (Npos p)
  | _ => dec (Z.to_N z)
  end.

(* optional sign, then at least one digit (what strtol accepts, minus leading blanks) *)
Definition parse_int (l : str) : option Z :=
  match l with
  | 45 :: r => option_map (fun n => Z.opp (Z.of_N n)) (parse_nat r)
  | 43 :: r => option_map Z.of_N (parse_nat r)
  | _ => option_map Z.of_N (parse_nat l)
  end.

(* ------------------------------------------------------------------------------------------------ *)
(* the abstract FITS document *)
Inductive cardvalue :=
| VStr (raw : str)       (* quoted string; raw = the characters between the outer quotes exactly as in the card
                            (embedded quotes still doubled, blank padding kept) *)
| VStrOpen (raw : str)   (* opening quote without a closing one (cfitsio >= 3.x accepts it) *)
| VTok (tok : str).      (* any other value token (logical, integer, float, ...), or [] when the value is absent *)

Inductive card :=
| Card (key : str) (v : cardvalue)        (* "KEY     = value" or "HIERARCH long key = value" *)
| Commentary (key : str) (text : str).    (* COMMENT / HISTORY / blank keyword / anything without "= " in columns 9-10 *)

Record hdu := { h_cards : list card; h_data : list N }.   (* data: big-endian words of |BITPIX|/8 bytes *)
Definition fitsdoc := list hdu.

Definition card_key (c : card) : str := match c with Card k _ => k | Commentary k _ => k end.

(* ------------------------------------------------------------------------------------------------ *)
(* L2: cards *)
Definition value_text (v : cardvalue) : str :=
  match v with
  | VStr raw => quote :: raw ++ [quote]
  | VStrOpen raw => quote :: raw
  | VTok tok => pad_left 20 tok           (* fixed format: right-justified in columns 11-30 *)
  end.

Definition card_text (c : card) : str :=
  match c with
  | Card key v =>
      if (length key <=? 8)%nat then pad_right 8 key ++ [eqc; sp] ++ value_text v
      else s_HIER9 ++ key ++ [sp; eqc; sp] ++ value_text v           (* ESO HIERARCH convention, as cfitsio writes it *)
  | Commentary key text => pad_right 8 key ++ text
  end.

Definition encode_card (c : card) : str := pad_right 80 (card_text c).
Definition end_card : str := pad_right 80 s_END.

(* cfitsio ffpsvc, string branch: copy up to the closing quote; a doubled quote is an embedded quote and both
   characters are kept *)
Definition cv_cons (c : N) (v : cardvalue) : cardvalue :=
  match v with
  | VStr r => VStr (c :: r)
  | VStrOpen r => VStrOpen (c :: r)
  | VTok t => VTok t
  end.

Fixpoint scan_str (l : str) : cardvalue :=
  match l with
  | [] => VStrOpen []
  | c :: r =>
      if c =? quote then
        match r with
        | c2 :: r2 => if c2 =? quote then cv_cons quote (cv_cons quote (scan_str r2)) else VStr []
        | [] => VStr []
        end
      else cv_cons c (scan_str r)
  end.

Definition parse_value (rest : str) : cardvalue :=
  match drop_spaces rest with
  | [] => VTok []
  | c :: r => if c =? quote then scan_str r else VTok (take_tok (c :: r))
  end.

(* position of the first '=' : (before, after) *)
Fixpoint split_eq (l : str) : option (str * str) :=
  match l with
  | [] => None
  | c :: r => if c =? eqc then Some ([], r)
              else match split_eq r with Some (a, b) => Some (c :: a, b) | None => None end
  end.

Definition is_commentary8 (k8 : str) : bool :=
  str_eqb k8 s_COMMENT8 || str_eqb k8 s_HISTORY8 || str_eqb k8 s_BLANK8 || str_eqb k8 s_CONTINUE || str_eqb k8 s_END8.

(* cfitsio ffgknm (keyword name) + ffpsvc (value) on one 80-character card *)
Definition decode_card (c : str) : card :=
  if starts_with s_HIER9 c then
    match split_eq (skipn 9 c) with
    | Some (name, rest) => Card (strip_trailing (drop_spaces name)) (parse_value rest)
    | None => Commentary s_HIER (strip_trailing (skipn 8 c))
    end
  else
    let k8 := firstn 8 c in
    let key := until_space k8 in
    if is_commentary8 k8 || negb (starts_with [eqc; sp] (skipn 8 c))
    then Commentary key (strip_trailing (skipn 8 c))
    else Card key (parse_value (skipn 10 c)).

Definition is_end (c : str) : bool := str_eqb (firstn 8 c) s_END8.

(* ------------------------------------------------------------------------------------------------ *)
(* L2: words and blocks *)
Fixpoint be_bytes (n : nat) (w : N) : list N :=
  match n with
  | O => []
  | S m => be_bytes m (w / 256) ++ [w mod 256]
  end.

Definition be_word (l : list N) : N := fold_left (fun a b => a * 256 + b) l 0.

Definition block : nat := 2880.
Definition pad_len (len : nat) : nat := ((block - len mod block) mod block)%nat.
Definition pad_block (fill : N) (l : list N) : list N := l ++ repeat fill (pad_len (length l)).

(* ------------------------------------------------------------------------------------------------ *)
(* L2: layout of an HDU from its mandatory keywords, in the mandatory order (cfitsio ffgphd / ffgttb) *)
Inductive hkind := KPrimary | KImage | KOther.
Record layout := { l_kind : hkind; l_bitpix : Z; l_axes : list N; l_pcount : N; l_gcount : N }.

Definition card_int (name : str) (c : card) : option Z :=
  match c with
  | Card k (VTok t) => if str_eqb k name then parse_int t else None
  | _ => None
  end.

Definition card_nat (name : str) (c : card) : option N :=
  match card_int name c with
  | Some z => if (0 <=? z)%Z then Some (Z.to_N z) else None
  | None => None
  end.

Definition unquote_first_word (raw : str) : str := strip_trailing raw.

Definition first_card_kind (c : card) : option hkind :=
  match c with
  | Card k (VTok t) => if str_eqb k s_SIMPLE && str_eqb t s_T then Some KPrimary else None
  | Card k (VStr raw) =>
      if str_eqb k s_XTENSION then
        let x := strip_trailing raw in
        if str_eqb x s_IMAGE || str_eqb x s_IUEIMAGE then Some KImage else Some KOther
      else None
  | _ => None
  end.

Definition word_size (bitpix : Z) : option nat :=
  match bitpix with
  | 8%Z => Some 1%nat | 16%Z => Some 2%nat | 32%Z => Some 4%nat | 64%Z => Some 8%nat
  | (-32)%Z => Some 4%nat | (-64)%Z => Some 8%nat
  | _ => None
  end.

(* NAXIS1 .. NAXISn at the head of cs; returns the axes and the remaining cards *)
Fixpoint read_axes (n : nat) (j : N) (cs : list card) : fres (list N * list card) :=
  match n with
  | O => Ok ([], cs)
  | S m =>
      match cs with
      | c :: r =>
          match card_int (s_NAXIS ++ dec j) c with
          | Some z => if (z <? 0)%Z then Error ENegAxis
                      else do ar <- read_axes m (j + 1) r; Ok (Z.to_N z :: fst ar, snd ar)
          | None => Error EBadMandatory
          end
      | [] => Error EBadMandatory
      end
  end.

Definition hdu_layout (cs : list card) : fres layout :=
  match cs with
  | c0 :: c1 :: c2 :: r =>
      match first_card_kind c0 with
      | None => Error ENotFits
      | Some kind =>
          match card_int s_BITPIX c1, card_nat s_NAXIS c2 with
          | Some bp, Some naxis =>
              match word_size bp with
              | None => Error EBadBitpix
              | Some _ =>
                  do ar <- read_axes (N.to_nat naxis) 1 r;
                  match kind with
                  | KPrimary => Ok {| l_kind := kind; l_bitpix := bp; l_axes := fst ar; l_pcount := 0; l_gcount := 1 |}
                  | _ =>
                      match snd ar with
                      | cp :: cg :: _ =>
                          match card_nat s_PCOUNT cp, card_nat s_GCOUNT cg with
                          | Some p, Some g => Ok {| l_kind := kind; l_bitpix := bp; l_axes := fst ar; l_pcount := p; l_gcount := g |}
                          | _, _ => Error EBadMandatory
                          end
                      | _ => Error EBadMandatory
                      end
                  end
              end
          | _, _ => Error EBadMandatory
          end
      end
  | _ => Error EBadMandatory
  end.

Definition prodN (l : list N) : N := fold_right N.mul 1 l.

(* number of data words: |BITPIX|/8-byte units; FITS: Nbits = |BITPIX| * GCOUNT * (PCOUNT + NAXIS1*...*NAXISm) *)
Definition layout_words (ly : layout) : N :=
  match l_axes ly with
  | [] => 0
  | axes => l_gcount ly * (l_pcount ly + prodN axes)
  end.

(* ------------------------------------------------------------------------------------------------ *)
(* L2: encode *)
Definition hdu_word_size (h : hdu) : nat :=
  match hdu_layout (h_cards h) with
  | Ok ly => match word_size (l_bitpix ly) with Some ws => ws | None => 1%nat end
  | Error _ => 1%nat
  end.

Definition encode_header (cs : list card) : list N :=
  pad_block sp (concat (map encode_card cs) ++ end_card).

Definition encode_data (ws : nat) (ws_data : list N) : list N :=
  pad_block 0 (concat (map (be_bytes ws) ws_data)).

Definition encode_hdu (h : hdu) : list N :=
  encode_header (h_cards h) ++ encode_data (hdu_word_size h) (h_data h).

Definition encode (d : fitsdoc) : list N := concat (map encode_hdu d).

(* ------------------------------------------------------------------------------------------------ *)
(* L2: decode *)

(* cards up to END; returns the cards, the number of 80-byte records consumed (END included) and the rest *)
Fixpoint read_cards (fuel : nat) (b : list N) (n : nat) : fres (list card * nat * list N) :=
  match fuel with
  | O => Error EFuel
  | S f =>
      let c := firstn 80 b in
      if (length c <? 80)%nat then Error ETruncHeader
      else
        let r := skipn 80 b in
        if is_end c then Ok ([], S n, r)
        else do x <- read_cards f r (S n);
             let '(cs, m, r') := x in Ok (decode_card c :: cs, m, r')
  end.

Fixpoint take_words (ws : nat) (n : nat) (b : list N) : fres (list N * list N) :=
  match n with
  | O => Ok ([], b)
  | S m =>
      let w := firstn ws b in
      if (length w <? ws)%nat then Error ETruncData
      else do x <- take_words ws m (skipn ws b); Ok (be_word w :: fst x, snd x)
  end.

Definition decode_hdu (fuel : nat) (b : list N) : fres (hdu * list N) :=
  do x <- read_cards fuel b 0;
  let '(cs, ncards, r) := x in
  let r1 := skipn (pad_len (ncards * 80)) r in          (* rest of the last header block: content ignored *)
  do ly <- hdu_layout cs;
  match word_size (l_bitpix ly) with
  | None => Error EBadBitpix
  | Some ws =>
      let nw := N.to_nat (layout_words ly) in
      do y <- take_words ws nw r1;
      let r2 := skipn (pad_len (nw * ws)) (snd y) in     (* zero fill; a short final block is tolerated *)
      Ok ({| h_cards := cs; h_data := fst y |}, r2)
  end.

(* all HDUs that parse, and the error that stopped the scan if any (cfitsio discovers HDUs lazily: an unreadable
   tail only matters when a needed extension is searched for and not found before it) *)
Fixpoint decode_hdus (fuel : nat) (b : list N) : list hdu * option err :=
  match fuel with
  | O => ([], Some EFuel)
  | S f =>
      match b with
      | [] => ([], None)
      | _ => match decode_hdu (S (length b / 80)) b with
             | Ok (h, r) => let '(hs, e) := decode_hdus f r in (h :: hs, e)
             | Error e => ([], Some e)
             end
      end
  end.

Definition decode_prefix (b : list N) : list hdu * option err :=
  decode_hdus (S (length b / 2880)) b.

Definition decode (b : list N) : fres fitsdoc :=
  match decode_prefix b with
  | ([], None) => Error ENoHDU
  | (d, None) => Ok d
  | (_, Some e) => Error e
  end.

(* ------------------------------------------------------------------------------------------------ *)
(* L1: the table (splinetable.h data members) *)
Record table := {
  t_order   : list N;                 (* uint32_t order[ndim] *)
  t_knots   : list (list N);          (* knots[i][0..nknots[i]) as binary64 bit patterns *)
  t_naxes   : list N;                 (* uint64_t naxes[ndim] *)
  t_strides : list N;                 (* uint64_t strides[ndim] *)
  t_coeffs  : list N;                 (* float coefficients[] as binary32 bit patterns, row-major *)
  t_extents : option (list N);        (* extents[0][0..2*ndim) as binary64 bit patterns; None = null pointer *)
  t_periods : option (list (option str));  (* header text of PERIODi (opaque; None = absent, i.e. 0); outer None = null pointer *)
  t_aux     : list (str * str)        (* aux[i][0], aux[i][1] in insertion order *)
}.

Definition t_ndim (t : table) : nat := length (t_order t).

Fixpoint numbered {A} (i : N) (l : list A) : list (N * A) :=
  match l with
  | [] => []
  | a :: r => (i, a) :: numbered (i + 1) r
  end.

(* cfitsio ffs2c: quote doubling, blank padding to at least 8 characters *)
Fixpoint escape_quotes (s : str) : str :=
  match s with
  | [] => []
  | c :: r => if c =? quote then quote :: quote :: escape_quotes r else c :: escape_quotes r
  end.
Definition fits_quote (s : str) : str := pad_right 8 (escape_quotes s).

Definition int_card (key : str) (z : Z) : card := Card key (VTok (print_int z)).
Definition str_card (key : str) (s : str) : card := Card key (VStr (fits_quote s)).
Definition keyn (base : str) (i : N) : str := base ++ dec i.

(* write_fits_core: the primary header after fits_create_img(FLOAT_IMG, ndim, reversed naxes) *)
Definition primary_cards (t : table) : list card :=
  [Card s_SIMPLE (VTok s_T); int_card s_BITPIX (-32); int_card s_NAXIS (Z.of_nat (t_ndim t))]
  ++ map (fun ja => int_card (keyn s_NAXIS (fst ja)) (Z.of_N (snd ja))) (numbered 1 (List.rev (t_naxes t)))
  ++ [Card s_EXTEND (VTok s_T); str_card s_TYPE s_typeString]
  ++ map (fun io => int_card (keyn s_ORDER (fst io)) (Z.of_N (snd io))) (numbered 0 (t_order t))
  ++ match t_periods t with
     | None => []
     | Some ps => map (fun ip => Card (keyn s_PERIOD (fst ip)) (VTok (match snd ip with Some p => p | None => [48; 46] end)))
                      (numbered 0 ps)
     end
  ++ map (fun kv => str_card (fst kv) (snd kv)) (t_aux t).

(* fits_create_img(DOUBLE_IMG, 1, &n) + fits_update_key(EXTNAME) *)
Definition vector_hdu (name : str) (ws : list N) : hdu :=
  {| h_cards := [Card s_XTENSION (VStr (fits_quote s_IMAGE)); int_card s_BITPIX (-64); int_card s_NAXIS 1;
                 int_card (keyn s_NAXIS 1) (Z.of_nat (length ws)); int_card s_PCOUNT 0; int_card s_GCOUNT 1;
                 str_card s_EXTNAME name];
     h_data := ws |}.

Definition to_doc (t : table) : fitsdoc :=
  {| h_cards := primary_cards t; h_data := t_coeffs t |}
  :: map (fun ik => vector_hdu (keyn s_KNOTS (fst ik)) (snd ik)) (numbered 0 (t_knots t))
  ++ match t_extents t with
     | None => []
     | Some e => [vector_hdu s_EXTENTS e]
     end.

Definition to_bytes (t : table) : list N := encode (to_doc t).

(* ------------------------------------------------------------------------------------------------ *)
(* L1: the reader, read_fits_core as written *)

Definition reserved (key : str) : bool :=
  existsb (fun p => starts_with p key) reserved_prefixes || existsb (fun e => str_eqb e key) reserved_exact.

(* cfitsio fftrec via ffgkyn: keyword names with characters outside 32..126 make fits_read_keyn fail (card skipped) *)
Definition key_legal (key : str) : bool := forallb (fun c => (32 <=? c) && (c <=? 126)) key.

(* the value string fits_read_keyn returns: the raw token, quotes included *)
Definition raw_value (c : card) : str :=
  match c with
  | Card _ (VStr raw) => quote :: raw ++ [quote]
  | Card _ (VStrOpen raw) => quote :: raw
  | Card _ (VTok t) => t
  | Commentary _ _ => []
  end.

(* fitsio.h 262-266 "remove stupid quotes mandated by FITS": for a value that begins with a quote, the last character is
   cut off when it is a quote too and at least two characters are there (valuelen>2 && value[valuelen-2]=='\''), and the
   stored text begins after the opening quote (stored = value+1) *)
Definition strip_quotes (v : str) : str :=
  match v with
  | c :: r =>
      if c =? quote then
        match r with
        | [] => []
        | _ => if last r 0 =? quote then removelast r else r
        end
      else v
  | [] => []
  end.

(* fitsio.h 269-275, the un-doubling loop   for(in=stored; *in; in++){ if(in[0]=='\'' && in[1]=='\'') in++; *out++=*in; }
   a quote followed by a quote yields one quote and both are consumed; any other character — a quote that is followed by
   something else or by the terminating NUL included — is copied.  (Also what cfitsio's ffc2s does, which fits_movnam_hdu
   applies to EXTNAME / HDUNAME: see string_value below.) *)
Fixpoint unescape_quotes (s : str) : str :=
  match s with
  | c :: r => if c =? quote then
                match r with
                | c2 :: r2 => if c2 =? quote then quote :: unescape_quotes r2 else c :: unescape_quotes r
                | [] => [c]
                end
              else c :: unescape_quotes r
  | [] => []
  end.

(* fitsio.h 262-279: the text stored as aux[i][1] for the raw value fits_read_keyn returned.
     char* stored = value;
     if(valuelen>1 && value[0]=='\''){ <strip_quotes>; <un-doubling loop over stored, in place> }
     aux[i][1] = copy of stored
   A value that does not begin with a quote (a number, a logical, the empty value of a commentary card) is stored as it
   is.  Blanks are not touched: the padding cfitsio adds up to 8 characters was inside the quotes and stays; since the
   doubled quotes counted towards those 8 characters, a value with q quotes and fewer than 8 - q other characters comes
   back with 8 - length - q trailing blanks. *)
Definition aux_value (v : str) : str :=
  match v with
  | c :: _ => if c =? quote then unescape_quotes (strip_quotes v) else v
  | [] => []
  end.

Definition aux_of_cards (cs : list card) : list (str * str) :=
  flat_map (fun c => let k := card_key c in
                     if key_legal k && negb (reserved k) then [(k, aux_value (raw_value c))] else []) cs.

(* ------------------------------------------------------------------------------------------------ *)
(* L1: what write_key (aux.h 84-159) decides from the LENGTHS of a key and a value, and from the reserved list.
   (Its alphabet checks — upper case / digits for short keys, no '=', lower case, non-printables, outer blanks or a
   leading "HIERARCH " for long keys, printable values — are C16's subject: AuxModel.check_key; C06_AuxTie.v proves that
   on keys and values passing those checks AuxModel.accepts = (write_key_offer = Stored).)
     reservedFitsKeyword(key)                                   -> throw "Cannot set key with reserved name"
     maxdatalen = 68;  if(keylen-1 > 8){ ... if(keylen-1>66) throw ...; maxdatalen=80-(13+keylen-1); }
     encodedlen = (valuelen-1) + count(valuedata, '\'')          every quote is doubled on the card
     if(encodedlen>maxdatalen) throw "Value is too long to be stored as a FITS keyword" *)
Definition encoded_len (v : str) : nat := (length v + length (filter (fun c => (c =? quote)%N) v))%nat.
Definition max_data_len (k : str) : nat := if (length k <=? 8)%nat then 68%nat else (80 - (13 + length k))%nat.
Inductive offer := Stored | RefusedReserved | RefusedLongKey | RefusedTooLong.
Definition write_key_offer (k v : str) : offer :=
  if reserved k then RefusedReserved
  else if negb (length k <=? 8)%nat && (66 <? length k)%nat then RefusedLongKey
  else if (max_data_len k <? encoded_len v)%nat then RefusedTooLong
  else Stored.

(* fits_read_key: first card whose keyword name equals name (names are upper case in the file) *)
Fixpoint find_card (name : str) (cs : list card) : option card :=
  match cs with
  | [] => None
  | c :: r => if str_eqb (card_key c) name then Some c else find_card name r
  end.

Definition key_int (name : str) (cs : list card) : option Z :=
  match find_card name cs with
  | Some (Card _ (VTok t)) => parse_int t
  | _ => None
  end.

Definition two31 : Z := 2147483648%Z.
Definition two32 : Z := 4294967296%Z.

(* readOrder logic: single ORDER (TINT into a uint32_t pointer) else ORDERi (TUINT) for every dimension *)
Definition read_orders (ndim : nat) (cs : list card) : fres (list N) :=
  match key_int s_ORDER cs with
  | Some z =>
      if ((- two31 <=? z) && (z <? two31))%Z then Ok (repeat (Z.to_N (z mod two32)) ndim)
      else (* NUM_OVERFLOW: treated like "no single ORDER" *)
        traverse (fun i => match key_int (keyn s_ORDER i) cs with
                           | Some o => if ((0 <=? o) && (o <? two32))%Z then Ok (Z.to_N o) else Error EOrder
                           | None => Error EOrder end) (map N.of_nat (seq 0 ndim))
  | None =>
      traverse (fun i => match key_int (keyn s_ORDER i) cs with
                         | Some o => if ((0 <=? o) && (o <? two32))%Z then Ok (Z.to_N o) else Error EOrder
                         | None => Error EOrder end) (map N.of_nat (seq 0 ndim))
  end.

Definition read_periods (ndim : nat) (cs : list card) : list (option str) :=
  map (fun i => match find_card (keyn s_PERIOD i) cs with
                | Some (Card _ (VTok t)) => Some t
                | _ => None end) (map N.of_nat (seq 0 ndim)).

(* strides[0]=1; partial_sum(naxes_temp.begin(), naxes_temp.end()-1, strides+1, multiplies); reverse *)
Fixpoint partial_products (acc : N) (l : list N) : list N :=
  match l with
  | [] => []
  | a :: r => (acc * a) :: partial_products (acc * a) r
  end.
Definition read_strides (axes : list N) : list N := List.rev (1 :: partial_products 1 (removelast axes)).

(* fits_movnam_hdu(IMAGE_HDU, name, 0): first HDU (primary included) of image type whose EXTNAME (else HDUNAME),
   with quotes undone (unescape_quotes, above) and trailing blanks removed, equals name ignoring case *)
Definition string_value (c : card) : option str :=
  match c with
  | Card _ (VStr raw) => Some (strip_trailing (unescape_quotes raw))
  | Card _ (VStrOpen raw) => Some (strip_trailing (unescape_quotes raw))
  | Card _ (VTok t) => match t with [] => None | _ => Some t end
  | Commentary _ _ => None
  end.

Definition hdu_name (cs : list card) : option str :=
  match find_card s_EXTNAME cs with
  | Some c => string_value c
  | None => match find_card s_HDUNAME cs with Some c => string_value c | None => None end
  end.

Definition is_image_hdu (h : hdu) : bool :=
  match hdu_layout (h_cards h) with
  | Ok ly => match l_kind ly with KOther => false | _ => true end
  | Error _ => false
  end.

Definition name_matches (name : str) (h : hdu) : bool :=
  is_image_hdu h &&
  match hdu_name (h_cards h) with
  | Some n => str_eqb (map to_upper n) (map to_upper name)
  | None => false
  end.

Definition find_hdu (name : str) (d : fitsdoc) : option hdu := find (name_matches name) d.

(* a KNOTSi / EXTENTS vector: fits_get_img_size(fits, 1, &n) then fits_read_pix(TDOUBLE, n) *)
Definition first_axis (h : hdu) : option N :=
  match hdu_layout (h_cards h) with
  | Ok ly => match l_axes ly with a :: _ => Some a | [] => None end
  | Error _ => None
  end.

Definition hdu_bitpix (h : hdu) : Z :=
  match hdu_layout (h_cards h) with Ok ly => l_bitpix ly | Error _ => 0%Z end.

Definition read_knots (d : fitsdoc) (i : N) : fres (list N) :=
  match find_hdu (keyn s_KNOTS i) d with
  | None => Error EKnotsMissing
  | Some h =>
      match first_axis h with
      | None => Error EUnsupported               (* NAXIS = 0: the code uses an uninitialised count *)
      | Some n =>
          if n =? 0 then Error EKnotsCount
          else if negb (hdu_bitpix h =? -64)%Z then Error EUnsupported   (* cfitsio would convert the data type *)
          else if (length (h_data h) <? N.to_nat n)%nat then Error EKnotsRead
          else Ok (firstn (N.to_nat n) (h_data h))
      end
  end.

Fixpoint default_extents (orders : list N) (knots : list (list N)) : list N :=
  match orders, knots with
  | o :: orr, k :: kr => nth (N.to_nat o) k 0 :: nth (length k - N.to_nat o - 1) k 0 :: default_extents orr kr
  | _, _ => []
  end.

Definition read_extents (d : fitsdoc) (ndim : nat) (orders : list N) (knots : list (list N)) : fres (list N) :=
  match find_hdu s_EXTENTS d with
  | None => Ok (default_extents orders knots)
  | Some h =>
      match first_axis h with
      | None => Ok (default_extents orders knots)         (* n_extents stays 0 *)
      | Some n =>
          if negb (n =? N.of_nat (2 * ndim)) then Ok (default_extents orders knots)
          else if negb (hdu_bitpix h =? -64)%Z then Error EUnsupported
          else if (length (h_data h) <? N.to_nat n)%nat then Error EExtentsRead
          else Ok (firstn (N.to_nat n) (h_data h))
      end
  end.

Definition of_doc (d : fitsdoc) : fres table :=
  match d with
  | [] => Error ENoHDU
  | h0 :: _ =>
      do ly <- hdu_layout (h_cards h0);
      match l_kind ly with
      | KOther => Error ENotImage
      | _ =>
          let axes := l_axes ly in
          let ndim := length axes in
          if (ndim <? 1)%nat then Error EBadDim else
          let aux := aux_of_cards (h_cards h0) in
          do orders <- read_orders ndim (h_cards h0);
          let periods := read_periods ndim (h_cards h0) in
          let naxes := List.rev axes in
          let strides := read_strides axes in
          let ncoeffs := hd 0 strides * hd 0 naxes in
          if negb (l_bitpix ly =? -32)%Z then Error EUnsupported else
          if (length (h_data h0) <? N.to_nat ncoeffs)%nat then Error ECoeffRead else
          do knots <- traverse (read_knots d) (map N.of_nat (seq 0 ndim));
          do extents <- read_extents d ndim orders knots;
          Ok {| t_order := orders; t_knots := knots; t_naxes := naxes; t_strides := strides;
                t_coeffs := firstn (N.to_nat ncoeffs) (h_data h0); t_extents := Some extents;
                t_periods := Some periods; t_aux := aux |}
      end
  end.

(* strict reader (every byte of the file must parse) and lenient reader (what the library sees) *)
Definition of_bytes (b : list N) : fres table := do d <- decode b; of_doc d.
Definition read_bytes (b : list N) : fres table := of_doc (fst (decode_prefix b)).
