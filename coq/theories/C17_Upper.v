(* C17_Upper.v — what fix F30_1 (bsplinebasis takes the specification's own one-sided convention) does NOT change: for order
   >= 1 and strictly increasing knots the right- and the left-continuous Cox–de Boor functions have the same value at EVERY
   point (B-splines of order >= 1 are continuous wherever the knot multiplicity is <= order), so on such a dimension every
   entry of the basis matrix is what it was with the right-continuous basis. (Before the fix this continuity argument
   carried the agreement theorem at and above knots[naxes]; the agreement theorem no longer needs it.) *)
From Coq Require Import ZArith List Bool Lia Field Ring.
From PS Require Import Arith EvalModel BSpline C04_Proofs OFieldKit C01_Basis C01_Core C01_Proofs C02_Proofs GridModel C17_Proofs.
Import ListNotations.
Local Open Scope Z_scope.

Section Sides.
Context {A : Arith}.
Variable F : OField A.
Notation K := (T A).
Add Field Kfield17 : (OFth F).
Notation le := (@OFieldKit.le A).
Notation lt := (@OFieldKit.lt A).

Lemma cmp3 (p q : K) : lt p q \/ p = q \/ lt q p.
Proof.
  destruct (leb p q) eqn:E1; destruct (leb q p) eqn:E2.
  - right; left. apply (le_antisym F); assumption.
  - left. apply (nle_lt F). exact E2.
  - right; right. apply (nle_lt F). exact E1.
  - exfalso. destruct (le_total F p q) as [H|H]; unfold OFieldKit.le in H; congruence.
Qed.
Lemma lt_trans (p q r : K) : lt p q -> lt q r -> lt p r.
Proof. intros H1 H2. eapply (lt_le_trans F); [exact H1|apply (lt_le F); exact H2]. Qed.
Lemma b_lt1 (p q : K) : lt p q -> ltb p q = true. Proof. intro H; exact H. Qed.
Lemma b_lt2 (p q : K) : lt p q -> leb p q = true. Proof. intro H; exact (lt_le F _ _ H). Qed.
Lemma b_lt3 (p q : K) : lt p q -> ltb q p = false. Proof. intro H; apply (le_not_lt F); exact (lt_le F _ _ H). Qed.
Lemma b_lt4 (p q : K) : lt p q -> leb q p = false. Proof. intro H; apply (lt_iff_nle F); exact H. Qed.
Lemma b_eq1 (p : K) : ltb p p = false. Proof. apply (le_not_lt F). apply (le_refl F). Qed.
Lemma b_eq2 (p : K) : leb p p = true. Proof. apply (le_refl F). Qed.

Ltac setb :=
  repeat match goal with
  | H : lt ?p ?q |- _ => progress (rewrite ?(b_lt1 p q H), ?(b_lt2 p q H), ?(b_lt3 p q H), ?(b_lt4 p q H))
  end; rewrite ?b_eq1, ?b_eq2.

Variable kn : Z -> K.
Variable nknots : Z.
Hypothesis Hstrict : forall i j, 0 <= i -> i < j -> j < nknots -> lt (kn i) (kn j).

(* order 1: the hat function, both conventions *)
Lemma hat_sides_agree i x : 0 <= i -> i + 2 < nknots -> Bfun kn true 1 i x = Bfun kn false 1 i x.
Proof.
  intros Hi0 Hi1. cbn [Bfun]. unfold B0.
  replace (i + Z.of_nat 1) with (i + 1) by lia. replace (i + 1 + 1) with (i + 2) by lia.
  set (a := kn i). set (b := kn (i + 1)). set (c := kn (i + 2)).
  assert (Hab : lt a b) by (subst a b; apply Hstrict; lia).
  assert (Hbc : lt b c) by (subst b c; apply Hstrict; lia).
  assert (Hac : lt a c) by (eapply lt_trans; eauto).
  assert (N1 : sub b a <> zero) by (apply (lt_sub_neq F); exact Hab).
  assert (N2 : sub c b <> zero) by (apply (lt_sub_neq F); exact Hbc).
  rewrite (wdiv_nz F _ _ N1), (wdiv_nz F _ _ N2).
  destruct (cmp3 x a) as [H|[H|H]].
  - assert (lt x b) by (eapply lt_trans; eauto). assert (lt x c) by (eapply lt_trans; eauto). setb. cbn [andb]. reflexivity.
  - subst x. setb. cbn [andb]. field. split; assumption.
  - destruct (cmp3 x b) as [H2|[H2|H2]].
    + assert (lt x c) by (eapply lt_trans; eauto). setb. cbn [andb]. reflexivity.
    + subst x. setb. cbn [andb]. field. split; assumption.
    + destruct (cmp3 x c) as [H3|[H3|H3]].
      * setb. cbn [andb]. reflexivity.
      * subst x. setb. cbn [andb]. field. split; assumption.
      * setb. cbn [andb]. reflexivity.
Qed.

Lemma Bfun_sides_agree x : forall n i, (1 <= n)%nat -> 0 <= i -> i + Z.of_nat n + 1 < nknots ->
  Bfun kn true n i x = Bfun kn false n i x.
Proof.
  induction n as [|n IH]; intros i Hn Hi0 Hi1; [lia|].
  destruct n as [|n]; [apply hat_sides_agree; lia|].
  change (Bfun kn true (S (S n)) i x) with
    (add (mul (wdiv (sub x (kn i)) (sub (kn (i + Z.of_nat (S (S n)))) (kn i))) (Bfun kn true (S n) i x))
         (mul (wdiv (sub (kn (i + Z.of_nat (S (S n)) + 1)) x) (sub (kn (i + Z.of_nat (S (S n)) + 1)) (kn (i + 1)))) (Bfun kn true (S n) (i + 1) x))).
  change (Bfun kn false (S (S n)) i x) with
    (add (mul (wdiv (sub x (kn i)) (sub (kn (i + Z.of_nat (S (S n)))) (kn i))) (Bfun kn false (S n) i x))
         (mul (wdiv (sub (kn (i + Z.of_nat (S (S n)) + 1)) x) (sub (kn (i + Z.of_nat (S (S n)) + 1)) (kn (i + 1)))) (Bfun kn false (S n) (i + 1) x))).
  rewrite (IH i), (IH (i + 1)) by lia. reflexivity.
Qed.
End Sides.

Section Upper.
Context {A : Arith}.
Variable F : OField A.
Notation K := (T A).

(* a dimension of order >= 1 with strictly increasing knots: bsplinebasis returns what it returned before fix F30_1 *)
Theorem basis_unchanged_strict (d : @dimn A) (xs : list K) :
  wfd d -> (1 <= d_order d)%nat -> strict_dim d -> basis_matrix d xs = basis_matrix_rc d xs.
Proof.
  intros Wd Ho Hst. destruct (wfd_nsplines d Wd) as [Hns Hna]. destruct Wd as [W1 [W2 _]].
  unfold basis_matrix, basis_matrix_rc. apply map_ext. intro x. apply map_ext_in. intros col Hc.
  apply in_seq in Hc. rewrite !(bspline_guarded_Bfun F).
  destruct (basis_left d x); [|reflexivity]. cbn [negb]. symmetry.
  apply (Bfun_sides_agree F (d_kn d) (d_nknots d) Hst x); lia.
Qed.
End Upper.
