(* C01_Basis.v — one dimension: de Boor's recurrence as coded in bsplvb_simple (EvalModel.deboor_rounds, with
   the margin walk and re-indexing) computes exactly the Cox–de Boor functions of BSpline.v, over any ordered
   field, for any knot vector that is non-decreasing on its valid range — whatever the allocation padding
   outside [0,nknots) contains. *)
From Coq Require Import ZArith List Bool Lia Field Ring.
From PS Require Import Arith EvalModel BSpline OFieldKit.
Import ListNotations.
Local Open Scope Z_scope.

Section OneDim.
Context {A : Arith}.
Variable F : OField A.
Notation K := (T A).
Add Field Kfield1 : (OFth F).
Notation le := (@OFieldKit.le A).
Notation lt := (@OFieldKit.lt A).

Variable kn : Z -> K.
Variable nknots : Z.
Hypothesis Hmono : forall i j, 0 <= i -> i <= j -> j < nknots -> le (kn i) (kn j).

(* x lies in the knot interval [left]: right-continuous (side = true) or left-continuous (side = false) *)
Definition in_piece (side : bool) (l : Z) (x : K) : Prop :=
  if side then le (kn l) x /\ lt x (kn (l + 1)) else lt (kn l) x /\ le x (kn (l + 1)).

Lemma piece_nonempty side l x : in_piece side l x -> lt (kn l) (kn (l + 1)).
Proof.
  destruct side; intros [H1 H2].
  - eapply le_lt_trans; eauto.
  - eapply lt_le_trans; eauto.
Qed.

Section Piece.
Variable side : bool.
Variable l : Z.
Variable x : K.
Hypothesis Hl0 : 0 <= l.
Hypothesis Hl1 : l + 1 < nknots.
Hypothesis Hpiece : in_piece side l x.

Lemma B0_piece i : 0 <= i -> i + 1 < nknots -> B0 kn side i x = if i =? l then one else zero.
Proof.
  intros Hi0 Hi1. unfold B0. destruct (Z.eqb_spec i l) as [->|Hne].
  - destruct side; destruct Hpiece as [H1 H2]; unfold OFieldKit.le, OFieldKit.lt in *; rewrite H1, H2; reflexivity.
  - destruct (Z_lt_le_dec i l) as [Hlt|Hge].
    + (* i < l : kn (i+1) <= kn l *)
      assert (Hk : le (kn (i + 1)) (kn l)) by (apply Hmono; lia).
      destruct side; destruct Hpiece as [H1 H2].
      * assert (E : ltb x (kn (i + 1)) = false) by (apply (le_not_lt F); eapply (le_trans F); eauto).
        rewrite E, andb_false_r. reflexivity.
      * assert (E : leb x (kn (i + 1)) = false).
        { apply (lt_iff_nle F). eapply (le_lt_trans F); eauto. }
        rewrite E, andb_false_r. reflexivity.
    + (* l < i : kn (l+1) <= kn i *)
      assert (Hk : le (kn (l + 1)) (kn i)) by (apply Hmono; lia).
      destruct side; destruct Hpiece as [H1 H2].
      * assert (E : leb (kn i) x = false).
        { apply (lt_iff_nle F). eapply (lt_le_trans F); eauto. }
        rewrite E. reflexivity.
      * assert (E : ltb (kn i) x = false) by (apply (le_not_lt F); eapply (le_trans F); eauto).
        rewrite E. reflexivity.
Qed.

(* local support: B_{i,n} vanishes at x unless i <= l <= i+n *)
Lemma Bfun_support n : forall i, 0 <= i -> i + Z.of_nat n + 1 < nknots -> (i + Z.of_nat n < l \/ l < i) ->
  Bfun kn side n i x = zero.
Proof.
  induction n as [|n IH]; intros i Hi0 Hi1 Hout.
  - cbn [Bfun]. rewrite B0_piece by lia. destruct (Z.eqb_spec i l); [lia|reflexivity].
  - cbn [Bfun]. rewrite IH by lia. rewrite IH by lia. ring.
Qed.

(* knots on either side of the interval are separated *)
Lemma kdiff_nz a b : 0 <= a -> a <= l -> l + 1 <= b -> b < nknots -> sub (kn b) (kn a) <> zero.
Proof.
  intros Ha0 Ha Hb Hb1. apply (lt_sub_neq F).
  eapply (le_lt_trans F); [apply (Hmono a l); lia|].
  eapply (lt_le_trans F); [exact (piece_nonempty side l x Hpiece)|apply (Hmono (l + 1) b); lia].
Qed.

(* ---------------------------------------------------------------------------------------------- *)
(* one round of the recurrence, structurally: with [old] the values before the round *)
Section Round.
Variable j : nat.
Variable old : nat -> K.
Definition term (p : nat) : K := div (old p) (add (dr kn l x p) (dl kn l x (j - p))).
Definition savedf (p : nat) : K :=
  match p with O => zero | S q => mul (dl kn l x (j - q)) (term q) end.
Definition newv (p : nat) : K :=
  if (p <=? j)%nat then add (savedf p) (mul (dr kn l x p) (term p)) else savedf p.

Lemma inner_struct : forall m i, (i + m = S j)%nat ->
  deboor_inner kn l x j i (map old (seq i m)) (savedf i) = map newv (seq i (S m)).
Proof.
  induction m as [|m IH]; intros i Him.
  - cbn [seq map deboor_inner]. rewrite (rnd_id F). unfold newv.
    replace (i <=? j)%nat with false by (symmetry; apply Nat.leb_gt; lia). reflexivity.
  - cbn [seq map deboor_inner]. rewrite (rnd_id F).
    change (mul (dl kn l x (j - i)) (div (old i) (add (dr kn l x i) (dl kn l x (j - i))))) with (savedf (S i)).
    rewrite (IH (S i)) by lia.
    change (map newv (seq i (S (S m)))) with (newv i :: map newv (seq (S i) (S m))).
    f_equal. unfold newv. replace (i <=? j)%nat with true by (symmetry; apply Nat.leb_le; lia). reflexivity.
Qed.

Lemma round_struct : deboor_round kn l x j (map old (seq 0 (S j))) = map newv (seq 0 (S (S j))).
Proof. unfold deboor_round. change zero with (savedf 0). apply inner_struct. lia. Qed.

(* the values: B_{l-j+p, j}(x), meaningful when all its knots are inside the valid range *)
Definition Bv (jj p : nat) : K := Bfun kn side jj (l - Z.of_nat jj + Z.of_nat p) x.
Definition valid (jj p : nat) : Prop := 0 <= l - Z.of_nat jj + Z.of_nat p /\ l + Z.of_nat p + 1 < nknots.

Hypothesis Hold : forall p, (p <= j)%nat -> valid j p -> old p = Bv j p.

Lemma kn_idx (a b : Z) : a = b -> kn a = kn b.
Proof. intros ->. reflexivity. Qed.

Lemma newv_B p : (p <= S j)%nat -> valid (S j) p -> newv p = Bv (S j) p.
Proof.
  intros Hp [Hv0 Hv1]. unfold Bv. cbn [Bfun].
  set (i := l - Z.of_nat (S j) + Z.of_nat p) in *.
  rewrite (kn_idx (i + Z.of_nat (S j)) (l + Z.of_nat p)) by lia.
  rewrite (kn_idx (i + Z.of_nat (S j) + 1) (l + Z.of_nat p + 1)) by lia.
  destruct p as [|q].
  - (* p = 0: the left neighbour vanishes *)
    rewrite (Bfun_support j i) by lia.
    assert (E1 : Bfun kn side j (i + 1) x = old 0%nat).
    { symmetry. rewrite Hold; [unfold Bv; f_equal; lia | lia | split; lia]. }
    rewrite E1.
    assert (N : sub (kn (l + Z.of_nat 0 + 1)) (kn (i + 1)) <> zero) by (apply kdiff_nz; lia).
    rewrite (wdiv_nz F _ _ N).
    unfold newv, savedf, term, dr, dl. cbn [Nat.leb].
    rewrite (kn_idx (l - Z.of_nat (j - 0)) (i + 1)) by lia.
    field. intro E. apply N. rewrite <- E. ring.
  - destruct (Nat.eq_dec q j) as [->|Hq].
    + (* p = j+1: the right neighbour vanishes *)
      rewrite (Bfun_support j (i + 1)) by lia.
      assert (E1 : Bfun kn side j i x = old j).
      { symmetry. rewrite Hold; [unfold Bv; f_equal; lia | lia | split; lia]. }
      rewrite E1.
      assert (N : sub (kn (l + Z.of_nat (S j))) (kn i) <> zero) by (apply kdiff_nz; lia).
      rewrite (wdiv_nz F _ _ N).
      unfold newv. replace (S j <=? j)%nat with false by (symmetry; apply Nat.leb_gt; lia).
      unfold savedf, term, dr, dl.
      rewrite (kn_idx (l - Z.of_nat (j - j)) i) by lia.
      rewrite (kn_idx (l + Z.of_nat j + 1) (l + Z.of_nat (S j))) by lia.
      field. intro E. apply N. rewrite <- E. ring.
    + (* interior *)
      assert (Hqj : (q < j)%nat) by lia.
      assert (E1 : Bfun kn side j i x = old q).
      { symmetry. rewrite Hold; [unfold Bv; f_equal; lia | lia | split; lia]. }
      assert (E2 : Bfun kn side j (i + 1) x = old (S q)).
      { symmetry. rewrite Hold; [unfold Bv; f_equal; lia | lia | split; lia]. }
      rewrite E1, E2.
      assert (N1 : sub (kn (l + Z.of_nat (S q))) (kn i) <> zero) by (apply kdiff_nz; lia).
      assert (N2 : sub (kn (l + Z.of_nat (S q) + 1)) (kn (i + 1)) <> zero) by (apply kdiff_nz; lia).
      rewrite (wdiv_nz F _ _ N1), (wdiv_nz F _ _ N2).
      unfold newv. replace (S q <=? j)%nat with true by (symmetry; apply Nat.leb_le; lia).
      unfold savedf, term, dr, dl.
      rewrite (kn_idx (l - Z.of_nat (j - q)) i) by lia.
      rewrite (kn_idx (l + Z.of_nat q + 1) (l + Z.of_nat (S q))) by lia.
      rewrite (kn_idx (l - Z.of_nat (j - S q)) (i + 1)) by lia.
      field. split; intro E; [apply N2 | apply N1]; rewrite <- E; ring.
Qed.
End Round.

(* all rounds *)
Lemma rounds_B : forall count jlow old,
  (forall p, (p <= jlow)%nat -> valid jlow p -> old p = Bv jlow p) ->
  exists f, deboor_rounds kn l x jlow count (map old (seq 0 (S jlow))) = map f (seq 0 (S (jlow + count))) /\
            forall p, (p <= jlow + count)%nat -> valid (jlow + count) p -> f p = Bv (jlow + count) p.
Proof.
  induction count as [|c IH]; intros jlow old Hold.
  - exists old. rewrite Nat.add_0_r. split; [reflexivity|exact Hold].
  - cbn [deboor_rounds]. rewrite round_struct.
    destruct (IH (S jlow) (newv jlow old)) as [f [E Hf]].
    { intros p Hp Hv. apply newv_B; assumption. }
    exists f. replace (jlow + S c)%nat with (S jlow + c)%nat by lia. split; assumption.
Qed.

Lemma deboor_B n :
  exists f, deboor_rounds kn l x 0 n [rnd one] = map f (seq 0 (S n)) /\
            forall p, (p <= n)%nat -> valid n p -> f p = Bv n p.
Proof.
  destruct (rounds_B n 0%nat (fun _ => one)) as [f [E Hf]].
  - intros p Hp [Hv0 Hv1]. assert (p = 0%nat) by lia. subst p. unfold Bv. cbn [Bfun].
    rewrite B0_piece by lia. replace (l - Z.of_nat 0 + Z.of_nat 0 =? l) with true by (symmetry; apply Z.eqb_eq; lia).
    reflexivity.
  - exists f. rewrite (rnd_id F). split; [exact E|exact Hf].
Qed.


(* ---------------------------------------------------------------------------------------------- *)
(* partition of unity: each round of the recurrence preserves the sum of the entries *)
Fixpoint sumK (l0 : list K) : K := match l0 with [] => zero | a :: r => add a (sumK r) end.

Lemma round_sum j old : (Z.of_nat j <= l) -> l + Z.of_nat j + 1 < nknots ->
  forall m i, (i + m = S j)%nat ->
  sumK (map (newv j old) (seq i (S m))) = add (savedf j old i) (sumK (map old (seq i m))).
Proof.
  intros Hj0 Hj1. induction m as [|m IH]; intros i Him.
  - cbn [seq map sumK]. unfold newv. replace (i <=? j)%nat with false by (symmetry; apply Nat.leb_gt; lia). reflexivity.
  - change (seq i (S (S m))) with (i :: seq (S i) (S m)). change (seq i (S m)) with (i :: seq (S i) m).
    rewrite !map_cons. cbn [sumK]. rewrite IH by lia.
    unfold newv. replace (i <=? j)%nat with true by (symmetry; apply Nat.leb_le; lia).
    change (savedf j old (S i)) with (mul (dl kn l x (j - i)) (term j old i)).
    unfold term, dr, dl.
    assert (N : sub (kn (l + Z.of_nat i + 1)) (kn (l - Z.of_nat (j - i))) <> zero) by (apply kdiff_nz; lia).
    field. intro E. apply N. rewrite <- E. ring.
Qed.

Lemma rounds_sum : forall count jlow old, (Z.of_nat (jlow + count) <= l + 1) -> l + Z.of_nat (jlow + count) < nknots ->
  sumK (deboor_rounds kn l x jlow count (map old (seq 0 (S jlow)))) = sumK (map old (seq 0 (S jlow))).
Proof.
  induction count as [|c IH]; intros jlow old H0 H1; [reflexivity|].
  cbn [deboor_rounds]. rewrite round_struct.
  rewrite (IH (S jlow) (newv jlow old)) by lia.
  rewrite (round_sum jlow old ltac:(lia) ltac:(lia) (S jlow) 0%nat ltac:(lia)).
  cbn [savedf]. ring.
Qed.

(* in the fully supported range the n+1 local basis values sum to one *)
Lemma deboor_sum_one n : Z.of_nat n <= l -> l + Z.of_nat n + 1 < nknots ->
  sumK (deboor_rounds kn l x 0 n [rnd one]) = one.
Proof.
  intros H0 H1. rewrite (rnd_id F).
  change [one] with (map (fun _ : nat => @one A) (seq 0 1)).
  destruct n as [|n1]; [cbn [deboor_rounds map seq sumK]; ring|].
  rewrite rounds_sum by lia. cbn [seq map sumK]. ring.
Qed.

End Piece.

(* ---------------------------------------------------------------------------------------------- *)
(* list helpers *)
Lemma map_seq_eq {X} (f g : nat -> X) : forall m a b,
  (forall i, (i < m)%nat -> f (a + i)%nat = g (b + i)%nat) -> map f (seq a m) = map g (seq b m).
Proof.
  induction m as [|m IH]; intros a b H; [reflexivity|].
  cbn [seq map]. f_equal.
  - specialize (H 0%nat ltac:(lia)). rewrite !Nat.add_0_r in H. exact H.
  - apply IH. intros i Hi. specialize (H (S i) ltac:(lia)).
    replace (S a + i)%nat with (a + S i)%nat by lia. replace (S b + i)%nat with (b + S i)%nat by lia. exact H.
Qed.
Lemma repeat_map_seq {X} (z : X) (g : nat -> X) : forall m b,
  (forall i, (i < m)%nat -> g (b + i)%nat = z) -> repeat z m = map g (seq b m).
Proof.
  induction m as [|m IH]; intros b H; [reflexivity|].
  cbn [repeat seq map]. f_equal.
  - specialize (H 0%nat ltac:(lia)). rewrite Nat.add_0_r in H. symmetry. exact H.
  - apply IH. intros i Hi. specialize (H (S i) ltac:(lia)). replace (S b + i)%nat with (b + S i)%nat by lia. exact H.
Qed.
Lemma skipn_seq : forall k a m, skipn k (seq a m) = seq (a + k) (m - k).
Proof.
  induction k as [|k IH]; intros a m.
  - rewrite Nat.add_0_r, Nat.sub_0_r. reflexivity.
  - destruct m as [|m]; [reflexivity|]. cbn [seq skipn]. rewrite IH. f_equal; lia.
Qed.
Lemma firstn_seq : forall k a m, firstn k (seq a m) = seq a (Nat.min k m).
Proof.
  induction k as [|k IH]; intros a m; [reflexivity|].
  destruct m as [|m]; [reflexivity|]. cbn [seq firstn Nat.min]. rewrite IH. reflexivity.
Qed.

(* ---------------------------------------------------------------------------------------------- *)
(* the margin walk *)
Lemma walk_down_spec x : le (kn 0) x -> forall fuel left, 0 <= left -> left < nknots -> (Z.to_nat (left + 1) <= fuel)%nat ->
  let r := walk_down kn fuel x left in
  0 <= r <= left /\ le (kn r) x /\ (forall m, r < m <= left -> lt x (kn m)).
Proof.
  intros H0 fuel. induction fuel as [|f IH]; intros left Hl0 Hl1 Hf; [lia|].
  cbn [walk_down]. destruct (ltb x (kn left)) eqn:E.
  - replace (0 <=? left) with true by (symmetry; apply Z.leb_le; lia). cbn [andb].
    assert (left <> 0).
    { intros ->. pose proof (le_not_lt F _ _ H0). congruence. }
    specialize (IH (left - 1) ltac:(lia) ltac:(lia) ltac:(lia)). cbv zeta in IH. destruct IH as [I1 [I2 I3]].
    cbv zeta. split; [lia|]. split; [exact I2|].
    intros m Hm. destruct (Z.eq_dec m left) as [->|Hne]; [exact E|apply I3; lia].
  - rewrite andb_false_r. cbv zeta. split; [lia|]. split; [apply (nlt_le F); exact E|intros m Hm; lia].
Qed.

Lemma walk_up_spec x : le x (kn (nknots - 1)) -> forall fuel left, 0 <= left -> left <= nknots - 2 -> (Z.to_nat (nknots - 1 - left) <= fuel)%nat ->
  let r := walk_up kn nknots fuel x left in
  left <= r <= nknots - 2 /\ le x (kn (r + 1)) /\ (forall m, left <= m < r -> lt (kn (m + 1)) x).
Proof.
  intros H0 fuel. induction fuel as [|f IH]; intros left Hl0 Hl1 Hf; [lia|].
  cbn [walk_up]. unfold gtb. destruct (ltb (kn (left + 1)) x) eqn:E.
  - replace (left <? nknots - 1) with true by (symmetry; apply Z.ltb_lt; lia). cbn [andb].
    assert (left <> nknots - 2).
    { intros ->. replace (nknots - 2 + 1) with (nknots - 1) in E by lia. pose proof (le_not_lt F _ _ H0). congruence. }
    specialize (IH (left + 1) ltac:(lia) ltac:(lia) ltac:(lia)). cbv zeta in IH. destruct IH as [I1 [I2 I3]].
    cbv zeta. split; [lia|]. split; [exact I2|].
    intros m Hm. destruct (Z.eq_dec m left) as [->|Hne]; [exact E|apply I3; lia].
  - rewrite andb_false_r. cbv zeta. split; [lia|]. split; [apply (nlt_le F); exact E|intros m Hm; lia].
Qed.

Section Simple.
Variable n : nat.
Hypothesis Hn : 2 * Z.of_nat n + 2 <= nknots.
Variable x : K.

(* the n+1 Cox–de Boor functions of order n that can be non-zero on the interval [c] *)
Definition Bvec (side : bool) (c : Z) : list K :=
  map (fun i => Bfun kn side n (c - Z.of_nat n + Z.of_nat i) x) (seq 0 (S n)).

(* what the margin walk delivers, relative to the center handed in *)
Definition walk_post (side : bool) (c l : Z) : Prop :=
  0 <= l /\ l + 1 < nknots /\ in_piece side l x /\
  Z.of_nat n <= c <= nknots - Z.of_nat n - 2 /\
  (l = c \/ (c = Z.of_nat n /\ l < c) \/ (c = nknots - Z.of_nat n - 2 /\ c < l)).

Lemma adjust_interior c : Z.of_nat n <= c <= nknots - Z.of_nat n - 2 -> in_piece true c x ->
  walk_post true c (adjust_left kn nknots (Z.of_nat n) x c).
Proof.
  intros Hc [P1 P2]. unfold adjust_left.
  assert (E1 : (if c =? Z.of_nat n then walk_down kn (Z.to_nat (c + 1)) x c else c) = c).
  { destruct (c =? Z.of_nat n); [|reflexivity].
    destruct (Z.to_nat (c + 1)) as [|f] eqn:Ef; [reflexivity|]. cbn [walk_down].
    rewrite (le_not_lt F _ _ P1), andb_false_r. reflexivity. }
  rewrite E1.
  assert (E2 : (if c =? nknots - Z.of_nat n - 2 then walk_up kn nknots (Z.to_nat (nknots - 1 - c)) x c else c) = c).
  { destruct (c =? nknots - Z.of_nat n - 2); [|reflexivity].
    destruct (Z.to_nat (nknots - 1 - c)) as [|f] eqn:Ef; [reflexivity|]. cbn [walk_up]. unfold gtb.
    rewrite (le_not_lt F _ _ (lt_le F _ _ P2)), andb_false_r. reflexivity. }
  rewrite E2. unfold walk_post. repeat split; try lia; try assumption.
Qed.

(* the same with the left-continuous convention (the lookup hands in such a span at the upper end of full support) *)
Lemma adjust_interior_left c : Z.of_nat n <= c <= nknots - Z.of_nat n - 2 -> in_piece false c x ->
  walk_post false c (adjust_left kn nknots (Z.of_nat n) x c).
Proof.
  intros Hc [P1 P2]. unfold adjust_left.
  assert (E1 : (if c =? Z.of_nat n then walk_down kn (Z.to_nat (c + 1)) x c else c) = c).
  { destruct (c =? Z.of_nat n); [|reflexivity].
    destruct (Z.to_nat (c + 1)) as [|f] eqn:Ef; [reflexivity|]. cbn [walk_down].
    rewrite (le_not_lt F _ _ (lt_le F _ _ P1)), andb_false_r. reflexivity. }
  rewrite E1.
  assert (E2 : (if c =? nknots - Z.of_nat n - 2 then walk_up kn nknots (Z.to_nat (nknots - 1 - c)) x c else c) = c).
  { destruct (c =? nknots - Z.of_nat n - 2); [|reflexivity].
    destruct (Z.to_nat (nknots - 1 - c)) as [|f] eqn:Ef; [reflexivity|]. cbn [walk_up]. unfold gtb.
    rewrite (le_not_lt F _ _ P2), andb_false_r. reflexivity. }
  rewrite E2. unfold walk_post. repeat split; try lia; try assumption.
Qed.

Lemma adjust_left_margin : lt (kn 0) x -> lt x (kn (Z.of_nat n)) ->
  walk_post true (Z.of_nat n) (adjust_left kn nknots (Z.of_nat n) x (Z.of_nat n)).
Proof.
  intros H0 Hx. unfold adjust_left. rewrite Z.eqb_refl.
  pose proof (walk_down_spec x (lt_le F _ _ H0) (Z.to_nat (Z.of_nat n + 1)) (Z.of_nat n) ltac:(lia) ltac:(lia) ltac:(lia)) as W.
  cbv zeta in W. set (r := walk_down kn (Z.to_nat (Z.of_nat n + 1)) x (Z.of_nat n)) in *.
  destruct W as [W1 [W2 W3]].
  assert (r <> Z.of_nat n).
  { intro E. rewrite E in W2. exact (lt_not_le F _ _ Hx W2). }
  replace (r =? nknots - Z.of_nat n - 2) with false by (symmetry; apply Z.eqb_neq; lia).
  unfold walk_post. split; [lia|]. split; [lia|]. split.
  - split; [exact W2|apply W3; lia].
  - split; [lia|]. right. left. split; [reflexivity|lia].
Qed.

Lemma adjust_upper : let c := nknots - Z.of_nat n - 2 in
  le (kn (c + 1)) x -> le x (kn (nknots - 1)) -> lt (kn c) x ->
  walk_post false c (adjust_left kn nknots (Z.of_nat n) x c).
Proof.
  intros c H1 H2 H3. unfold adjust_left.
  assert (E1 : (if c =? Z.of_nat n then walk_down kn (Z.to_nat (c + 1)) x c else c) = c).
  { destruct (c =? Z.of_nat n); [|reflexivity].
    destruct (Z.to_nat (c + 1)) as [|f] eqn:Ef; [reflexivity|]. cbn [walk_down].
    rewrite (le_not_lt F _ _ (lt_le F _ _ H3)), andb_false_r. reflexivity. }
  rewrite E1. replace (c =? nknots - Z.of_nat n - 2) with true by (symmetry; apply Z.eqb_eq; subst c; lia).
  pose proof (walk_up_spec x H2 (Z.to_nat (nknots - 1 - c)) c ltac:(subst c; lia) ltac:(subst c; lia) ltac:(lia)) as W.
  cbv zeta in W. set (r := walk_up kn nknots (Z.to_nat (nknots - 1 - c)) x c) in *.
  destruct W as [W1 [W2 W3]].
  unfold walk_post. split; [subst c; lia|]. split; [lia|]. split.
  - split; [|exact W2]. destruct (Z.eq_dec r c) as [->|Hne]; [exact H3|].
    replace r with ((r - 1) + 1) by lia. apply W3. lia.
  - split; [subst c; lia|]. destruct (Z.eq_dec r c) as [->|Hne]; [left; reflexivity|].
    right. right. split; [reflexivity|lia].
Qed.

(* bsplvb_simple delivers the Cox–de Boor functions of the CENTER interval *)
Lemma bsplvb_simple_B side c :
  walk_post side c (adjust_left kn nknots (Z.of_nat n) x c) ->
  bsplvb_simple kn nknots n x c = Bvec side c.
Proof.
  unfold bsplvb_simple. set (l := adjust_left kn nknots (Z.of_nat n) x c).
  intros [Hl0 [Hl1 [Hp [Hc Hrel]]]].
  destruct (deboor_B side l x Hl0 Hl1 Hp n) as [f [E Hf]]. rewrite E. clear E.
  unfold rearrange, Bvec.
  destruct (Z.ltb_spec 0 (Z.of_nat n - l)) as [HL|HL].
  - (* left margin *)
    assert (Hcn : c = Z.of_nat n) by lia. subst c.
    set (k := Z.to_nat (Z.of_nat n - l)).
    assert (Hk : (1 <= k <= n)%nat) by (subst k; lia).
    rewrite skipn_map, skipn_seq. replace (Nat.min k (S n)) with k by lia.
    assert (Hs : seq 0 (S n) = seq 0 (S n - k) ++ seq (0 + (S n - k)) k) by (rewrite <- seq_app; f_equal; lia).
    rewrite Hs, map_app. f_equal.
    + apply map_seq_eq. intros i Hi. cbn [Nat.add]. rewrite Hf; [unfold Bv; f_equal; lia | lia | split; lia].
    + apply repeat_map_seq. intros i Hi. cbn [Nat.add]. symmetry.
      symmetry. apply (Bfun_support side l x Hl0 Hl1 Hp); lia.
  - destruct (Z.ltb_spec 0 (l + Z.of_nat n + 2 - nknots)) as [HR|HR].
    + (* right margin *)
      assert (Hcn : c = nknots - Z.of_nat n - 2) by lia.
      set (k := Z.to_nat (l + Z.of_nat n + 2 - nknots)).
      assert (Hk : (1 <= k <= n)%nat) by (subst k; lia).
      replace (Nat.min k (S n)) with k by lia.
      rewrite firstn_map, firstn_seq. replace (Nat.min (S n - k) (S n)) with (S n - k)%nat by lia.
      assert (Hs : seq 0 (S n) = seq 0 k ++ seq (0 + k) (S n - k)) by (rewrite <- seq_app; f_equal; lia).
      rewrite Hs, map_app. f_equal.
      * apply repeat_map_seq. intros i Hi. cbn [Nat.add]. apply (Bfun_support side l x Hl0 Hl1 Hp); lia.
      * apply map_seq_eq. intros i Hi. rewrite Hf; [unfold Bv; f_equal; lia | lia | split; lia].
    + (* fully supported *)
      assert (Hlc : l = c) by lia.
      apply map_seq_eq. intros i Hi. cbn [Nat.add]. rewrite Hf; [unfold Bv; f_equal; lia | lia | split; lia].
Qed.


(* fully supported: the local basis sums to one *)
Lemma bsplvb_simple_sum_one side c :
  walk_post side c (adjust_left kn nknots (Z.of_nat n) x c) ->
  adjust_left kn nknots (Z.of_nat n) x c = c ->
  sumK (bsplvb_simple kn nknots n x c) = one.
Proof.
  unfold bsplvb_simple. intros [Hl0 [Hl1 [Hp [Hc Hrel]]]] E. rewrite E in *.
  unfold rearrange.
  replace (0 <? Z.of_nat n - c) with false by (symmetry; apply Z.ltb_ge; lia).
  replace (0 <? c + Z.of_nat n + 2 - nknots) with false by (symmetry; apply Z.ltb_ge; lia).
  apply (deboor_sum_one side c x Hl0 Hl1 Hp); lia.
Qed.


Lemma adjust_left_stays c : Z.of_nat n <= c <= nknots - Z.of_nat n - 2 -> le (kn c) x -> le x (kn (c + 1)) ->
  adjust_left kn nknots (Z.of_nat n) x c = c.
Proof.
  intros Hc P1 P2. unfold adjust_left.
  assert (E1 : (if c =? Z.of_nat n then walk_down kn (Z.to_nat (c + 1)) x c else c) = c).
  { destruct (c =? Z.of_nat n); [|reflexivity].
    destruct (Z.to_nat (c + 1)) as [|f] eqn:Ef; [reflexivity|]. cbn [walk_down].
    rewrite (le_not_lt F _ _ P1), andb_false_r. reflexivity. }
  rewrite E1.
  destruct (c =? nknots - Z.of_nat n - 2); [|reflexivity].
  destruct (Z.to_nat (nknots - 1 - c)) as [|f] eqn:Ef; [reflexivity|]. cbn [walk_up]. unfold gtb.
  rewrite (le_not_lt F _ _ P2), andb_false_r. reflexivity.
Qed.

End Simple.
End OneDim.
