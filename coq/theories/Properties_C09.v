(* Properties_C09.v — C09: the unconstrained fit minimises the penalised weighted least-squares objective.
   Statements only; proofs in C09_LinAlg.v (1), C09_Penalty.v (2), C09_Index.v + C09_Glam.v (3), C09_Invariance.v (4).
   The model is FitModel.fit_system (normal matrix and right-hand side exactly as glamfit_complex hands them to
   cholesky_solve); on every run it is compared with the real code and, in exact rationals, with a direct evaluation of
   the statement's objective (tools/props/C09.py).

   All theorems are over an arbitrary ordered field ([OField] laws, Leibniz equality); the executed instance is Qc.

   Vocabulary: an objective is given by a list E of (weight, design row, value) triples;
     wrss E c = sum_e w_e (z_e - b_e.c)^2;  nmat n E = sum_e w_e b_e b_e^T;  nrhs n E = sum_e w_e z_e b_e.
   The penalised objective of the property is of this form: the data triples (w_e, Kronecker product of the basis rows at
   the entry's abscissae, z_e) followed by, per dimension d, the triples (lambda_d, p, 0) for the rows p of
   I x .. x D_d x .. x I  (D_d = rows of divided_diffs coefficients = finitediff). *)
From Coq Require Import ZArith NArith List Bool Lia QArith Qcanon Permutation.
From PS Require Import Arith EvalModel BSpline OFieldKit FitModel C09_LinAlg C09_Penalty C09_Index C09_Glam C09_Invariance.
Import ListNotations.
Local Open Scope nat_scope.

Section C09.
Context {A : Arith}.
Variable F : OField A.
Notation K := (T A).
Notation le := (@OFieldKit.le A).

(* (1) a solution of the normal equations minimises the objective: J(c') - J(c) = (c'-c)^T A (c'-c) >= 0 for every c',
   and when A is positive definite the minimiser is unique *)
Theorem C09_normal_eq_minimise : forall n (E : list (K * list K * K)) (c : list K),
  wf_rows n E -> nonneg_weights E -> length c = n ->
  matvec (nmat n E) c = nrhs n E ->
  forall c', length c' = n ->
    wrss E c' = add (wrss E c) (dot (vsub c' c) (matvec (nmat n E) (vsub c' c)))
    /\ le (wrss E c) (wrss E c')
    /\ (spd n (nmat n E) -> wrss E c' = wrss E c -> c' = c).
Proof. exact (normal_eq_minimise F). Qed.

(* the linear solver is an ORACLE (CHOLMOD is not modelled): whatever solves A x = r for positive definite A *)
Section Solver.
Variable solve : list (list K) -> list K -> list K.
Hypothesis solve_spec : forall n M r, spd n M -> length (solve M r) = n /\ matvec M (solve M r) = r.

Theorem C09_fit_minimises : forall n (E : list (K * list K * K)),
  wf_rows n E -> nonneg_weights E -> spd n (nmat n E) ->
  let c := solve (nmat n E) (nrhs n E) in
  forall c', length c' = n -> le (wrss E c) (wrss E c') /\ (wrss E c' = wrss E c -> c' = c).
Proof.
  intros n E Hwf Hw Hspd c c' Hc'. destruct (solve_spec n (nmat n E) (nrhs n E) Hspd) as [Hl Hs].
  destruct (normal_eq_minimise F n E c Hwf Hw Hl Hs c' Hc') as [_ [H1 H2]]. split; [exact H1 | exact (H2 Hspd)].
Qed.
End Solver.

(* (2) calc_penalty: the matrix is the Gram matrix M^T M of M = I x .. x D x .. x I (penalty_root; D = finitediff = the
   rows of divided_diffs coefficients, in one dimension M = D), for every number of dimensions; hence
   c^T P c = sum over the rows p of M of (p.c)^2 >= 0 *)
Theorem C09_penalty_is_DtD : forall (nsplines : list nat) (kn : nat -> K) (dim order porder : nat) (c : list K),
  nsplines <> [] ->
  let N := fold_right Nat.mul 1 nsplines in
  let M := penalty_root nsplines kn dim order porder in
  calc_penalty nsplines kn dim order porder = gram N M
  /\ rows_len N M
  /\ dot c (matvec (calc_penalty nsplines kn dim order porder) c) = sumK (map (fun p => sq (dot p c)) M)
  /\ le zero (dot c (matvec (calc_penalty nsplines kn dim order porder) c)).
Proof.
  intros nsplines kn dim order porder c Hne N M. destruct (calc_penalty_is_gram F nsplines kn dim order porder Hne) as [H1 H2].
  fold N in H1, H2. fold M in H1, H2. split; [exact H1|]. split; [exact H2|]. rewrite H1.
  rewrite (gram_quadratic_form F N M c H2). split; [reflexivity | apply (sum_squares_nonneg F)].
Qed.
Theorem C09_penalty_1d : forall n (kn : nat -> K) order porder,
  penalty_root [n] kn 0 order porder = finitediff kn order porder n.
Proof. reflexivity. Qed.
(* and it is the normal matrix of the unit-weight triples (1, p, 0) for the rows p of M: the penalty is part of a
   least-squares objective of the form of theorem (1) *)
Theorem C09_penalty_is_normal_matrix : forall (nsplines : list nat) (kn : nat -> K) (dim order porder : nat),
  nsplines <> [] ->
  calc_penalty nsplines kn dim order porder
  = nmat (fold_right Nat.mul 1 nsplines) (unit_rows (penalty_root nsplines kn dim order porder)).
Proof.
  intros nsplines kn dim order porder Hne. destruct (calc_penalty_is_gram F nsplines kn dim order porder Hne) as [H1 H2].
  rewrite H1. apply (gram_is_nmat F). exact H2.
Qed.

(* (3) PARTIAL.  Proved, for EVERY number of dimensions and every axis: one slicemultiply — rotate the axes, flatten
   with strides, multiply by b^T, unflatten with / and %, rotate back, exactly the code's index arithmetic — is the
   mode-`dim' product:  result[.., c, ..] = sum_r b[r][c] * a[.., r, ..]  (arrays = sums of the entries with equal index).
   FULL STATEMENT NOT PROVED (kept here; tested exactly on every run as "model == direct"):
     Theorem C09_glam_is_kron : fit_system dims smoothing porders data
        = (madd (nmat n Edata) (sum_d lambda_d * calc_penalty ...), nrhs n Edata)
     with Edata = [(w_e, design_row bases idx_e, z_e)], i.e. the fold of slicemultiply over all dimensions with the boxed
     bases, followed by reshape_F (split / reorder) and flatten_to_matrix, yields the entries of B^T W B, B = (x)_d B_d.
   Missing: the induction over the dimensions composing this lemma (needs nested sums over multi-indices and the
   interchange with the sum over the entries), validity preservation, and the split/reorder/flatten step. *)
Theorem C09_glam_is_kron_partial : forall (a : ndarr) (b : list (list K)) (ncolb dim : nat) (idx : list N),
  (dim < length (nd_ranges a))%nat ->
  valid_arr a ->
  valid_idx (set_nth dim (N.of_nat ncolb) (nd_ranges a)) idx ->
  aget (slicemultiply a b ncolb dim) idx
  = dot (col (N.to_nat (nth dim idx 0%N)) b)
        (map (fun r => aget a (set_nth dim r idx)) (Nseq (nth dim (nd_ranges a) 0%N))).
Proof. exact (slicemultiply_spec F). Qed.
(* ... and it keeps the array well-formed (ranges updated as the code does, every index within its range), so the
   per-axis statement applies again to the next axis *)
Theorem C09_slicemultiply_wellformed : forall (a : @ndarr A) (b : list (list K)) (ncolb dim : nat),
  (dim < length (nd_ranges a))%nat ->
  nd_ranges (slicemultiply a b ncolb dim) = set_nth dim (N.of_nat ncolb) (nd_ranges a)
  /\ valid_arr (slicemultiply a b ncolb dim).
Proof. intros a b ncolb dim H. split; [reflexivity | apply slicemultiply_valid; exact H]. Qed.

(* (4) listing order and zero-weight entries are irrelevant for the objective, the normal matrix and the right-hand
   side (as functions of the entry list; for the arrays of the GLAM path this rests on the unproved part of (3) and is
   tested exactly: the model's system of a permuted / zero-weight-padded variant must be identical) *)
Theorem C09_zero_weight_and_order_irrelevant : forall n (E E' : list (K * list K * K)) (e : K * list K * K) (c : list K),
  (Permutation E E' -> wrss E' c = wrss E c /\ nmat n E' = nmat n E /\ nrhs n E' = nrhs n E)
  /\ (wf_rows n (e :: E) -> fst (fst e) = zero ->
      wrss (e :: E) c = wrss E c /\ nmat n (e :: E) = nmat n E /\ nrhs n (e :: E) = nrhs n E).
Proof.
  intros n E E' e c. split.
  - intro H. split; [apply (wrss_perm F); exact H | split; [apply (nmat_perm F); exact H | apply (nrhs_perm F); exact H]].
  - intros Hwf Hw. split; [apply (wrss_zero_weight F); exact Hw | split; [apply (nmat_zero_weight F); assumption | apply (nrhs_zero_weight F); assumption]].
Qed.

End C09.

(* non-vacuity on exact rationals: two data points, one coefficient:  J(c) = (2 - c)^2 + 3 (1 - 2c)^2,
   A = [[13]], r = [8], minimiser 8/13; A is positive definite *)
Definition exE : list (T QcA * list (T QcA) * T QcA) := [(Q2Qc 1, [Q2Qc 1], Q2Qc 2); (Q2Qc 3, [Q2Qc 2], Q2Qc 1)].
Example C09_hypotheses_satisfiable :
  wf_rows (A := QcA) 1 exE /\ nonneg_weights (A := QcA) exE /\
  matvec (A := QcA) (nmat 1 exE) [Q2Qc (8 # 13)] = nrhs (A := QcA) 1 exE /\
  spd (A := QcA) 1 (nmat (A := QcA) 1 exE).
Proof.
  split; [repeat constructor|]. split; [repeat constructor|]. split; [vm_compute; reflexivity|].
  intros d Hd Hnz. destruct d as [|x [|y d]]; cbn in Hd; try lia.
  rewrite <- (quad_is_form QcA_OField 1 exE [x]) by (repeat constructor).
  assert (Hx : x <> Q2Qc 0) by (intro E; apply Hnz; rewrite E; reflexivity).
  unfold OFieldKit.lt, quad, exE, sq, sumK. cbn [map fst snd dot fold_right]. apply Qc_ltb_lt. cbn [add mul zero QcA T].
  match goal with |- (_ < ?e)%Qc => replace e with ((Q2Qc 1 + Q2Qc 3 * (Q2Qc 2 * Q2Qc 2)) * (x * x))%Qc by ring end.
  assert (Qcmult_lt_0_compat : forall a b : Qc, (Q2Qc 0 < a)%Qc -> (Q2Qc 0 < b)%Qc -> (Q2Qc 0 < a * b)%Qc).
  { intros a b Ha Hb. replace (Q2Qc 0) with (Q2Qc 0 * b)%Qc by ring. apply Qcmult_lt_compat_r; assumption. }
  assert (Hxx : (Q2Qc 0 < x * x)%Qc).
  { destruct (Qclt_le_dec (Q2Qc 0) x) as [Hp|Hn].
    - apply Qcmult_lt_0_compat; assumption.
    - assert (Hlt : (x < Q2Qc 0)%Qc) by (apply Qcle_lt_or_eq in Hn; destruct Hn as [H|H]; [exact H | congruence]).
      replace (x * x)%Qc with ((- x) * (- x))%Qc by ring.
      assert (Hp : (Q2Qc 0 < - x)%Qc) by (apply Qclt_minus_iff in Hlt; rewrite Qcplus_0_l in Hlt; exact Hlt).
      apply Qcmult_lt_0_compat; assumption. }
  apply Qcmult_lt_0_compat; [reflexivity | exact Hxx].
Qed.
(* (2) on a concrete non-trivial instance: 2 dimensions (3 x 4 coefficients), order 2, second differences along
   dimension 1, irregular knots: the theorem's hypothesis holds and the penalty matrix is 12 x 12 *)
Example C09_penalty_instance :
  length (calc_penalty (A := QcA) [3; 4]%nat (fun i => Q2Qc (inject_Z (Z.of_nat (i * i)))) 1 2 2) = 12%nat /\ ([3; 4]%nat <> []).
Proof. split; [vm_compute; reflexivity | discriminate]. Qed.

Print Assumptions C09_normal_eq_minimise.
Print Assumptions C09_fit_minimises.
Print Assumptions C09_penalty_is_DtD.
Print Assumptions C09_penalty_1d.
Print Assumptions C09_penalty_is_normal_matrix.
Print Assumptions C09_glam_is_kron_partial.
Print Assumptions C09_slicemultiply_wellformed.
Print Assumptions C09_zero_weight_and_order_irrelevant.
