(* Properties_C09.v — C09: the unconstrained fit minimises the penalised weighted least-squares objective.
   Statements only; proofs in C09_LinAlg.v (1), C09_Penalty.v (2), C09_Index.v + C09_Glam.v + C09_Kron.v (3), C09_Invariance.v (4),
   C09_Top.v (5).
   The model is FitModel.fit_system (normal matrix and right-hand side exactly as glamfit_complex hands them to
   cholesky_solve); on every run it is compared with the real code and, in exact rationals, with a direct evaluation of
   the statement's objective (tools/props/C09.py).

   All theorems are over an arbitrary ordered field ([OField] laws, Leibniz equality); the executed instance is Qc.

   Vocabulary: an objective is given by a list E of (weight, design row, value) triples;
     wrss E c = sum_e w_e (z_e - b_e.c)^2;  nmat n E = sum_e w_e b_e b_e^T;  nrhs n E = sum_e w_e z_e b_e.
   The penalised objective of the property is of this form: the data triples (w_e, Kronecker product of the basis rows at
   the entry's abscissae, z_e) followed by, per dimension d, the triples (lambda_d, p, 0) for the rows p of
   I x .. x D_d x .. x I  (D_d = rows of divided_diffs coefficients = finitediff). *)
From Coq Require Import ZArith NArith List Bool Lia QArith Qcanon Permutation.
From PS Require Import Arith EvalModel BSpline OFieldKit FitModel C09_LinAlg C09_Penalty C09_Index C09_Glam C09_Kron C09_Top C09_Invariance C09_Basis.
Import ListNotations.
Local Open Scope nat_scope.

Section C09.
Context {A : Arith}.
Variable F : OField A.
Notation K := (T A).
Notation le := (@OFieldKit.le A).

(* (1) a solution of the normal equations minimises the objective: J(c') - J(c) = (c'-c)^T A (c'-c) >= 0 for every c',
   and when A is positive definite the minimiser is unique *)
Theorem C09_normal_eq_minimise : forall n (E : list (K * list K * K)) (c : list K),
  wf_rows n E -> nonneg_weights E -> length c = n ->
  matvec (nmat n E) c = nrhs n E ->
  forall c', length c' = n ->
    wrss E c' = add (wrss E c) (dot (vsub c' c) (matvec (nmat n E) (vsub c' c)))
    /\ le (wrss E c) (wrss E c')
    /\ (spd n (nmat n E) -> wrss E c' = wrss E c -> c' = c).
Proof. exact (normal_eq_minimise F). Qed.

(* the linear solver is an ORACLE (CHOLMOD is not modelled): whatever solves A x = r for positive definite A *)
Section Solver.
Variable solve : list (list K) -> list K -> list K.
Hypothesis solve_spec : forall n M r, spd n M -> length (solve M r) = n /\ matvec M (solve M r) = r.

Theorem C09_fit_minimises : forall n (E : list (K * list K * K)),
  wf_rows n E -> nonneg_weights E -> spd n (nmat n E) ->
  let c := solve (nmat n E) (nrhs n E) in
  forall c', length c' = n -> le (wrss E c) (wrss E c') /\ (wrss E c' = wrss E c -> c' = c).
Proof.
  intros n E Hwf Hw Hspd c c' Hc'. destruct (solve_spec n (nmat n E) (nrhs n E) Hspd) as [Hl Hs].
  destruct (normal_eq_minimise F n E c Hwf Hw Hl Hs c' Hc') as [_ [H1 H2]]. split; [exact H1 | exact (H2 Hspd)].
Qed.
End Solver.

(* (2) calc_penalty: the matrix is the Gram matrix M^T M of M = I x .. x D x .. x I (penalty_root; D = finitediff = the
   rows of divided_diffs coefficients, in one dimension M = D), for every number of dimensions; hence
   c^T P c = sum over the rows p of M of (p.c)^2 >= 0 *)
Theorem C09_penalty_is_DtD : forall (nsplines : list nat) (kn : nat -> K) (dim order porder : nat) (c : list K),
  nsplines <> [] ->
  let N := fold_right Nat.mul 1 nsplines in
  let M := penalty_root nsplines kn dim order porder in
  calc_penalty nsplines kn dim order porder = gram N M
  /\ rows_len N M
  /\ dot c (matvec (calc_penalty nsplines kn dim order porder) c) = sumK (map (fun p => sq (dot p c)) M)
  /\ le zero (dot c (matvec (calc_penalty nsplines kn dim order porder) c)).
Proof.
  intros nsplines kn dim order porder c Hne N M. destruct (calc_penalty_is_gram F nsplines kn dim order porder Hne) as [H1 H2].
  fold N in H1, H2. fold M in H1, H2. split; [exact H1|]. split; [exact H2|]. rewrite H1.
  rewrite (gram_quadratic_form F N M c H2). split; [reflexivity | apply (sum_squares_nonneg F)].
Qed.
Theorem C09_penalty_1d : forall n (kn : nat -> K) order porder,
  penalty_root [n] kn 0 order porder = finitediff kn order porder n.
Proof. reflexivity. Qed.
(* and it is the normal matrix of the unit-weight triples (1, p, 0) for the rows p of M: the penalty is part of a
   least-squares objective of the form of theorem (1) *)
Theorem C09_penalty_is_normal_matrix : forall (nsplines : list nat) (kn : nat -> K) (dim order porder : nat),
  nsplines <> [] ->
  calc_penalty nsplines kn dim order porder
  = nmat (fold_right Nat.mul 1 nsplines) (unit_rows (penalty_root nsplines kn dim order porder)).
Proof.
  intros nsplines kn dim order porder Hne. destruct (calc_penalty_is_gram F nsplines kn dim order porder Hne) as [H1 H2].
  rewrite H1. apply (gram_is_nmat F). exact H2.
Qed.

(* (3) the GLAM array arithmetic of glamfit_complex yields B^T W B and B^T W z for B = (x)_d B_d, for EVERY number of
   dimensions.  Steps, each for every number of dimensions:
   (3a) C09_glam_is_kron_partial: one slicemultiply — rotate the axes, flatten with strides, multiply by b^T, unflatten with
        / and %, rotate back, exactly the code's index arithmetic — is the mode-`dim' product
        result[.., c, ..] = sum_r b[r][c] * a[.., r, ..]  (arrays = sums of the entries with equal index);
   (3b) C09_glam_fold_multilinear: the fold over the axes 0..D-1 is the multilinear form
        result[c_1..c_D] = sum_e v_e * prod_d M_d[e_d][c_d];
   (3c) C09_box_identity: (B box B)[r][c1*n + c2] = B[r][c1] * B[r][c2];
   (3d) C09_reshape_flatten_bijection: the split (i/n, i%n), reorder (even axes first), flatten of F puts at matrix position
        (r, c) the array entry with index (j_d * n_d + k_d)_d, j / k the mixed-radix digits of r / c;
   (3e) C09_glam_is_kron: hence the matrix and right-hand side that the model hands to the solver are
        sum_e w_e b_e b_e^T (+ penalty) and sum_e w_e z_e b_e with b_e the Kronecker product of the basis rows at the entry's
        abscissae — the normal matrix / right-hand side of theorem (1) for the objective's data triples. *)
Theorem C09_glam_is_kron_partial : forall (a : ndarr) (b : list (list K)) (ncolb dim : nat) (idx : list N),
  (dim < length (nd_ranges a))%nat ->
  valid_arr a ->
  valid_idx (set_nth dim (N.of_nat ncolb) (nd_ranges a)) idx ->
  aget (slicemultiply a b ncolb dim) idx
  = dot (col (N.to_nat (nth dim idx 0%N)) b)
        (map (fun r => aget a (set_nth dim r idx)) (Nseq (nth dim (nd_ranges a) 0%N))).
Proof. exact (slicemultiply_spec F). Qed.
(* ... and it keeps the array well-formed (ranges updated as the code does, every index within its range), so the
   per-axis statement applies again to the next axis *)
Theorem C09_slicemultiply_wellformed : forall (a : @ndarr A) (b : list (list K)) (ncolb dim : nat),
  (dim < length (nd_ranges a))%nat ->
  nd_ranges (slicemultiply a b ncolb dim) = set_nth dim (N.of_nat ncolb) (nd_ranges a)
  /\ valid_arr (slicemultiply a b ncolb dim).
Proof. intros a b ncolb dim H. split; [reflexivity | apply slicemultiply_valid; exact H]. Qed.

(* (3b) the fold of slicemultiply over all axes, with any matrices bm x (nc x columns) *)
Theorem C09_glam_fold_multilinear : forall (X : Type) (bm : X -> list (list K)) (nc : X -> nat) (ents : list (list N * K))
    (xs : list X) (rs0 : list N),
  length rs0 = length xs ->
  Forall (fun e => valid_idx rs0 (fst e)) ents ->
  let aF := fold_left (fun a (id : nat * X) => slicemultiply a (bm (snd id)) (nc (snd id)) (fst id))
                      (combine (seq 0 (length xs)) xs) (mkNd rs0 ents) in
  nd_ranges aF = map (fun x => N.of_nat (nc x)) xs /\
  valid_arr aF /\
  forall idx, valid_idx (map (fun x => N.of_nat (nc x)) xs) idx ->
    aget aF idx = sumK (map (fun e => mul (snd e) (rowprod (map bm xs) (fst e) idx)) ents).
Proof. exact (glam_fold_multilinear F). Qed.
(* (3c) *)
Theorem C09_box_identity : forall (n : nat) (B : list (list K)) (r j k : N),
  rows_len n B -> (k < N.of_nat n)%N ->
  entry (box B B) r (j * N.of_nat n + k) = mul (entry B r j) (entry B r k).
Proof. exact (entry_box F). Qed.
(* (3d) ranges n_d^2 on every axis; (r, c) any position of the (prod n_d) x (prod n_d) matrix *)
Theorem C09_reshape_flatten_bijection : forall (a : @ndarr A) (ns : list N) (r c : nat),
  nd_ranges a = map (fun n => (n * n)%N) ns -> valid_arr a -> (N.of_nat r < prodN ns)%N -> (N.of_nat c < prodN ns)%N ->
  nth c (nth r (flatten_to_matrix (reshape_F a) (prodN ns) (prodN ns)) []) zero
  = aget a (merge ns (unflat ns (N.of_nat r)) (unflat ns (N.of_nat c)))
  /\ valid_idx (nd_ranges a) (merge ns (unflat ns (N.of_nat r)) (unflat ns (N.of_nat c)))
  /\ flat ns (unflat ns (N.of_nat r)) = N.of_nat r /\ flat ns (unflat ns (N.of_nat c)) = N.of_nat c.
Proof. exact (reshape_flatten_matrix_entry F). Qed.
(* (3e) FULL STATEMENT: data entries are (index tuple, value z, weight w) with the index tuple within the data ranges *)
Theorem C09_glam_is_kron : forall (dims : list dimspec) (smoothing : list K) (porders : list nat) (data : list (list N * K * K)),
  Forall (fun e => valid_idx (map (fun d => N.of_nat (length (ds_coords d))) dims) (fst (fst e))) data ->
  let n := fold_right Nat.mul 1 (map ds_nsplines dims) in
  let bases := map (fun d => bsplinebasis (ds_knots d) (ds_coords d) (ds_order d)) dims in
  let E := map (fun e => (snd e, design_row bases (fst (fst e)), snd (fst e))) data in
  flatten_to_matrix (reshape_F (Farr dims data)) (N.of_nat n) (N.of_nat n) = nmat n E
  /\ map (fun row => nth 0 row zero) (flatten_to_matrix (Rarr dims data) (N.of_nat n) 1%N) = nrhs n E
  /\ fit_system dims smoothing porders data = (madd (nmat n E) (penalty_matrix dims smoothing porders), nrhs n E)
  /\ wf_rows n E.
Proof. exact (glam_is_kron F). Qed.

(* (4) listing order and zero-weight entries are irrelevant for the objective, the normal matrix and the right-hand
   side (as functions of the entry list; by (3e) the system of the GLAM path IS nmat / nrhs of the data triples, so this
   carries over to fit_system; additionally tested exactly: the model's system of a permuted / zero-weight-padded variant
   must be identical) *)
Theorem C09_zero_weight_and_order_irrelevant : forall n (E E' : list (K * list K * K)) (e : K * list K * K) (c : list K),
  (Permutation E E' -> wrss E' c = wrss E c /\ nmat n E' = nmat n E /\ nrhs n E' = nrhs n E)
  /\ (wf_rows n (e :: E) -> fst (fst e) = zero ->
      wrss (e :: E) c = wrss E c /\ nmat n (e :: E) = nmat n E /\ nrhs n (e :: E) = nrhs n E).
Proof.
  intros n E E' e c. split.
  - intro H. split; [apply (wrss_perm F); exact H | split; [apply (nmat_perm F); exact H | apply (nrhs_perm F); exact H]].
  - intros Hwf Hw. split; [apply (wrss_zero_weight F); exact Hw | split; [apply (nmat_zero_weight F); assumption | apply (nrhs_zero_weight F); assumption]].
Qed.

(* (5) the composition of (1), (2), (3): what the model hands to the solver is the normal system of ONE triple list, the
   property's penalised objective: the data triples (w_e, Kronecker product of the basis rows at the entry's abscissae, z_e)
   followed by, per dimension d with non-zero smoothing lambda_d, the triples (lambda_d, p, 0) for the rows p of
   I x .. x D_d x .. x I (penalty_root; D_d = finitediff = rows of divided_diffs coefficients) *)
Theorem C09_fit_system_is_normal_system : forall (dims : list dimspec) (smoothing : list K) (porders : list nat) (data : list (list N * K * K)),
  Forall (fun e => valid_idx (map (fun d => N.of_nat (length (ds_coords d))) dims) (fst (fst e))) data ->
  let n := fold_right Nat.mul 1 (map ds_nsplines dims) in
  let E := data_triples dims data ++ pen_triples dims smoothing porders in
  fit_system dims smoothing porders data = (nmat n E, nrhs n E) /\ wf_rows n E.
Proof. exact (fit_system_is_normal_system F). Qed.
(* the vocabulary of (5), spelled out: the data triples, and the penalty part of the objective *)
Theorem C09_objective_vocabulary : forall (dims : list dimspec) (smoothing : list K) (porders : list nat) (data : list (list N * K * K)) (c : list K),
  data_triples dims data
  = map (fun e => (snd e, design_row (map (fun d => bsplinebasis (ds_knots d) (ds_coords d) (ds_order d)) dims) (fst (fst e)), snd (fst e))) data
  /\ wrss (pen_triples dims smoothing porders) c
     = sumK (map (fun id : nat * dimspec =>
                    let lam := pick zero smoothing (fst id) in
                    if eqK lam zero then zero
                    else mul lam (sumK (map (fun p => sq (dot p c))
                           (penalty_root (map ds_nsplines dims) (fun k => nth k (ds_knots (snd id)) zero) (fst id) (ds_order (snd id))
                                         (pick 0 porders (fst id))))))
                 (combine (seq 0 (length dims)) dims)).
Proof. intros dims smoothing porders data c. split; [reflexivity | apply (penalty_objective F)]. Qed.

(* with the solver oracle: the coefficients obtained from the model's system minimise
   J(c) = sum_e w_e (z_e - b_e . c)^2 + sum_d lambda_d sum_{rows p} (p . c)^2, uniquely *)
Section Solver2.
Variable solve : list (list K) -> list K -> list K.
Hypothesis solve_spec : forall n M r, spd n M -> length (solve M r) = n /\ matvec M (solve M r) = r.
Theorem C09_fit_minimises_penalised_objective : forall (dims : list dimspec) (smoothing : list K) (porders : list nat) (data : list (list N * K * K)),
  Forall (fun e => valid_idx (map (fun d => N.of_nat (length (ds_coords d))) dims) (fst (fst e))) data ->
  Forall (fun e => le zero (snd e)) data ->
  Forall (fun l => le zero l) smoothing ->
  let n := fold_right Nat.mul 1 (map ds_nsplines dims) in
  let sys := fit_system dims smoothing porders data in
  let J := fun c => add (wrss (data_triples dims data) c) (wrss (pen_triples dims smoothing porders) c) in
  spd n (fst sys) ->
  let c := solve (fst sys) (snd sys) in
  length c = n /\ forall c', length c' = n -> le (J c) (J c') /\ (J c' = J c -> c' = c).
Proof. exact (fit_minimises_penalised_objective F solve solve_spec). Qed.
End Solver2.

(* (6) the basis matrices the system is built from: every entry of bsplinebasis (the model of splineutil.c's bsplinebasis over its static
   bspline(), which since fix 07dbb30 skips a term whose denominator vanishes and since fix F30_1 is told which side of the knots to take)
   IS the basis function of the evaluation properties' specification: the Cox–de Boor function with the 0/0 := 0 convention, taken
   right-continuous below knots[nknots-order-1] (the upper end of the fully supported range) and left-continuous from there upwards
   (BSpline.side_of — so an abscissa exactly on the last knot has a basis row like any other point of the last interval; before fix F30_1
   its row was identically zero and the data point was silently ignored) — for EVERY knot vector, repeated knots of any multiplicity
   included (before fix 07dbb30 a repeated knot made the real function return NaN: former finding D23). The fitted design matrix is thus
   built from exactly the functions ndsplineeval sums (C01). [fit_dim knots order] is the dimension record of the knot vector
   (nknots = length knots, naxes = nknots-order-1, knots read through Z indices). *)
Theorem C09_basis_is_cox_de_boor : forall (knots xs : list K) (order r c : nat),
  r < length xs -> c < length knots - order - 1 ->
  nth c (nth r (bsplinebasis knots xs order) []) zero
  = Bfun (d_kn (fit_dim knots order)) (side_of (fit_dim knots order) (nth r xs zero)) order (Z.of_nat c) (nth r xs zero).
Proof. exact (fit_basis_entry F). Qed.
(* ... where the side is: x < knots[nknots-order-1] *)
Theorem C09_basis_side : forall (knots : list K) (order : nat) (x : K),
  side_of (fit_dim knots order) x = ltb x (nth (length knots - order - 1) knots zero).
Proof. exact (@fit_dim_side A). Qed.

End C09.

(* (6) on a repeated knot: order 1, knots 0 1 1 2 3, abscissa 3/2: the basis row is 0 1/2 1/2 (the hat function that would span the
   double knot's empty interval contributes its one live term; nothing is 0/0), and AT the double knot 0 1 0; at the upper end of full
   support (x = 2 = knots[3]) 0 0 1 and at the LAST knot (x = 3) 0 0 0 — the last hat function has come down to zero there, as before
   fix F30_1: on knots of multiplicity <= order nothing changed.
   Second part: where fix F30_1 changed the basis. Order 1, knots 0 1 2 3 3 (the last knot doubled, multiplicity order+1: the spline
   ends with a jump), abscissa exactly on the last knot: the row is 0 0 1 (the left limit; pointwise evaluation gives the last
   coefficient there), where the right-continuous basis had 0 0 0. Order 0, knots 0 1 2 3, x = 3: 0 0 1. *)
Example C09_basis_repeated_knot :
  bsplinebasis (A := QcA) [Q2Qc 0; Q2Qc 1; Q2Qc 1; Q2Qc 2; Q2Qc 3] [Q2Qc (3 # 2); Q2Qc 1; Q2Qc 2; Q2Qc 3] 1
  = [[Q2Qc 0; Q2Qc (1 # 2); Q2Qc (1 # 2)]; [Q2Qc 0; Q2Qc 1; Q2Qc 0]; [Q2Qc 0; Q2Qc 0; Q2Qc 1]; [Q2Qc 0; Q2Qc 0; Q2Qc 0]]
  /\ (1 < 2 /\ 2 < 5 - 1 - 1)
  /\ bsplinebasis (A := QcA) [Q2Qc 0; Q2Qc 1; Q2Qc 2; Q2Qc 3; Q2Qc 3] [Q2Qc 3; Q2Qc (5 # 2)] 1
      = [[Q2Qc 0; Q2Qc 0; Q2Qc 1]; [Q2Qc 0; Q2Qc (1 # 2); Q2Qc (1 # 2)]]
  /\ bsplinebasis (A := QcA) [Q2Qc 0; Q2Qc 1; Q2Qc 2; Q2Qc 3] [Q2Qc 3; Q2Qc 2; Q2Qc 0] 0
      = [[Q2Qc 0; Q2Qc 0; Q2Qc 1]; [Q2Qc 0; Q2Qc 0; Q2Qc 1]; [Q2Qc 1; Q2Qc 0; Q2Qc 0]].
Proof. split; [vm_compute; reflexivity |]. split; [lia|]. split; vm_compute; reflexivity. Qed.

(* non-vacuity on exact rationals: two data points, one coefficient:  J(c) = (2 - c)^2 + 3 (1 - 2c)^2,
   A = [[13]], r = [8], minimiser 8/13; A is positive definite *)
Definition exE : list (T QcA * list (T QcA) * T QcA) := [(Q2Qc 1, [Q2Qc 1], Q2Qc 2); (Q2Qc 3, [Q2Qc 2], Q2Qc 1)].
Example C09_hypotheses_satisfiable :
  wf_rows (A := QcA) 1 exE /\ nonneg_weights (A := QcA) exE /\
  matvec (A := QcA) (nmat 1 exE) [Q2Qc (8 # 13)] = nrhs (A := QcA) 1 exE /\
  spd (A := QcA) 1 (nmat (A := QcA) 1 exE).
Proof.
  split; [repeat constructor|]. split; [repeat constructor|]. split; [vm_compute; reflexivity|].
  intros d Hd Hnz. destruct d as [|x [|y d]]; cbn in Hd; try lia.
  rewrite <- (quad_is_form QcA_OField 1 exE [x]) by (repeat constructor).
  assert (Hx : x <> Q2Qc 0) by (intro E; apply Hnz; rewrite E; reflexivity).
  unfold OFieldKit.lt, quad, exE, sq, sumK. cbn [map fst snd dot fold_right]. apply Qc_ltb_lt. cbn [add mul zero QcA T].
  match goal with |- (_ < ?e)%Qc => replace e with ((Q2Qc 1 + Q2Qc 3 * (Q2Qc 2 * Q2Qc 2)) * (x * x))%Qc by ring end.
  assert (Qcmult_lt_0_compat : forall a b : Qc, (Q2Qc 0 < a)%Qc -> (Q2Qc 0 < b)%Qc -> (Q2Qc 0 < a * b)%Qc).
  { intros a b Ha Hb. replace (Q2Qc 0) with (Q2Qc 0 * b)%Qc by ring. apply Qcmult_lt_compat_r; assumption. }
  assert (Hxx : (Q2Qc 0 < x * x)%Qc).
  { destruct (Qclt_le_dec (Q2Qc 0) x) as [Hp|Hn].
    - apply Qcmult_lt_0_compat; assumption.
    - assert (Hlt : (x < Q2Qc 0)%Qc) by (apply Qcle_lt_or_eq in Hn; destruct Hn as [H|H]; [exact H | congruence]).
      replace (x * x)%Qc with ((- x) * (- x))%Qc by ring.
      assert (Hp : (Q2Qc 0 < - x)%Qc) by (apply Qclt_minus_iff in Hlt; rewrite Qcplus_0_l in Hlt; exact Hlt).
      apply Qcmult_lt_0_compat; assumption. }
  apply Qcmult_lt_0_compat; [reflexivity | exact Hxx].
Qed.
(* (2) on a concrete non-trivial instance: 2 dimensions (3 x 4 coefficients), order 2, second differences along
   dimension 1, irregular knots: the theorem's hypothesis holds and the penalty matrix is 12 x 12 *)
Example C09_penalty_instance :
  length (calc_penalty (A := QcA) [3; 4]%nat (fun i => Q2Qc (inject_Z (Z.of_nat (i * i)))) 1 2 2) = 12%nat /\ ([3; 4]%nat <> []).
Proof. split; [vm_compute; reflexivity | discriminate]. Qed.

(* (3e) on a concrete non-trivial instance: 2 dimensions, linear splines, 2 x 3 coefficients, irregular knots, 3 x 2 grid of
   abscissae, four data entries two of which share a cell: the hypothesis of C09_glam_is_kron holds, and the system is the
   non-zero one printed here (entry (0,0) = 2*(1/4)^2 + (1+3)*(1/4)^2 = 3/8) *)
Definition exq (a : Z) (b : positive) : T QcA := Q2Qc (a # b).
Definition exdims : list (@dimspec QcA) :=
  [ mkDim 1 [exq 0 1; exq 1 1; exq 2 1; exq 3 1] [exq 1 2; exq 3 2; exq 5 2];
    mkDim 1 [exq 0 1; exq 2 1; exq 3 1; exq 5 1; exq 6 1] [exq 1 1; exq 5 2] ].
Definition exdata : list (list N * T QcA * T QcA) :=
  [ ([0; 0]%N, exq 1 1, exq 2 1); ([1; 1]%N, exq 3 1, exq 1 1); ([2; 0]%N, exq (-1) 1, exq 1 2); ([1; 1]%N, exq 2 1, exq 3 1) ].
Example C09_glam_instance :
  Forall (fun e => valid_idx (map (fun d => N.of_nat (length (ds_coords d))) exdims) (fst (fst e))) exdata
  /\ fold_right Nat.mul 1 (map ds_nsplines exdims) = 6
  /\ nth 0 (nth 0 (fst (fit_system exdims [exq 0 1] [1] exdata)) []) zero = exq 3 8
  /\ snd (fit_system exdims [exq 0 1] [1] exdata) = [exq 11 4; exq 9 4; exq 0 1; exq 17 8; exq 9 4; exq 0 1]
  /\ nrhs 6 (map (fun e => (snd e, design_row (map (fun d => bsplinebasis (ds_knots d) (ds_coords d) (ds_order d)) exdims) (fst (fst e)),
                            snd (fst e))) exdata)
     = [exq 11 4; exq 9 4; exq 0 1; exq 17 8; exq 9 4; exq 0 1].
Proof.
  split; [vm_compute; repeat constructor|]. split; [reflexivity|]. split; [vm_compute; reflexivity|].
  split; [vm_compute; reflexivity|].
  destruct (C09_glam_is_kron QcA_OField exdims [exq 0 1] [1] exdata) as [_ [_ [H _]]]; [vm_compute; repeat constructor|].
  apply (f_equal snd) in H. cbn [snd] in H. etransitivity; [symmetry; exact H | vm_compute; reflexivity].
Qed.

(* (5) hypotheses satisfiable: 1 dimension, order 0, one coefficient, one datum of weight 13, smoothing 0: the system matrix
   is [[13]] = nmat 1 exE, positive definite by the example above *)
Definition exdims1 : list (@dimspec QcA) := [ mkDim 0 [exq 0 1; exq 1 1] [exq 1 2] ].
Definition exdata1 : list (list N * T QcA * T QcA) := [ ([0]%N, exq 2 1, exq 13 1) ].
Example C09_top_hypotheses_satisfiable :
  Forall (fun e => valid_idx (map (fun d => N.of_nat (length (ds_coords d))) exdims1) (fst (fst e))) exdata1
  /\ Forall (fun e => OFieldKit.le (A := QcA) zero (snd e)) exdata1
  /\ Forall (fun l => OFieldKit.le (A := QcA) zero l) [exq 0 1]
  /\ spd (A := QcA) (fold_right Nat.mul 1 (map ds_nsplines exdims1)) (fst (fit_system exdims1 [exq 0 1] [0] exdata1)).
Proof.
  split; [vm_compute; repeat constructor|]. split; [repeat constructor|]. split; [repeat constructor|].
  replace (fst (fit_system exdims1 [exq 0 1] [0] exdata1)) with (nmat (A := QcA) 1 exE) by (vm_compute; reflexivity).
  exact (proj2 (proj2 (proj2 C09_hypotheses_satisfiable))).
Qed.

From PS Require Import C01_Basis C09_X16.
(* What the rows of the order-1 difference matrix of the penalty MEAN (de Boor, PGS X.(16), first derivative): the derivative
   (BSpline.dBfun, proved to be the analytic derivative in C02) of the spline  sum_i c_i B_{i,n}  is, in the fully supported range,
   the spline of order n-1 on the same knots with coefficients  n (c_{j+1} - c_j) / (t_{j+1+n} - t_{j+1})  attached to B_{j+1,n-1}
   (Abel summation; non-decreasing knots, dropped-term convention; any ordered field) ... *)
Theorem C09_derivative_is_difference_spline : forall (A : Arith) (F : OField A) (kn : Z -> T A) (nknots : Z),
  (forall i j, (0 <= i)%Z -> (i <= j)%Z -> (j < nknots)%Z -> OFieldKit.le (kn i) (kn j)) ->
  forall (side : bool) (n1 N : nat) (c : Z -> T A) (x : T A) (l : Z),
  nknots = (Z.of_nat N + Z.of_nat (S n1) + 1)%Z -> (1 <= N)%nat ->
  (Z.of_nat (S n1) <= l)%Z -> (l <= Z.of_nat N - 1)%Z -> in_piece kn side l x ->
  sum_range (fun i => mul (c i) (dBfun kn side 1 (S n1) i x)) 0 N =
  sum_range (fun j => mul (dcoef n1 c j) (wq kn side n1 x (j + 1))) 0 (N - 1).
Proof. intros A F kn nknots Hm side n1 N c x l HN HN1 Hl0 Hl1 Hp. exact (deriv_sum_full_support F kn nknots Hm side n1 c x N HN HN1 l Hl0 Hl1 Hp). Qed.

(* ... and those coefficients are what glam.c's divided_diffs (penalty order 1) computes from two neighbouring coefficients *)
Theorem C09_divided_diffs_order1 : forall (A : Arith) (F : OField A) (knat : nat -> T A) (order j : nat) (c0 c1 : T A),
  sub (knat (j + order + 1)%nat) (knat (j + 1)%nat) <> zero -> ofZ (Z.of_nat order) <> @zero A ->
  divided_diffs knat order 1 j = [div (opp one) (delta1 knat order j); div one (delta1 knat order j)] /\
  add (mul (div (opp one) (delta1 knat order j)) c0) (mul (div one (delta1 knat order j)) c1) =
  div (mul (ofZ (Z.of_nat order)) (sub c1 c0)) (sub (knat (j + order + 1)%nat) (knat (j + 1)%nat)).
Proof. intros A F knat order j c0 c1 Hd Ho. split; [apply divided_diffs_order1|apply (stencil1_apply F); assumption]. Qed.

From PS Require C09_Stencil.
(* ... and for EVERY penalty order p: the stencil divided_diffs builds for row j, applied to c_j .. c_{j+p}, is the p-th iterated
   divided difference  D^p c (j) = (D^{p-1} c (j+1) - D^{p-1} c (j)) / ((t_{j+order+1} - t_{j+p}) / (order - p + 1)),  D^0 c = c
   (the coefficient recursion of the p-th derivative of a spline, de Boor X.(15)); any field, no assumption on the knots ... *)
Theorem C09_penalty_stencil_is_iterated_difference : forall (A : Arith) (F : OField A) (knat : nat -> T A) (order p : nat) (c : nat -> T A) (j : nat),
  dot (divided_diffs knat order p j) (map c (seq j (S p))) = C09_Stencil.dcoef knat order p c j.
Proof. intros A F knat order p c j. exact (C09_Stencil.stencil_is_iterated_difference F knat order p c j). Qed.

(* ... hence row `row` of calc_penalty's finite-difference matrix applied to a whole coefficient vector is D^p c (row) *)
Theorem C09_penalty_row_is_iterated_difference : forall (A : Arith) (F : OField A) (knat : nat -> T A) (order p nspl : nat) (c : nat -> T A) (row : nat),
  (row + p < nspl)%nat ->
  dot (nth row (finitediff knat order p nspl) []) (map c (seq 0 nspl)) = C09_Stencil.dcoef knat order p c row.
Proof. intros A F knat order p nspl c row H. exact (C09_Stencil.finitediff_row_is_iterated_difference F knat order p nspl c row H). Qed.

(* ... so the one-dimensional penalty term itself, c' P c with P = calc_penalty, IS the sum of the squared p-th iterated divided
   differences of the coefficients (C09_penalty_is_DtD + the rows above) — with C09_derivative_coefficients_are_the_penalty_stencil
   below: the sum of the squared B-spline coefficients of the p-th derivative *)
Theorem C09_penalty_1d_is_sum_of_squared_differences : forall (A : Arith) (F : OField A) (knat : nat -> T A) (order p n : nat) (c : nat -> T A),
  dot (map c (seq 0 n)) (matvec (calc_penalty [n] knat 0 order p) (map c (seq 0 n))) =
  sumK (map (fun r => sq (C09_Stencil.dcoef knat order p c r)) (seq 0 (n - p))).
Proof.
  intros A F knat order p n c.
  destruct (C09_penalty_is_DtD F [n] knat 0 order p (map c (seq 0 n)) ltac:(discriminate)) as [_ [_ [H _]]].
  rewrite H. change (penalty_root [n] knat 0 order p) with (finitediff knat order p n). unfold finitediff.
  rewrite map_map.
  rewrite (map_ext_in _ (fun r => sq (C09_Stencil.dcoef knat order p c r)) (seq 0 (n - p))); [reflexivity|].
  intros r Hr. apply in_seq in Hr.
  rewrite (C09_Stencil.finitediff_row_expr F knat order p n c r) by lia. reflexivity.
Qed.

(* (these statements are unconditional identities: there is no hypothesis whose satisfiability would need an example) *)

From PS Require C09_X16Link.
(* ... the k-th derivative, every k <= degree: in the fully supported range the k-th derivative formula (BSpline.dBfun k, the analytic
   derivative by C02) of the spline with coefficients c_a .. c_{a+M} of degree n is the spline of degree n-k with coefficients
   citer k n c (de Boor's recursion c'_i = n (c_i - c_{i-1}) / (t_{i+n} - t_i), dropped when the knot difference vanishes) on the
   indices a+k .. a+M; non-decreasing knots, any ordered field ... *)
Theorem C09_kth_derivative_is_difference_spline : forall (A : Arith) (F : OField A) (kn : Z -> T A) (nknots : Z),
  (forall i j, (0 <= i)%Z -> (i <= j)%Z -> (j < nknots)%Z -> OFieldKit.le (kn i) (kn j)) ->
  forall (side : bool) (x : T A) (l : Z), (0 <= l)%Z -> (l + 1 < nknots)%Z -> in_piece kn side l x ->
  forall (k n : nat) (c : Z -> T A) (a : Z) (M : nat),
  (k <= n)%nat -> (k <= M)%nat -> (0 <= a)%Z -> (a + Z.of_nat M + Z.of_nat n + 1 < nknots)%Z ->
  (a + Z.of_nat n <= l)%Z -> (l <= a + Z.of_nat M)%Z ->
  sum_range (fun i => mul (c i) (dBfun kn side k n i x)) a (S M) =
  sum_range (fun i => mul (citer kn k n c i) (Bfun kn side (n - k) i x)) (a + Z.of_nat k) (S M - k).
Proof. intros A F kn nknots Hm side x l Hl0 Hl1 Hp. exact (deriv_k_is_difference_spline F kn nknots Hm side x l Hl0 Hl1 Hp). Qed.

(* ... and those coefficients are what the penalty matrix of order k computes from c (C09_penalty_row_is_iterated_difference): for
   knots whose differences do not vanish and a field in which 1..n are invertible,  citer k n c (j + k) = D^k c (j).  So the
   penalty term  |D c|^2  of penalty order k is the sum of squares of the B-spline coefficients of the k-th derivative. *)
Theorem C09_derivative_coefficients_are_the_penalty_stencil : forall (A : Arith) (F : OField A) (knat : nat -> T A) (n : nat) (c : Z -> T A),
  (forall i m : nat, (1 <= m)%nat -> sub (knat (i + m)%nat) (knat i) <> zero) ->
  (forall m : nat, (1 <= m <= n)%nat -> ofZ (Z.of_nat m) <> @zero A) ->
  forall k j, (k <= n)%nat ->
  citer (C09_X16Link.knZ knat) k n c (Z.of_nat (j + k)) = C09_Stencil.dcoef knat n k (C09_X16Link.cnat c) j.
Proof. intros A F knat n c Hs Hc. exact (C09_X16Link.citer_is_stencil F knat n c Hs Hc). Qed.

(* the hypotheses are satisfiable: exact rationals, knots 0,1,2,..., any degree *)
Lemma QcA_ofZ_inj : forall a b : Z, @ofZ QcA a = @ofZ QcA b -> a = b.
Proof.
  intros a b H. cbn in H. apply (f_equal Qcanon.this) in H. cbn [Qcanon.this Qcanon.Q2Qc] in H.
  apply QArith_base.inject_Z_injective.
  rewrite <- (Qreduction.Qred_correct (QArith_base.inject_Z a)), <- (Qreduction.Qred_correct (QArith_base.inject_Z b)), H. reflexivity.
Qed.
Example C09_stencil_hypotheses_satisfiable : forall n : nat,
  (forall i m : nat, (1 <= m)%nat -> @sub QcA (@ofZ QcA (Z.of_nat (i + m))) (@ofZ QcA (Z.of_nat i)) <> @zero QcA) /\
  (forall m : nat, (1 <= m <= n)%nat -> @ofZ QcA (Z.of_nat m) <> @zero QcA).
Proof.
  intro n. split.
  - intros i m Hm Hz. apply (sub_zero_eq QcA_OField) in Hz. apply QcA_ofZ_inj in Hz. lia.
  - intros m Hm Hz. change (@zero QcA) with (@ofZ QcA 0%Z) in Hz. apply QcA_ofZ_inj in Hz. lia.
Qed.
Print Assumptions C09_normal_eq_minimise.
Print Assumptions C09_fit_minimises.
Print Assumptions C09_penalty_is_DtD.
Print Assumptions C09_penalty_1d.
Print Assumptions C09_penalty_is_normal_matrix.
Print Assumptions C09_glam_is_kron_partial.
Print Assumptions C09_slicemultiply_wellformed.
Print Assumptions C09_glam_fold_multilinear.
Print Assumptions C09_box_identity.
Print Assumptions C09_reshape_flatten_bijection.
Print Assumptions C09_glam_is_kron.
Print Assumptions C09_zero_weight_and_order_irrelevant.
Print Assumptions C09_fit_system_is_normal_system.
Print Assumptions C09_objective_vocabulary.
Print Assumptions C09_fit_minimises_penalised_objective.
Print Assumptions C09_basis_is_cox_de_boor.
Print Assumptions C09_basis_side.
Print Assumptions C09_derivative_is_difference_spline.
Print Assumptions C09_divided_diffs_order1.
Print Assumptions C09_penalty_stencil_is_iterated_difference.
Print Assumptions C09_penalty_row_is_iterated_difference.
Print Assumptions C09_penalty_1d_is_sum_of_squared_differences.
Print Assumptions C09_kth_derivative_is_difference_spline.
Print Assumptions C09_derivative_coefficients_are_the_penalty_stencil.
