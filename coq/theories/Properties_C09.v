From PS Require Import Arith FitModel.
Theorem C09_stub : True. Proof. exact I. Qed.
Print Assumptions C09_stub.
