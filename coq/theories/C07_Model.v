(* C07_Model.v — executable model pieces for property C07 (reading any bytes either fails cleanly or yields a safe, well-formed
   table), on top of FitsModel.v (of_doc = read_fits_core statement by statement, read_bytes = lenient byte reader).
   No proofs in this file.

   1. binary64 bit patterns as ordered values: NaN / finite tests and IEEE comparison on N (sign-magnitude).
   2. safe_table: the property's "well-formed table", independent of how a reader establishes it.
   3. the meaning of the consistency checks of read_fits_core (C07_Checks.rcheck); the list of checks actually present in the source
      is Generated_readchecks.read_checks (translator readchecks.py). of_doc_checked = of_doc followed by those checks: all of them
      are functions of (order, naxes, knots), values that do not change after they are read, so testing them on the finished table
      accepts exactly the documents the interleaved C++ tests accept.
   4. the object-state wrapper: read_step (object state, bytes) -> (object state, outcome, allocation trace), in two variants —
      as the code is (no cleanup when an exception leaves read_fits_core) and with the cleanup-on-throw guard. *)
From Coq Require Import List NArith ZArith Bool.
From PS Require Import Generated_fits FitsModel FitsWf C07_Checks Generated_readchecks Resource.
Import ListNotations.
Open Scope N_scope.

(* ------------------------------------------------------------------------------------------------ *)
(* 1. binary64 bit patterns.  w = sign * 2^63 + magnitude;  exponent all ones <=> magnitude >= 0x7ff0000000000000 *)
Definition two63 : N := 9223372036854775808.
Definition two64 : N := 18446744073709551616.
Definition d64_inf_mag : N := 9218868437227405312.        (* 0x7ff0000000000000 *)
Definition d64_mag (w : N) : N := w mod two63.
Definition d64_neg (w : N) : bool := two63 <=? w.
(* a word that does not fit 64 bits is not a double at all: treated as NaN (never produced by be_word on 8 bytes < 256) *)
Definition d64_nan (w : N) : bool := (two64 <=? w) || (d64_inf_mag <? d64_mag w).
Definition d64_finite (w : N) : bool := (w <? two64) && (d64_mag w <? d64_inf_mag).
(* the real number order on non-NaN patterns, as an integer key: -0 and +0 both map to 0 *)
Definition d64_key (w : N) : Z := if d64_neg w then (- Z.of_N (d64_mag w))%Z else Z.of_N (d64_mag w).
(* IEEE-754 <= and < : false as soon as one side is NaN *)
Definition d64_leb (a b : N) : bool := negb (d64_nan a) && negb (d64_nan b) && (d64_key a <=? d64_key b)%Z.
Definition d64_ltb (a b : N) : bool := negb (d64_nan a) && negb (d64_nan b) && (d64_key a <? d64_key b)%Z.

(* no adjacent pair k[j-1], k[j] with k[j] < k[j-1] — the C++ loop `for k=1..: if(knots[k] < knots[k-1]) throw` *)
Fixpoint no_descent (k : list N) : bool :=
  match k with
  | a :: ((b :: _) as r) => negb (d64_ltb b a) && no_descent r
  | _ => true
  end.

(* non-decreasing: every adjacent pair ordered by <= (false if a NaN is involved) *)
Fixpoint nondecreasing (k : list N) : bool :=
  match k with
  | a :: ((b :: _) as r) => d64_leb a b && nondecreasing r
  | _ => true
  end.

(* ------------------------------------------------------------------------------------------------ *)
(* 2. the property's well-formed table *)
Definition dims3 (t : table) : list (N * N * list N) := combine (combine (t_order t) (t_naxes t)) (t_knots t).

Definition safe_dim (x : N * N * list N) : bool :=
  let '(o, a, k) := x in
  (N.of_nat (length k) =? a + o + 1) &&        (* coefficient count = knot count - order - 1 *)
  (o + 1 <=? a) &&                             (* ... and at least order + 1 (so: at least 2*order+2 knots) *)
  forallb d64_finite k && nondecreasing k.     (* knots finite and non-decreasing *)

Definition safe_table (t : table) : bool :=
  let nd := length (t_order t) in
  (1 <=? nd)%nat && (length (t_knots t) =? nd)%nat && (length (t_naxes t) =? nd)%nat &&
  str_eqb (t_strides t) (strides_of (t_naxes t)) &&                       (* row-major strides *)
  (length (t_coeffs t) =? N.to_nat (prodN (t_naxes t)))%nat &&            (* array sizes match *)
  forallb safe_dim (dims3 t) &&
  match t_extents t with Some e => (length e =? 2 * nd)%nat | None => true end.

(* ------------------------------------------------------------------------------------------------ *)
(* 3. meaning of the checks; the checked reader *)
Definition two64z : Z := 18446744073709551616%Z.

Definition check_dim (c : rcheck) (x : N * N * list N) : bool :=
  let '(o, a, k) := x in
  let nk := N.of_nat (length k) in
  match c with
  | CkAxisPositive => 0 <? a
  | CkKnotsEnough m b => negb (nk <? m * o + b)
  | CkAxesMatch j =>                           (* nknots_temp is a `long` filled by fits_get_img_size: a count >= 2^63 is not
                                                  representable (cfitsio reports NUM_OVERFLOW and the read fails before this test) *)
      (nk <? two63) && (Z.of_N a =? (Z.of_N nk - Z.of_N o - Z.of_N j) mod two64z)%Z     (* uint64_t subtraction wraps *)
  | CkKnotsFinite => forallb d64_finite k
  | CkKnotsSorted => no_descent k
  end.

Definition check_holds (t : table) (c : rcheck) : bool := forallb (check_dim c) (dims3 t).

(* first failing check, in program order *)
Fixpoint first_failing (t : table) (cs : list rcheck) : option rcheck :=
  match cs with
  | [] => None
  | c :: r => if check_holds t c then first_failing t r else Some c
  end.

Inductive rres :=
| RAccept (t : table)
| RReject (e : err)            (* an error the unchecked reader already reports *)
| RInvalid (c : rcheck).       (* rejected by a consistency check *)

(* cfitsio converts ORDER / ORDERn values given as strings or floating-point text ('2', 2.0, 1E0) to integers; FitsModel.read_orders
   does not transcribe those conversions (NOTES_C06: unverified corner). A primary header holding such a card is declined. *)
Definition order_card_plain (c : card) : bool :=
  if starts_with s_ORDER (card_key c) then
    match c with
    | Card _ (VTok t) => match parse_int t with Some _ => true | None => false end
    | _ => false
    end
  else true.
Definition orders_plain (d : fitsdoc) : bool :=
  match d with h0 :: _ => forallb order_card_plain (h_cards h0) | [] => true end.

(* an image named KNOTSi / EXTENTS with a number of axes other than 1 (possible through EXTNAME edits, or when the primary array itself
   carries such a name): before fix C07_6 the code handed a single pixel coordinate to fits_read_pix for it (stack over-read inside
   cfitsio); after it the knot case is refused and the extents case ignored. FitsModel.read_knots / read_extents look at the first
   axis only. Such documents are declined. *)
Definition one_axis (h : hdu) : bool :=
  match hdu_layout (h_cards h) with Ok ly => (length (l_axes ly) =? 1)%nat | Error _ => true end.
Definition vectors_1d (d : fitsdoc) : bool :=
  match d with
  | h0 :: _ =>
      let nd := match hdu_layout (h_cards h0) with Ok ly => length (l_axes ly) | Error _ => 0%nat end in
      forallb (fun i => match find_hdu (keyn s_KNOTS i) d with Some h => one_axis h | None => true end) (map N.of_nat (seq 0 nd)) &&
      match find_hdu s_EXTENTS d with Some h => one_axis h | None => true end
  | [] => true
  end.

Definition checked_with (cs : list rcheck) (d : fitsdoc) : rres :=
  if negb (orders_plain d) then RReject EUnsupported else
  if negb (vectors_1d d) then RReject EUnsupported else
  match of_doc d with
  | Error e => RReject e
  | Ok t => match first_failing t cs with Some c => RInvalid c | None => RAccept t end
  end.

Definition of_doc_checked (d : fitsdoc) : rres := checked_with read_checks d.

(* read_fits / splinetable(path) / readsplinefitstable: any byte string (cfitsio's disk driver delivers a final partial block) *)
Definition read_bytes_checked (b : list N) : rres := of_doc_checked (fst (decode_prefix b)).

(* cfitsio's MEMORY driver transfers whole 2880-byte records only (mem_read refuses a record that crosses the end of the buffer): a
   final partial block of the buffer is invisible to the reader *)
Definition whole_blocks (b : list N) : list N := firstn (block * (length b / block)) b.

(* read_fits_mem / readsplinefitstable_mem: when the translator found the HDU extent guard in read_fits_mem (walk the HDUs cfitsio
   found; refuse if one ends beyond the buffer), a buffer whose HDU scan stops at a header announcing more data than is left
   (decode_prefix: ETruncData) is refused before anything is read *)
Definition tail_truncated (b : list N) : bool :=
  match snd (decode_prefix b) with Some ETruncData => true | _ => false end.
Definition read_mem_checked (b : list N) : rres :=
  let b' := whole_blocks b in
  if mem_guard_present && tail_truncated b' then RReject ETruncData else read_bytes_checked b'.

(* the checks the property needs; C07_Proofs shows read_checks contains them *)
Definition required_checks : list rcheck := [CkKnotsEnough 2 2; CkAxesMatch 1; CkKnotsFinite; CkKnotsSorted].
Definition has_required (cs : list rcheck) : bool := forallb (fun c => existsb (rcheck_eqb c) cs) required_checks.

(* "array sizes match the header": what the accepted table's shape is derived from *)
Definition sizes_match_header (b : list N) (t : table) : Prop :=
  exists h0 rest ly,
    fst (decode_prefix b) = h0 :: rest /\ hdu_layout (h_cards h0) = Ok ly /\
    t_naxes t = List.rev (l_axes ly) /\                                   (* naxes[i] = NAXIS(ndim-i) *)
    length (t_order t) = length (l_axes ly) /\
    N.of_nat (length (t_coeffs t)) = prodN (l_axes ly) /\                 (* all of the image, nothing else *)
    read_orders (length (l_axes ly)) (h_cards h0) = Ok (t_order t) /\     (* ORDER / ORDERn *)
    Forall2 (fun i k => exists h, find_hdu (keyn s_KNOTS i) (h0 :: rest) = Some h /\
                                   first_axis h = Some (N.of_nat (length k)) /\ k = firstn (length k) (h_data h))
            (map N.of_nat (seq 0 (length (l_axes ly)))) (t_knots t).      (* knot vector i = the image named KNOTSi, whole *)

(* ------------------------------------------------------------------------------------------------ *)
(* 4. the object around the reader.  Only what the destructor and the entry guards look at: ndim and the allocations the object
   owns (sizes in bytes, in allocation order).  splinetable.h: ~splinetable releases everything iff ndim != 0, assuming every
   array is populated;  fitsio.h: read_fits/read_fits_mem refuse when ndim != 0. *)
Record objstate := { o_ndim : nat; o_owned : list N }.
Definition obj_empty (s : objstate) : bool := (o_ndim s =? 0)%nat && match o_owned s with [] => true | _ => false end.
Definition empty_obj : objstate := {| o_ndim := 0; o_owned := [] |}.

(* the allocation requests of read_fits_core for a finished table, in program order (bytes): aux (array + per key 2 pointers, key,
   value), order, periods, knots, nknots, extents, extents[0], naxes, strides, coefficients, then one block per knot vector *)
Definition table_allocs (t : table) : list N :=
  let nd := N.of_nat (length (t_order t)) in
  (match t_aux t with
   | [] => []
   | aux => 8 * N.of_nat (length aux) :: flat_map (fun kv => [16; N.of_nat (length (fst kv)) + 1; N.of_nat (length (snd kv)) + 1]) aux
   end) ++
  [4 * nd; 8 * nd; 8 * nd; 8 * nd; 8 * nd; 16 * nd; 8 * nd; 8 * nd; 4 * N.of_nat (length (t_coeffs t))] ++
  map (fun ok => 8 * (N.of_nat (length (snd ok)) + 2 * fst ok)) (combine (t_order t) (t_knots t)).

(* where a failing read stops: the errors raised before `ndim = temp_dim` leave nothing behind; the later ones have assigned ndim
   and made the fixed-size allocations (at least `order`; the model keeps the common prefix: order only for EOrder, the eight arrays
   allocated before the coefficient read otherwise — knot blocks already read are not counted, an under-approximation) *)
Definition before_ndim (e : err) : bool :=
  match e with
  | ENoHDU | ETruncHeader | ETruncData | ENotFits | EBadMandatory | EBadBitpix | ENegAxis | EFuel | ENotImage | EBadDim => true
  | _ => false
  end.

Definition header_ndim (b : list N) : nat :=
  match fst (decode_prefix b) with
  | h0 :: _ => match hdu_layout (h_cards h0) with Ok ly => length (l_axes ly) | Error _ => 0%nat end
  | [] => 0%nat
  end.

Definition partial_allocs (nd : nat) (e : err) : list N :=
  let n := N.of_nat nd in
  match e with
  | EOrder => [4 * n]
  | _ => [4 * n; 8 * n; 8 * n; 8 * n; 8 * n; 16 * n]
  end.

Inductive outcome := Loaded | Failed | Refused.

(* the allocations a read has made when it stops with result r *)
Definition allocs_at_stop (b : list N) (r : rres) : list N :=
  match r with
  | RAccept t => table_allocs t
  | RReject e => if before_ndim e then [] else partial_allocs (header_ndim b) e
  | RInvalid _ => partial_allocs (header_ndim b) EKnotsRead ++ [8 * N.of_nat (header_ndim b); 8 * N.of_nat (header_ndim b)]
  end.

Definition ndim_at_stop (b : list N) (r : rres) : nat :=
  match r with
  | RAccept t => length (t_order t)
  | RReject e => if before_ndim e then 0%nat else header_ndim b
  | RInvalid _ => header_ndim b
  end.

(* AS THE CODE IS: an exception leaves read_fits_core with ndim assigned and the allocations made so far still owned *)
Definition read_step_asis (reader : list N -> rres) (s : objstate) (b : list N) : objstate * outcome * list ev :=
  if negb (o_ndim s =? 0)%nat then (s, Refused, [])
  else let r := reader b in
       let a := allocs_at_stop b r in
       ({| o_ndim := ndim_at_stop b r; o_owned := o_owned s ++ a |},
        match r with RAccept _ => Loaded | _ => Failed end, allocs a).

(* WITH THE CLEANUP GUARD: on the way out with an exception everything allocated by this read is released and ndim reset to 0 *)
Definition read_step (reader : list N -> rres) (s : objstate) (b : list N) : objstate * outcome * list ev :=
  if negb (o_ndim s =? 0)%nat then (s, Refused, [])
  else let r := reader b in
       let a := allocs_at_stop b r in
       match r with
       | RAccept t => ({| o_ndim := length (t_order t); o_owned := o_owned s ++ a |}, Loaded, allocs a)
       | _ => (s, Failed, allocs a ++ frees (List.rev a))
       end.

(* the unchecked reader in the same result type *)
Definition read_bytes_unchecked (b : list N) : rres :=
  let d := fst (decode_prefix b) in
  if negb (orders_plain d) then RReject EUnsupported else
  if negb (vectors_1d d) then RReject EUnsupported else
  match of_doc d with Ok t => RAccept t | Error e => RReject e end.
