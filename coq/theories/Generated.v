(* Generated.v — WRITTEN BY tools/translate_tables.py FROM /repo ON EVERY RUN. DO NOT EDIT. *)
From Coq Require Import ZArith List String.
Import ListNotations.

Inductive variant := VGeneric | VD (D : nat) | VFixed (D O : nat) | VKnown (Os : list nat).
(* a case of switch(constOrder){ switch(ndim){ ... } }: (only without PHOTOSPLINE_NO_EVAL_TEMPLATES,
   constOrder label (None = default), ndim label (None = default), eval_ptr routine, v_eval_ptr routine) *)
Record dcase := mkCase { dc_templ : bool; dc_corder : option nat; dc_ndim : option nat; dc_ev : variant; dc_vev : variant }.
Record dknown := mkKnown { dk_templ : bool; dk_orders : list nat; dk_ev : variant; dk_vev : variant }.
Definition dispatch_cases : list dcase := [
  mkCase true (Some 2) (Some 1) (VFixed 1 2) (VFixed 1 2);
  mkCase true (Some 2) (Some 2) (VFixed 2 2) (VFixed 2 2);
  mkCase true (Some 2) (Some 3) (VFixed 3 2) (VFixed 3 2);
  mkCase true (Some 2) (Some 4) (VFixed 4 2) (VFixed 4 2);
  mkCase true (Some 2) (Some 5) (VFixed 5 2) (VFixed 5 2);
  mkCase true (Some 2) (Some 6) (VFixed 6 2) (VFixed 6 2);
  mkCase true (Some 2) (Some 7) (VFixed 7 2) (VFixed 7 2);
  mkCase true (Some 2) (Some 8) (VFixed 8 2) (VFixed 8 2);
  mkCase true (Some 2) None VGeneric VGeneric;
  mkCase true (Some 3) (Some 1) (VFixed 1 3) (VFixed 1 3);
  mkCase true (Some 3) (Some 2) (VFixed 2 3) (VFixed 2 3);
  mkCase true (Some 3) (Some 3) (VFixed 3 3) (VFixed 3 3);
  mkCase true (Some 3) (Some 4) (VFixed 4 3) (VFixed 4 3);
  mkCase true (Some 3) (Some 5) (VFixed 5 3) (VFixed 5 3);
  mkCase true (Some 3) (Some 6) (VFixed 6 3) (VFixed 6 3);
  mkCase true (Some 3) (Some 7) (VFixed 7 3) (VFixed 7 3);
  mkCase true (Some 3) (Some 8) (VFixed 8 3) (VFixed 8 3);
  mkCase true (Some 3) None VGeneric VGeneric;
  mkCase true None (Some 1) (VD 1) (VD 1);
  mkCase true None (Some 2) (VD 2) (VD 2);
  mkCase true None (Some 3) (VD 3) (VD 3);
  mkCase true None (Some 4) (VD 4) (VD 4);
  mkCase true None (Some 5) (VD 5) (VD 5);
  mkCase true None (Some 6) (VD 6) (VD 6);
  mkCase true None (Some 7) (VD 7) (VD 7);
  mkCase true None (Some 8) (VD 8) (VD 8);
  mkCase false None None VGeneric VGeneric
].
Definition dispatch_known : list dknown := [
  mkKnown true [2; 2; 2; 3; 2; 2] (VKnown [2; 2; 2; 3; 2; 2]) (VKnown [2; 2; 2; 3; 2; 2]);
  mkKnown true [2; 2; 2; 5; 2; 2] (VKnown [2; 2; 2; 5; 2; 2]) (VKnown [2; 2; 2; 5; 2; 2])
].
Definition MAXDIM : nat := 8.
Definition VECTOR_SIZE : nat := 4.
