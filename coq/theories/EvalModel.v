(* EvalModel.v — executable models of the evaluation code of photospline, polymorphic in [Arith].
   Sources modelled (statement by statement; no proofs in this file):
     include/photospline/detail/bspline_eval.h : searchcenters, ndsplineeval_core and its templated
         variants (coreD, coreD_FixedOrder, core_KnownOrder), ndsplineeval, operator(),
         ndsplineeval_deriv, get_evaluator's dispatch (table in Generated.v)
     include/photospline/bspline.h             : bsplvb_simple, bsplvb, bspline_nonzero,
                                                 bspline_deriv_nonzero
     include/photospline/detail/bspline_multi.h: ndsplineeval_multibasis_core (lane-wise), ndsplineeval_gradient
     src/core/bspline.cpp                      : bspline, bspline_deriv, bspline_left, bspline_deriv_left
   Conventions: knot indices are [Z] (the code walks to -1 and into the padding), loop counters and
   positions in the small local arrays are [nat]. Integer arithmetic is unbounded (DESIGN §3,
   "Integer widths"). A value of type Float is a [T A] that went through [rnd]. *)
From Coq Require Import ZArith List Bool Lia.
From PS Require Import Arith.
Import ListNotations.
Local Open Scope Z_scope.

Section Model.
Context {A : Arith}.
Notation K := (T A).

(* ============================================================================================== *)
(** * One dimension *)
Section OneDim.
Variable kn : Z -> K.        (* knots[i], total: indices outside [0,nknots) are the allocation padding *)
Variable nknots : Z.

(** ** searchcenters, one coordinate *)

(* do { c = (max+min)/2; if (x < knots[c]) max = c-1; else min = c+1; }
   while (x < knots[c] || x >= knots[c+1]);   — fuel counts loop iterations; [None] = fuel exhausted *)
Fixpoint bsearch (fuel : nat) (x : K) (mn mx : Z) : option Z :=
  match fuel with
  | O => None
  | S f =>
      let c := (mx + mn) / 2 in
      let lt := ltb x (kn c) in
      let mx' := if lt then c - 1 else mx in
      let mn' := if lt then mn else c + 1 in
      if lt || geb x (kn (c + 1)) then bsearch f x mn' mx' else Some c
  end.

Inductive lookup := Outside | Found (c : Z) | NoFuel.

(* while (centers > order && x == knots[centers]) centers--;     (x == y on doubles is x <= y && y <= x: false for NaN,
   true for -0 and +0) — the fuel handed in by [search_dim] is the maximal number of iterations *)
Fixpoint skip_flat (fuel : nat) (x : K) (order c : Z) : Z :=
  match fuel with
  | O => c
  | S f => if (order <? c) && (leb x (kn c) && leb (kn c) x) then skip_flat f x order (c - 1) else c
  end.

Definition search_dim (fuel : nat) (order naxes : Z) (x : K) : lookup :=
  if negb (gtb x (kn 0) && leb x (kn (nknots - 1))) then Outside
  else if ltb x (kn order) then Found order
  else if geb x (kn naxes) then Found (skip_flat (Z.to_nat (naxes - 1 - order)) x order (naxes - 1))
  else match bsearch fuel x order (nknots - 2) with
       | None => NoFuel
       | Some c => Found (if c =? naxes then c - 1 else c)
       end.

(** ** the margin walk shared by bsplvb_simple / bspline_nonzero / bspline_deriv_nonzero
      if (left == n) while (left >= 0 && x < knots[left]) left--;
      if (left == nknots-n-2) while (left < nknots-1 && x > knots[left+1]) left++;     *)
Fixpoint walk_down (fuel : nat) (x : K) (left : Z) : Z :=
  match fuel with
  | O => left
  | S f => if (0 <=? left) && ltb x (kn left) then walk_down f x (left - 1) else left
  end.
Fixpoint walk_up (fuel : nat) (x : K) (left : Z) : Z :=
  match fuel with
  | O => left
  | S f => if (left <? nknots - 1) && gtb x (kn (left + 1)) then walk_up f x (left + 1) else left
  end.
(* the fuel given below is exactly the maximal number of iterations, so the fuelled functions are the loops *)
Definition adjust_left (n : Z) (x : K) (left : Z) : Z :=
  let left1 := if left =? n then walk_down (Z.to_nat (left + 1)) x left else left in
  if left1 =? nknots - n - 2 then walk_up (Z.to_nat (nknots - 1 - left1)) x left1 else left1.

(** ** de Boor's recurrence (the loop body shared by bsplvb_simple and bsplvb) *)
Definition dr (left : Z) (x : K) (i : nat) : K := sub (kn (left + Z.of_nat i + 1)) x.
Definition dl (left : Z) (x : K) (i : nat) : K := sub x (kn (left - Z.of_nat i)).

(* for (i = 0; i < j+1; i++) { term = b[i]/(dr[i]+dl[j-i]); b[i] = saved + dr[i]*term; saved = dl[j-i]*term; }
   b[j+1] = saved;                       [b] holds the j+1 live entries *)
Fixpoint deboor_inner (left : Z) (x : K) (j i : nat) (b : list K) (saved : K) : list K :=
  match b with
  | [] => [rnd saved]
  | bi :: rest =>
      let term := div bi (add (dr left x i) (dl left x (j - i))) in
      rnd (add saved (mul (dr left x i) term))
        :: deboor_inner left x j (S i) rest (mul (dl left x (j - i)) term)
  end.
Definition deboor_round (left : Z) (x : K) (j : nat) (b : list K) : list K :=
  deboor_inner left x j 0 b zero.
(* rounds j = jlow, jlow+1, …, jlow+count-1 *)
Fixpoint deboor_rounds (left : Z) (x : K) (jlow count : nat) (b : list K) : list K :=
  match count with
  | O => b
  | S c => deboor_rounds left x (S jlow) c (deboor_round left x jlow b)
  end.

(** ** the re-indexing for partially supported points; [len] = number of local basis functions *)
Definition rearrange (len : nat) (i_left i_right : Z) (b : list K) : list K :=
  if 0 <? i_left then skipn (Z.to_nat i_left) b ++ repeat zero (Nat.min (Z.to_nat i_left) len)
  else if 0 <? i_right then repeat zero (Nat.min (Z.to_nat i_right) len) ++ firstn (len - Z.to_nat i_right) b
  else b.

(** ** bsplvb_simple(knots, nknots, x, left, degree = n+1, biatx) *)
Definition bsplvb_simple (n : nat) (x : K) (left0 : Z) : list K :=
  let left := adjust_left (Z.of_nat n) x left0 in
  let b := deboor_rounds left x 0 n [rnd one] in
  rearrange (S n) (Z.of_nat n - left) (left + Z.of_nat n + 2 - nknots) b.

(** ** the derivative combination shared by bspline_deriv_nonzero and bspline_nonzero:
      from the n values [v] of the (n-1)-th order splines to the n+1 derivatives of the n-th order ones *)
Definition kdiff (left : Z) (n : Z) (i : Z) : K := sub (kn (left + i)) (kn (left + i - n)).
Fixpoint deriv_mid (left : Z) (n : nat) (i : nat) (temp : K) (v : list K) : list K :=
  (* called with i = 1 and v = tail of the values; temp = previous value *)
  match v with
  | [] => [rnd (div (mul (ofZ (Z.of_nat n)) temp) (kdiff left (Z.of_nat n) (Z.of_nat n)))]
  | vi :: rest =>
      let a := div (mul (ofZ (Z.of_nat n)) temp) (kdiff left (Z.of_nat n) (Z.of_nat i)) in
      rnd (sub a (div (mul (ofZ (Z.of_nat n)) vi) (kdiff left (Z.of_nat n) (Z.of_nat i + 1))))
        :: deriv_mid left n (S i) vi rest
  end.
Definition deriv_combine (left : Z) (n : nat) (v : list K) : list K :=
  match v with
  | [] => []    (* unreachable for n >= 1 *)
  | v0 :: rest =>
      rnd (div (opp (mul (ofZ (Z.of_nat n)) v0)) (kdiff left (Z.of_nat n) 1))
        :: deriv_mid left n 1 v0 rest
  end.

(** ** bspline_deriv_nonzero(knots, nknots, x, left, n, biatx)  (after fix D2: order 0 writes 0) *)
Definition bspline_deriv_nonzero (n : nat) (x : K) (left0 : Z) : list K :=
  match n with
  | O => [zero]
  | S n1 =>
      let left := adjust_left (Z.of_nat n) x left0 in
      let v := deboor_rounds left x 0 n1 [rnd one] in
      rearrange (S n) (Z.of_nat n - left) (left + Z.of_nat n + 2 - nknots) (deriv_combine left n v)
  end.

(** ** bspline_nonzero(knots, nknots, x, left, n, values, derivs) *)
Definition bspline_nonzero (n : nat) (x : K) (left0 : Z) : list K * list K :=
  match n with
  | O => ([rnd one], [zero])
  | S n1 =>
      let left := adjust_left (Z.of_nat n) x left0 in
      let v := deboor_rounds left x 0 n1 [rnd one] in
      let d := deriv_combine left n v in
      let vals := deboor_rounds left x n1 1 v in
      let il := Z.of_nat n - left in
      let ir := left + Z.of_nat n + 2 - nknots in
      (rearrange (S n) il ir vals, rearrange (S n) il ir d)
  end.

(** ** bspline / bspline_deriv (src/core/bspline.cpp), all in double: no [rnd] *)
Fixpoint bspline (n : nat) (x : K) (i : Z) : K :=
  match n with
  | O => if geb x (kn i) && ltb x (kn (i + 1)) then one else zero
  | S n1 =>
      let nz := Z.of_nat n in
      add (div (mul (sub x (kn i)) (bspline n1 x i)) (sub (kn (i + nz)) (kn i)))
          (div (mul (sub (kn (i + nz + 1)) x) (bspline n1 x (i + 1))) (sub (kn (i + nz + 1)) (kn (i + 1))))
  end.
Fixpoint bspline_deriv (n : nat) (x : K) (i : Z) (order : nat) : K :=
  match n with
  | O => zero
  | S n1 =>
      let nz := Z.of_nat n in
      let d1 := sub (kn (i + nz)) (kn i) in
      let d2 := sub (kn (i + nz + 1)) (kn (i + 1)) in
      match order with
      | O | S O =>
          sub (div (mul (ofZ nz) (bspline n1 x i)) d1) (div (mul (ofZ nz) (bspline n1 x (i + 1))) d2)
      | S o1 =>
          sub (div (mul (ofZ nz) (bspline_deriv n1 x i o1)) d1)
              (div (mul (ofZ nz) (bspline_deriv n1 x (i + 1) o1)) d2)
      end
  end.

(** ** bspline_left / bspline_deriv_left (src/core/bspline.cpp): the same with the order-0 indicator continuous from
      the left (knots[i] < x <= knots[i+1]) *)
Fixpoint bspline_left (n : nat) (x : K) (i : Z) : K :=
  match n with
  | O => if gtb x (kn i) && leb x (kn (i + 1)) then one else zero
  | S n1 =>
      let nz := Z.of_nat n in
      add (div (mul (sub x (kn i)) (bspline_left n1 x i)) (sub (kn (i + nz)) (kn i)))
          (div (mul (sub (kn (i + nz + 1)) x) (bspline_left n1 x (i + 1))) (sub (kn (i + nz + 1)) (kn (i + 1))))
  end.
Fixpoint bspline_deriv_left (n : nat) (x : K) (i : Z) (order : nat) : K :=
  match n with
  | O => zero
  | S n1 =>
      let nz := Z.of_nat n in
      let d1 := sub (kn (i + nz)) (kn i) in
      let d2 := sub (kn (i + nz + 1)) (kn (i + 1)) in
      match order with
      | O | S O =>
          sub (div (mul (ofZ nz) (bspline_left n1 x i)) d1) (div (mul (ofZ nz) (bspline_left n1 x (i + 1))) d2)
      | S o1 =>
          sub (div (mul (ofZ nz) (bspline_deriv_left n1 x i o1)) d1)
              (div (mul (ofZ nz) (bspline_deriv_left n1 x (i + 1) o1)) d2)
      end
  end.

End OneDim.

(* ============================================================================================== *)
(** * Tables *)
Record dimn := mkDim {
  d_order  : nat;
  d_nknots : Z;
  d_naxes  : Z;
  d_stride : Z;
  d_kn     : Z -> K;
}.
Record table := mkTable {
  dims : list dimn;
  coef : Z -> K;       (* coefficients[pos] converted to Float *)
}.

Definition fuel_of (d : dimn) : nat := S (Z.to_nat (d_nknots d)).

(** ** searchcenters: all dimensions, stops at the first failure *)
Inductive centers_result := COutside | CFound (c : list Z) | CNoFuel.
Fixpoint searchcenters_dims (ds : list dimn) (xs : list K) : centers_result :=
  match ds, xs with
  | d :: ds', x :: xs' =>
      match search_dim (d_kn d) (d_nknots d) (fuel_of d) (Z.of_nat (d_order d)) (d_naxes d) x with
      | Outside => COutside
      | NoFuel => CNoFuel
      | Found c =>
          match searchcenters_dims ds' xs' with
          | CFound cs => CFound (c :: cs)
          | r => r
          end
      end
  | _, _ => CFound []
  end.
Definition searchcenters (t : table) (xs : list K) : centers_result := searchcenters_dims (dims t) xs.

(** ** local bases *)
Definition localbasis_val (d : dimn) (x : K) (c : Z) : list K :=
  bsplvb_simple (d_kn d) (d_nknots d) (d_order d) x c.
Definition localbasis_der (d : dimn) (x : K) (c : Z) : list K :=
  bspline_deriv_nonzero (d_kn d) (d_nknots d) (d_order d) x c.

(* ndsplineeval: derivative bit n selects bspline_deriv_nonzero for dimension n *)
Fixpoint localbases_mask (ds : list dimn) (xs : list K) (cs : list Z) (mask : Z) : list (list K) :=
  match ds, xs, cs with
  | d :: ds', x :: xs', c :: cs' =>
      (if Z.odd mask then localbasis_der d x c else localbasis_val d x c)
        :: localbases_mask ds' xs' cs' (mask / 2)
  | _, _, _ => []
  end.

(* ndsplineeval_deriv: 0 -> bsplvb_simple, 1 -> bspline_deriv_nonzero, k >= 2 -> the recursive
   bspline_deriv (double) stored into the Float local basis;
       auto deriv = (x[n] < knots[n][naxes[n]] ? bspline_deriv : bspline_deriv_left);                         *)
Definition localbasis_derivk (d : dimn) (x : K) (c : Z) (k : nat) : list K :=
  match k with
  | O => localbasis_val d x c
  | S O => localbasis_der d x c
  | _ => let deriv := if ltb x (d_kn d (d_naxes d)) then bspline_deriv (d_kn d) else bspline_deriv_left (d_kn d) in
         map (fun i => rnd (deriv (d_order d) x (c - Z.of_nat (d_order d) + Z.of_nat i) k))
             (seq 0 (S (d_order d)))
  end.
Fixpoint localbases_derivk (ds : list dimn) (xs : list K) (cs : list Z) (ks : list nat) : list (list K) :=
  match ds, xs, cs, ks with
  | d :: ds', x :: xs', c :: cs', k :: ks' => localbasis_derivk d x c k :: localbases_derivk ds' xs' cs' ks'
  | _, _, _, _ => []
  end.

(* ============================================================================================== *)
(** * The coefficient block walk (ndsplineeval_core and its templated variants) *)
Section Core.
Variable cf : Z -> K.

(* for (i = 0; i < len; i++) result += bt * lb[i] * coefficients[pos + i]; *)
Fixpoint chunk (bt : K) (lb : list K) (pos : Z) (res : K) : K :=
  match lb with
  | [] => res
  | l :: r => chunk bt r (pos + 1) (rnd (add res (rnd (mul (rnd (mul bt l)) (cf pos)))))
  end.

(* The odometer over dimensions 0..D-2. A digit is (order_i, stride_i, decomposedposition_i); the list
   is kept least-significant first (i = D-2 first).  One [odo_incr] is
       tablepos += strides[D-2]; dp[D-2]++;
       for (i = D-2; dp[i] > order[i]; i--) { dp[i-1]++; tablepos += strides[i-1] - dp[i]*strides[i]; dp[i] = 0; }
   read as: "increment digit i: tablepos += stride_i, dp_i++; if dp_i > order_i then tablepos -= dp_i*stride_i,
   dp_i = 0, increment digit i-1".  Returns the new digits and the tablepos delta. A carry out of digit 0
   (the code would touch dp[-1]) cannot happen before the loop ends; the model returns delta 0 there. *)
Definition digit := (nat * Z * nat)%type.
Fixpoint odo_incr (rd : list digit) : list digit * Z :=
  match rd with
  | [] => ([], 0)
  | (o, s, p) :: rest =>
      if (o <? S p)%nat then
        let '(rest', dpos) := odo_incr rest in
        ((o, s, O) :: rest', s + dpos - Z.of_nat (S p) * s)
      else ((o, s, S p) :: rest, s)
  end.
Definition digit_pos (d : digit) : nat := snd d.

(* basis_tree[D-1] as a function of the digits: basis_tree[0] = 1; basis_tree[j+1] = basis_tree[j]*localbasis[j][dp[j]].
   The code recomputes only the entries at and after the digit where the carry stopped; the entries before
   are unchanged and were computed from unchanged digits, so the values are those of a full recomputation. *)
Definition bt_of (lbs : list (list K)) (dp : list nat) : K :=
  fold_left (fun acc lp => rnd (mul acc (nth (snd lp) (fst lp) zero))) (combine lbs dp) (rnd one).

(* while (true) { chunk; if (++n == nchunks) break; advance; }    [fuel] = nchunks *)
Fixpoint core_loop (fuel : nat) (lbs : list (list K)) (lb_last : list K) (rd : list digit) (pos : Z) (res : K) : K :=
  match fuel with
  | O => res
  | S f =>
      let res' := chunk (bt_of lbs (rev (map digit_pos rd))) lb_last pos res in
      match f with
      | O => res'
      | S _ => let '(rd', dpos) := odo_incr rd in core_loop f lbs lb_last rd' (pos + dpos) res'
      end
  end.
(* for (n = 0; n < nchunks-1; n++) { chunk; advance; }  chunk;     [k] = nchunks-1 *)
Fixpoint core_loop_peeled (k : nat) (lbs : list (list K)) (lb_last : list K) (rd : list digit) (pos : Z) (res : K) : K :=
  match k with
  | O => chunk (bt_of lbs (rev (map digit_pos rd))) lb_last pos res
  | S k' =>
      let res' := chunk (bt_of lbs (rev (map digit_pos rd))) lb_last pos res in
      let '(rd', dpos) := odo_incr rd in core_loop_peeled k' lbs lb_last rd' (pos + dpos) res'
  end.

(* tablepos = sum_n (centers[n] - order[n]) * strides[n] *)
Fixpoint init_pos (opos : list nat) (strides centers : list Z) : Z :=
  match opos, strides, centers with
  | o :: os, s :: ss, c :: cs => (c - Z.of_nat o) * s + init_pos os ss cs
  | _, _, _ => 0
  end.
Definition nchunks_of (ochunks : list nat) : nat := fold_left (fun acc o => (acc * S o)%nat) ochunks 1%nat.

(* One definition for all four shapes. [D] number of dimensions the routine walks; [opos] orders used in the
   tablepos initialisation; [ochunks] orders whose (o+1) are multiplied into nchunks (D-1 of them);
   [chunklen] inner loop length; [ocarry] orders the carry loop compares with; [peeled] loop shape. *)
Definition core_run (peeled : bool) (D : nat) (opos ochunks ocarry : list nat) (chunklen : nat)
                    (strides centers : list Z) (lbs : list (list K)) : K :=
  let pos := init_pos (firstn D opos) (firstn D strides) (firstn D centers) in
  let rd := rev (combine (combine (firstn (D - 1) ocarry) (firstn (D - 1) strides)) (repeat O (D - 1))) in
  let lb_last := firstn chunklen (nth (D - 1) lbs []) in
  let lbs' := firstn (D - 1) lbs in
  let nch := nchunks_of (firstn (D - 1) ochunks) in
  if peeled then core_loop_peeled (nch - 1) lbs' lb_last rd pos zero
  else core_loop nch lbs' lb_last rd pos zero.

End Core.

Definition orders_of (t : table) : list nat := map d_order (dims t).
Definition strides_of (t : table) : list Z := map d_stride (dims t).
Definition ndim_of (t : table) : nat := length (dims t).

(* ndsplineeval_core<Float> *)
Definition core_generic (t : table) (cs : list Z) (lbs : list (list K)) : K :=
  let os := orders_of t in
  core_run (coef t) false (ndim_of t) os os os (S (last os O)) (strides_of t) cs lbs.
(* ndsplineeval_coreD<Float,D> *)
Definition core_D (D : nat) (t : table) (cs : list Z) (lbs : list (list K)) : K :=
  let os := orders_of t in
  core_run (coef t) true D os os os (S (nth (D - 1) os O)) (strides_of t) cs lbs.
(* ndsplineeval_coreD_FixedOrder<Float,D,O> *)
Definition core_Fixed (D O : nat) (t : table) (cs : list Z) (lbs : list (list K)) : K :=
  let os := repeat O D in
  core_run (coef t) true D os os os (S O) (strides_of t) cs lbs.
(* ndsplineeval_core_KnownOrder<Float,Orders...> : template orders for nchunks and chunk, the table's
   orders for tablepos and the carry test *)
Definition core_Known (Os : list nat) (t : table) (cs : list Z) (lbs : list (list K)) : K :=
  let os := orders_of t in
  core_run (coef t) true (length Os) os Os os (S (last Os O)) (strides_of t) cs lbs.

(** ** entry points *)
Definition ndsplineeval (t : table) (xs : list K) (cs : list Z) (mask : Z) : K :=
  core_generic t cs (localbases_mask (dims t) xs cs mask).

Definition ndsplineeval_deriv (t : table) (xs : list K) (cs : list Z) (ks : list nat) : K :=
  core_generic t cs (localbases_derivk (dims t) xs cs ks).

(* operator(): 0 when the lookup fails *)
Definition call_operator (t : table) (xs : list K) : K :=
  match searchcenters t xs with
  | CFound cs => ndsplineeval t xs cs 0
  | _ => zero
  end.

(* ndsplineeval_gradient: lane 0 = value basis everywhere; lane j = derivative basis in dimension j-1.
   Every lane performs the scalar core's operations on its own local bases (bspline_multi.h). *)
Definition nonzero_bases (t : table) (xs : list K) (cs : list Z) : list (list K * list K) :=
  map (fun dxc => bspline_nonzero (d_kn (fst (fst dxc))) (d_nknots (fst (fst dxc))) (d_order (fst (fst dxc)))
                                  (snd (fst dxc)) (snd dxc))
      (combine (combine (dims t) xs) cs).
Definition lane_bases (vb : list (list K * list K)) (lane : nat) : list (list K) :=
  map (fun nb => if (lane =? S (fst nb))%nat then snd (snd nb) else fst (snd nb))
      (combine (seq 0 (length vb)) vb).
Definition ndsplineeval_gradient (t : table) (xs : list K) (cs : list Z) : list K :=
  let vb := nonzero_bases t xs cs in
  map (fun lane => core_generic t cs (lane_bases vb lane)) (seq 0 (S (ndim_of t))).

End Model.
