(* C09_Penalty.v — theorem (2): the matrix of calc_penalty is the Gram matrix D^T D of the divided-difference matrix,
   Kronecker-embedded with identities, hence penalty(c) = sum over the rows p of (I x .. x D x .. x I) of (p.c)^2 >= 0. *)
From Coq Require Import ZArith List Bool Lia Field Ring.
From PS Require Import Arith EvalModel BSpline OFieldKit FitModel C09_LinAlg.
Import ListNotations.

Section Pen.
Context {A : Arith}.
Variable F : OField A.
Notation K := (T A).
Add Field Kfield_c09pen : (OFth F).
Notation le := (@OFieldKit.le A).

(* ---------------------------------------------------------------------------------------------- *)
(* generic list facts *)
Lemma map_const_repeat {X Y} (y : Y) (l : list X) : map (fun _ => y) l = repeat y (length l).
Proof. induction l as [|a l IH]; cbn; [reflexivity | rewrite IH; reflexivity]. Qed.
Lemma list_as_map_nth (r : list K) : r = map (fun i => nth i r zero) (seq 0 (length r)).
Proof.
  induction r as [|a r IH]; [reflexivity|]. cbn [length seq map nth]. f_equal.
  rewrite <- seq_shift, map_map. cbn [nth]. exact IH.
Qed.
Lemma map_as_map_nth {Y} (f : K -> Y) (r : list K) : map f r = map (fun i => f (nth i r zero)) (seq 0 (length r)).
Proof. rewrite (list_as_map_nth r) at 1. rewrite map_map. reflexivity. Qed.
Lemma vadd_map_map {X} (f g : X -> K) (l : list X) : vadd (map f l) (map g l) = map (fun x => add (f x) (g x)) l.
Proof. induction l as [|a l IH]; cbn [map vadd]; [reflexivity | rewrite IH; reflexivity]. Qed.
Lemma madd_map_map {X} (f g : X -> list K) (l : list X) : madd (map f l) (map g l) = map (fun x => vadd (f x) (g x)) l.
Proof. induction l as [|a l IH]; cbn [map madd]; [reflexivity | rewrite IH; reflexivity]. Qed.
Lemma dot_app (u1 u2 v1 v2 : list K) : length u1 = length v1 -> dot (u1 ++ u2) (v1 ++ v2) = add (dot u1 v1) (dot u2 v2).
Proof.
  revert v1. induction u1 as [|a u1 IH]; intros [|b v1] H; cbn in H; try lia; cbn [app dot]; [ring|].
  rewrite IH by lia. ring.
Qed.
Lemma dot_nil_r (u : list K) : dot u [] = zero.
Proof. destruct u; reflexivity. Qed.

(* ---------------------------------------------------------------------------------------------- *)
(* Gram matrix *)
Definition gram (n : nat) (M : list (list K)) : list (list K) :=
  map (fun i => map (fun j => dot (col j M) (col i M)) (seq 0 n)) (seq 0 n).

Lemma mmul_transpose_gram n (M : list (list K)) : mmul (transpose n M) M n = gram n M.
Proof. unfold mmul, gram, transpose, matvec. rewrite map_map. apply map_ext. intro i. rewrite map_map. reflexivity. Qed.

Lemma gram_nil n : gram n [] = mzero n n.
Proof.
  unfold gram, mzero, vzero. cbn [col map dot].
  rewrite (map_const_repeat (@zero A) (seq 0 n)), seq_length.
  rewrite (map_const_repeat (repeat (@zero A) n) (seq 0 n)), seq_length. reflexivity.
Qed.

Lemma gram_cons n (r : list K) (M : list (list K)) : length r = n -> gram n (r :: M) = madd (outer r r) (gram n M).
Proof.
  intro H. unfold gram. cbn [col map dot].
  assert (Ho : outer r r = map (fun i => map (fun j => mul (nth j r zero) (nth i r zero)) (seq 0 n)) (seq 0 n)).
  { unfold outer. rewrite (map_as_map_nth (fun a => vscale a r) r), H. apply map_ext. intro i.
    unfold vscale. rewrite (map_as_map_nth (mul (nth i r zero)) r), H. apply map_ext. intro j. ring. }
  rewrite Ho, madd_map_map. apply map_ext. intro i. rewrite vadd_map_map. reflexivity.
Qed.

Lemma mscale_one (M : list (list K)) : mscale one M = M.
Proof.
  unfold mscale, vscale. induction M as [|r M IH]; cbn [map]; [reflexivity|]. rewrite IH. f_equal.
  induction r as [|a r IHr]; cbn [map]; [reflexivity|]. rewrite IHr. f_equal. ring.
Qed.

Definition unit_rows (M : list (list K)) : list (K * list K * K) := map (fun r => (one, r, zero)) M.

Lemma gram_is_nmat n (M : list (list K)) : rows_len n M -> gram n M = nmat n (unit_rows M).
Proof.
  induction 1 as [|r M Hr _ IH]; [apply gram_nil|].
  rewrite gram_cons by exact Hr. cbn [unit_rows map nmat fold_right fst snd]. fold (unit_rows M). fold (nmat n (unit_rows M)).
  rewrite mscale_one, IH. reflexivity.
Qed.
Lemma unit_rows_wf n M : rows_len n M -> wf_rows n (unit_rows M).
Proof. intro H. unfold wf_rows, unit_rows. apply Forall_map. eapply Forall_impl; [|exact H]. intros r Hr. exact Hr. Qed.
Lemma unit_rows_nonneg M : nonneg_weights (unit_rows M).
Proof.
  unfold nonneg_weights, unit_rows. apply Forall_map. apply Forall_forall. intros r _. cbn.
  replace (@one A) with (mul (@one A) one) by ring. apply (sq_nonneg F).
Qed.

(* c^T (M^T M) c = sum_rows (row . c)^2 *)
Lemma gram_quadratic_form n (M : list (list K)) (c : list K) : rows_len n M ->
  dot c (matvec (gram n M) c) = sumK (map (fun r => sq (dot r c)) M).
Proof.
  intro H. rewrite (gram_is_nmat n M H). rewrite <- (quad_is_form F n _ c (unit_rows_wf n M H)).
  unfold quad, unit_rows. rewrite map_map. cbn [fst snd]. f_equal. apply map_ext. intro r. ring.
Qed.
Lemma sum_squares_nonneg (M : list (list K)) (c : list K) : le zero (sumK (map (fun r => sq (dot r c)) M)).
Proof. apply (sumK_nonneg F). apply Forall_map. apply Forall_forall. intros r _. apply (sq_nonneg F). Qed.

(* ---------------------------------------------------------------------------------------------- *)
(* Kronecker products *)
Lemma boxrow_length (u v : list K) : length (boxrow u v) = length u * length v.
Proof. unfold boxrow. induction u as [|a u IH]; cbn [flat_map length]; [reflexivity|]. rewrite app_length, map_length, IH. reflexivity. Qed.
Lemma boxrow_cons a (u v : list K) : boxrow (a :: u) v = map (mul a) v ++ boxrow u v.
Proof. reflexivity. Qed.
Lemma dot_map_mul a b (v y : list K) : dot (map (mul a) v) (map (mul b) y) = mul (mul a b) (dot v y).
Proof. revert y. induction v as [|c v IH]; intros [|d y]; cbn [map dot]; try ring. rewrite IH. ring. Qed.
Lemma dot_boxrow (u x v y : list K) : length v = length y -> dot (boxrow u v) (boxrow x y) = mul (dot u x) (dot v y).
Proof.
  intro H. revert x. induction u as [|a u IH]; intros [|b x].
  - cbn. ring.
  - cbn. ring.
  - rewrite dot_nil_r. cbn [dot]. ring.
  - rewrite !boxrow_cons. rewrite dot_app by (rewrite !map_length; exact H). rewrite dot_map_mul, IH. cbn [dot]. ring.
Qed.
Lemma nth_map_lt {X Y} (f : X -> Y) (l : list X) (j : nat) d d' : j < length l -> nth j (map f l) d' = f (nth j l d).
Proof. intro H. rewrite (nth_indep _ d' (f d)) by (rewrite map_length; exact H). apply map_nth. Qed.
Lemma nth_boxrow nb (ra rb : list K) i' j' : length rb = nb -> j' < nb ->
  nth (i' * nb + j') (boxrow ra rb) zero = mul (nth i' ra zero) (nth j' rb zero).
Proof.
  intros Hb Hj. revert i'. induction ra as [|a ra IH]; intro i'.
  - cbn [boxrow flat_map]. destruct (i' * nb + j'); destruct i'; cbn [nth]; ring.
  - rewrite boxrow_cons. destruct i' as [|i'].
    + cbn [Nat.mul Nat.add nth]. rewrite app_nth1 by (rewrite map_length; lia). apply (nth_map_lt (mul a) rb j' zero zero). lia.
    + rewrite app_nth2 by (rewrite map_length; lia). rewrite map_length. replace (S i' * nb + j' - length rb) with (i' * nb + j') by lia.
      cbn [nth]. apply IH.
Qed.
Lemma col_kron nb (A0 B : list (list K)) i' j' : rows_len nb B -> j' < nb ->
  col (i' * nb + j') (kronecker_product A0 B) = boxrow (col i' A0) (col j' B).
Proof.
  intros HB Hj. unfold col, kronecker_product. induction A0 as [|ra A0 IH]; [reflexivity|].
  cbn [flat_map map]. rewrite map_app, IH. rewrite boxrow_cons. f_equal. rewrite !map_map.
  apply map_ext_in. intros rb Hin. apply nth_boxrow; [|exact Hj]. unfold rows_len in HB. rewrite Forall_forall in HB. apply HB. exact Hin.
Qed.
Lemma seq_shift_add k n : map (fun j => k + j) (seq 0 n) = seq k n.
Proof. revert k. induction n as [|n IH]; intro k; [reflexivity|]. cbn [seq map]. rewrite <- seq_shift, map_map. f_equal; [lia|]. rewrite <- (IH (S k)). apply map_ext. intro; lia. Qed.
Lemma seq_mul_flat_gen nb : forall na a, seq (a * nb) (na * nb) = flat_map (fun i => map (fun j => i * nb + j) (seq 0 nb)) (seq a na).
Proof.
  induction na as [|na IH]; intro a; [reflexivity|]. cbn [Nat.mul seq flat_map]. rewrite seq_app. f_equal.
  - symmetry. apply seq_shift_add.
  - replace (a * nb + nb) with (S a * nb) by lia. apply IH.
Qed.
Lemma seq_mul_flat na nb : seq 0 (na * nb) = flat_map (fun i => map (fun j => i * nb + j) (seq 0 nb)) (seq 0 na).
Proof. exact (seq_mul_flat_gen nb na 0). Qed.
Lemma map_flat_map {X Y Z} (f : Y -> Z) (g : X -> list Y) (l : list X) : map f (flat_map g l) = flat_map (fun x => map f (g x)) l.
Proof. induction l as [|a l IH]; cbn [flat_map map]; [reflexivity|]. rewrite map_app, IH. reflexivity. Qed.
Lemma flat_map_map {X Y Z} (f : Y -> list Z) (g : X -> Y) (l : list X) : flat_map f (map g l) = flat_map (fun x => f (g x)) l.
Proof. induction l as [|a l IH]; cbn [flat_map map]; [reflexivity|]. rewrite IH. reflexivity. Qed.
Lemma flat_map_ext_in' {X Y} (f g : X -> list Y) (l : list X) : (forall x, In x l -> f x = g x) -> flat_map f l = flat_map g l.
Proof. induction l as [|a l IH]; intro H; cbn [flat_map]; [reflexivity|]. rewrite (H a (or_introl eq_refl)), IH; [reflexivity|]. intros x Hx. apply H. right. exact Hx. Qed.

Lemma gram_entry_kron nb (A0 B : list (list K)) i j i' j' : rows_len nb B -> j < nb -> j' < nb ->
  dot (col (i' * nb + j') (kronecker_product A0 B)) (col (i * nb + j) (kronecker_product A0 B))
  = mul (dot (col i' A0) (col i A0)) (dot (col j' B) (col j B)).
Proof. intros HB Hj Hj'. rewrite !(col_kron nb) by assumption. apply dot_boxrow. unfold col. rewrite !map_length. reflexivity. Qed.

Lemma gram_kron na nb (A0 B : list (list K)) : rows_len nb B ->
  gram (na * nb) (kronecker_product A0 B) = kronecker_product (gram na A0) (gram nb B).
Proof.
  intro HB. unfold gram at 1. rewrite (seq_mul_flat na nb), map_flat_map.
  unfold kronecker_product at 3. unfold gram at 1 2. rewrite flat_map_map.
  apply flat_map_ext_in'. intros i Hi. rewrite !map_map. apply map_ext_in. intros j Hj. apply in_seq in Hj.
  rewrite map_flat_map. unfold boxrow. rewrite flat_map_map.
  apply flat_map_ext_in'. intros i' Hi'. rewrite !map_map. apply map_ext_in. intros j' Hj'. apply in_seq in Hj'.
  apply (gram_entry_kron nb); [exact HB | lia | lia].
Qed.

Lemma kron_rows na nb (A0 B : list (list K)) : rows_len na A0 -> rows_len nb B -> rows_len (na * nb) (kronecker_product A0 B).
Proof.
  intros HA HB. unfold rows_len, kronecker_product. rewrite Forall_forall. intros r Hr. apply in_flat_map in Hr.
  destruct Hr as [ra [Hra Hr]]. apply in_map_iff in Hr. destruct Hr as [rb [<- Hrb]].
  unfold rows_len in *. rewrite Forall_forall in HA, HB. rewrite boxrow_length, (HA ra Hra), (HB rb Hrb). reflexivity.
Qed.

(* identity matrices *)
Lemma nth_map_seq {Y} (f : nat -> Y) n j d : j < n -> nth j (map f (seq 0 n)) d = f j.
Proof. intro H. rewrite (nth_map_lt f (seq 0 n) j 0 d) by (rewrite seq_length; exact H). rewrite seq_nth by exact H. reflexivity. Qed.
Lemma eye_rows n : rows_len n (@eye A n).
Proof. unfold rows_len, eye. apply Forall_map. apply Forall_forall. intros i _. cbn. rewrite map_length, seq_length. reflexivity. Qed.
Lemma col_eye n j : j < n -> col j (@eye A n) = map (fun k => if Nat.eqb k j then one else zero) (seq 0 n).
Proof. intro H. unfold col, eye. rewrite map_map. apply map_ext. intro k. apply nth_map_seq. exact H. Qed.
Lemma dot_indicator_zero j : forall n a (v : list K), j < a -> dot (map (fun k => if Nat.eqb k j then one else zero) (seq a n)) v = zero.
Proof.
  induction n as [|n IH]; intros a v H; [reflexivity|]. destruct v as [|b v]; [apply dot_nil_r|]. cbn [seq map dot].
  rewrite IH by lia. destruct (Nat.eqb_spec a j); [lia|]. ring.
Qed.
Lemma dot_indicator_nth j : forall n a (v : list K), a <= j < a + n -> length v = n ->
  dot (map (fun k => if Nat.eqb k j then one else zero) (seq a n)) v = nth (j - a) v zero.
Proof.
  induction n as [|n IH]; intros a v H Hl; [lia|]. destruct v as [|b v]; [cbn in Hl; lia|]. cbn [seq map dot].
  destruct (Nat.eqb_spec a j) as [E|N].
  - subst. rewrite dot_indicator_zero by lia. replace (j - j) with 0 by lia. cbn [nth]. ring.
  - rewrite IH by (cbn in Hl; lia). replace (j - a) with (S (j - S a)) by lia. cbn [nth]. ring.
Qed.
Lemma gram_eye n : gram n (@eye A n) = eye n.
Proof.
  unfold gram. unfold eye at 3. apply map_ext_in. intros i Hi. apply in_seq in Hi. apply map_ext_in. intros j Hj. apply in_seq in Hj.
  rewrite (col_eye n j) by lia. rewrite (dot_indicator_nth j n 0) by (try lia; unfold col; rewrite map_length; unfold eye; rewrite map_length, seq_length; reflexivity).
  rewrite (col_eye n i) by lia. replace (j - 0) with j by lia. rewrite nth_map_seq by lia.
  rewrite Nat.eqb_sym. reflexivity.
Qed.

(* chains: fold_left of Kronecker products of Gram matrices is the Gram matrix of the chain *)
Lemma gram_chain : forall (WM : list (nat * list (list K))) w0 (M0 : list (list K)),
  Forall (fun p => rows_len (fst p) (snd p)) WM ->
  fold_left kronecker_product (map (fun p => gram (fst p) (snd p)) WM) (gram w0 M0)
  = gram (fold_left (fun a p => a * fst p) WM w0) (fold_left (fun X p => kronecker_product X (snd p)) WM M0).
Proof.
  induction WM as [|[w M] WM IH]; intros w0 M0 H; [reflexivity|]. cbn [map fold_left fst snd].
  pose proof (Forall_inv H) as H1. pose proof (Forall_inv_tail H) as H2. cbn [fst snd] in H1.
  rewrite <- (gram_kron w0 w M0 M H1). apply IH. exact H2.
Qed.
Lemma chain_rows : forall (WM : list (nat * list (list K))) w0 (M0 : list (list K)),
  rows_len w0 M0 -> Forall (fun p => rows_len (fst p) (snd p)) WM ->
  rows_len (fold_left (fun a p => a * fst p) WM w0) (fold_left (fun X p => kronecker_product X (snd p)) WM M0).
Proof.
  induction WM as [|[w M] WM IH]; intros w0 M0 H0 H; [exact H0|]. cbn [fold_left fst snd].
  apply IH; [apply kron_rows; [exact H0 | exact (Forall_inv H)] | exact (Forall_inv_tail H)].
Qed.

(* ---------------------------------------------------------------------------------------------- *)
(* calc_penalty *)
Lemma divided_diffs_length (kn : nat -> K) order : forall porder j, length (divided_diffs kn order porder j) = S porder.
Proof.
  induction porder as [|p IH]; intro j; [reflexivity|]. cbn [divided_diffs length]. rewrite app_length, map_length, seq_length.
  cbn [length]. lia.
Qed.
Lemma finitediff_rows (kn : nat -> K) order porder nspl : rows_len nspl (finitediff kn order porder nspl).
Proof.
  unfold rows_len, finitediff. apply Forall_map. apply Forall_forall. intros row Hr. apply in_seq in Hr. cbn beta.
  rewrite !app_length, !vzero_length, divided_diffs_length. lia.
Qed.

Lemma prod_fold {Y} : forall (l : list nat) (acc : nat) (g : nat -> Y),
  fold_left (fun a (p : nat * Y) => a * fst p) (map (fun i => (nth i l 0, g i)) (seq 0 (length l))) acc = acc * fold_right Nat.mul 1 l.
Proof.
  induction l as [|x l IH]; intros acc g; [cbn; lia|]. cbn [length seq map fold_left fst fold_right nth].
  rewrite <- seq_shift, map_map. cbn [nth]. rewrite (IH (acc * x) (fun i => g (S i))). lia.
Qed.

(* the matrix whose Gram matrix calc_penalty returns: I x ... x D x ... x I  (D at position dim) *)
Definition penalty_root (nsplines : list nat) (kn : nat -> K) (dim order porder : nat) : list (list K) :=
  let D := finitediff kn order porder (nth dim nsplines 0) in
  match map (fun i => if Nat.eqb i dim then D else eye (nth i nsplines 0)) (seq 0 (length nsplines)) with
  | [] => []
  | f :: fs => fold_left kronecker_product fs f
  end.

Lemma calc_penalty_is_gram (nsplines : list nat) (kn : nat -> K) dim order porder : nsplines <> [] ->
  calc_penalty nsplines kn dim order porder
  = gram (fold_right Nat.mul 1 nsplines) (penalty_root nsplines kn dim order porder)
  /\ rows_len (fold_right Nat.mul 1 nsplines) (penalty_root nsplines kn dim order porder).
Proof.
  intro Hne. unfold calc_penalty, penalty_root.
  set (D := finitediff kn order porder (nth dim nsplines 0)).
  rewrite (mmul_transpose_gram (nth dim nsplines 0) D).
  set (Mi := fun i => if Nat.eqb i dim then D else eye (nth i nsplines 0)).
  set (wi := fun i => nth i nsplines 0).
  assert (Hrows : forall i, rows_len (wi i) (Mi i)).
  { intro i. unfold Mi, wi. destruct (Nat.eqb_spec i dim) as [->|_]; [apply finitediff_rows | apply eye_rows]. }
  assert (Hfac : map (fun i => if Nat.eqb i dim then gram (nth dim nsplines 0) D else eye (nth i nsplines 0)) (seq 0 (length nsplines))
                 = map (fun i => gram (wi i) (Mi i)) (seq 0 (length nsplines))).
  { apply map_ext. intro i. unfold Mi, wi. destruct (Nat.eqb_spec i dim) as [->|_]; [reflexivity | symmetry; apply gram_eye]. }
  rewrite Hfac. fold Mi.
  destruct nsplines as [|n0 ns]; [congruence|]. cbn [length seq map].
  rewrite <- seq_shift, !map_map.
  pose (WM := map (fun i => (wi (S i), Mi (S i))) (seq 0 (length ns))).
  assert (HWM : Forall (fun p => rows_len (fst p) (snd p)) WM).
  { unfold WM. apply Forall_map. apply Forall_forall. intros i _. cbn [fst snd]. apply Hrows. }
  replace (map (fun x => gram (wi (S x)) (Mi (S x))) (seq 0 (length ns))) with (map (fun p => gram (fst p) (snd p)) WM)
    by (unfold WM; rewrite map_map; reflexivity).
  replace (fold_left kronecker_product (map (fun x => Mi (S x)) (seq 0 (length ns))) (Mi 0))
    with (fold_left (fun X p => kronecker_product X (snd p)) WM (Mi 0)).
  2:{ unfold WM. generalize (Mi 0). generalize (seq 0 (length ns)). intro l. induction l as [|a l IHl]; intro X; [reflexivity|]. cbn [map fold_left snd]. apply IHl. }
  assert (Hprod : fold_left (fun a p => a * fst p) WM (wi 0) = fold_right Nat.mul 1 (n0 :: ns)).
  { unfold WM, wi. cbn [nth fold_right]. apply (prod_fold ns n0 (fun i => Mi (S i))). }
  rewrite (gram_chain WM (wi 0) (Mi 0) HWM), Hprod. split; [reflexivity|].
  rewrite <- Hprod. apply chain_rows; [apply Hrows | exact HWM].
Qed.

End Pen.
