(* Properties_C20.v — statements only (proof scripts: C20_Proofs.v, C20_Invariant.v; model: ObjModel.v, ObjResource.v).

   WHAT IS PROVED for every state / oracle / history (unbounded):
     C20_tree_is_fixed, C20_clear_empties, C20_failed_op (all failing paths except write_key's own allocation
     failure), C20_no_abandon_read, C20_no_abandon_fit, C20_moved_from_empty_ctor / _assign;
     C20_refuted_* : concrete histories on which the UNCHANGED tree's model violates the property;
     C20_fixed_examples: the same histories are clean with the fixes.
   and, for EVERY operation history, EVERY allocation-failure oracle F : nat -> bool and EVERY I/O oracle
   (the phase at which a read fails, whether a write / the fitter fails are arguments of the operations):
     C20_invariant      : Forall (wf_op kl) ops -> Inv kl (run_world cfg_fixed F ops)
     C20_step_preserves : Inv kl w -> wf_op kl x -> Inv kl (fst (step ...)) /\ outcome <> UB      (the inductive step)
     C20_never_ub       : no operation of a history is undefined behaviour, the world never crashes
     C20_safe           : Inv kl w -> safe cfg_fixed o other x = true     (every member is safe_to_call in every reachable state)
     C20_clean          : at every moment errs = [], lost = [], strict replay of the trace = live heap
     C20_balanced       : all objects destroyed -> balanced (rev trace) /\ hp = [] /\ lost = [] /\ errs = []
     C20_inv_objects    : what Inv says about one object, in the model's own boolean predicates
   Inv = four object slots, not crashed, per object: no Unset/Dangling pointer, every owned block has exactly the size the
   code computes when it releases it, nothing outside what clear() releases, aux table complete, an empty table owns no
   table array and a populated one owns all of them (incl. extents); globally: the live heap is EXACTLY the disjoint union
   of what the live objects own (no aliasing between or inside objects, no leak), no allocator error, nothing lost, block
   ids fresh, and the strict replay of the event trace yields the live heap.
   SIDE CONDITIONS (wf_op; each one is NEEDED on the model, see C20_wf_needed_*; none restricts the code):
     the op names one of the model's 4 object slots; a file that passes the dimension check has ndim >= 1 (fitsio.h:193
     throws otherwise = phase PDim) and naxes[] has ndim entries; a fit that passes fit.h:26-67 has ndim >= 1 and as many
     knot vectors as orders; the byte count of a key string is a function of the key (kl).
   remove_key (round 3): ORemoveKey is one of the operations; every theorem above quantifies over histories that contain it (hit and
     miss, any position, any number of stored keys) and over every fault oracle, which includes the allocation remove_key makes.
     C20_failed_op covers it in full (a failed remove_key leaves the object IDENTICAL).  The theorems are about the tree with
     proposed fix C20_10 (remove_key obtains the replacement key table before it releases anything); without it the property is
     violated: C20_refuted_remove_key_alloc_fault.  C20_remove_key_all_faults_clean / C20_remove_key_failure_unchanged: the same
     history with the fix, every fault position.
   Still NOT proved: C20_failed_op for write_key's own allocation failure in the `same object` form (the invariant, safety
   and leak-freedom of that path ARE covered by C20_invariant: write_key_ok handles all four fault positions). *)
From Coq Require Import List Arith Bool.
From PS Require Import ObjResource ObjModel C20_Proofs C20_Invariant Generated_objfixes.
Import ListNotations.

(* the working tree contains every proposed fix; the theorems below are about cfg_fixed *)
Theorem C20_tree_is_fixed : tree_cfg = cfg_fixed.
Proof. reflexivity. Qed.

(* clear() (= the destructor's body and every catch block) ends in the empty object from ANY state, for any fault oracle *)
Theorem C20_clear_empties : forall F m o, exists m', exec F (clear_prog o) m o = (empty_obj, m', None).
Proof. exact clear_empties. Qed.

(* a failed operation leaves its object unchanged or empty (the reading constructor: no object), all others untouched;
   every fault oracle F, every I/O oracle (they are arguments of the operations), every state *)
Theorem C20_failed_op : forall F w x w' r,
  step cfg_fixed F w x = (w', Failed r) -> not_write_key x = true -> target x < length (objs w) ->
  (get_obj w' (target x) = get_obj w (target x) \/ get_obj w' (target x) = Some empty_obj
   \/ (exists f, x = ONewRead (target x) f /\ get_obj w' (target x) = None))
  /\ forall k, k <> target x -> get_obj w' k = get_obj w k.
Proof. exact failed_op_world. Qed.

(* a populated table is never abandoned: a read refuses (any tree), a fit refuses (fixed tree); nothing is allocated or released *)
Theorem C20_no_abandon_read : forall c F m o f, ndim o <> 0 -> step_read c F m o f = (o, m, Some RRefused).
Proof. exact read_refuses_populated. Qed.
Theorem C20_no_abandon_fit : forall c F m o s, fx_fit c = true -> ft_invalid s = false -> ndim o <> 0 ->
  step_fit c F m o s = (o, m, Some RRefused).
Proof. exact fit_refuses_populated. Qed.

(* a moved-from table is empty, the target holds what the source held *)
Theorem C20_moved_from_empty_ctor : forall c F w j i w',
  crashed w = false -> step c F w (OMoveCtor j i) = (w', Ok) -> j < length (objs w) -> i < length (objs w) ->
  get_obj w' i = Some empty_obj /\ get_obj w' j = get_obj w i /\ wm w' = wm w.
Proof. exact move_ctor_spec. Qed.
Theorem C20_moved_from_empty_assign : forall c F w j i w',
  fx_moveasg c = true -> crashed w = false -> i <> j -> step c F w (OMoveAssign j i) = (w', Ok) ->
  j < length (objs w) -> i < length (objs w) ->
  get_obj w' i = Some empty_obj /\ get_obj w' j = get_obj w i.
Proof. exact move_assign_spec. Qed.

(* the unchanged tree: one concrete history per defect (replayed on the real code: corpus/C20) *)
Theorem C20_refuted_read_truncated : errs (wm (run_world cfg_orig no_fault h_trunc)) <> [].
Proof. exact refuted_read_truncated. Qed.
Theorem C20_refuted_read_alloc_fault : crashed (run_world cfg_orig (fault_at 5) h_read) = true.
Proof. exact refuted_read_alloc_fault. Qed.
Theorem C20_refuted_failed_read_partial :
  exists o, get_obj (run_world cfg_orig no_fault [ONew 0; ORead 0 fileT]) 0 = Some o /\ ndim o = 1 /\ get o (FKnot 0) = Unset
            /\ snd (run cfg_orig no_fault world0 [ONew 0; ORead 0 fileT]) = [Ok; Failed RInput].
Proof. exact refuted_failed_read_partial. Qed.
Theorem C20_refuted_write_key_empty_leaks : lost (wm (run_world cfg_orig no_fault h_wkey)) <> [].
Proof. exact refuted_write_key_empty_leaks. Qed.
Theorem C20_refuted_convolve_alloc_fault :
  errs (wm (run_world cfg_orig (fault_at 15) h_conv)) <> []
  /\ exists o, get_obj (run_world cfg_orig (fault_at 15) [ONew 0; ORead 0 fileA; OConvolve 0 0 2]) 0 = Some o /\ get o FCoeff = Dangling.
Proof. exact refuted_convolve_alloc_fault. Qed.
Theorem C20_refuted_fit_populated_leaks : lost (wm (run_world cfg_orig no_fault h_fit)) <> [].
Proof. exact refuted_fit_populated_leaks. Qed.
Theorem C20_refuted_eq_empty : crashed (run_world cfg_orig no_fault h_eq) = true.
Proof. exact refuted_eq_empty. Qed.
Theorem C20_refuted_permute_empty : crashed (run_world cfg_orig no_fault h_perm) = true.
Proof. exact refuted_permute_empty. Qed.
Theorem C20_refuted_convolve_invalid : crashed (run_world cfg_orig no_fault h_convbad) = true.
Proof. exact refuted_convolve_invalid. Qed.
Theorem C20_refuted_move_assign_source : get_obj (run_world cfg_orig no_fault h_moveasg) 1 <> Some empty_obj.
Proof. exact refuted_move_assign_source. Qed.
Theorem C20_refuted_aux_value_size : errs (wm (run_world cfg_orig no_fault h_read)) = [ErrSize 11 9].
Proof. exact refuted_aux_value_size. Qed.
Theorem C20_refuted_reading_ctor_leaks : lost (wm (run_world cfg_orig no_fault h_newread)) <> [].
Proof. exact refuted_reading_ctor_leaks. Qed.

(* remove_key without C20_10 (every other fix present): the re-allocation of the key table fails after the entry and the old table
   were released — the call fails, the object keeps the address of the released table with naux already decremented (neither
   unchanged nor empty), three blocks (the surviving entry) stay allocated with no pointer to them left, and the destructor walks
   released memory; without a fault, and with the fault in the parking array, the same history is clean *)
Theorem C20_refuted_remove_key_alloc_fault :
  (exists o, get_obj (run_world cfg_no_rmkey (fault_at 10) h_rmkey_pre) 0 = Some o /\ get o FAux = Dangling /\ naux o = 1
             /\ length (hp (wm (run_world cfg_no_rmkey (fault_at 10) h_rmkey_pre))) = 3)
  /\ snd (run cfg_no_rmkey (fault_at 10) world0 h_rmkey_pre) = [Ok; Ok; Ok; Failed RAlloc]
  /\ crashed (run_world cfg_no_rmkey (fault_at 10) (h_rmkey_pre ++ [ODestroy 0])) = true
  /\ clean cfg_no_rmkey no_fault h_rmkey = true /\ clean cfg_no_rmkey (fault_at 9) h_rmkey = true.
Proof. exact refuted_remove_key_alloc_fault. Qed.
(* with C20_10: every single allocation-failure position of a history with hits at the first / last / only position and a miss *)
Theorem C20_remove_key_all_faults_clean : forallb (fun k => clean cfg_fixed (fault_at k) h_rmkey) (seq 0 24) = true.
Proof. exact fixed_clean_all_faults_h_rmkey. Qed.
Theorem C20_remove_key_failure_unchanged :
  snd (run cfg_fixed (fault_at 9) world0 h_rmkey_pre) = [Ok; Ok; Ok; Failed RAlloc]
  /\ get_obj (run_world cfg_fixed (fault_at 9) h_rmkey_pre) 0 = get_obj (run_world cfg_fixed no_fault [ONew 0; OWriteKey 0 false key2; OWriteKey 0 false key3]) 0.
Proof. exact fixed_remove_key_alloc_fault_unchanged. Qed.

(* the same histories with the fixes: not crashed, no allocator error, nothing lost, trace balanced, all objects gone *)
Theorem C20_fixed_examples :
  clean cfg_fixed no_fault h_trunc = true /\ clean cfg_fixed (fault_at 5) h_read = true /\ clean cfg_fixed no_fault h_wkey = true
  /\ clean cfg_fixed (fault_at 15) h_conv = true /\ clean cfg_fixed (fault_at 16) h_conv = true /\ clean cfg_fixed no_fault h_fit = true
  /\ clean cfg_fixed no_fault h_eq = true /\ clean cfg_fixed no_fault h_perm = true /\ clean cfg_fixed no_fault h_convbad = true
  /\ clean cfg_fixed no_fault (h_moveasg ++ [ODestroy 0; ODestroy 1]) = true /\ clean cfg_fixed no_fault h_newread = true
  /\ clean cfg_fixed no_fault h_read = true.
Proof. exact fixed_clean_examples. Qed.

(* ---- the global invariant: every history, every allocation-failure oracle, every I/O oracle ---- *)
Theorem C20_invariant : forall kl ops F, Forall (wf_op kl) ops -> Inv kl (run_world cfg_fixed F ops).
Proof. exact invariant_reachable. Qed.

(* the inductive step, for users of cpp_step (C18): any operation from any state satisfying Inv *)
Theorem C20_step_preserves : forall kl F w x, Inv kl w -> wf_op kl x ->
  Inv kl (fst (step cfg_fixed F w x)) /\ snd (step cfg_fixed F w x) <> UB.
Proof. exact step_Inv. Qed.

Theorem C20_never_ub : forall kl ops F, Forall (wf_op kl) ops ->
  crashed (run_world cfg_fixed F ops) = false /\ ~ In UB (snd (run cfg_fixed F world0 ops)).
Proof. exact never_ub. Qed.

(* every public operation is memory-safe (safe_to_call) in every state satisfying Inv: o is the target object,
   `other` the second operand of == / move assignment (any live object) *)
Theorem C20_safe : forall kl w x o other, Inv kl w -> get_obj w (target x) = Some o ->
  (forall o2, other = Some o2 -> exists k, get_obj w k = Some o2) -> safe cfg_fixed o other x = true.
Proof. exact safe_from_Inv. Qed.

Theorem C20_clean : forall kl ops F, Forall (wf_op kl) ops ->
  errs (wm (run_world cfg_fixed F ops)) = [] /\ lost (wm (run_world cfg_fixed F ops)) = []
  /\ replay (rev (trace (wm (run_world cfg_fixed F ops)))) [] = Some (hp (wm (run_world cfg_fixed F ops))).
Proof. exact clean_at_every_moment. Qed.

(* once every object has been destroyed the allocation trace is balanced: every block obtained was returned exactly
   once with its size, nothing else was ever released, nothing is live, nothing was lost *)
Theorem C20_balanced : forall kl ops F, Forall (wf_op kl) ops -> all_gone (run_world cfg_fixed F ops) ->
  balanced (rev (trace (wm (run_world cfg_fixed F ops)))) /\ hp (wm (run_world cfg_fixed F ops)) = []
  /\ lost (wm (run_world cfg_fixed F ops)) = [] /\ errs (wm (run_world cfg_fixed F ops)) = [].
Proof. exact balanced_after_history. Qed.

Theorem C20_inv_objects : forall kl w j o, Inv kl w -> get_obj w j = Some o ->
  no_garbage o = true /\ aux_ok o = true /\ clear_safe o = true
  /\ (ndim o = 0 -> forall f, is_aux_field f = false -> get o f = Null)
  /\ (ndim o <> 0 -> built o = true /\ has_extents o = true)
  /\ (forall f id b, get o f = Owned id b -> b = claim o f /\ lookup id (hp (wm w)) = Some b).
Proof. exact Inv_objects. Qed.

(* each side condition of wf_op is needed ON THE MODEL (its inputs are totalised; the code rejects such inputs) *)
Theorem C20_wf_needed_ndim0 : lost (wm (run_world cfg_fixed no_fault [ONew 0; ORead 0 file0; ORead 0 file0])) <> [].
Proof. exact wf_needed_ndim0. Qed.
Theorem C20_wf_needed_slot : hp (wm (run_world cfg_fixed no_fault [ONewRead 7 fileA])) <> [].
Proof. exact wf_needed_slot. Qed.
Theorem C20_wf_needed_keylen :
  errs (wm (run_world cfg_fixed no_fault [ONew 0; OWriteKey 0 false key2; OWriteKey 0 false {| akey := 2; aklen := 9; avlen := 3 |}; ODestroy 0])) <> [].
Proof. exact wf_needed_keylen. Qed.

(* the hypotheses are satisfiable on a non-trivial history (two objects; read, new key, replaced key, move assignment that
   destroys a populated table, convolution, permutation, a read and a reading constructor that fail at a knot vector, ==):
   the invariant holds in the state it reaches, with and without an injected allocation failure; that state is not trivial *)
Example C20_invariant_nonvacuous :
  Forall (wf_op kl5) h_example
  /\ Inv kl5 (run_world cfg_fixed no_fault h_example) /\ Inv kl5 (run_world cfg_fixed (fault_at 30) h_example)
  /\ (exists o, get_obj (run_world cfg_fixed no_fault h_example) 1 = Some o /\ ndim o = 2 /\ naux o = 3 /\ orders o = [1; 3] /\ length (slots o) = 21)
  /\ length (hp (wm (run_world cfg_fixed no_fault h_example))) = 21 /\ nalloc (wm (run_world cfg_fixed no_fault h_example)) = 66
  /\ snd (run cfg_fixed (fault_at 30) world0 h_example) = [Ok; Ok; Ok; Ok; Ok; Failed RAlloc; Ok; Ok; Ok; Failed RInput; Failed RInput; Ok].
Proof.
  split; [exact h_example_wf|]. split; [apply invariant_reachable; exact h_example_wf|].
  split; [apply invariant_reachable; exact h_example_wf|].
  split; [eexists; vm_compute; repeat split|]. vm_compute. repeat split.
Qed.
Example C20_balanced_nonvacuous :
  Forall (wf_op kl5) (h_example ++ [ODestroy 0; ODestroy 1])
  /\ all_gone (run_world cfg_fixed (fault_at 30) (h_example ++ [ODestroy 0; ODestroy 1]))
  /\ length (trace (wm (run_world cfg_fixed (fault_at 30) (h_example ++ [ODestroy 0; ODestroy 1])))) = 116.
Proof.
  split; [exact h_example_wf_destroy|]. split; [apply all_gone_4; vm_compute; reflexivity|]. vm_compute. reflexivity.
Qed.
Example C20_safe_nonvacuous :
  exists o, get_obj (run_world cfg_fixed no_fault h_example) (target (OConvolve 1 1 3)) = Some o
            /\ safe cfg_fixed o None (OConvolve 1 1 3) = true /\ ndim o = 2.
Proof. eexists. vm_compute. repeat split. Qed.

(* the invariant on a history with key removals: a table read from a file (two keys) receives a third key, the MIDDLE one is
   removed, a miss, the first one is removed, the table is moved, the last key is removed (the table then holds a 0-byte key
   array), a key is written again; with and without a fault in a remove_key call (allocation 24 is the second removal's) *)
Example C20_remove_key_nonvacuous :
  Forall (wf_op kl5) h_example_rk
  /\ Inv kl5 (run_world cfg_fixed no_fault h_example_rk) /\ Inv kl5 (run_world cfg_fixed (fault_at 24) h_example_rk)
  /\ snd (run cfg_fixed no_fault world0 h_example_rk) = [Ok; Ok; Ok; Ok; Ok; Ok; Ok; Ok; Ok]
  /\ snd (run cfg_fixed (fault_at 24) world0 h_example_rk) = [Ok; Ok; Ok; Ok; Ok; Failed RAlloc; Ok; Ok; Ok]
  /\ (exists o, get_obj (run_world cfg_fixed no_fault h_example_rk) 1 = Some o /\ ndim o = 2 /\ naux o = 1 /\ map akey (auxs o) = [2])
  /\ (exists o, get_obj (run_world cfg_fixed (fault_at 24) h_example_rk) 1 = Some o /\ naux o = 2 /\ map akey (auxs o) = [1; 2])
  /\ (exists o, get_obj (run_world cfg_fixed no_fault (firstn 8 h_example_rk)) 1 = Some o /\ naux o = 0 /\ exists id, get o FAux = Owned id 0).
Proof.
  split; [exact h_example_rk_wf|]. split; [apply invariant_reachable; exact h_example_rk_wf|].
  split; [apply invariant_reachable; exact h_example_rk_wf|].
  split; [vm_compute; reflexivity|]. split; [vm_compute; reflexivity|].
  split; [eexists; vm_compute; repeat split|]. split; [eexists; vm_compute; repeat split|].
  eexists; vm_compute; repeat split. eexists; reflexivity.
Qed.
Example C20_failed_remove_key_nonvacuous :
  exists w', step cfg_fixed (fault_at 24) (run_world cfg_fixed (fault_at 24) (firstn 5 h_example_rk)) (ORemoveKey 0 1) = (w', Failed RAlloc)
             /\ not_write_key (ORemoveKey 0 1) = true
             /\ get_obj w' 0 = get_obj (run_world cfg_fixed (fault_at 24) (firstn 5 h_example_rk)) 0.
Proof. eexists. vm_compute. repeat split. Qed.

(* hypotheses of C20_failed_op are satisfiable on a non-trivial state: a truncated read into a live empty object fails *)
Example C20_failed_op_nonvacuous :
  exists w', step cfg_fixed no_fault (run_world cfg_fixed no_fault [ONew 0]) (ORead 0 fileT) = (w', Failed RInput)
             /\ get_obj w' 0 = Some empty_obj.
Proof. eexists. vm_compute. split; reflexivity. Qed.
Example C20_moved_nonvacuous :
  exists w', step cfg_fixed no_fault (run_world cfg_fixed no_fault [ONew 0; ORead 0 fileA; ONew 1; ORead 1 fileA]) (OMoveAssign 0 1) = (w', Ok).
Proof. eexists. vm_compute. reflexivity. Qed.

Print Assumptions C20_tree_is_fixed.
Print Assumptions C20_clear_empties.
Print Assumptions C20_failed_op.
Print Assumptions C20_no_abandon_read.
Print Assumptions C20_no_abandon_fit.
Print Assumptions C20_moved_from_empty_ctor.
Print Assumptions C20_moved_from_empty_assign.
Print Assumptions C20_refuted_read_truncated.
Print Assumptions C20_refuted_read_alloc_fault.
Print Assumptions C20_refuted_failed_read_partial.
Print Assumptions C20_refuted_write_key_empty_leaks.
Print Assumptions C20_refuted_convolve_alloc_fault.
Print Assumptions C20_refuted_fit_populated_leaks.
Print Assumptions C20_refuted_eq_empty.
Print Assumptions C20_refuted_permute_empty.
Print Assumptions C20_refuted_convolve_invalid.
Print Assumptions C20_refuted_move_assign_source.
Print Assumptions C20_refuted_aux_value_size.
Print Assumptions C20_refuted_reading_ctor_leaks.
Print Assumptions C20_refuted_remove_key_alloc_fault.
Print Assumptions C20_remove_key_all_faults_clean.
Print Assumptions C20_remove_key_failure_unchanged.
Print Assumptions C20_fixed_examples.
Print Assumptions C20_invariant.
Print Assumptions C20_step_preserves.
Print Assumptions C20_never_ub.
Print Assumptions C20_safe.
Print Assumptions C20_clean.
Print Assumptions C20_balanced.
Print Assumptions C20_inv_objects.
Print Assumptions C20_wf_needed_ndim0.
Print Assumptions C20_wf_needed_slot.
Print Assumptions C20_wf_needed_keylen.
