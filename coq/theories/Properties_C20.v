(* Properties_C20.v — statements only. *)
From Coq Require Import List Arith Bool.
From PS Require Import ObjResource ObjModel C20_Proofs Generated_objfixes.
Import ListNotations.
Theorem C20_tree_is_fixed : tree_cfg = cfg_fixed.
Proof. reflexivity. Qed.
Print Assumptions C20_tree_is_fixed.
