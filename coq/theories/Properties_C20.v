(* Properties_C20.v — statements only (proof scripts: C20_Proofs.v; model: ObjModel.v, ObjResource.v).

   WHAT IS PROVED for every state / oracle / history (unbounded), and what is NOT:
   proved   C20_tree_is_fixed, C20_clear_empties, C20_failed_op (all failing paths except write_key's own allocation
            failure), C20_no_abandon_read, C20_no_abandon_fit, C20_moved_from_empty_ctor / _assign;
            C20_refuted_* : concrete histories on which the UNCHANGED tree's model violates the property;
            C20_fixed_examples: the same histories are clean with the fixes.
   NOT proved (stated here, tested on every case of every run by the model-side checks of tools/props/C20.py):
     C20_invariant : forall ops F, Inv (run_world cfg_fixed F ops)       (consistent, no Unset/Dangling, not crashed, errs = [])
     C20_balanced  : forall ops F, all objects destroyed -> balanced (rev (trace ...)) /\ lost = []
     Inv s -> safe cfg_fixed ... = true                                   (memory-safety of every member from Inv)
   The induction over programs with loops (read_fits' key and knot loops) was not finished in the time available. *)
From Coq Require Import List Arith Bool.
From PS Require Import ObjResource ObjModel C20_Proofs Generated_objfixes.
Import ListNotations.

(* the working tree contains every proposed fix; the theorems below are about cfg_fixed *)
Theorem C20_tree_is_fixed : tree_cfg = cfg_fixed.
Proof. reflexivity. Qed.

(* clear() (= the destructor's body and every catch block) ends in the empty object from ANY state, for any fault oracle *)
Theorem C20_clear_empties : forall F m o, exists m', exec F (clear_prog o) m o = (empty_obj, m', None).
Proof. exact clear_empties. Qed.

(* a failed operation leaves its object unchanged or empty (the reading constructor: no object), all others untouched;
   every fault oracle F, every I/O oracle (they are arguments of the operations), every state *)
Theorem C20_failed_op : forall F w x w' r,
  step cfg_fixed F w x = (w', Failed r) -> not_write_key x = true -> target x < length (objs w) ->
  (get_obj w' (target x) = get_obj w (target x) \/ get_obj w' (target x) = Some empty_obj
   \/ (exists f, x = ONewRead (target x) f /\ get_obj w' (target x) = None))
  /\ forall k, k <> target x -> get_obj w' k = get_obj w k.
Proof. exact failed_op_world. Qed.

(* a populated table is never abandoned: a read refuses (any tree), a fit refuses (fixed tree); nothing is allocated or released *)
Theorem C20_no_abandon_read : forall c F m o f, ndim o <> 0 -> step_read c F m o f = (o, m, Some RRefused).
Proof. exact read_refuses_populated. Qed.
Theorem C20_no_abandon_fit : forall c F m o s, fx_fit c = true -> ft_invalid s = false -> ndim o <> 0 ->
  step_fit c F m o s = (o, m, Some RRefused).
Proof. exact fit_refuses_populated. Qed.

(* a moved-from table is empty, the target holds what the source held *)
Theorem C20_moved_from_empty_ctor : forall c F w j i w',
  crashed w = false -> step c F w (OMoveCtor j i) = (w', Ok) -> j < length (objs w) -> i < length (objs w) ->
  get_obj w' i = Some empty_obj /\ get_obj w' j = get_obj w i /\ wm w' = wm w.
Proof. exact move_ctor_spec. Qed.
Theorem C20_moved_from_empty_assign : forall c F w j i w',
  fx_moveasg c = true -> crashed w = false -> i <> j -> step c F w (OMoveAssign j i) = (w', Ok) ->
  j < length (objs w) -> i < length (objs w) ->
  get_obj w' i = Some empty_obj /\ get_obj w' j = get_obj w i.
Proof. exact move_assign_spec. Qed.

(* the unchanged tree: one concrete history per defect (replayed on the real code: corpus/C20) *)
Theorem C20_refuted_read_truncated : errs (wm (run_world cfg_orig no_fault h_trunc)) <> [].
Proof. exact refuted_read_truncated. Qed.
Theorem C20_refuted_read_alloc_fault : crashed (run_world cfg_orig (fault_at 5) h_read) = true.
Proof. exact refuted_read_alloc_fault. Qed.
Theorem C20_refuted_failed_read_partial :
  exists o, get_obj (run_world cfg_orig no_fault [ONew 0; ORead 0 fileT]) 0 = Some o /\ ndim o = 1 /\ get o (FKnot 0) = Unset
            /\ snd (run cfg_orig no_fault world0 [ONew 0; ORead 0 fileT]) = [Ok; Failed RInput].
Proof. exact refuted_failed_read_partial. Qed.
Theorem C20_refuted_write_key_empty_leaks : lost (wm (run_world cfg_orig no_fault h_wkey)) <> [].
Proof. exact refuted_write_key_empty_leaks. Qed.
Theorem C20_refuted_convolve_alloc_fault :
  errs (wm (run_world cfg_orig (fault_at 15) h_conv)) <> []
  /\ exists o, get_obj (run_world cfg_orig (fault_at 15) [ONew 0; ORead 0 fileA; OConvolve 0 0 2]) 0 = Some o /\ get o FCoeff = Dangling.
Proof. exact refuted_convolve_alloc_fault. Qed.
Theorem C20_refuted_fit_populated_leaks : lost (wm (run_world cfg_orig no_fault h_fit)) <> [].
Proof. exact refuted_fit_populated_leaks. Qed.
Theorem C20_refuted_eq_empty : crashed (run_world cfg_orig no_fault h_eq) = true.
Proof. exact refuted_eq_empty. Qed.
Theorem C20_refuted_permute_empty : crashed (run_world cfg_orig no_fault h_perm) = true.
Proof. exact refuted_permute_empty. Qed.
Theorem C20_refuted_convolve_invalid : crashed (run_world cfg_orig no_fault h_convbad) = true.
Proof. exact refuted_convolve_invalid. Qed.
Theorem C20_refuted_move_assign_source : get_obj (run_world cfg_orig no_fault h_moveasg) 1 <> Some empty_obj.
Proof. exact refuted_move_assign_source. Qed.
Theorem C20_refuted_aux_value_size : errs (wm (run_world cfg_orig no_fault h_read)) = [ErrSize 11 9].
Proof. exact refuted_aux_value_size. Qed.
Theorem C20_refuted_reading_ctor_leaks : lost (wm (run_world cfg_orig no_fault h_newread)) <> [].
Proof. exact refuted_reading_ctor_leaks. Qed.

(* the same histories with the fixes: not crashed, no allocator error, nothing lost, trace balanced, all objects gone *)
Theorem C20_fixed_examples :
  clean cfg_fixed no_fault h_trunc = true /\ clean cfg_fixed (fault_at 5) h_read = true /\ clean cfg_fixed no_fault h_wkey = true
  /\ clean cfg_fixed (fault_at 15) h_conv = true /\ clean cfg_fixed (fault_at 16) h_conv = true /\ clean cfg_fixed no_fault h_fit = true
  /\ clean cfg_fixed no_fault h_eq = true /\ clean cfg_fixed no_fault h_perm = true /\ clean cfg_fixed no_fault h_convbad = true
  /\ clean cfg_fixed no_fault (h_moveasg ++ [ODestroy 0; ODestroy 1]) = true /\ clean cfg_fixed no_fault h_newread = true
  /\ clean cfg_fixed no_fault h_read = true.
Proof. exact fixed_clean_examples. Qed.

(* hypotheses of C20_failed_op are satisfiable on a non-trivial state: a truncated read into a live empty object fails *)
Example C20_failed_op_nonvacuous :
  exists w', step cfg_fixed no_fault (run_world cfg_fixed no_fault [ONew 0]) (ORead 0 fileT) = (w', Failed RInput)
             /\ get_obj w' 0 = Some empty_obj.
Proof. eexists. vm_compute. split; reflexivity. Qed.
Example C20_moved_nonvacuous :
  exists w', step cfg_fixed no_fault (run_world cfg_fixed no_fault [ONew 0; ORead 0 fileA; ONew 1; ORead 1 fileA]) (OMoveAssign 0 1) = (w', Ok).
Proof. eexists. vm_compute. reflexivity. Qed.

Print Assumptions C20_tree_is_fixed.
Print Assumptions C20_clear_empties.
Print Assumptions C20_failed_op.
Print Assumptions C20_no_abandon_read.
Print Assumptions C20_no_abandon_fit.
Print Assumptions C20_moved_from_empty_ctor.
Print Assumptions C20_moved_from_empty_assign.
Print Assumptions C20_refuted_read_truncated.
Print Assumptions C20_refuted_read_alloc_fault.
Print Assumptions C20_refuted_failed_read_partial.
Print Assumptions C20_refuted_write_key_empty_leaks.
Print Assumptions C20_refuted_convolve_alloc_fault.
Print Assumptions C20_refuted_fit_populated_leaks.
Print Assumptions C20_refuted_eq_empty.
Print Assumptions C20_refuted_permute_empty.
Print Assumptions C20_refuted_convolve_invalid.
Print Assumptions C20_refuted_move_assign_source.
Print Assumptions C20_refuted_aux_value_size.
Print Assumptions C20_refuted_reading_ctor_leaks.
Print Assumptions C20_fixed_examples.
