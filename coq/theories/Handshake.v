(* Handshake.v — executable transition system for the coordinator/worker hand-shake of
   walk_descents + evaluate_descent (src/fitter/cholesky_solve.c).  NO PROOFS IN THIS FILE.

   Threads: tid 0 = the coordinator (the thread running walk_descents), tid (S j) = worker j
   (the pthread running evaluate_descent(&descent_trials[j])), j < N = n_threads.
   One step of a thread = exactly one pthread call (create / mutex_lock / mutex_unlock / cond_wait (release
   half) / cond_wait (re-acquire half) / cond_broadcast / join) together with the straight-line code next
   to it that runs while the mutex state is unchanged, or one "internal" step (worker computation,
   coordinator's result selection, clean-up) that performs no pthread call.  Every step carries the
   shared locations it reads/writes ([acc]).

   Parameters (Section variables, no bound on any of them):
     N              n_threads = get_nthreads()                         (line 965), N >= 1
     na             n_alpha  (number of trial step lengths)            (lines 939-958), na >= 2
     lt a b         "residual of trial step a  <  residual of trial step b"  (the worker's numeric
                    computation is abstracted to: worker j running on alpha index a leaves outputs "for a")
     fixed          false = code as found (cond_wait BEFORE the first check of the worker states, D7)
                    true  = after the fix: (check; if (!done) wait)
     shared_common  true  = the workers allocate through the one shared cholmod_common (code as found, D15)
                    false = after the fix for D15: walk_descents starts one cholmod_common per worker (commons[j]) before the
                            first pthread_create, worker j calls CHOLMOD through commons[j] only, the coordinator frees trial j's
                            x_c through commons[j] and finishes commons[j] after the last pthread_join; the caller's common c is
                            only read (print level, error handler) while the commons are set up
*)
From Coq Require Import List Arith Bool.
Import ListNotations.

Inductive wst := WAIT | RUN | TERM.                      (* enum worker_thread_state, cholesky_solve.h:86 *)

(* worker program counter: names say which pthread call is NEXT *)
Inductive wpc :=
| WNotCreated   (* before pthread_create of this worker (line 1008) *)
| WLock1        (* 803  pthread_mutex_lock *)
| WCheck        (* 804-813 holding the mutex: test trial->state, then  WAIT: cond_wait(805) release half;
                   TERMINATE: unlock(808)+pthread_exit(809);  RUN: unlock(813) *)
| WCvWait       (* inside cond_wait(805), blocked on the condition variable *)
| WWoken        (* inside cond_wait(805), signalled (or spurious), must re-acquire the mutex; then re-test 804 *)
| WCompute1     (* 815-852  internal: reads alpha, x, x_F, F; (re)allocates/writes H1, nH1, x_c; common *)
| WCompute2     (* 855-856  internal: calc_residual, writes trial->residual; common *)
| WLock2        (* 859  pthread_mutex_lock *)
| WReport       (* 860-861 holding: trial->state = WAIT; pthread_cond_broadcast *)
| WUnlock2      (* 862  pthread_mutex_unlock, back to the top of while(1) *)
| WExited.      (* after pthread_exit *)

Inductive cpc :=
| CCreate (k : nat)    (* 1007-1009 pthread_create(&threads[k]); CCreate 0 also stands for everything before the first
                          pthread_create, in particular (D15 fix) cholmod_l_start(&commons[i]) for every i *)
| CLockA               (* 1023 lock *)
| CSetRun              (* 1024-1031 holding: for j in block: alpha[j] = &alpha[i*N+j]; state[j] = RUN; cond_broadcast *)
| CUnlockA             (* 1032 unlock *)
| CLockB               (* 1036 lock *)
| CLoopB (chk : bool)  (* 1037-1047 holding: chk=false: first pass of the loop as found: cond_wait without looking;
                          chk=true: done = all states of the block are WAIT; done -> unlock(1047); else cond_wait(1038) release half *)
| CCvWait              (* inside cond_wait(1038), blocked *)
| CWoken               (* inside cond_wait(1038), must re-acquire; then 1039-1045 re-check *)
| CRead                (* 1049-1103 internal: read residual/x_c/H1 of the block in order, select, maybe write x, H1; for-loop head 1019-1021 *)
| CLockT               (* 1107 lock *)
| CSetTerm             (* 1108-1110 holding: all states = TERMINATE; broadcast *)
| CUnlockT             (* 1111 unlock *)
| CJoin (k : nat)      (* 1114-1115 pthread_join(threads[k]) *)
| CCleanup             (* 1117-1132 internal: free H1, x_c of every trial (through the shared common as found; after the D15
                          fix through commons[k], followed by cholmod_l_finish(commons[k])) *)
| CDone.

(* shared locations.  LOut j lumps descent_trials[j].{residual, x_c (pointer and contents), H1, nH1};
   LCommon = the caller's cholmod_common (argument c, the one common of the fit); LWCommon j = commons[j], worker j's own (D15 fix) *)
Inductive loc := LState (j : nat) | LAlpha (j : nat) | LOut (j : nat) | LX | LCommon | LWCommon (j : nat).
Inductive access := ANone | ARead | AWrite.

(* what the real thread does at a step, for the schedule-forcing correspondence *)
Inductive oplabel := OCreate (k : nat) | OLock | OUnlock | OWait | OReacq | OBcast | OJoin (k : nat) | OInternal | ONone.

Record state := mkState {
  mtx    : option nat;                 (* owner tid of the one mutex *)
  cp     : cpc;
  blk    : nat;                        (* i of the for loop at 1019 *)
  succ   : bool;                       (* success *)
  res    : option nat;                 (* `res`: which trial step's residual it holds (None = still NAN) *)
  result : option (option nat * bool); (* (trial step whose x_c/H1 were copied to x/H1 — as read from the worker's outputs, feasible) *)
  st     : nat -> wst;                 (* descent_trials[j].state *)
  wp     : nat -> wpc;
  alpha  : nat -> option nat;          (* descent_trials[j].alpha as an index into alpha[], None = NULL *)
  out    : nat -> option nat           (* which trial step descent_trials[j]'s outputs are for; None = none yet / being rewritten *)
}.

Definition upd {A} (f : nat -> A) (k : nat) (v : A) : nat -> A := fun j => if j =? k then v else f j.

Definition set_mtx s m := mkState m (cp s) (blk s) (succ s) (res s) (result s) (st s) (wp s) (alpha s) (out s).
Definition set_cp s p := mkState (mtx s) p (blk s) (succ s) (res s) (result s) (st s) (wp s) (alpha s) (out s).
Definition set_st s f := mkState (mtx s) (cp s) (blk s) (succ s) (res s) (result s) f (wp s) (alpha s) (out s).
Definition set_wp s f := mkState (mtx s) (cp s) (blk s) (succ s) (res s) (result s) (st s) f (alpha s) (out s).
Definition set_alpha s f := mkState (mtx s) (cp s) (blk s) (succ s) (res s) (result s) (st s) (wp s) f (out s).
Definition set_out s f := mkState (mtx s) (cp s) (blk s) (succ s) (res s) (result s) (st s) (wp s) (alpha s) f.

Definition free (s : state) : bool := match mtx s with None => true | Some _ => false end.
Definition is_WAIT (x : wst) : bool := match x with WAIT => true | _ => false end.

(* pthread_cond_broadcast: every thread blocked in cond_wait must now re-acquire the mutex *)
Definition wake_c (p : cpc) : cpc := match p with CCvWait => CWoken | q => q end.
Definition wake_w (p : wpc) : wpc := match p with WCvWait => WWoken | q => q end.
Definition wake_all (s : state) : state := set_wp (set_cp s (wake_c (cp s))) (fun j => wake_w (wp s j)).

Section Model.
Variables N na : nat.
Variable lt : nat -> nat -> bool.
Variables fixed shared_common : bool.

(* line 1004: n_blocks = (int)ceil(n_alpha/((double)(n_threads)))  (exact for int arguments) *)
Definition nblocks : nat := (na + N - 1) / N.

(* the guard `if (i*n_threads + j >= n_alpha) break;` of the three j-loops (1025, 1041, 1055): trial j takes
   part in block i.  (Downward closed in j, so "break" and "skip" coincide.) *)
Definition in_block (i j : nat) : bool := (j <? N) && (i * N + j <? na).

(* 1039-1045: done = every state of the block is WAIT *)
Definition all_done (s : state) : bool :=
  forallb (fun j => implb (in_block (blk s) j) (is_WAIT (st s j))) (seq 0 N).

Definition lt_o (a b : option nat) : bool := match a, b with Some x, Some y => lt x y | _, _ => false end.

(* 1054-1103: the selection loop over the trials of block i, in order, with its two `break`s.
   Returns the new `res` and, if a step is accepted, (what was copied into x/H1, feasible). *)
Fixpoint scan (i : nat) (o : nat -> option nat) (js : list nat) (r : option nat)
  : option nat * option (option nat * bool) :=
  match js with
  | [] => (r, None)
  | j :: rest =>
      if na <=? i * N + j then (r, None)                                  (* 1055 break *)
      else if (i =? 0) && (j =? 0) then scan i o rest (o j)                (* 1062-1064 res = residual[0] *)
      else if lt_o (o j) r || (i * N + j =? na - 1)                        (* 1065-1066 *)
           then (r, Some (o j, lt_o (o j) r))                              (* 1067-1100, break *)
           else scan i o rest r
  end.

(* for-loop head 1019-1021 *)
Definition loop_head (i : nat) (sc : bool) : cpc := if (i <? nblocks) && negb sc then CLockA else CLockT.

Definition cstep (s : state) : option state :=
  match cp s with
  | CCreate k => Some (set_cp (set_wp s (upd (wp s) k WLock1)) (if S k <? N then CCreate (S k) else loop_head 0 false))
  | CLockA => if free s then Some (set_cp (set_mtx s (Some 0)) CSetRun) else None
  | CSetRun =>
      let i := blk s in
      Some (set_cp (wake_all (set_alpha (set_st s (fun j => if in_block i j then RUN else st s j))
                                        (fun j => if in_block i j then Some (i * N + j) else alpha s j))) CUnlockA)
  | CUnlockA => Some (set_cp (set_mtx s None) CLockB)
  | CLockB => if free s then Some (set_cp (set_mtx s (Some 0)) (CLoopB fixed)) else None
  | CLoopB chk => if chk && all_done s then Some (set_cp (set_mtx s None) CRead)
                  else Some (set_cp (set_mtx s None) CCvWait)
  | CCvWait => None
  | CWoken => if free s then Some (set_cp (set_mtx s (Some 0)) (CLoopB true)) else None
  | CRead =>
      let '(r, sel) := scan (blk s) (out s) (seq 0 N) (res s) in
      let sc := match sel with Some _ => true | None => succ s end in
      Some (mkState (mtx s) (loop_head (S (blk s)) sc) (S (blk s)) sc r
                    (match sel with Some x => Some x | None => result s end) (st s) (wp s) (alpha s) (out s))
  | CLockT => if free s then Some (set_cp (set_mtx s (Some 0)) CSetTerm) else None
  | CSetTerm => Some (set_cp (wake_all (set_st s (fun j => if j <? N then TERM else st s j))) CUnlockT)
  | CUnlockT => Some (set_cp (set_mtx s None) (CJoin 0))
  | CJoin k => match wp s k with
               | WExited => Some (set_cp s (if S k <? N then CJoin (S k) else CCleanup))
               | _ => None end
  | CCleanup => Some (set_cp s CDone)
  | CDone => None
  end.

Definition wstep (s : state) (j : nat) : option state :=
  match wp s j with
  | WNotCreated => None
  | WLock1 => if free s then Some (set_wp (set_mtx s (Some (S j))) (upd (wp s) j WCheck)) else None
  | WCheck => match st s j with
              | WAIT => Some (set_wp (set_mtx s None) (upd (wp s) j WCvWait))
              | TERM => Some (set_wp (set_mtx s None) (upd (wp s) j WExited))
              | RUN => Some (set_wp (set_mtx s None) (upd (wp s) j WCompute1))
              end
  | WCvWait => None
  | WWoken => if free s then Some (set_wp (set_mtx s (Some (S j))) (upd (wp s) j WCheck)) else None
  | WCompute1 => Some (set_wp (set_out s (upd (out s) j None)) (upd (wp s) j WCompute2))
  | WCompute2 => Some (set_wp (set_out s (upd (out s) j (alpha s j))) (upd (wp s) j WLock2))
  | WLock2 => if free s then Some (set_wp (set_mtx s (Some (S j))) (upd (wp s) j WReport)) else None
  | WReport => let s1 := wake_all (set_st s (upd (st s) j WAIT)) in Some (set_wp s1 (upd (wp s1) j WUnlock2))
  | WUnlock2 => Some (set_wp (set_mtx s None) (upd (wp s) j WLock1))
  | WExited => None
  end.

(* blocked threads (cond_wait, lock of a held mutex, join of a live thread) have no step *)
Definition step (s : state) (t : nat) : option state :=
  match t with 0 => cstep s | S j => if j <? N then wstep s j else None end.

(* spurious wake-up of one thread blocked in cond_wait: allowed by POSIX; part of [reachable] (safety),
   never counted as "enabled" for progress *)
Definition spurious (s : state) (t : nat) : option state :=
  match t with
  | 0 => match cp s with CCvWait => Some (set_cp s CWoken) | _ => None end
  | S j => if j <? N then match wp s j with WCvWait => Some (set_wp s (upd (wp s) j WWoken)) | _ => None end else None
  end.

Definition init : state :=
  mkState None (CCreate 0) 0 false None None (fun _ => WAIT) (fun _ => WNotCreated) (fun _ => None) (fun _ => None).

Fixpoint run (s : state) (sch : list nat) : option state :=
  match sch with [] => Some s | t :: r => match step s t with Some s' => run s' r | None => None end end.

Definition finishedb (s : state) : bool := match cp s with CDone => true | _ => false end.
Definition enabledb (s : state) (t : nat) : bool := match step s t with Some _ => true | None => false end.
Definition stuckb (s : state) : bool := negb (finishedb s) && forallb (fun t => negb (enabledb s t)) (seq 0 (S N)).

(* the pthread call performed by the next step of thread t (for the correspondence with the real code) *)
Definition label (s : state) (t : nat) : oplabel :=
  match t with
  | 0 => match cp s with
         | CCreate k => OCreate k | CLockA | CLockB | CLockT => OLock | CSetRun | CSetTerm => OBcast
         | CUnlockA | CUnlockT => OUnlock
         | CLoopB chk => if chk && all_done s then OUnlock else OWait
         | CCvWait => ONone | CWoken => OReacq | CRead | CCleanup => OInternal | CJoin k => OJoin k | CDone => ONone end
  | S j => match wp s j with
           | WNotCreated | WCvWait | WExited => ONone
           | WLock1 | WLock2 => OLock
           | WCheck => match st s j with WAIT => OWait | _ => OUnlock end
           | WWoken => OReacq | WCompute1 | WCompute2 => OInternal | WReport => OBcast | WUnlock2 => OUnlock end
  end.

(* shared-memory accesses of the next step of thread t *)
Definition loc_eqb (a b : loc) : bool :=
  match a, b with
  | LState i, LState j | LAlpha i, LAlpha j | LOut i, LOut j => i =? j
  | LWCommon i, LWCommon j => i =? j
  | LX, LX | LCommon, LCommon => true | _, _ => false end.

Definition acc (s : state) (t : nat) (l : loc) : access :=
  match t with
  | 0 => match cp s, l with
         | CCreate k, LWCommon j => if negb shared_common && (k =? 0) && (j <? N) then AWrite else ANone (* D15 fix: cholmod_l_start(&commons[j]), .print/.error_handler = *)
         | CCreate k, LCommon => if negb shared_common && (k =? 0) then ARead else ANone               (* D15 fix: c->print, c->error_handler *)
         | CSetRun, LState j | CSetRun, LAlpha j => if in_block (blk s) j then AWrite else ANone     (* 1027-1029 *)
         | CLoopB true, LState j => if in_block (blk s) j then ARead else ANone                        (* 1043 *)
         | CRead, LOut j | CRead, LAlpha j => if in_block (blk s) j then ARead else ANone              (* 1063-1099 *)
         | CRead, LX => AWrite                                                                         (* 1072 *)
         | CSetTerm, LState j => if j <? N then AWrite else ANone                                      (* 1109 *)
         | CCleanup, LOut j => if j <? N then AWrite else ANone                                        (* 1119-1123 *)
         | CCleanup, LCommon => if shared_common then AWrite else ANone                                (* 1122 as found: free_dense(.., c) *)
         | CCleanup, LWCommon j => if negb shared_common && (j <? N) then AWrite else ANone            (* D15 fix: free_dense(.., commons[j]); cholmod_l_finish(commons[j]) *)
         | _, _ => ANone end
  | S j => if j <? N then
           match wp s j, l with
           | WCheck, LState k => if k =? j then ARead else ANone                                       (* 804, 807 *)
           | WReport, LState k => if k =? j then AWrite else ANone                                     (* 860 *)
           | WCompute1, LAlpha k | WCompute2, LAlpha k => if k =? j then ARead else ANone              (* 839-840 *)
           | WCompute1, LOut k | WCompute2, LOut k => if k =? j then AWrite else ANone                 (* 823-856 *)
           | WCompute1, LX | WCompute2, LX => ARead                                                    (* 840 *)
           | WCompute1, LCommon | WCompute2, LCommon => if shared_common then AWrite else ANone        (* 831, 855 (copy/free_dense) through trial->c = c as found *)
           | WCompute1, LWCommon k | WCompute2, LWCommon k =>
               if negb shared_common && (k =? j) then AWrite else ANone                                (* D15 fix: the same calls, trial->c = &commons[j] *)
           | _, _ => ANone end
           else ANone
  end.

Definition conflictb (a b : access) : bool :=
  match a, b with AWrite, ARead | AWrite, AWrite | ARead, AWrite => true | _, _ => false end.

(* a data race: two different threads both have an enabled step touching l, at least one writing *)
Definition raceb (s : state) (t1 t2 : nat) (l : loc) : bool :=
  negb (t1 =? t2) && enabledb s t1 && enabledb s t2 && conflictb (acc s t1 l) (acc s t2 l).

(* the sequential specification of the selection (what walk_descents computes with one thread and what
   the algorithm means): the first trial step 1 <= a < na, in order, that reduces the residual w.r.t. step 0,
   or the last one; together with whether it reduces the residual *)
Definition goodsel (a : nat) : bool := lt a 0 || (a =? na - 1).
Definition walk_spec : option (option nat * bool) :=
  match find goodsel (seq 1 (na - 1)) with Some a => Some (Some a, lt a 0) | None => None end.

(* observation of a state as first-order data (functions tabulated over the N workers) *)
Definition observe (s : state) :=
  (mtx s, cp s, blk s, succ s, (res s, result s),
   (map (st s) (seq 0 N), map (wp s) (seq 0 N), map (alpha s) (seq 0 N), map (out s) (seq 0 N))).

End Model.

(* ------------------------------------------------------------------------------------------------
   Specification vocabulary (definitions only; the proofs are in C12_Proofs.v) *)

(* states reachable by any interleaving of thread steps and spurious wake-ups *)
Inductive reachable (N na : nat) (lt : nat -> nat -> bool) (fixed : bool) : state -> Prop :=
| reach_init : reachable N na lt fixed init
| reach_step : forall s t s', reachable N na lt fixed s -> step N na lt fixed s t = Some s' -> reachable N na lt fixed s'
| reach_spur : forall s t s', reachable N na lt fixed s -> spurious N s t = Some s' -> reachable N na lt fixed s'.

Definition finished (s : state) : Prop := cp s = CDone.

(* the coordinator is about to read the outputs of trial j (selection loop of block blk s) *)
Definition coordinator_reading (N na : nat) (s : state) (j : nat) : Prop := cp s = CRead /\ in_block N na (blk s) j = true.
(* worker j has finished the trial step of the current block: its outputs are for step blk*N+j, it is not computing *)
Definition worker_done_with_block (N : nat) (s : state) (j : nat) : Prop :=
  out s j = Some (blk s * N + j) /\ st s j = WAIT /\
  match wp s j with WCompute1 | WCompute2 | WLock2 | WReport | WUnlock2 => False | _ => True end.

(* first acceptable trial step: the meaning of the sequential selection *)
Definition is_first_good (na : nat) (lt : nat -> nat -> bool) (a : nat) : Prop :=
  1 <= a < na /\ goodsel na lt a = true /\ forall k, 1 <= k < a -> goodsel na lt k = false.
