(* C07_Witness.v — small concrete documents on which the reader AS THE CODE IS (FitsModel.of_doc) violates property C07.
   Definitions only (extracted: the check writes each of them, encoded, as a replay file for the real reader).
   All are 1-dimensional tables pushed through the writer model to_doc, i.e. complete, parseable FITS files whose only fault is
   the inconsistency named. binary64 patterns: 0.0 = 0, 1.0 = 0x3ff0.., 2.0 = 0x4000.., 3.0 = 0x4008.., 4.0 = 0x4010.. *)
From Coq Require Import List NArith ZArith Bool.
From Coq Require String.
From PS Require Import Generated_fits FitsModel FitsWf C07_Checks Generated_readchecks C07_Model.
Import ListNotations.
Open Scope N_scope.

Definition d0 : N := 0.
Definition d1 : N := 4607182418800017408.
Definition d2 : N := 4611686018427387904.
Definition d3 : N := 4613937818241073152.
Definition d4 : N := 4616189618054758400.
Definition dNaN : N := 9221120237041090560.     (* 0x7ff8000000000000 *)
Definition f1 : N := 1065353216.                (* 1.0f *)

Definition mk (order : N) (knots : list N) (naxis : N) : table :=
  {| t_order := [order]; t_knots := [knots]; t_naxes := [naxis]; t_strides := [1]; t_coeffs := repeat f1 (N.to_nat naxis);
     t_extents := Some [d1; d3]; t_periods := None; t_aux := [] |}.

(* a well-formed table: order 1, knots 0 1 2 3 4, 3 coefficients *)
Definition w_valid : fitsdoc := to_doc (mk 1 [d0; d1; d2; d3; d4] 3).
(* (2) image axis disagrees with knots and order: 2 coefficients where nknots - order - 1 = 3 *)
Definition w_axes_short : fitsdoc := to_doc (mk 1 [d0; d1; d2; d3; d4] 2).
Definition w_axes_long : fitsdoc := to_doc (mk 1 [d0; d1; d2; d3; d4] 4).
(* (3) knot values: decreasing pair; NaN *)
Definition w_unsorted : fitsdoc := to_doc (mk 1 [d0; d2; d1; d3; d4] 3).
Definition w_nan : fitsdoc := to_doc (mk 1 [d0; d1; dNaN; d3; d4] 3).
(* (5) shapes consistent (2 = 5 - 2 - 1) but fewer than 2*order+2 knots *)
Definition w_few_knots : fitsdoc := to_doc (mk 2 [d0; d1; d2; d3; d4] 2).
(* (6) zero-length axis, consistent with 2 knots of order 1 *)
Definition w_zero_axis : fitsdoc := to_doc (mk 1 [d0; d1] 0).
(* (4) a single ORDER key holding -1 (read with TINT into a uint32_t: 4294967295) *)
Definition neg_order_card (c : card) : card :=
  match c with
  | Card k v => if str_eqb k (keyn s_ORDER 0) then Card s_ORDER (VTok (print_int (-1))) else c
  | _ => c
  end.
Definition w_neg_order : fitsdoc :=
  match w_valid with
  | h0 :: r => {| h_cards := map neg_order_card (h_cards h0); h_data := h_data h0 |} :: r
  | [] => []
  end.
(* (1) a file that ends after the primary HDU: the read fails after ndim was assigned *)
Definition w_primary_only : fitsdoc := firstn 1 w_valid.

Module WNames.
Import String.
Local Open Scope string_scope.
Definition n_valid : str := Eval compute in lit "valid".
Definition n_axes_short : str := Eval compute in lit "axes_short".
Definition n_axes_long : str := Eval compute in lit "axes_long".
Definition n_unsorted : str := Eval compute in lit "unsorted".
Definition n_nan : str := Eval compute in lit "nan".
Definition n_few_knots : str := Eval compute in lit "few_knots".
Definition n_zero_axis : str := Eval compute in lit "zero_axis".
Definition n_neg_order : str := Eval compute in lit "neg_order".
Definition n_primary_only : str := Eval compute in lit "primary_only".
End WNames.
Import WNames.
Definition witnesses : list (str * fitsdoc) :=
  [(n_valid, w_valid); (n_axes_short, w_axes_short); (n_axes_long, w_axes_long); (n_unsorted, w_unsorted); (n_nan, w_nan); (n_few_knots, w_few_knots); (n_zero_axis, w_zero_axis); (n_neg_order, w_neg_order); (n_primary_only, w_primary_only)].
