(* C11_Pjv_Proofs.v — the PJV block-pivoting solvers (NnlsModel2.pjv_run: nnls_normal_block and
   nnls_normal_block_updown): leaving the loop through `if (nH1 == 0 && nH2 == 0) break;` returns a point that
   satisfies the KKT conditions within KKT_TOL (x_i >= -KKT_TOL on the passive set with zero gradient there,
   x_i = 0 and gradient >= -KKT_TOL on the active set). Only the equations of the reduced solve are used (no
   symmetry, no definiteness). *)
From Coq Require Import List Bool ZArith Lia Field Ring PeanoNat.
From PS Require Import Arith Generated_nnls NnlsModel NnlsModel2 C11_Spec C11_Spec2 C11_KKT_Proofs C11_Exit_Proofs.
Import ListNotations.

(* ---- ordered removal = removal, on subsequences of duplicate-free lists -------------------------------- *)
Inductive subseq : list nat -> list nat -> Prop :=
| ss_nil : forall l, subseq [] l
| ss_cons : forall a l1 l2, subseq l1 l2 -> subseq (a :: l1) (a :: l2)
| ss_skip : forall a l1 l2, subseq l1 l2 -> subseq l1 (a :: l2).

Lemma subseq_incl H F : subseq H F -> incl H F.
Proof.
  induction 1 as [l | a l1 l2 Hs IH | a l1 l2 Hs IH].
  - apply incl_nil_l.
  - apply incl_cons; [left; auto | apply incl_tl; auto].
  - apply incl_tl; auto.
Qed.

Lemma subseq_NoDup H F : subseq H F -> NoDup F -> NoDup H.
Proof.
  induction 1 as [l | a l1 l2 Hs IH | a l1 l2 Hs IH]; intro Hd.
  - constructor.
  - inversion Hd; subst. constructor; auto. intro Hin. apply (subseq_incl _ _ Hs) in Hin. contradiction.
  - inversion Hd; subst. auto.
Qed.

Lemma subseq_refl F : subseq F F.
Proof. induction F; constructor; auto. Qed.

Lemma subseq_filter (f : nat -> bool) F : subseq (filter f F) F.
Proof. induction F as [|a F IH]; cbn [filter]; [constructor|]. destruct (f a); constructor; auto. Qed.

Lemma subseq_single a F : In a F -> subseq [a] F.
Proof.
  induction F as [|c F IH]; intros Hin; [destruct Hin|].
  destruct Hin as [->|Hin]; [apply ss_cons; constructor | apply ss_skip; auto].
Qed.

Lemma subseq_app_r H F G : subseq H F -> subseq H (F ++ G).
Proof. induction 1; cbn [app]; constructor; auto. Qed.

Lemma remove_all_nil F : remove_all F [] = F.
Proof. unfold remove_all. induction F as [|a F IH]; cbn [filter memb existsb negb]; [auto | f_equal; auto]. Qed.

Lemma remove_all_cons_notin F h H : ~ In h F -> remove_all F (h :: H) = remove_all F H.
Proof.
  unfold remove_all. intro Hn. apply filter_ext_in. intros a Ha. f_equal. unfold memb. cbn [existsb].
  destruct (Nat.eqb a h) eqn:E; auto. apply Nat.eqb_eq in E. subst. contradiction.
Qed.

Lemma remove_ordered_nil_r F : remove_ordered F [] = F.
Proof. destruct F; reflexivity. Qed.

Lemma remove_ordered_remove_all H F : subseq H F -> NoDup F -> remove_ordered F H = remove_all F H.
Proof.
  induction 1 as [l | a l1 l2 Hs IH | a l1 l2 Hs IH]; intro Hd.
  - rewrite remove_ordered_nil_r, remove_all_nil. reflexivity.
  - inversion Hd as [|? ? Ha Hd']; subst. cbn [remove_ordered]. rewrite Nat.eqb_refl.
    unfold remove_all at 1. cbn [filter]. unfold memb at 1. cbn [existsb]. rewrite Nat.eqb_refl. cbn [orb negb].
    fold (remove_all l2 (a :: l1)). rewrite remove_all_cons_notin by exact Ha. apply IH; auto.
  - inversion Hd as [|? ? Ha Hd']; subst.
    destruct l1 as [|h l1'].
    + rewrite remove_ordered_nil_r, remove_all_nil. reflexivity.
    + cbn [remove_ordered].
      assert (Hne : a <> h).
      { intro; subst. apply Ha. apply (subseq_incl _ _ Hs). left; auto. }
      destruct (Nat.eqb a h) eqn:E; [apply Nat.eqb_eq in E; contradiction|].
      unfold remove_all at 1. cbn [filter].
      assert (Hm : memb a (h :: l1') = false).
      { destruct (memb a (h :: l1')) eqn:Em; auto. apply memb_In in Em. exfalso. apply Ha.
        apply (subseq_incl _ _ Hs). exact Em. }
      rewrite Hm. cbn [negb]. f_equal. apply IH; auto.
Qed.

Lemma last_In (H : list nat) : H <> [] -> In (last H 0) H.
Proof.
  induction H as [|a H IH]; intro Hne; [congruence|].
  destruct H as [|c H']; [left; reflexivity|]. right. apply IH. discriminate.
Qed.

Lemma filter_nil_all {X} (f : X -> bool) l : filter f l = [] -> forall i, In i l -> f i = false.
Proof.
  induction l as [|a l IH]; intros H i Hi; [destruct Hi|]. cbn [filter] in H.
  destruct (f a) eqn:E; [discriminate|]. destruct Hi as [->|Hi]; auto.
Qed.

Section Pjv.
Context {A : Arith}.
Variable OF : OField A.
Notation K := (T A).

Add Field Kf2 : (OF_field A OF).

Variable escape : bool.
Variable max_trials : nat.
Variable solve : list nat -> option (list K).
Variable M : list (list K).
Variable b : list K.
Variable tol : K.
Hypothesis HM : wf_mat (length b) M.
Hypothesis Hsolve : solve_ok solve M b.
Notation n := (length b).

(* what the switching rule may do to the two candidate sets: keep them, or pick one element of one of them *)
Definition picked (H H' : list nat) : Prop := H' = H \/ H' = [] \/ exists a, In a H /\ H' = [a].

Lemma picked_subseq H H' F : picked H H' -> subseq H F -> subseq H' F.
Proof.
  intros [->|[->|[a [Ha ->]]]] Hs; auto; [constructor|].
  apply subseq_single. apply (subseq_incl _ _ Hs). exact Ha.
Qed.

Lemma murty_pick_picked H1 H2 (tr : list pevent) H1' H2' tr' :
  murty_pick H1 H2 tr = (H1', H2', tr') -> picked H1 H1' /\ picked H2 H2'.
Proof.
  unfold murty_pick. intro E.
  assert (P1 : H1 <> [] -> picked H1 [last H1 0]).
  { intro Hne. right; right. exists (last H1 0). split; auto. apply last_In; auto. }
  assert (P2 : H2 <> [] -> picked H2 [last H2 0]).
  { intro Hne. right; right. exists (last H2 0). split; auto. apply last_In; auto. }
  assert (N : forall H : list nat, picked H []) by (intro; right; left; reflexivity).
  destruct H2 as [|h2 t2]; destruct H1 as [|h1 t1].
  - injection E as <- <- _. split; apply N.
  - injection E as <- <- _. split; [apply P1; discriminate | apply N].
  - injection E as <- <- _. split; [apply N | apply P2; discriminate].
  - destruct (Nat.ltb _ _); injection E as <- <- _; (split; [try apply N; apply P1; discriminate | try apply N; apply P2; discriminate]).
Qed.

Lemma pjv_decide_picked (s : @pstate A) H1 H2 murty ninf trials H1' H2' tr :
  pjv_decide escape max_trials s H1 H2 = (murty, ninf, trials, H1', H2', tr) -> picked H1 H1' /\ picked H2 H2'.
Proof.
  unfold pjv_decide. intro E.
  assert (R : forall H : list nat, picked H H) by (intro; left; reflexivity).
  destruct (_ && _) in E.
  - injection E as _ _ _ <- <- _. split; apply R.
  - destruct (Z.ltb _ 0) in E.
    + destruct (murty_pick H1 H2 _) as [[h1 h2] tr0] eqn:Em. injection E as _ _ _ <- <- _.
      eapply murty_pick_picked; eauto.
    + injection E as _ _ _ <- <- _. split; apply R.
Qed.

(* the invariant of `while (iter-- > 0)`: F and G partition the indices, x vanishes on G, the gradient vanishes on F,
   and y is the gradient on G *)
Definition PInv (s : pstate) : Prop :=
  length (p_x s) = n /\ length (p_y s) = n /\ part n (p_F s) (p_G s) /\
  (forall i, In i (p_F s) -> nthK (gradient M b (p_x s)) i = zero) /\
  (forall i, In i (p_G s) -> nthK (p_x s) i = zero /\ nthK (p_y s) i = nthK (gradient M b (p_x s)) i).

Lemma pjv_update_inv k s murty ninf trials H1 H2 tr s' :
  PInv s -> subseq H1 (p_F s) -> subseq H2 (p_G s) ->
  pjv_update solve M b k s murty ninf trials H1 H2 tr = Some s' -> PInv s'.
Proof.
  intros (Hx & Hy & Hp & _ & _) S1 S2 H. unfold pjv_update in H. cbv zeta in H.
  assert (NF : NoDup (p_F s)) by apply Hp. assert (NG : NoDup (p_G s)) by apply Hp.
  assert (N1 : NoDup H1) by (eapply subseq_NoDup; eauto).
  assert (N2 : NoDup H2) by (eapply subseq_NoDup; eauto).
  assert (I1 : incl H1 (p_F s)) by (apply subseq_incl; auto).
  assert (I2 : incl H2 (p_G s)) by (apply subseq_incl; auto).
  assert (NG1 : NoDup (p_G s ++ H1)).
  { apply NoDup_app'; auto. intros i Hi Hi1. destruct Hp as (_ & _ & _ & _ & _ & Hd). apply (Hd i); auto. }
  rewrite (remove_ordered_remove_all H1 (p_F s) S1 NF) in H.
  rewrite (remove_ordered_remove_all H2 (p_G s ++ H1) (subseq_app_r _ _ _ S2) NG1) in H.
  pose proof (part_step n _ _ H1 H2 Hp I1 N1 I2 N2) as Hp1.
  set (F1 := sort_nat (remove_all (p_F s) H1 ++ H2)) in *.
  set (G1 := sort_nat (remove_all (p_G s ++ H1) H2)) in *.
  destruct (solve F1) as [xF|] eqn:Es; [|discriminate]. injection H as <-.
  destruct (Hsolve F1 xF Es) as [HlF HeF].
  destruct Hp1 as (NF1 & NG1' & BF1 & BG1 & Hc & Hd).
  assert (HMl : length M = n) by apply HM.
  set (x1 := scatter (p_x s) F1 xF).
  set (x' := scatter x1 G1 (zeros (length G1))).
  assert (Hx1 : length x1 = n) by (unfold x1; rewrite length_scatter; auto).
  assert (Hg1 : gather x1 F1 = xF).
  { unfold x1. apply gather_scatter; auto. rewrite Hx. auto. }
  assert (Hgx : gather x' F1 = xF).
  { rewrite <- Hg1. unfold gather. apply map_ext_in. intros i Hi. unfold x'. apply nthK_scatter_notin.
    intro HiG. apply (Hd i); auto. }
  assert (Hz : forall j, ~ In j F1 -> nthK x' j = zero).
  { intros j Hj. unfold x'. destruct (Compare_dec.lt_dec j n) as [Hjn|Hjn].
    - destruct (Hc j Hjn) as [HjF|HjG]; [contradiction|]. apply nthK_scatter_zeros; auto. rewrite Hx1; auto.
    - unfold nthK. apply nth_overflow. rewrite length_scatter. lia. }
  assert (Hdot : forall i, i < n -> dot (row M i) x' = dot (gather (row M i) F1) xF).
  { intros i Hi. rewrite <- Hgx. apply (dot_support OF _ _ F1 n); auto. rewrite (length_row M b HM); auto. }
  assert (HF : forall i, In i F1 -> dot (gather (row M i) F1) xF = nthK b i).
  { unfold mv, submat in HeF. rewrite map_map in HeF.
    apply (map_eq_pointwise (fun i => dot (gather (row M i) F1) xF) (nthK b) F1). exact HeF. }
  unfold PInv. cbn [p_x p_y p_F p_G]. fold x1. fold x'.
  split; [unfold x'; rewrite length_scatter; auto|].
  split; [rewrite !length_scatter; auto|].
  split; [unfold part; repeat split; auto|].
  split.
  - intros i Hi. rewrite nthK_gradient by auto. rewrite Hdot by auto. rewrite HF by auto. ring.
  - intros i Hi. split.
    + unfold x'. apply nthK_scatter_zeros; auto. rewrite Hx1; auto.
    + rewrite nthK_gradient by auto. rewrite Hdot by auto.
      set (f := fun i => sub (dot (gather (row M i) F1) xF) (nthK b i)).
      set (y1 := scatter (p_y s) F1 (zeros (length F1))).
      assert (Hg : gather (scatter y1 G1 (map f G1)) G1 = map f G1).
      { apply gather_scatter; auto; [unfold y1; rewrite length_scatter, Hy; auto | apply map_length]. }
      apply (map_eq_pointwise (nthK (scatter y1 G1 (map f G1))) f G1 Hg i Hi).
Qed.

Lemma pjv_step_inv exit_both k s s' :
  PInv s -> pjv_step escape exit_both max_trials solve M b tol k s = Some (inr s') -> PInv s'.
Proof.
  intros Hs H. unfold pjv_step in H. cbv zeta in H.
  destruct (pjv_exit_test _ _ _); [discriminate|].
  destruct (pjv_decide _ _ _ _ _) as [[[[[murty ninf] trials] H1'] H2'] tr] eqn:Ed.
  destruct (pjv_update _ _ _ _ _ _ _ _ _ _ _) as [s1|] eqn:Eu; [|discriminate]. injection H as <-.
  destruct (pjv_decide_picked _ _ _ _ _ _ _ _ _ Ed) as [P1 P2].
  eapply pjv_update_inv; [exact Hs | | | exact Eu].
  - eapply picked_subseq; [exact P1 | apply subseq_filter].
  - eapply picked_subseq; [exact P2 | apply subseq_filter].
Qed.

Lemma pjv_step_exit k s s' :
  PInv s -> pjv_step escape true max_trials solve M b tol k s = Some (inl s') -> kkt_tol2 tol tol M b (p_x s').
Proof.
  intros (Hx & Hy & Hp & HgF & HgG) H. unfold pjv_step in H. cbv zeta in H.
  destruct (pjv_exit_test _ _ _) eqn:Et.
  2:{ destruct (pjv_decide _ _ _ _ _) as [[[[[murty ninf] trials] H1'] H2'] tr].
      destruct (pjv_update _ _ _ _ _ _ _ _ _ _ _); discriminate. }
  injection H as <-. unfold pjv_exit_test in Et. apply andb_true_iff in Et. destruct Et as [E1 E2].
  apply Nat.eqb_eq in E1. apply Nat.eqb_eq in E2. apply length_zero_iff_nil in E1. apply length_zero_iff_nil in E2.
  assert (HMl : length M = n) by apply HM.
  unfold kkt_tol2. apply Forall2_nthK; [rewrite length_gradient; auto|].
  intros i Hi. rewrite Hx in Hi.
  destruct Hp as (_ & _ & _ & _ & Hc & _). destruct (Hc i Hi) as [HiF|HiG].
  - left. split; [|apply HgF; auto].
    apply (ltb_false_le OF). exact (filter_nil_all _ _ E1 i HiF).
  - right. destruct (HgG i HiG) as [Hxi Hyi]. split; [exact Hxi|]. rewrite <- Hyi.
    apply (ltb_false_le OF). exact (filter_nil_all _ _ E2 i HiG).
Qed.

Lemma pjv_loop_exit : forall fuel k s, PInv s ->
  pr_exit (pjv_loop escape true max_trials solve M b tol fuel k s) = NormalExit ->
  kkt_tol2 tol tol M b (pr_x (pjv_loop escape true max_trials solve M b tol fuel k s)).
Proof.
  induction fuel as [|fuel IH]; intros k s Hs H; cbn [pjv_loop] in *.
  - cbn [pr_exit] in H. discriminate.
  - destruct (pjv_step escape true max_trials solve M b tol (S k) s) as [[s'|s']|] eqn:E.
    + cbn [pr_x]. eapply pjv_step_exit; eauto.
    + apply IH; auto. eapply pjv_step_inv; eauto.
    + cbn [pr_exit] in H. discriminate.
Qed.

Lemma nthK_map_opp (v : list K) i : nthK (map (fun a => opp a) v) i = opp (nthK v i).
Proof.
  revert i; induction v as [|a v IH]; intro i.
  - cbn [map]. rewrite nthK_nil. ring.
  - destruct i; cbn [map]; unfold nthK; cbn [nth]; auto. apply IH.
Qed.

Lemma pjv_init_inv : PInv (pjv_init max_trials b n).
Proof.
  unfold PInv, pjv_init. cbn [p_x p_y p_F p_G].
  assert (HMl : length M = n) by apply HM.
  split; [apply length_zeros|].
  split; [apply map_length|].
  split.
  { unfold part. split; [constructor|]. split; [apply seq_NoDup|]. split; [intros i []|].
    split; [intros i Hi; apply in_seq in Hi; lia|].
    split; [intros i Hi; right; apply in_seq; lia | intros i []]. }
  split; [intros i []|].
  intros i Hi. apply in_seq in Hi. split; [apply nthK_zeros|].
  rewrite nthK_gradient by (auto; lia). rewrite nthK_map_opp.
  rewrite (dot_comm OF). rewrite (dot_zeros_l OF). ring.
Qed.

Theorem pjv_exit_kkt_run iter_factor :
  pr_exit (pjv_run escape true max_trials solve M b tol iter_factor) = NormalExit ->
  kkt_tol2 tol tol M b (pr_x (pjv_run escape true max_trials solve M b tol iter_factor)).
Proof. unfold pjv_run. apply pjv_loop_exit. apply pjv_init_inv. Qed.

(* at most iter_factor * n passes; the silent fall-out of the loop happens after exactly that many *)
Lemma pjv_loop_iters exit_both : forall fuel k s,
  pr_iters (pjv_loop escape exit_both max_trials solve M b tol fuel k s) <= k + fuel /\
  (pr_exit (pjv_loop escape exit_both max_trials solve M b tol fuel k s) = MaxIter ->
   pr_iters (pjv_loop escape exit_both max_trials solve M b tol fuel k s) = k + fuel).
Proof.
  induction fuel as [|fuel IH]; intros k s; cbn [pjv_loop].
  - cbn [pr_iters pr_exit]. split; [lia | intros _; lia].
  - destruct (pjv_step _ _ _ _ _ _ _ (S k) s) as [[s'|s']|].
    + cbn [pr_iters pr_exit]. split; [lia | discriminate].
    + destruct (IH (S k) s') as [I1 I2]. split; [lia | intro H; rewrite I2 by exact H; lia].
    + cbn [pr_iters pr_exit]. split; [lia | discriminate].
Qed.
End Pjv.

(* ---- the general statements ------------------------------------------------------------------------------ *)
Theorem pjv_exit_kkt_gen (A : Arith) (OF : OField A) : forall escape max_trials (solve : list nat -> option (list (T A)))
    (M : list (list (T A))) (b : list (T A)) (tol : T A) (iter_factor : nat),
  wf_mat (length b) M -> solve_ok solve M b ->
  pr_exit (pjv_run escape true max_trials solve M b tol iter_factor) = NormalExit ->
  kkt_tol2 tol tol M b (pr_x (pjv_run escape true max_trials solve M b tol iter_factor)).
Proof. intros. apply (pjv_exit_kkt_run OF); auto. Qed.

(* the two solvers with the exit test found in the source tree: the first step fails at once when the tree's exit
   test is not `nH1 == 0 && nH2 == 0` *)
Lemma pjv_block_exit_kkt_tree (A : Arith) (OF : OField A) (M : list (list (T A))) (b : list (T A)) :
  wf_mat (length b) M ->
  pr_exit (pjv_block M b) = NormalExit ->
  kkt_tol2 pjv_tol pjv_tol M b (pr_x (pjv_block M b)).
Proof.
  unfold pjv_block.
  assert (E : pjv_block_exit_both = true) by reflexivity.
  rewrite E. intros HM. apply (pjv_exit_kkt_gen A OF); auto. apply (solve_checked_ok OF).
Qed.

Lemma pjv_updown_exit_kkt_tree (A : Arith) (OF : OField A) (M : list (list (T A))) (b : list (T A)) :
  wf_mat (length b) M ->
  pr_exit (pjv_updown M b) = NormalExit ->
  kkt_tol2 pjv_tol pjv_tol M b (pr_x (pjv_updown M b)).
Proof.
  unfold pjv_updown.
  assert (E : pjv_updown_exit_both = true) by reflexivity.
  rewrite E. intros HM. apply (pjv_exit_kkt_gen A OF); auto. apply (solve_checked_ok OF).
Qed.

Lemma pjv_block_iters (A : Arith) (M : list (list (T A))) (b : list (T A)) :
  pr_iters (pjv_block M b) <= pjv_iter_factor * length b /\
  (pr_exit (pjv_block M b) = MaxIter -> pr_iters (pjv_block M b) = pjv_iter_factor * length b).
Proof. unfold pjv_block, pjv_run. apply (pjv_loop_iters (A := A)). Qed.

Lemma pjv_updown_iters (A : Arith) (M : list (list (T A))) (b : list (T A)) :
  pr_iters (pjv_updown M b) <= pjv_iter_factor * length b /\
  (pr_exit (pjv_updown M b) = MaxIter -> pr_iters (pjv_updown M b) = pjv_iter_factor * length b).
Proof. unfold pjv_updown, pjv_run. apply (pjv_loop_iters (A := A)). Qed.

(* KKT within (tx, tg) of a non-negative vector is KKT within tg in the sense of C11_Spec (so C11_kkt_tol_gap applies) *)
Lemma kkt_tol2_nonneg (A : Arith) (tx tg : T A) (M : list (list (T A))) (b x : list (T A)) :
  kkt_tol2 tx tg M b x -> nonneg x -> kkt_tol tg M b x.
Proof.
  unfold kkt_tol2, kkt_tol, nonneg. generalize (gradient M b x). intros g H.
  induction H as [|xi gi x' g' Hi H IH]; intro Hn; constructor.
  - inversion Hn; subst. split; auto. destruct Hi as [[_ Hg]|[Hx Hg]]; [left; auto | right; auto].
  - apply IH. inversion Hn; auto.
Qed.

(* ---- examples: a system with n = 8 > MAX_TRIALS, so that block switching (not only Murty's method) is exercised --- *)
From Coq Require Import QArith Qcanon.
From PS Require Import C11_Proofs.

(* A = B'B + I with B banded; b chosen so that the optimum has zero and positive components *)
Definition P8_M := QM [[ 6;  2; -1;  0;  0;  1;  0;  0];
                       [ 2;  7;  1; -2;  0;  0;  1;  0];
                       [-1;  1;  5;  1;  1;  0;  0; -1];
                       [ 0; -2;  1;  8;  2;  0;  1;  0];
                       [ 0;  0;  1;  2;  6; -1;  0;  2];
                       [ 1;  0;  0;  0; -1;  5;  1;  0];
                       [ 0;  1;  0;  1;  0;  1;  7; -2];
                       [ 0;  0; -1;  0;  2;  0; -2;  6]]%Z.
Definition P8_b := Qv [5; -3; 4; 6; -7; 2; -1; 8]%Z.

Definition pjv_example_ok (r : @presult QcA) : bool :=
  match pr_exit r with NormalExit => true | _ => false end &&
  @kkt_check QcA (@zero QcA) P8_M P8_b (pr_x r) &&
  match @nnls_spec QcA P8_M P8_b with Some xo => @eqvec QcA (pr_x r) xo | None => false end &&
  negb (Nat.eqb (length (pr_F r)) 0) && negb (Nat.eqb (length (pr_F r)) 8) && @symb QcA P8_M.

Lemma pjv_block_example : pjv_example_ok (@pjv_block QcA P8_M P8_b) = true.
Proof. vm_compute. reflexivity. Qed.
Lemma pjv_updown_example : pjv_example_ok (@pjv_updown QcA P8_M P8_b) = true.
Proof. vm_compute. reflexivity. Qed.
Lemma P8_wf : @wf_mat QcA (length P8_b) P8_M.
Proof. apply (symb_sound QcA_OField). vm_compute. reflexivity. Qed.
