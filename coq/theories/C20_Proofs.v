(* C20_Proofs.v — proof scripts for the object/ownership model. *)
From Coq Require Import List Arith Bool Lia.
From PS Require Import ObjResource ObjModel.
Import ListNotations.
