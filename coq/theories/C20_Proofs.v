(* C20_Proofs.v — proof scripts for the object/ownership model (ObjModel.v). *)
From Coq Require Import List Arith Bool Lia.
From PS Require Import ObjResource ObjModel.
Import ListNotations.

(* ---------------------------------------------------------------------------------------------- *)
(** * Programs that cannot throw *)

Definition nothrow_action (a : action) : bool :=
  match a with
  | AAlloc _ | AAllocB _ _ => false
  | AThrow _ c => negb c
  | _ => true
  end.
Definition nothrow (p : list action) : bool := forallb nothrow_action p.

Lemma exec_nothrow : forall F p m o, nothrow p = true -> snd (exec F p m o) = None.
Proof.
  intros F p; induction p as [|a p IH]; intros m o Hn; simpl in *; [reflexivity|].
  apply andb_true_iff in Hn; destruct Hn as [Ha Hp].
  destruct a; simpl in Ha; try discriminate; try (apply IH; assumption).
  destruct c; simpl in Ha; try discriminate. apply IH; assumption.
Qed.

Lemma exec_app_nothrow : forall F p q m o,
  nothrow p = true ->
  exec F (p ++ q) m o = let '(o1, m1, _) := exec F p m o in exec F q m1 o1.
Proof.
  intros F p; induction p as [|a p IH]; intros q m o Hn; simpl in *; [reflexivity|].
  apply andb_true_iff in Hn; destruct Hn as [Ha Hp].
  destruct a; simpl in Ha; try discriminate; try (apply IH; assumption).
  destruct c; simpl in Ha; try discriminate. apply IH; assumption.
Qed.

Lemma nothrow_app : forall p q, nothrow (p ++ q) = nothrow p && nothrow q.
Proof. intros; unfold nothrow; apply forallb_app. Qed.

Lemma nothrow_map_freeif : forall (g : nat -> field) l, nothrow (map (fun i => AFreeIf (g i)) l) = true.
Proof. induction l; simpl; auto. Qed.

Lemma nothrow_aux_release_fixed : forall o, nothrow (aux_release_fixed o) = true.
Proof.
  intros o; unfold aux_release_fixed. rewrite nothrow_app. apply andb_true_iff; split; [|reflexivity].
  induction (idx (naux o)); simpl; auto.
Qed.

Lemma nothrow_table_release_fixed : forall o, nothrow (table_release_fixed o) = true.
Proof.
  intros o; unfold table_release_fixed.
  repeat rewrite nothrow_app.
  destruct (is_null (get o FKnots)); destruct (is_null (get o FExtents)); simpl;
    try rewrite nothrow_app; try rewrite nothrow_map_freeif; reflexivity.
Qed.

(* ---------------------------------------------------------------------------------------------- *)
(** * clear() always ends in the empty object, whatever (partial) state it starts from *)

Lemma clear_tail : forall F m o,
  exec F [AAuxs 0 []; ANdim 0; AShape [] [] []; AReset] m o
  = (empty_obj, fold_left (fun m fs => m_lose m (snd fs)) (slots o) m, None).
Proof. intros; reflexivity. Qed.

Lemma aux_release_fixed_split : forall o,
  aux_release_fixed o = (flat_map (fun i => [AFreeIf (FAuxK i); AFreeIf (FAuxV i); AFreeIf (FAuxE i)]) (idx (naux o)) ++ [AFreeIf FAux]) ++ [AAuxs 0 []].
Proof. intros; unfold aux_release_fixed; rewrite <- app_assoc; reflexivity. Qed.

Lemma clear_prog_shape : forall o, exists p, nothrow p = true /\ clear_prog o = p ++ [AAuxs 0 []; ANdim 0; AShape [] [] []; AReset].
Proof.
  intros o. unfold clear_prog. rewrite aux_release_fixed_split.
  eexists (table_release_fixed o ++ (flat_map _ (idx (naux o)) ++ [AFreeIf FAux])).
  split.
  - rewrite nothrow_app, nothrow_table_release_fixed; simpl.
    pose proof (nothrow_aux_release_fixed o) as H. rewrite aux_release_fixed_split, nothrow_app in H.
    apply andb_true_iff in H; destruct H as [H _]. exact H.
  - repeat rewrite <- app_assoc. reflexivity.
Qed.

Lemma clear_empties : forall F m o, exists m', exec F (clear_prog o) m o = (empty_obj, m', None).
Proof.
  intros F m o. destruct (clear_prog_shape o) as [p [Hp He]]. rewrite He.
  rewrite (exec_app_nothrow F p _ m o Hp).
  destruct (exec F p m o) as [[o1 m1] s1]. rewrite clear_tail. eauto.
Qed.

(* ---------------------------------------------------------------------------------------------- *)
(** * A failed member function leaves the object unchanged or empty (tree with the proposed fixes) *)

Lemma on_failure_fixed : forall F r o' m' why,
  on_failure true F r = (o', m', Some why) -> o' = empty_obj.
Proof.
  intros F [[o m] [w|]] o' m' why H; simpl in H; [|discriminate].
  destruct (clear_empties F m o) as [m1 E]. rewrite E in H. inversion H; reflexivity.
Qed.

Lemma read_failed : forall c F m o f o' m' why, fx_clear c = true ->
  step_read c F m o f = (o', m', Some why) -> o' = o \/ o' = empty_obj.
Proof.
  intros c F m o f o' m' why Hc H. unfold step_read in H.
  destruct (negb (ndim o =? 0)); [inversion H; auto|].
  destruct (f_open_fails f); [inversion H; auto|].
  rewrite Hc in H. right. eapply on_failure_fixed; eauto.
Qed.

Lemma fit_failed : forall c F m o s o' m' why, fx_fit c = true ->
  step_fit c F m o s = (o', m', Some why) -> o' = o \/ o' = empty_obj.
Proof.
  intros c F m o s o' m' why Hc H. unfold step_fit in H.
  destruct (ft_invalid s); [inversion H; auto|].
  rewrite Hc in H. simpl in H.
  destruct (negb (ndim o =? 0)); [inversion H; auto|].
  right. eapply on_failure_fixed; eauto.
Qed.

Lemma convolve_failed : forall c F m o d k o' m' why, fx_conv c = true ->
  step_convolve c F m o d k = (o', m', Some why) -> o' = o \/ o' = empty_obj.
Proof.
  intros c F m o d k o' m' why Hc H. unfold step_convolve in H. rewrite Hc in H. simpl in H.
  destruct (negb (d <? ndim o) || (k <? 2)); [inversion H; auto|].
  right. eapply on_failure_fixed; eauto.
Qed.

(* remove_key (with C20_10): its only failure is the allocation of the replacement table, before anything is touched *)
Lemma remove_key_failed : forall F m o k o' m' why,
  step_remove_key cfg_fixed F m o k = (o', m', Some why) -> o' = o.
Proof.
  intros F m o k o' m' why H. unfold step_remove_key in H.
  destruct (find_key k (auxs o) 0) as [i|]; [|inversion H; reflexivity].
  cbn [exec] in H. destruct (m_alloc F m (8 * (naux o - 1))) as [[id|] m1]; [|inversion H; reflexivity].
  cbn [fx_rmkey cfg_fixed] in H.
  match type of H with context[exec F (remove_key_fixed_tail i) ?mm ?oo] =>
    pose proof (exec_nothrow F (remove_key_fixed_tail i) mm oo eq_refl) as E;
    destruct (exec F (remove_key_fixed_tail i) mm oo) as [[o2 m2] r2] end.
  simpl in E. subst r2. discriminate.
Qed.

(* write_key: observational equality (the slot map is an association list; a local pointer that was set and
   reset leaves the same contents, not the same list) *)
Definition same_obj (a b : obj) : Prop :=
  ndim a = ndim b /\ orders a = orders b /\ nknots a = nknots b /\ naxes a = naxes b /\ naux a = naux b /\ auxs a = auxs b
  /\ forall f, get a f = get b f.

Lemma same_obj_refl : forall o, same_obj o o.
Proof. intros; repeat split. Qed.

Lemma field_eqb_refl : forall f, field_eqb f f = true.
Proof. destruct f; simpl; auto using Nat.eqb_refl. Qed.
Lemma field_eqb_eq : forall f g, field_eqb f g = true -> f = g.
Proof. destruct f, g; simpl; intros H; try discriminate; try reflexivity; apply Nat.eqb_eq in H; subst; reflexivity. Qed.
Lemma field_eqb_sym : forall f g, field_eqb f g = field_eqb g f.
Proof. destruct f, g; simpl; auto using Nat.eqb_sym. Qed.

Lemma get_del_same : forall f l, get_slot f (del_slot f l) = Null.
Proof.
  intros f l; induction l as [|[g s] l IH]; simpl; auto.
  destruct (field_eqb g f) eqn:E; simpl; auto. rewrite E. exact IH.
Qed.
Lemma get_del_other : forall f g l, field_eqb g f = false -> get_slot f (del_slot g l) = get_slot f l.
Proof.
  intros f g l Hfg; induction l as [|[h s] l IH]; simpl; auto.
  destruct (field_eqb h g) eqn:E; simpl.
  - apply field_eqb_eq in E; subst h. rewrite Hfg. exact IH.
  - destruct (field_eqb h f); auto.
Qed.
Lemma get_set_same : forall o f s, get (set o f s) f = s.
Proof.
  intros o f s; unfold get, set; simpl. unfold put_slot.
  destruct s; simpl; try rewrite field_eqb_refl; auto using get_del_same.
Qed.
Lemma get_set_other : forall o f g s, field_eqb g f = false -> get (set o g s) f = get o f.
Proof.
  intros o f g s H; unfold get, set; simpl. unfold put_slot.
  destruct s; simpl; try rewrite H; auto using get_del_other.
Qed.


(* ---------------------------------------------------------------------------------------------- *)
(** * Reads and fits never abandon a populated table *)

Lemma read_refuses_populated : forall c F m o f, ndim o <> 0 -> step_read c F m o f = (o, m, Some RRefused).
Proof.
  intros c F m o f H. unfold step_read. destruct (ndim o =? 0) eqn:E; [apply Nat.eqb_eq in E; contradiction|reflexivity].
Qed.

Lemma fit_refuses_populated : forall c F m o s, fx_fit c = true -> ft_invalid s = false -> ndim o <> 0 ->
  step_fit c F m o s = (o, m, Some RRefused).
Proof.
  intros c F m o s Hc Hi H. unfold step_fit. rewrite Hi, Hc.
  destruct (ndim o =? 0) eqn:E; [apply Nat.eqb_eq in E; contradiction|reflexivity].
Qed.

(* ---------------------------------------------------------------------------------------------- *)
(** * World level *)

Lemma nth_set_nth_same : forall {A} (l : list A) j v d, j < length l -> nth j (set_nth l j v) d = v.
Proof. induction l; intros [|j] v d H; simpl in *; try lia; auto. apply IHl; lia. Qed.
Lemma nth_set_nth_other : forall {A} (l : list A) i j v d, i <> j -> nth i (set_nth l j v) d = nth i l d.
Proof. induction l; intros [|i] [|j] v d H; simpl in *; auto; try congruence. Qed.
Lemma length_set_nth : forall {A} (l : list A) j v, length (set_nth l j v) = length l.
Proof. induction l; intros [|j] v; simpl; auto. Qed.

(* move construction: the source is the empty table afterwards, the target holds exactly what the source held *)
Lemma move_ctor_spec : forall c F w j i w',
  crashed w = false -> step c F w (OMoveCtor j i) = (w', Ok) ->
  j < length (objs w) -> i < length (objs w) ->
  get_obj w' i = Some empty_obj /\ get_obj w' j = get_obj w i /\ wm w' = wm w.
Proof.
  intros c F w j i w' Hc H Hj Hi. unfold step in H. rewrite Hc in H.
  destruct (get_obj w j) eqn:Ej; [destruct (get_obj w i); discriminate|].
  destruct (get_obj w i) as [oi|] eqn:Ei; [|discriminate].
  destruct (i =? j) eqn:Eij; [discriminate|]. apply Nat.eqb_neq in Eij.
  inversion H; subst w'; clear H. unfold get_obj, set_obj; simpl.
  split; [apply nth_set_nth_same; rewrite length_set_nth; exact Hi|].
  split; [|reflexivity].
  rewrite nth_set_nth_other by congruence. rewrite nth_set_nth_same by exact Hj. reflexivity.
Qed.

(* move assignment with C20_7: the source is empty afterwards *)
Lemma move_assign_spec : forall c F w j i w',
  fx_moveasg c = true -> crashed w = false -> i <> j -> step c F w (OMoveAssign j i) = (w', Ok) ->
  j < length (objs w) -> i < length (objs w) ->
  get_obj w' i = Some empty_obj /\ get_obj w' j = get_obj w i.
Proof.
  intros c F w j i w' Hf Hc Hij H Hj Hi. unfold step in H. rewrite Hc in H.
  destruct (get_obj w j) as [oj|] eqn:Ej; [|discriminate].
  destruct (get_obj w i) as [oi|] eqn:Ei; [|discriminate].
  destruct (i =? j) eqn:Eij; [apply Nat.eqb_eq in Eij; contradiction|].
  destruct (negb (safe c oj (Some oi) (OMoveAssign j i))); [discriminate|].
  rewrite Hf in H. inversion H; subst w'; clear H. unfold get_obj, set_obj; simpl.
  split; [apply nth_set_nth_same; rewrite length_set_nth; exact Hi|].
  rewrite nth_set_nth_other by congruence. rewrite nth_set_nth_same by exact Hj. reflexivity.
Qed.

(* a failed operation on object j: j is unchanged, or empty, (or, for the reading constructor, never came to exist);
   every other object is untouched.  For the tree with the proposed fixes; write_key's own allocation failure is the one
   failing path NOT covered here (its clean-up restores the contents but not the identical slot list; tested by the tie). *)
Definition not_write_key (x : op) : bool := match x with OWriteKey _ inv _ => inv | _ => true end.

Lemma failed_op_world : forall F w x w' r,
  step cfg_fixed F w x = (w', Failed r) -> not_write_key x = true -> target x < length (objs w) ->
  (get_obj w' (target x) = get_obj w (target x) \/ get_obj w' (target x) = Some empty_obj
   \/ (exists f, x = ONewRead (target x) f /\ get_obj w' (target x) = None))
  /\ forall k, k <> target x -> get_obj w' k = get_obj w k.
Proof.
  intros F w x w' r H Hwk Hlen. unfold step in H.
  destruct (crashed w); [discriminate|].
  assert (Hset : forall o m, (forall k, k <> target x -> get_obj (set_obj w (target x) o m) k = get_obj w k)).
  { intros o m k Hk. unfold get_obj, set_obj; simpl. apply nth_set_nth_other; exact Hk. }
  assert (Hsame : forall o m, get_obj (set_obj w (target x) o m) (target x) = o).
  { intros o m. unfold get_obj, set_obj; simpl. apply nth_set_nth_same; exact Hlen. }
  destruct x; cbn [target not_write_key] in *.
  - destruct (get_obj w j); inversion H.
  - destruct (get_obj w j) eqn:Ej; [discriminate|].
    destruct (step_read cfg_fixed F (wm w) empty_obj f) as [[o' m'] [why|]] eqn:E; [|discriminate].
    injection H as Hw Hr; subst w'.
    split; [right; right; eexists; split; [reflexivity|apply Hsame]|apply Hset].
  - destruct (get_obj w j) as [o|] eqn:Ej; [|discriminate].
    destruct (step_read cfg_fixed F (wm w) o f) as [[o' m'] [why|]] eqn:E; simpl in H; [|discriminate].
    injection H as Hw Hr; subst w'.
    split; [|apply Hset]. rewrite Hsame.
    destruct (read_failed cfg_fixed F (wm w) o f o' m' why eq_refl E); subst; auto.
  - destruct (get_obj w j) as [o|] eqn:Ej; [|discriminate].
    destruct (step_fit cfg_fixed F (wm w) o s) as [[o' m'] [why|]] eqn:E; simpl in H; [|discriminate].
    injection H as Hw Hr; subst w'.
    split; [|apply Hset]. rewrite Hsame.
    destruct (fit_failed cfg_fixed F (wm w) o s o' m' why eq_refl E); subst; auto.
  - destruct (get_obj w j) as [o|] eqn:Ej; [|discriminate]. subst invalid.
    match type of H with context[negb ?b] => destruct (negb b) end; [discriminate|].
    cbn in H. injection H as Hw Hr; subst w'. split; [|apply Hset]. rewrite Hsame. auto.
  - destruct (get_obj w j) as [o|] eqn:Ej; [|discriminate].
    match type of H with context[negb ?b] => destruct (negb b) end; [discriminate|].
    destruct (step_convolve cfg_fixed F (wm w) o dim nk) as [[o' m'] [why|]] eqn:E; simpl in H; [|discriminate].
    injection H as Hw Hr; subst w'.
    split; [|apply Hset]. rewrite Hsame.
    destruct (convolve_failed cfg_fixed F (wm w) o dim nk o' m' why eq_refl E); subst; auto.
  - destruct (get_obj w j) as [o|] eqn:Ej; [|discriminate].
    match type of H with context[negb ?b] => destruct (negb b) end; [discriminate|].
    destruct (negb (is_perm (ndim o) p)); [inversion H; subst; auto|].
    destruct (ndim o =? 0); inversion H.
  - destruct (get_obj w j); destruct (get_obj w i); try discriminate. destruct (i =? j); discriminate.
  - destruct (get_obj w j); destruct (get_obj w i); try discriminate.
    destruct (i =? j); [discriminate|]. match type of H with context[negb ?b] => destruct (negb b) end; discriminate.
  - destruct (get_obj w i); destruct (get_obj w j); try discriminate.
    match type of H with context[negb ?b] => destruct (negb b) end; discriminate.
  - destruct (get_obj w j) as [o|] eqn:Ej; [|discriminate].
    match type of H with context[negb ?b] => destruct (negb b) end; [discriminate|].
    destruct (ndim o =? 0); [inversion H; subst; auto|]. destruct fails; inversion H; subst; auto.
  - destruct (get_obj w j) as [o|] eqn:Ej; [|discriminate].
    match type of H with context[negb ?b] => destruct (negb b) end; [discriminate|]. destruct (ndim o =? 0); discriminate.
  - destruct (get_obj w j) as [o|] eqn:Ej; [|discriminate].
    match type of H with context[negb ?b] => destruct (negb b) end; discriminate.
  - destruct (get_obj w j) as [o|] eqn:Ej; [|discriminate].
    match type of H with context[negb ?b] => destruct (negb b) end; [discriminate|].
    destruct (step_remove_key cfg_fixed F (wm w) o k) as [[o' m'] [why|]] eqn:E; simpl in H; [|discriminate].
    injection H as Hw Hr; subst w'.
    split; [|apply Hset]. rewrite Hsame. left. rewrite (remove_key_failed F (wm w) o k o' m' why E). reflexivity.
Qed.

(* ---------------------------------------------------------------------------------------------- *)
(** * Witnesses: the UNCHANGED tree (cfg_orig) violates the property; the same histories are clean with the fixes *)

Definition fileA : file :=
  {| f_open_fails := false; f_fail := PNone; f_ndim := 1; f_orders := [2]; f_nknots := [8]; f_naxes := [5];
     f_aux := [({| akey := 1; aklen := 5; avlen := 9 |}, 11)] |}.
Definition fileT : file :=       (* truncated after the primary HDU: "Error reading size of knot vector 0" (D13) *)
  {| f_open_fails := false; f_fail := PKnotSize 0; f_ndim := 1; f_orders := [2]; f_nknots := [8]; f_naxes := [5];
     f_aux := [({| akey := 1; aklen := 5; avlen := 9 |}, 11)] |}.
Definition key2 : auxent := {| akey := 2; aklen := 5; avlen := 6 |}.
Definition spec1 : fitspec := {| ft_invalid := false; ft_fails := false; ft_orders := [2]; ft_nknots := [8] |}.

Definition h_trunc := [ONew 0; ORead 0 fileT; ODestroy 0].
Definition h_read := [ONew 0; ORead 0 fileA; ODestroy 0].
Definition h_wkey := [ONew 0; OWriteKey 0 false key2; ODestroy 0].
Definition h_conv := [ONew 0; ORead 0 fileA; OConvolve 0 0 2; ODestroy 0].
Definition h_fit := [ONew 0; ORead 0 fileA; OFit 0 spec1; ODestroy 0].
Definition h_eq := [ONew 0; ONew 1; OEq 0 1; ODestroy 0; ODestroy 1].
Definition h_perm := [ONew 0; OPermute 0 []; ODestroy 0].
Definition h_convbad := [ONew 0; OConvolve 0 0 2; ODestroy 0].
Definition h_moveasg := [ONew 0; ORead 0 fileA; ONew 1; OMoveAssign 0 1].
Definition h_newread := [ONewRead 0 fileT].

(* remove_key: two keys, the first one removed; allocations 1-8 are write_key's, 9 is the parking array / the new table,
   10 (unchanged tree only) the re-allocation of the table *)
Definition key3 : auxent := {| akey := 3; aklen := 5; avlen := 4 |}.
Definition h_rmkey_pre := [ONew 0; OWriteKey 0 false key2; OWriteKey 0 false key3; ORemoveKey 0 2].
Definition h_rmkey := h_rmkey_pre ++ [ORemoveKey 0 7; OWriteKey 0 false key2; ORemoveKey 0 2; ORemoveKey 0 3; ODestroy 0].

Definition clean (c : cfg) (F : nat -> bool) (xs : list op) : bool :=
  let w := run_world c F xs in
  negb (crashed w) && match errs (wm w) with [] => true | _ => false end
  && match lost (wm w) with [] => true | _ => false end
  && balancedb (rev (trace (wm w))) && forallb (fun o => match o with None => true | Some _ => false end) (objs w).

Lemma refuted_read_truncated : errs (wm (run_world cfg_orig no_fault h_trunc)) <> [].
Proof. vm_compute. discriminate. Qed.
Lemma refuted_read_alloc_fault : crashed (run_world cfg_orig (fault_at 5) h_read) = true.
Proof. vm_compute. reflexivity. Qed.
Lemma refuted_failed_read_partial :
  exists o, get_obj (run_world cfg_orig no_fault [ONew 0; ORead 0 fileT]) 0 = Some o /\ ndim o = 1 /\ get o (FKnot 0) = Unset
            /\ snd (run cfg_orig no_fault world0 [ONew 0; ORead 0 fileT]) = [Ok; Failed RInput].
Proof. eexists. vm_compute. repeat split. Qed.
Lemma refuted_write_key_empty_leaks : lost (wm (run_world cfg_orig no_fault h_wkey)) <> [].
Proof. vm_compute. discriminate. Qed.
Lemma refuted_convolve_alloc_fault :
  errs (wm (run_world cfg_orig (fault_at 15) h_conv)) <> []
  /\ exists o, get_obj (run_world cfg_orig (fault_at 15) [ONew 0; ORead 0 fileA; OConvolve 0 0 2]) 0 = Some o /\ get o FCoeff = Dangling.
Proof. split; [vm_compute; discriminate|]. eexists. vm_compute. split; reflexivity. Qed.
Lemma refuted_fit_populated_leaks : lost (wm (run_world cfg_orig no_fault h_fit)) <> [].
Proof. vm_compute. discriminate. Qed.
Lemma refuted_eq_empty : crashed (run_world cfg_orig no_fault h_eq) = true.
Proof. vm_compute. reflexivity. Qed.
Lemma refuted_permute_empty : crashed (run_world cfg_orig no_fault h_perm) = true.
Proof. vm_compute. reflexivity. Qed.
Lemma refuted_convolve_invalid : crashed (run_world cfg_orig no_fault h_convbad) = true.
Proof. vm_compute. reflexivity. Qed.
Lemma refuted_move_assign_source : get_obj (run_world cfg_orig no_fault h_moveasg) 1 <> Some empty_obj.
Proof. vm_compute. discriminate. Qed.
Lemma refuted_aux_value_size : errs (wm (run_world cfg_orig no_fault h_read)) = [ErrSize 11 9].
Proof. vm_compute. reflexivity. Qed.
Lemma refuted_reading_ctor_leaks : lost (wm (run_world cfg_orig no_fault h_newread)) <> [].
Proof. vm_compute. discriminate. Qed.

(* the tree without C20_10: when the re-allocation of the key table fails inside remove_key the object keeps the address of the
   released table (naux already decremented) and the call reports failure; the destructor then walks released memory *)
Lemma refuted_remove_key_alloc_fault :
  (exists o, get_obj (run_world cfg_no_rmkey (fault_at 10) h_rmkey_pre) 0 = Some o /\ get o FAux = Dangling /\ naux o = 1
             /\ length (hp (wm (run_world cfg_no_rmkey (fault_at 10) h_rmkey_pre))) = 3)
  /\ snd (run cfg_no_rmkey (fault_at 10) world0 h_rmkey_pre) = [Ok; Ok; Ok; Failed RAlloc]
  /\ crashed (run_world cfg_no_rmkey (fault_at 10) (h_rmkey_pre ++ [ODestroy 0])) = true
  /\ clean cfg_no_rmkey no_fault h_rmkey = true /\ clean cfg_no_rmkey (fault_at 9) h_rmkey = true.
Proof. split; [eexists; vm_compute; repeat split|]. vm_compute. repeat split. Qed.

(* with C20_10 every single allocation-failure position of that history is clean, and the failed call leaves the object as it was *)
Lemma fixed_clean_all_faults_h_rmkey : forallb (fun k => clean cfg_fixed (fault_at k) h_rmkey) (seq 0 24) = true.
Proof. vm_compute. reflexivity. Qed.
Lemma fixed_remove_key_alloc_fault_unchanged :
  snd (run cfg_fixed (fault_at 9) world0 h_rmkey_pre) = [Ok; Ok; Ok; Failed RAlloc]
  /\ get_obj (run_world cfg_fixed (fault_at 9) h_rmkey_pre) 0 = get_obj (run_world cfg_fixed no_fault [ONew 0; OWriteKey 0 false key2; OWriteKey 0 false key3]) 0.
Proof. vm_compute. split; reflexivity. Qed.

Lemma fixed_clean_examples :
  clean cfg_fixed no_fault h_trunc = true /\ clean cfg_fixed (fault_at 5) h_read = true /\ clean cfg_fixed no_fault h_wkey = true
  /\ clean cfg_fixed (fault_at 15) h_conv = true /\ clean cfg_fixed (fault_at 16) h_conv = true /\ clean cfg_fixed no_fault h_fit = true
  /\ clean cfg_fixed no_fault h_eq = true /\ clean cfg_fixed no_fault h_perm = true /\ clean cfg_fixed no_fault h_convbad = true
  /\ clean cfg_fixed no_fault (h_moveasg ++ [ODestroy 0; ODestroy 1]) = true /\ clean cfg_fixed no_fault h_newread = true
  /\ clean cfg_fixed no_fault h_read = true.
Proof. vm_compute. repeat split. Qed.

(* every single allocation-failure position of one history, by computation (a finite sweep over the 17 allocations) *)
Lemma fixed_clean_all_faults_h_conv : forallb (fun k => clean cfg_fixed (fault_at k) h_conv) (seq 0 20) = true.
Proof. vm_compute. reflexivity. Qed.
