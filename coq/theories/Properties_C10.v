(* Properties_C10.v — C10: a monotonic fit is non-decreasing along the requested dimension.
   Statements only; proofs in C10_Cumsum.v (the loop), C10_Proofs.v (ordered field: exact / abstract rounding, T-spline basis,
   inactive constraint), C10_IEEE.v (Flocq binary32), C10_Surface.v (B-spline positivity, summation by parts).

   Vocabulary. [backtransform fadd dflt naxes monodim a] (MonoModel.v) = the cumulative-sum loop at the end of glamfit_complex
   (glam.c:280-300) on the flat row-major coefficient array [a], with the code's own index arithmetic:
   stride1/stride2 from the loop over the dimensions, then  a[i*s2*nm + j*s2 + k] += a[i*s2*nm + (j-1)*s2 + k]  for i < stride1,
   1 <= j < nm = naxes[monodim], k < stride2, in place. [glam_backtransform] = the same after the double -> float store, with
   `fadd a b = rnd (a + b)`. [nondecreasing_along le s1 nm s2 a] = for all i < s1, j+1 < nm, k < s2:
   a[i*s2*nm + j*s2 + k] <= a[i*s2*nm + (j+1)*s2 + k]. [prodn l] = product of a list. [wf_call] = monodim < ndim and
   length a = prod naxes. The theorems hold for EVERY shape [naxes] and every [monodim]. *)
From Coq Require Import List ZArith Bool PeanoNat Lia QArith Qcanon Reals.
From PS Require Import Arith EvalModel BSpline OFieldKit C01_Basis C04_Proofs Generated_nnls NnlsModel C11_Spec C11_KKT_Proofs MonoModel C10_Cumsum C10_Proofs C10_Surface C10_IEEE.
From PS Require FitModel C09_LinAlg C09_Penalty C09_Index C09_Top MonoFitModel C10_Congruence C10_Inactive.
Import ListNotations.

(* ---- the loop, for any carrier and any addition ---------------------------------------------------------------- *)
(* what the loop computes: the flat recurrence along monodim; nothing else changes (length; entries with index 0 along monodim) *)
Theorem C10_backtransform_spec : forall (K : Type) (fadd : K -> K -> K) (dflt : K) (naxes : list nat) (md : nat) (a : list K),
  wf_call naxes md a ->
  let nm := nth md naxes 0%nat in
  let s2 := prodn (skipn (S md) naxes) in
  let R := backtransform fadd dflt naxes md a in
  (1 <= nm)%nat -> (1 <= s2)%nat ->
  length R = length a /\
  forall q, (q < length a)%nat ->
    ((s2 <= q mod (s2 * nm))%nat -> getK dflt R q = fadd (getK dflt a q) (getK dflt R (q - s2)%nat)) /\
    ((q mod (s2 * nm) < s2)%nat -> getK dflt R q = getK dflt a q).
Proof. exact backtransform_spec. Qed.

Theorem C10_backtransform_length : forall (K : Type) (fadd : K -> K -> K) (dflt : K) (naxes : list nat) (md : nat) (a : list K),
  length (backtransform fadd dflt naxes md a) = length a.
Proof. exact backtransform_length. Qed.

(* monotone for ANY addition with  u >= 0 -> y <= fadd u y  on "finite" values, provided inputs and results are finite *)
Theorem C10_cumsum_monotone_gen : forall (K : Type) (fadd : K -> K -> K) (dflt : K) (le : K -> K -> Prop) (fin nonneg : K -> Prop),
  (forall u y, fin u -> nonneg u -> fin y -> fin (fadd u y) -> le y (fadd u y)) ->
  forall (naxes : list nat) (md : nat) (a : list K),
  wf_call naxes md a ->
  Forall (fun u => fin u /\ nonneg u) a ->
  Forall fin (backtransform fadd dflt naxes md a) ->
  nondecreasing_along dflt le (prodn (firstn md naxes)) (nth md naxes 0%nat) (prodn (skipn (S md) naxes)) (backtransform fadd dflt naxes md a).
Proof. exact backtransform_monotone. Qed.

Section OrderedField.
Context {A : Arith}.
Variable F : OField A.
Notation K := (T A).
Notation le := (@OFieldKit.le A).

(* exact arithmetic: increments >= 0  =>  coefficients non-decreasing along monodim *)
Theorem C10_cumsum_monotone : forall (naxes : list nat) (md : nat) (x : list K),
  wf_call naxes md x -> Forall (fun u => le zero u) x ->
  nondecreasing_along zero le (prodn (firstn md naxes)) (nth md naxes 0%nat) (prodn (skipn (S md) naxes)) (glam_backtransform naxes md x).
Proof. exact (cumsum_monotone_exact F). Qed.

(* rounded arithmetic, abstractly: any rounding operator [rd] that is monotone, idempotent and maps 0 to 0; the increments are
   first stored in the working precision (map rd), every addition is rounded *)
Theorem C10_cumsum_monotone_rnd : forall (rd : K -> K),
  (forall a b, le a b -> le (rd a) (rd b)) -> (forall a, rd (rd a) = rd a) -> rd zero = zero ->
  forall (naxes : list nat) (md : nat) (x : list K),
  wf_call naxes md x -> Forall (fun u => le zero u) x ->
  nondecreasing_along zero le (prodn (firstn md naxes)) (nth md naxes 0%nat) (prodn (skipn (S md) naxes))
                      (backtransform (fun u y => rd (add u y)) zero naxes md (map rd x)).
Proof. exact (cumsum_monotone_rnd F). Qed.

(* the T-spline change of basis is exact: (B tril) inc = B (cumsum inc) for every matrix B with n columns (the basis matrix of
   glamfit_complex and the finite-difference matrix of calc_penalty alike); [tril] = cholmod_tril *)
Theorem C10_tspline_basis : forall (n : nat) (B : list (list K)) (inc : list K),
  Forall (fun r => length r = n) B -> length inc = n ->
  mv (mmulK B (tril n) n) inc = mv B (cumsum inc).
Proof. exact (tspline_basis F). Qed.
Theorem C10_cumsum_diffs : forall c : list K, cumsum (diffs c) = c.
Proof. exact (cumsum_diffs F). Qed.

(* inactive constraint: M z = b with z >= 0 (the unconstrained solution of the T-basis normal equations has non-negative
   increments)  =>  z is the only KKT point, i.e. the NNLS optimum (C11_kkt_unique, C11_kkt_minimises) is z *)
Hypothesis ofZ_two : @ofZ A 2 = add one one.
Theorem C10_inactive_constraint : forall (n : nat) (M : list (list K)) (b z x : list K),
  spd n M -> length b = n -> length z = n -> length x = n ->
  mv M z = b -> C11_Spec.nonneg z -> kkt M b x -> x = z.
Proof. exact (inactive_constraint F ofZ_two). Qed.
(* what the solver's normal exit guarantees is KKT within its tolerance t (C11_block3_exit_kkt): then the objective is within
   2 t sum(z) of the optimum's *)
Theorem C10_inactive_constraint_tol : forall (n : nat) (M : list (list K)) (b z x : list K) (t : K),
  spd n M -> length b = n -> length z = n -> length x = n -> C11_Spec.le zero t ->
  mv M z = b -> C11_Spec.nonneg z -> kkt_tol t M b x ->
  C11_Spec.le (sub (qobj M b x) (qobj M b z)) (mul (add one one) (mul t (vsum z))).
Proof. exact (inactive_constraint_tol F ofZ_two). Qed.
(* the increments of the unconstrained B-spline minimiser solve the transformed (T-basis) system M = L' AB L, b = L' rB *)
Theorem C10_tsystem_solution : forall (M AB : list (list K)) (b rB cstar z : list K) (cums sufsv : list K -> list K),
  (forall v, mv M v = sufsv (mv AB (cums v))) -> b = sufsv rB ->
  mv AB cstar = rB -> cums z = cstar -> mv M z = b.
Proof. exact (tsystem_solution). Qed.
End OrderedField.

(* ---- the system of the monotone fit is the congruence transform of the system of the unconstrained fit (after fix F28_1) ---- *)
(* Vocabulary (MonoFitModel.v, FitModel.v, C09_*.v). [fit_system dims smoothing porders data] = the normal system (matrix, rhs) the
   unconstrained fit hands to cholesky_solve (C09); [fit_system_mono dims md ...] = the system the fit that is monotonic along
   dimension md hands to nnls_normal_block3, built as the code builds it: T-spline basis (basis * cholmod_tril) in slot md of the
   GLAM arithmetic, and calc_penalty with  finitediff * tril  for the term of dimension md and  tril' tril  in slot md of the
   Kronecker product for the terms of the OTHER dimensions (the fix of D28; before, that factor was the identity).
   [Lbig ns md] = I x .. x tril x .. x I (tril in slot md), the cumulative sum along md as a matrix; [vecmat p M n] = the row
   vector p times M (= M' p); [tripleT L n (w, p, z)] = (w, p L, z); [objective_triples] = C09's list of (weight, row, value)
   triples whose weighted residual sum of squares [wrss] is the penalised objective of C09 (data triples ++ penalty triples);
   [nmat n E] = sum w p p', [nrhs n E] = sum w z p. Every theorem: every number of dimensions >= 1, every md (md >= ndim = none). *)
Section MonotoneSystem.
Import FitModel C09_LinAlg C09_Penalty C09_Index C09_Top MonoFitModel C10_Congruence C10_Inactive.
Context {A : Arith}.
Variable F : OField A.
Notation K := (T A).
Notation le := (@OFieldKit.le A).

(* each penalty term: calc_penalty(dim, monodim) = (P_root Lbig)' (P_root Lbig) = Lbig' P_dim Lbig,  P_dim = P_root' P_root (C09_penalty_is_DtD) *)
Theorem C10_penalty_term_in_tbasis : forall (nsplines : list nat) (kn : nat -> K) (dim order porder md : nat), nsplines <> [] ->
  let N := fold_right Nat.mul 1%nat nsplines in
  calc_penalty_mono nsplines kn dim order porder md
  = gram N (mmul (penalty_root nsplines kn dim order porder) (Lbig nsplines md) N).
Proof.
  intros nsplines kn dim order porder md Hne N.
  rewrite (proj1 (calc_penalty_mono_is_gram F nsplines kn dim order porder md Hne)).
  rewrite (penalty_root_mono_is_product F nsplines kn dim order porder md Hne). reflexivity.
Qed.
(* without a monotonic dimension calc_penalty is what it was *)
Theorem C10_calc_penalty_unchanged_without_monodim : forall (nsplines : list nat) (kn : nat -> K) (dim order porder md : nat),
  (length nsplines <= md)%nat -> (dim < length nsplines)%nat ->
  calc_penalty_mono nsplines kn dim order porder md = calc_penalty nsplines kn dim order porder.
Proof. exact (@calc_penalty_mono_none A). Qed.

(* the whole system: the normal system of C09's objective triples in the variables a, c = Lbig a *)
Theorem C10_tsystem_is_congruence : forall (dims : list dimspec) (md : nat) (smoothing : list K) (porders : list nat) (data : list (list N * K * K)),
  dims <> [] ->
  Forall (fun e => valid_idx (map (fun d => N.of_nat (length (ds_coords d))) dims) (fst (fst e))) data ->
  let ns := map ds_nsplines dims in
  let n := fold_right Nat.mul 1%nat ns in
  let ET := map (tripleT (Lbig ns md) n) (objective_triples dims smoothing porders data) in
  fit_system_mono dims md smoothing porders data = (nmat n ET, nrhs n ET) /\ wf_rows n ET.
Proof. exact (fit_system_mono_is_congruence F). Qed.

(* its objective at the T-spline coefficients a is the penalised objective of C09 at the B-spline coefficients Lbig a *)
Theorem C10_tsystem_objective : forall (dims : list dimspec) (md : nat) (smoothing : list K) (porders : list nat) (data : list (list N * K * K)),
  dims <> [] ->
  Forall (fun e => valid_idx (map (fun d => N.of_nat (length (ds_coords d))) dims) (fst (fst e))) data ->
  let ns := map ds_nsplines dims in
  let n := fold_right Nat.mul 1%nat ns in
  forall a, length a = n ->
  wrss (map (tripleT (Lbig ns md) n) (objective_triples dims smoothing porders data)) a
  = add (wrss (data_triples dims data) (matvec (Lbig ns md) a)) (wrss (pen_triples dims smoothing porders) (matvec (Lbig ns md) a)).
Proof. intros dims md smoothing porders data Hd Hv ns n a Ha. exact (mono_objective F dims md smoothing porders data Hd Hv a Ha). Qed.

(* A_T = Lbig' A_B Lbig and r_T = Lbig' r_B, as operators *)
Theorem C10_tsystem_operator : forall (dims : list dimspec) (md : nat) (smoothing : list K) (porders : list nat) (data : list (list N * K * K)),
  dims <> [] ->
  Forall (fun e => valid_idx (map (fun d => N.of_nat (length (ds_coords d))) dims) (fst (fst e))) data ->
  let ns := map ds_nsplines dims in
  let n := fold_right Nat.mul 1%nat ns in
  let sysB := fit_system dims smoothing porders data in
  let sysT := fit_system_mono dims md smoothing porders data in
  (forall a, length a = n -> matvec (fst sysT) a = vecmat (matvec (fst sysB) (matvec (Lbig ns md) a)) (Lbig ns md) n)
  /\ snd sysT = vecmat (snd sysB) (Lbig ns md) n.
Proof. intros dims md smoothing porders data Hd Hv. exact (mono_system_operator F dims md smoothing porders data Hd Hv). Qed.

Hypothesis ofZ_two' : @ofZ A 2 = add one one.
(* THE SECOND SENTENCE OF C10 for the model, exact arithmetic: if the solution c* of the unconstrained fit's normal equations is
   Lbig z with z >= 0 (its increments along md are non-negative: the constraint is inactive) then every KKT point x of the
   non-negative least-squares problem of the monotone fit (what nnls_normal_block3 returns, C11_block3_exit_kkt) is z, and the
   coefficients Lbig x that the back-transformation produces are c*. *)
Theorem C10_inactive_fit_returns_unconstrained : forall (dims : list dimspec) (md : nat) (smoothing : list K) (porders : list nat) (data : list (list N * K * K)),
  dims <> [] ->
  Forall (fun e => valid_idx (map (fun d => N.of_nat (length (ds_coords d))) dims) (fst (fst e))) data ->
  let ns := map ds_nsplines dims in
  let n := fold_right Nat.mul 1%nat ns in
  let sysB := fit_system dims smoothing porders data in
  let sysT := fit_system_mono dims md smoothing porders data in
  forall cstar z x : list K,
  C09_LinAlg.spd n (fst sysT) -> length z = n -> length x = n ->
  matvec (fst sysB) cstar = snd sysB ->
  matvec (Lbig ns md) z = cstar -> C11_Spec.nonneg z ->
  kkt (fst sysT) (snd sysT) x ->
  x = z /\ matvec (Lbig ns md) x = cstar.
Proof.
  intros dims md smoothing porders data Hd Hv ns n sysB sysT cstar z x.
  exact (inactive_fit_returns_unconstrained F dims md smoothing porders data Hd Hv ofZ_two' cstar z x).
Qed.
(* a solution of the T-basis system minimises C09's penalised objective over all coefficient vectors Lbig a *)
Theorem C10_tsystem_solution_minimises : forall (dims : list dimspec) (md : nat) (smoothing : list K) (porders : list nat) (data : list (list N * K * K)),
  dims <> [] ->
  Forall (fun e => valid_idx (map (fun d => N.of_nat (length (ds_coords d))) dims) (fst (fst e))) data ->
  let ns := map ds_nsplines dims in
  let n := fold_right Nat.mul 1%nat ns in
  let sysT := fit_system_mono dims md smoothing porders data in
  let E := objective_triples dims smoothing porders data in
  forall z, length z = n ->
  Forall (fun e => le zero (snd e)) data -> Forall (fun l => le zero l) smoothing ->
  matvec (fst sysT) z = snd sysT ->
  forall a, length a = n -> le (wrss E (matvec (Lbig ns md) z)) (wrss E (matvec (Lbig ns md) a)).
Proof.
  intros dims md smoothing porders data Hd Hv ns n sysT E z Hz Hw Hs Hsol a Ha.
  exact (mono_solution_minimises F dims md smoothing porders data Hd Hv z Hz Hw Hs Hsol a Ha).
Qed.
End MonotoneSystem.

(* ---- IEEE binary32 (Flocq): Bplus, round to nearest even ------------------------------------------------------- *)
Theorem C10_cumsum_monotone_ieee : forall (naxes : list nat) (md : nat) (a : list b32),
  wf_call naxes md a ->
  Forall (fun u => b32_fin u /\ b32_nonneg u) a ->                           (* stored increments finite and >= 0 *)
  Forall b32_fin (backtransform b32_add b32_zero naxes md a) ->               (* no NaN, no overflow *)
  nondecreasing_along b32_zero b32_le (prodn (firstn md naxes)) (nth md naxes 0%nat) (prodn (skipn (S md) naxes))
                      (backtransform b32_add b32_zero naxes md a).
Proof. exact cumsum_monotone_ieee. Qed.
Theorem C10_flocq_round_laws :
  (forall x y, (x <= y)%R -> (rd32 x <= rd32 y)%R) /\ (forall x, rd32 (rd32 x) = rd32 x) /\ rd32 0%R = 0%R.
Proof. exact flocq_round_laws. Qed.
Theorem C10_cumsum_monotone_rd32 : forall (naxes : list nat) (md : nat) (x : list R),
  wf_call naxes md x -> Forall (fun u => (0 <= u)%R) x ->
  nondecreasing_along 0%R Rle (prodn (firstn md naxes)) (nth md naxes 0%nat) (prodn (skipn (S md) naxes))
                      (backtransform (fun u y => rd32 (u + y)%R) 0%R naxes md (map rd32 x)).
Proof. exact cumsum_monotone_rd32. Qed.

(* ---- the surface --------------------------------------------------------------------------------------------- *)
(* Vocabulary (C10_Surface.v): [in_full_support d x] = d is a well-formed dimension (C04's wf_dim) and x lies in a non-empty knot
   interval l with order <= l <= naxes-1 (one-sided as in evaluation: BSpline.side_of); [offs ds m] = sum_e m_e * stride_e;
   [inbox ds m] = 0 <= m_e < naxes_e; [mono_along cf ds j pos] = for every multi-index m of the box with m_j + 1 < naxes_j:
   cf (pos + offs ds m) <= cf (pos + offs ds m + stride_j); [unitv j n] = the derivative-order vector (0,..,1 at j,..,0), which is
   what the bitmask 2^j denotes (C10_unitv_is_bitmask, cf. C02_bitmask_is_derivative_sum: ndsplineeval with that mask returns
   BSpline.spline_spec with these derivative orders). *)
Section SurfaceThms.
Context {A : Arith}.
Variable F : OField A.
Notation K := (T A).
Notation le := (@OFieldKit.le A).

(* B-splines are non-negative (every order, every index whose knots are inside the knot vector, x in any non-empty knot interval) *)
Theorem C10_Bfun_nonneg : forall (kn : Z -> K) (nknots : Z),
  (forall i j, (0 <= i)%Z -> (i <= j)%Z -> (j < nknots)%Z -> le (kn i) (kn j)) ->
  forall (side : bool) (l : Z) (x : K), (0 <= l)%Z -> (l + 1 < nknots)%Z -> in_piece kn side l x ->
  forall (n : nat) (i : Z), (0 <= i)%Z -> (i + Z.of_nat n + 1 < nknots)%Z -> le zero (Bfun kn side n i x).
Proof. exact (Bfun_nonneg F). Qed.

(* int -> field conversion is non-negative on non-negative integers (holds for Qc, R, IEEE doubles) *)
Hypothesis HofZ : forall z, (0 <= z)%Z -> le zero (@ofZ A z).

(* coefficients non-decreasing along dimension j  =>  sum_m c_m dB_{m_j}(x_j) prod_{e <> j} B_{m_e}(x_e) >= 0 at every point of
   the fully supported region; any number of dimensions, any orders (order 0 along j: the sum is 0) *)
Theorem C10_coeff_monotone_implies_surface : forall (t : @table A) (xs : list K) (j : nat),
  Forall2 in_full_support (dims t) xs -> (j < length (dims t))%nat ->
  mono_along (coef t) (dims t) j 0%Z ->
  le zero (spline_spec t xs (unitv j (length (dims t)))).
Proof.
  intros t xs j Hx Hj Hm. unfold spline_spec.
  apply (coeff_monotone_implies_surface F (coef t) HofZ (dims t) xs Hx j 0%Z one Hj (le0_one F) Hm).
Qed.
End SurfaceThms.


(* ---- non-vacuity ---------------------------------------------------------------------------------------------- *)
Definition qz (z : Z) : Qc := Q2Qc (inject_Z z).
(* 2 x 3 array, monodim = 1 (stride2 = 1) and monodim = 0 (stride2 = 3): increments -> coefficients *)
Example C10_example_cumsum :
  @glam_backtransform QcA [2; 3]%nat 1%nat (map qz [1; 0; 2; 0; 1; 0]%Z) = map qz [1; 1; 3; 0; 1; 1]%Z /\
  @glam_backtransform QcA [2; 3]%nat 0%nat (map qz [1; 0; 2; 0; 1; 0]%Z) = map qz [1; 0; 2; 1; 1; 2]%Z /\
  @wf_call Qc [2; 3]%nat 1%nat (map qz [1; 0; 2; 0; 1; 0]%Z) /\
  Forall (fun u => @OFieldKit.le QcA zero u) (map qz [1; 0; 2; 0; 1; 0]%Z).
Proof.
  split; [vm_compute; reflexivity|]. split; [vm_compute; reflexivity|]. split; [split; [cbn; lia|reflexivity]|].
  repeat constructor.
Qed.
(* a decreasing increment list is NOT produced: the conclusion has content (3 > 1 along monodim in the first example) *)
Example C10_example_tspline :
  @mv QcA (@mmulK QcA [map qz [1; 2; 3]%Z; map qz [0; 1; 0]%Z] (@tril QcA 3) 3) (map qz [1; 0; 2]%Z) =
  @mv QcA [map qz [1; 2; 3]%Z; map qz [0; 1; 0]%Z] (@cumsum QcA (map qz [1; 0; 2]%Z)) /\
  @cumsum QcA (map qz [1; 0; 2]%Z) = map qz [1; 1; 3]%Z.
Proof. split; vm_compute; reflexivity. Qed.
(* inactive constraint: M = [[2,1],[1,2]], z = (1,1), b = (3,3): z solves the system, is >= 0, and is KKT *)
Example C10_example_inactive :
  @mv QcA [map qz [2; 1]%Z; map qz [1; 2]%Z] (map qz [1; 1]%Z) = map qz [3; 3]%Z /\
  @C11_Spec.nonneg QcA (map qz [1; 1]%Z) /\
  @kkt QcA [map qz [2; 1]%Z; map qz [1; 2]%Z] (map qz [3; 3]%Z) (map qz [1; 1]%Z).
Proof.
  split; [vm_compute; reflexivity|]. split; [repeat constructor|].
  apply (solution_is_kkt QcA_OField); [vm_compute; reflexivity|reflexivity|repeat constructor].
Qed.

(* the surface theorem's hypotheses are satisfiable: order 2, knots 0..7, coefficients 1,2,5,10,17 (increasing), x = 7/2 in the
   knot interval 3 of the fully supported range [2,5]; and its conclusion has content: the derivative there is 4 > 0 *)
Definition ex_tab10 : @table QcA := @mkTable QcA [@mkDim QcA 2%nat 8 5 1 (fun i => qz i)] (fun i => qz (i * i + 1)).
Example C10_example_surface :
  Forall2 (@in_full_support QcA) (dims ex_tab10) [Q2Qc (7 # 2)] /\
  @mono_along QcA (coef ex_tab10) (dims ex_tab10) 0%nat 0%Z /\
  @spline_spec QcA ex_tab10 [Q2Qc (7 # 2)] (unitv 0 1) = Q2Qc 4.
Proof.
  split; [|split].
  - constructor; [|constructor]. split.
    + unfold wf_dim. cbn [d_order d_nknots d_naxes d_kn]. split; [lia|]. split; [lia|]. split; [intros; exact I|].
      intros i j Hi Hij Hj. unfold qz. apply Qc_leb_le. unfold Qcle. cbn [this Q2Qc]. rewrite !Qred_correct. rewrite <- Zle_Qle. lia.
    + exists 3%Z. split; [cbn [d_order d_naxes]; lia|]. vm_compute. split; reflexivity.
  - intros m Hb Hn. inversion Hb as [|d i ds ms Hi Hrest]; subst. inversion Hrest; subst. cbn [nth offs dims ex_tab10 d_stride d_naxes coef] in *.
    unfold qz. apply Qc_leb_le. unfold Qcle. cbn [this Q2Qc]. rewrite !Qred_correct. rewrite <- Zle_Qle. nia.
  - vm_compute. reflexivity.
Qed.

(* the monotone system on a concrete instance: 2 dimensions, linear splines, 2 x 3 coefficients, irregular knots, smoothing 1 and
   penalty order 1 in BOTH dimensions, four data entries; monotonic along dimension 1 and along dimension 0. The hypotheses of
   C10_tsystem_is_congruence hold; evaluated at Qc the matrix IS Lbig' A Lbig with A the matrix of the unconstrained fit, and Lbig a
   is the cumulative sum along the monotonic dimension (= MonoModel.backtransform in exact arithmetic). The penalty term of the
   other dimension differs from the B-basis term that the code used before fix F28_1 (entry (0,0): 3 = 1 * (tril' tril)[0][0] instead of 1). *)
Module Ex.
Import FitModel C09_LinAlg C09_Penalty C09_Index C09_Top MonoFitModel C10_Congruence.
Definition exq (a : Z) (b : positive) : T QcA := Q2Qc (a # b).
Definition exdims : list (@dimspec QcA) :=
  [ mkDim 1 [exq 0 1; exq 1 1; exq 2 1; exq 3 1] [exq 1 2; exq 3 2; exq 5 2];
    mkDim 1 [exq 0 1; exq 2 1; exq 3 1; exq 5 1; exq 6 1] [exq 1 1; exq 5 2] ].
Definition exdata : list (list N * T QcA * T QcA) :=
  [ ([0; 0]%N, exq 1 1, exq 2 1); ([1; 1]%N, exq 3 1, exq 1 1); ([2; 0]%N, exq (-1) 1, exq 1 2); ([1; 1]%N, exq 2 1, exq 3 1) ].
Definition exsm : list (T QcA) := [exq 1 1; exq 1 1].
Definition exL (md : nat) : list (list (T QcA)) := Lbig [2; 3]%nat md.
Example C10_example_tsystem :
  exdims <> []
  /\ Forall (fun e => valid_idx (map (fun d => N.of_nat (length (ds_coords d))) exdims) (fst (fst e))) exdata
  /\ map ds_nsplines exdims = [2; 3]%nat
  /\ (forall md, In md [0; 1]%nat ->
        fst (fit_system_mono exdims md exsm [1; 1]%nat exdata)
        = mmul (transpose 6 (exL md)) (mmul (fst (fit_system exdims exsm [1; 1]%nat exdata)) (exL md) 6) 6
        /\ snd (fit_system_mono exdims md exsm [1; 1]%nat exdata) = vecmat (snd (fit_system exdims exsm [1; 1]%nat exdata)) (exL md) 6
        /\ matvec (exL md) (map qz [1; 0; 2; 0; 1; 0]%Z) = @glam_backtransform QcA [2; 3]%nat md (map qz [1; 0; 2; 0; 1; 0]%Z))
  /\ fst (fit_system_mono exdims 1 exsm [1; 1]%nat exdata) <> fst (fit_system exdims exsm [1; 1]%nat exdata)
  /\ nth 0 (nth 0 (calc_penalty_mono (A := QcA) [2; 3]%nat (fun i => exq (Z.of_nat i) 1) 0 1 1 1) []) zero = exq 3 1
  /\ nth 0 (nth 0 (calc_penalty (A := QcA) [2; 3]%nat (fun i => exq (Z.of_nat i) 1) 0 1 1) []) zero = exq 1 1.
Proof.
  split; [discriminate|]. split; [vm_compute; repeat constructor|]. split; [reflexivity|]. split.
  - intros md [<-|[<-|[]]]; (split; [apply C10_Inactive.qc_mat_this_inj; vm_compute; reflexivity|]; split; apply C10_Inactive.qc_list_this_inj; vm_compute; reflexivity).
  - split; [|split; vm_compute; reflexivity].
    intro H. apply (f_equal (fun M : list (list Qc) => this (nth 0 (nth 0 M []) (Q2Qc 0)))) in H. vm_compute in H. discriminate H.
Qed.
End Ex.

Print Assumptions C10_backtransform_spec.
Print Assumptions C10_backtransform_length.
Print Assumptions C10_cumsum_monotone_gen.
Print Assumptions C10_cumsum_monotone.
Print Assumptions C10_cumsum_monotone_rnd.
Print Assumptions C10_tspline_basis.
Print Assumptions C10_cumsum_diffs.
Print Assumptions C10_inactive_constraint.
Print Assumptions C10_inactive_constraint_tol.
Print Assumptions C10_tsystem_solution.
Print Assumptions C10_cumsum_monotone_ieee.
Print Assumptions C10_flocq_round_laws.
Print Assumptions C10_cumsum_monotone_rd32.
Print Assumptions C10_Bfun_nonneg.
Print Assumptions C10_coeff_monotone_implies_surface.
Print Assumptions C10_penalty_term_in_tbasis.
Print Assumptions C10_calc_penalty_unchanged_without_monodim.
Print Assumptions C10_tsystem_is_congruence.
Print Assumptions C10_tsystem_objective.
Print Assumptions C10_tsystem_operator.
Print Assumptions C10_inactive_fit_returns_unconstrained.
Print Assumptions C10_tsystem_solution_minimises.
