(* C08_Proofs.v — proofs about WriteModel.v (error propagation of the writers; crash states of the write schedule). *)
From Coq Require Import List NArith ZArith Bool Arith Lia.
From PS Require Import Generated_fits FitsModel FitsWf WriteModel C06_Proofs C06_L1.
Import ListNotations.
Local Open Scope nat_scope.

(* ================================================================================================ *)
(* Part A: error propagation *)

Lemma first_fault_none fails : forall n k, first_fault fails k n = None <-> (forall i, i < n -> fails (k + i) = false).
Proof.
  induction n as [|n IH]; intros k; simpl.
  - split; [intros _ i Hi; lia | reflexivity].
  - destruct (fails k) eqn:Hk.
    + split; [discriminate|]. intros H. specialize (H 0 ltac:(lia)). rewrite Nat.add_0_r in H. congruence.
    + rewrite IH. split; intros H i Hi.
      * destruct i as [|i]; [rewrite Nat.add_0_r; exact Hk|]. replace (k + S i) with (S k + i) by lia. apply H. lia.
      * replace (S k + i) with (k + S i) by lia. apply H. lia.
Qed.

Lemma first_fault_some fails : forall n k j, first_fault fails k n = Some j ->
  k <= j < k + n /\ fails j = true /\ (forall i, k <= i < j -> fails i = false).
Proof.
  induction n as [|n IH]; intros k j; simpl; [discriminate|].
  destruct (fails k) eqn:Hk.
  - intros [= <-]. repeat split; try lia. exact Hk.
  - intros H. apply IH in H. destruct H as (Hr & Hj & Hb). repeat split; try lia; [exact Hj|].
    intros i Hi. destruct (Nat.eq_dec i k) as [->|Hne]; [exact Hk|]. apply Hb. lia.
Qed.

Lemma run_steps_all_checked fails : forall l k, forallb s_checked l = true ->
  run_steps fails k None l = match first_fault fails k (length l) with Some j => Failed j | None => Success end.
Proof.
  induction l as [|s r IH]; intros k Hc; simpl; [reflexivity|].
  simpl in Hc. apply andb_prop in Hc. destruct Hc as [Hs Hr]. rewrite Hs.
  destruct (fails k); [reflexivity|]. apply IH. exact Hr.
Qed.

Lemma forallb_repeat {A} (P : A -> bool) x n : P x = true -> forallb P (repeat x n) = true.
Proof. intros H. induction n; simpl; [reflexivity|]. now rewrite H. Qed.

Lemma forallb_concat_repeat {A} (P : A -> bool) l n : forallb P l = true -> forallb P (concat (repeat l n)) = true.
Proof. intros H. induction n; simpl; [reflexivity|]. rewrite forallb_app. now rewrite H. Qed.

Lemma core_steps_checked t : forallb s_checked (core_steps t) = true.
Proof.
  unfold core_steps. repeat rewrite forallb_app.
  repeat (apply andb_true_intro; split); try reflexivity; try (apply forallb_repeat; reflexivity).
  - destruct (t_periods t); [apply forallb_repeat|]; reflexivity.
  - apply forallb_concat_repeat. reflexivity.
  - destruct (t_extents t); reflexivity.
Qed.

Lemma steps_checked w t : forallb s_checked (steps w t) = true.
Proof.
  unfold steps. cbn [forallb]. rewrite forallb_app, core_steps_checked. destruct w; reflexivity.
Qed.

Lemma run_writer_char w t fails :
  run_writer w t fails = match first_fault fails 0 (nsteps w t) with Some j => Failed j | None => Success end.
Proof. unfold run_writer, nsteps. apply run_steps_all_checked, steps_checked. Qed.

Theorem success_implies_all_ok w t fails :
  run_writer w t fails = Success -> forall k, k < nsteps w t -> fails k = false.
Proof.
  rewrite run_writer_char. destruct (first_fault fails 0 (nsteps w t)) eqn:E; [discriminate|].
  intros _ k Hk. rewrite first_fault_none in E. apply (E k Hk).
Qed.

Theorem all_ok_implies_success w t fails :
  (forall k, k < nsteps w t -> fails k = false) -> run_writer w t fails = Success.
Proof.
  intros H. rewrite run_writer_char.
  destruct (first_fault fails 0 (nsteps w t)) eqn:E; [|reflexivity].
  apply first_fault_some in E. destruct E as (Hr & Hj & _). rewrite H in Hj by lia. discriminate.
Qed.

Theorem failure_is_first_fault w t fails j :
  run_writer w t fails = Failed j <-> (j < nsteps w t /\ fails j = true /\ forall i, i < j -> fails i = false).
Proof.
  rewrite run_writer_char. split.
  - destruct (first_fault fails 0 (nsteps w t)) eqn:E; [|discriminate]. intros [= ->].
    apply first_fault_some in E. destruct E as (Hr & Hj & Hb). repeat split; try lia; [exact Hj|].
    intros i Hi. apply Hb. lia.
  - intros (Hlt & Hj & Hb). destruct (first_fault fails 0 (nsteps w t)) eqn:E.
    + apply first_fault_some in E. destruct E as (Hr & Hn & Hbn).
      destruct (Nat.lt_trichotomy n j) as [Hl|[->|Hg]]; [|reflexivity|].
      * rewrite Hb in Hn by exact Hl. discriminate.
      * rewrite Hbn in Hj by lia. discriminate.
    + rewrite first_fault_none in E. pose proof (E j Hlt) as E0. cbn [Nat.add] in E0. rewrite E0 in Hj. discriminate.
Qed.

(* the code before the fixes *)
Lemma run_steps_old_skip fails : forall l k r, (forall i, i < length l -> fails (k + i) = false) ->
  run_steps_old fails k (l ++ r) = run_steps_old fails (k + length l) r.
Proof.
  induction l as [|s l IH]; intros k r H; simpl.
  - now rewrite Nat.add_0_r.
  - pose proof (H 0 ltac:(simpl; lia)) as H0. rewrite Nat.add_0_r in H0. rewrite H0, andb_false_r.
    rewrite IH; [f_equal; lia|]. intros i Hi. replace (S k + i) with (k + S i) by lia. apply H. simpl. lia.
Qed.

Definition close_index_old (w : writer) (t : table) : nat := length (steps_old w t) - 1.

Theorem old_close_error_swallowed w t :
  close_index_old w t < length (steps_old w t) /\
  nth_error (steps_old w t) (close_index_old w t) = Some (unchk CClose) /\
  run_writer_old w t (fun k => k =? close_index_old w t) = Success.
Proof.
  unfold close_index_old, run_writer_old, steps_old.
  set (x := match w with WFile => chk CCreateFile | WMem => unchk CCreateMem end).
  change (x :: core_steps_old t ++ [unchk CClose]) with ((x :: core_steps_old t) ++ [unchk CClose]).
  set (l := x :: core_steps_old t).
  rewrite app_length. cbn [length]. replace (length l + 1 - 1) with (length l) by lia.
  split; [lia|]. split.
  - rewrite nth_error_app2 by lia. now rewrite Nat.sub_diag.
  - rewrite run_steps_old_skip.
    + reflexivity.
    + intros i Hi. apply Nat.eqb_neq. lia.
Qed.

(* ================================================================================================ *)
(* Part B: crash states *)

(* --- the sequential schedule: crash states are the prefixes of the final bytes --- *)
Lemma crash_of_firstn final k : k <= length final -> crash_of final k = firstn k final.
Proof.
  intros Hk. unfold crash_of, sched_of, apply_sched. cbn [take_sched].
  apply Nat.leb_le in Hk. rewrite Hk. cbn [fold_left apply_write firstn skipn length repeat].
  rewrite Nat.sub_0_r. cbn [repeat app]. destruct (0 + length (firstn k final)); now rewrite app_nil_r.
Qed.

Lemma total_sched_of final : total (sched_of final) = length final.
Proof. unfold total, sched_of. simpl. lia. Qed.

(* --- the decoder only looks at the bytes it consumes: success is stable under appending bytes and adding fuel --- *)
Lemma firstn_app_full {A} (p q : list A) n : length (firstn n p) = n -> firstn n (p ++ q) = firstn n p.
Proof.
  intros H. rewrite firstn_app. rewrite firstn_length in H.
  replace (n - length p) with 0 by lia. now rewrite firstn_O, app_nil_r.
Qed.

Lemma skipn_app_full {A} (p q : list A) n : n <= length p -> skipn n (p ++ q) = skipn n p ++ q.
Proof. intros H. rewrite skipn_app. replace (n - length p) with 0 by lia. reflexivity. Qed.

Lemma read_cards_stable : forall fuel fuel' p q n cs m r, fuel <= fuel' ->
  read_cards fuel p n = Ok (cs, m, r) -> read_cards fuel' (p ++ q) n = Ok (cs, m, r ++ q).
Proof.
  induction fuel as [|f IH]; intros fuel' p q n cs m r Hf; [discriminate|].
  destruct fuel' as [|f']; [lia|]. cbn [read_cards].
  destruct (length (firstn 80 p) <? 80) eqn:Hl; [discriminate|].
  apply Nat.ltb_ge in Hl.
  assert (Hlen : length (firstn 80 p) = 80) by (pose proof (firstn_le_length 80 p); lia).
  assert (Hp : 80 <= length p) by (rewrite firstn_length in Hlen; lia).
  rewrite (firstn_app_full p q 80 Hlen), (skipn_app_full p q 80 Hp).
  replace (length (firstn 80 p) <? 80) with false by (symmetry; apply Nat.ltb_ge; lia).
  destruct (is_end (firstn 80 p)).
  - intros [= <- <- <-]. reflexivity.
  - destruct (read_cards f (skipn 80 p) (S n)) as [[[cs' m'] r']|e] eqn:E; [|discriminate].
    cbn [bind]. intros [= <- <- <-].
    rewrite (IH f' (skipn 80 p) q (S n) cs' m' r' ltac:(lia) E). reflexivity.
Qed.

Lemma take_words_stable ws : forall n p q w r,
  take_words ws n p = Ok (w, r) -> take_words ws n (p ++ q) = Ok (w, r ++ q).
Proof.
  induction n as [|n IH]; intros p q w r; cbn [take_words].
  - intros [= <- <-]. reflexivity.
  - destruct (length (firstn ws p) <? ws) eqn:Hl; [discriminate|].
    apply Nat.ltb_ge in Hl.
    assert (Hlen : length (firstn ws p) = ws) by (pose proof (firstn_le_length ws p); lia).
    assert (Hp : ws <= length p) by (rewrite firstn_length in Hlen; lia).
    rewrite (firstn_app_full p q ws Hlen), (skipn_app_full p q ws Hp).
    replace (length (firstn ws p) <? ws) with false by (symmetry; apply Nat.ltb_ge; lia).
    destruct (take_words ws n (skipn ws p)) as [[w' r']|e] eqn:E; [|discriminate].
    cbn [bind fst snd]. intros [= <- <-]. rewrite (IH _ q _ _ E). reflexivity.
Qed.

Lemma take_words_nil ws n w r : 0 < ws -> take_words ws n [] = Ok (w, r) -> n = 0 /\ w = [] /\ r = [].
Proof.
  intros Hws. destruct n; cbn [take_words].
  - intros [= <- <-]. auto.
  - rewrite firstn_nil. cbn [length]. replace (0 <? ws) with true by (symmetry; apply Nat.ltb_lt; lia). discriminate.
Qed.

Lemma word_size_pos bp ws : word_size bp = Some ws -> 0 < ws.
Proof.
  unfold word_size. destruct bp as [|p|p]; try discriminate;
    repeat (destruct p as [p|p|]; try discriminate); intros [= <-]; lia.
Qed.

(* decode_hdu: the same HDU is decoded from any extension of the bytes; what is left over extends what was left over *)
Lemma decode_hdu_stable fuel fuel' p q h r2 : fuel <= fuel' ->
  decode_hdu fuel p = Ok (h, r2) -> exists q', decode_hdu fuel' (p ++ q) = Ok (h, r2 ++ q').
Proof.
  intros Hf. unfold decode_hdu.
  destruct (read_cards fuel p 0) as [[[cs nc] r]|e] eqn:E; [|discriminate]. cbn [bind].
  rewrite (read_cards_stable fuel fuel' p q 0 cs nc r Hf E). cbn [bind].
  destruct (hdu_layout cs) as [ly|e]; [|discriminate]. cbn [bind].
  destruct (word_size (l_bitpix ly)) as [ws|] eqn:Ews; [|discriminate].
  set (hp := pad_len (nc * 80)). set (nw := N.to_nat (layout_words ly)).
  destruct (take_words ws nw (skipn hp r)) as [[w r']|e] eqn:Et; [|discriminate]. cbn [bind fst snd].
  intros [= <- <-].
  destruct (Nat.le_gt_cases hp (length r)) as [Hle|Hgt].
  - rewrite (skipn_app_full r q hp Hle). rewrite (take_words_stable ws nw _ q _ _ Et). cbn [bind fst snd].
    set (dp := pad_len (nw * ws)).
    destruct (Nat.le_gt_cases dp (length r')) as [Hle2|Hgt2].
    + rewrite (skipn_app_full r' q dp Hle2). eexists. reflexivity.
    + rewrite (skipn_all2 r') by lia. cbn [app]. eexists. reflexivity.
  - rewrite (skipn_all2 r) in Et by lia.
    destruct (take_words_nil ws nw w r' (word_size_pos _ _ Ews) Et) as (Hn & -> & ->).
    rewrite Hn. cbn [take_words bind fst snd]. rewrite skipn_nil. cbn [app]. eexists. reflexivity.
Qed.

(* a prefix of a byte string decodes to a prefix of the HDUs the whole string decodes to — never to a different HDU *)
Lemma decode_hdus_prefix : forall f f' p q, f <= f' ->
  exists j, fst (decode_hdus f p) = firstn j (fst (decode_hdus f' (p ++ q))).
Proof.
  induction f as [|f IH]; intros f' p q Hf.
  - exists 0. reflexivity.
  - destruct f' as [|f']; [lia|].
    destruct p as [|b p]; [exists 0; reflexivity|].
    change ((b :: p) ++ q) with (b :: (p ++ q)).
    cbn [decode_hdus].
    change (b :: p ++ q) with ((b :: p) ++ q).
    set (P := b :: p).
    destruct (decode_hdu (S (length P / 80)) P) as [[h r]|e] eqn:E; [|exists 0; reflexivity].
    assert (Hfuel : S (length P / 80) <= S (length (P ++ q) / 80)).
    { apply le_n_S, Nat.div_le_mono; [lia|]. rewrite app_length. lia. }
    destruct (decode_hdu_stable _ _ P q h r Hfuel E) as [q' E'].
    rewrite E'.
    destruct (IH f' r q' ltac:(lia)) as [j Hj].
    destruct (decode_hdus f r) as [hs e1]. destruct (decode_hdus f' (r ++ q')) as [hs' e2].
    cbn [fst] in *. exists (S j). cbn [firstn]. now rewrite Hj.
Qed.

Lemma decode_prefix_prefix p q : exists j, fst (decode_prefix p) = firstn j (fst (decode_prefix (p ++ q))).
Proof.
  unfold decode_prefix. apply decode_hdus_prefix.
  apply le_n_S, Nat.div_le_mono; [lia|]. rewrite app_length. lia.
Qed.

(* --- the reader on a prefix of the HDU list --- *)
Lemma find_firstn {A} (P : A -> bool) : forall l j, find P (firstn j l) = None \/ find P (firstn j l) = find P l.
Proof.
  induction l as [|a l IH]; intros j; [rewrite firstn_nil; now left|].
  destruct j; [now left|]. cbn [firstn find]. destruct (P a); [now right|apply IH].
Qed.

Lemma read_knots_firstn d j i : (exists e, read_knots (firstn j d) i = Error e) \/ read_knots (firstn j d) i = read_knots d i.
Proof.
  unfold read_knots, find_hdu. destruct (find_firstn (name_matches (keyn s_KNOTS i)) d j) as [H|H]; rewrite H.
  - left. eexists. reflexivity.
  - now right.
Qed.

Lemma traverse_either {A B} (f g : A -> fres B) : (forall a, (exists e, f a = Error e) \/ f a = g a) ->
  forall l, (exists e, traverse f l = Error e) \/ traverse f l = traverse g l.
Proof.
  intros H. induction l as [|a l IH]; [now right|]. cbn [traverse].
  destruct (H a) as [[e He]|He]; rewrite He.
  - left. eexists. reflexivity.
  - destruct (g a) as [b|e]; cbn [bind]; [|now right].
    destruct IH as [[e He2]|He2]; rewrite He2.
    + left. eexists. reflexivity.
    + now right.
Qed.

Lemma of_doc_firstn d b j : of_doc d = Ok b ->
  (exists e, of_doc (firstn j d) = Error e) \/ (exists a, of_doc (firstn j d) = Ok a /\ same_okc a b).
Proof.
  destruct d as [|h0 rest]; [discriminate|].
  destruct j as [|j]; [intros _; left; eexists; reflexivity|].
  cbn [firstn]. unfold of_doc.
  destruct (hdu_layout (h_cards h0)) as [ly|e]; [|discriminate]. cbn [bind].
  destruct (l_kind ly); try discriminate.
  - destruct (length (l_axes ly) <? 1); [discriminate|].
    destruct (read_orders (length (l_axes ly)) (h_cards h0)) as [orders|e]; [|discriminate]. cbn [bind].
    destruct (negb (l_bitpix ly =? -32)%Z); [discriminate|].
    destruct (length (h_data h0) <? _); [discriminate|].
    set (idx := map N.of_nat (seq 0 (length (l_axes ly)))).
    destruct (traverse_either (read_knots (h0 :: firstn j rest)) (read_knots (h0 :: rest))
                (fun i => read_knots_firstn (h0 :: rest) (S j) i) idx) as [[e He]|He]; rewrite He.
    + intros _. left. eexists. reflexivity.
    + destruct (traverse (read_knots (h0 :: rest)) idx) as [knots|e]; [|discriminate]. cbn [bind].
      destruct (read_extents (h0 :: rest) _ orders knots) as [ext|e]; [|discriminate]. cbn [bind].
      intros [= <-].
      destruct (read_extents (h0 :: firstn j rest) _ orders knots) as [ext'|e']; cbn [bind].
      * right. eexists. split; [reflexivity|]. unfold same_okc. cbn. auto.
      * left. eexists. reflexivity.
  - destruct (length (l_axes ly) <? 1); [discriminate|].
    destruct (read_orders (length (l_axes ly)) (h_cards h0)) as [orders|e]; [|discriminate]. cbn [bind].
    destruct (negb (l_bitpix ly =? -32)%Z); [discriminate|].
    destruct (length (h_data h0) <? _); [discriminate|].
    set (idx := map N.of_nat (seq 0 (length (l_axes ly)))).
    destruct (traverse_either (read_knots (h0 :: firstn j rest)) (read_knots (h0 :: rest))
                (fun i => read_knots_firstn (h0 :: rest) (S j) i) idx) as [[e He]|He]; rewrite He.
    + intros _. left. eexists. reflexivity.
    + destruct (traverse (read_knots (h0 :: rest)) idx) as [knots|e]; [|discriminate]. cbn [bind].
      destruct (read_extents (h0 :: rest) _ orders knots) as [ext|e]; [|discriminate]. cbn [bind].
      intros [= <-].
      destruct (read_extents (h0 :: firstn j rest) _ orders knots) as [ext'|e']; cbn [bind].
      * right. eexists. split; [reflexivity|]. unfold same_okc. cbn. auto.
      * left. eexists. reflexivity.
Qed.

(* --- any prefix of any file the reader accepts is rejected or loads with the same orders, knots, coefficients --- *)
Theorem prefix_safe final tf k : read_bytes final = Ok tf ->
  match read_bytes (firstn k final) with Error _ => True | Ok t' => same_okc t' tf end.
Proof.
  intros Hfull. unfold read_bytes in *.
  destruct (decode_prefix_prefix (firstn k final) (skipn k final)) as [j Hj].
  rewrite firstn_skipn in Hj. rewrite Hj.
  destruct (of_doc_firstn _ tf j Hfull) as [[e He]|[a [Ha Hs]]].
  - now rewrite He.
  - now rewrite Ha.
Qed.

Lemma same_okc_trans a b c : same_okc a b -> same_okc b c -> same_okc a c.
Proof. unfold same_okc. intros (?&?&?&?&?) (?&?&?&?&?). repeat split; congruence. Qed.
Lemma same_okc_sym a b : same_okc a b -> same_okc b a.
Proof. unfold same_okc. intros (?&?&?&?&?). repeat split; congruence. Qed.

Lemma lists_eqb_eq : forall a b, lists_eqb a b = true -> a = b.
Proof.
  induction a as [|x a IH]; destruct b as [|y b]; cbn [lists_eqb]; try discriminate; [reflexivity|].
  intros H. apply andb_prop in H. destruct H as [H1 H2]. unfold list_eqb in H1. apply str_eqb_eq in H1.
  f_equal; [exact H1|apply IH, H2].
Qed.

Lemma same_okc_b_sound a b : same_okc_b a b = true -> same_okc a b.
Proof.
  unfold same_okc_b, same_okc, list_eqb. intros H.
  repeat (apply andb_prop in H; destruct H as [H ?]).
  repeat split; try (now apply str_eqb_eq); now apply lists_eqb_eq.
Qed.

(* crash states of the writer on cfitsio's bytes *)
Theorem crash_safe t : complete_reads_back t = true -> forall k, k < total (sched t) ->
  match read_bytes (crash t k) with Error _ => True | Ok t' => same_okc t t' end.
Proof.
  unfold complete_reads_back. intros H k Hk.
  destruct (read_bytes (cf_bytes t)) as [tf|e] eqn:E; [|discriminate].
  apply same_okc_b_sound in H. unfold sched in Hk. rewrite total_sched_of in Hk.
  unfold crash. rewrite crash_of_firstn by lia.
  pose proof (prefix_safe (cf_bytes t) tf k E) as P.
  destruct (read_bytes (firstn k (cf_bytes t))); [|exact I].
  apply (same_okc_trans _ tf); [exact H|apply same_okc_sym, P].
Qed.

(* the same for the model's own encoding (FitsModel.to_bytes), where the complete-file round trip is C06's theorem *)
Theorem crash_safe_model t : wf_table t = true -> wf_doc (to_doc t) = true -> forall k,
  match read_bytes (crash_of (to_bytes t) k) with Error _ => True | Ok t' => same_okc t t' end.
Proof.
  intros Hwf Hdoc k.
  destruct (roundtrip_bytes t Hwf Hdoc) as (tf & _ & Hread & Heq).
  assert (Hs : same_okc t tf).
  { unfold table_eq_upto_padding in Heq. unfold same_okc. intuition congruence. }
  destruct (Nat.le_gt_cases k (length (to_bytes t))) as [Hle|Hgt].
  - rewrite crash_of_firstn by exact Hle.
    pose proof (prefix_safe (to_bytes t) tf k Hread) as P.
    destruct (read_bytes (firstn k (to_bytes t))); [|exact I].
    apply (same_okc_trans _ tf); [exact Hs|apply same_okc_sym, P].
  - unfold crash_of, sched_of, apply_sched. cbn [take_sched].
    replace (k <=? length (to_bytes t)) with false by (symmetry; apply Nat.leb_gt; lia).
    cbn [take_sched fold_left apply_write firstn skipn length repeat].
    rewrite Nat.sub_0_r. cbn [repeat app].
    replace (skipn (0 + length (to_bytes t)) []) with (@nil N) by (now rewrite skipn_nil).
    rewrite app_nil_r. rewrite Hread. exact Hs.
Qed.
