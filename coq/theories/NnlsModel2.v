(* NnlsModel2.v — executable models of the other three NNLS solvers of src/fitter/nnls.c (C11):

     [pjv_run]  nnls_normal_block        (nnls.c:275-470)  and
                nnls_normal_block_updown (nnls.c:488-749): Portugal/Judice/Vicente block pivoting with the
                fall-back to Murty's single-pivot method. The two functions differ in (a) one disjunct of the
                "progress" test (parameter [escape]), (b) how the reduced system is solved (cholesky_solve on the
                submatrix / modify_factor + cholmod_l_solve on an up/down-dated factor — both are the ONE abstract
                operation [solve] here, as in NnlsModel.v), (c) the order in which x and y are written (the same
                final values: F and G partition the indices). The in-place set surgery of nnls_normal_block
                (:389-407) and of modify_factor_p (cholesky_solve.c:308-366) is the same code: [remove_ordered].
     [lh_run]   nnls_lawson_hanson (nnls.c:36-258), branch `normaleq != 0` (the pre-formulated normal equations);
                P and Z are lists in the order of the C arrays (that order decides ties).

   Same conventions as NnlsModel.v: polymorphic in [A : Arith]; exact at [QcA]; CHOLMOD/SPQR are replaced by the
   verified exact reduced solve [solve_checked]. The exit tests and tolerances are parameters here; the instances
   [pjv_block], [pjv_updown] take them from Generated_nnls.v (written from the source by tools/translators/nnls.py).
   No proofs in this file. *)
From Coq Require Import List ZArith Bool PeanoNat.
From PS Require Import Arith Generated_nnls NnlsModel.
Import ListNotations.

Section Nnls2.
Context {A : Arith}.
Notation K := (T A).

(* nnls.c:389-394 / :398-403 and cholesky_solve.c:308-317 / :337-342
     for (i = 0, j = 0; i < nH; i++) { ...; while (F[j] != H[i]) j++; for (k = j+i; k+1 < nF; k++) F[k-i] = F[k-i+1]; }
   one pointer j walks F once; each element of H, met in this order, is deleted ("exploiting the fact that H1
   elements are in order relative to their order in F"). When H is not a subsequence of F the C code runs off the
   end of the array; the model then simply keeps the rest. *)
Fixpoint remove_ordered (F H : list nat) : list nat :=
  match F with
  | [] => []
  | f :: F' =>
      match H with
      | [] => F
      | h :: H' => if Nat.eqb f h then remove_ordered F' H' else f :: remove_ordered F' H
      end
  end.

(* ---- nnls_normal_block / nnls_normal_block_updown ---------------------------------------------------- *)
Inductive pevent :=
| PvStuck (trials : Z) (nH1 nH2 : nat)       (* "Stuck! trials: %d nH1: %d nH2: %d" *)
| PvH1 (i : nat)                             (* "H1: %d (%e)"  — Murty step binds coefficient i *)
| PvH2 (i : nat)                             (* "H2: %d (%e)"  — Murty step frees coefficient i *)
| PvIter (k ninf : nat)                      (* "Iteration %d Infeasibles: %d" *)
| PvSolve (nF : nat).                        (* "Unconstrained solve for %d of %d coefficients" *)

Record pstate := mkP {
  p_x : list K; p_y : list K; p_F : list nat; p_G : list nat;
  p_ninf : nat; p_trials : Z; p_murty : nat; p_trace : list pevent }.

Record presult := mkPR { pr_x : list K; pr_exit : exit_kind; pr_iters : nat; pr_trace : list pevent; pr_F : list nat }.

Section Pjv.
Variable escape : bool.        (* true: `nH2 + nH1 < ninf || trials < -murty_steps` (block); false: `nH2 + nH1 < ninf` (updown) *)
Variable exit_both : bool.     (* exit test: true: `nH1 == 0 && nH2 == 0`; false: `nH2 == 0` (not in the tree; for experiments) *)
Variable max_trials : nat.     (* MAX_TRIALS *)
Variable solve : list nat -> option (list K).
Variable M : list (list K).    (* AtA *)
Variable b : list K.           (* Atb *)
Variable tol : K.              (* KKT_TOL *)

(* nnls.c:361-377 / :590-611: Murty's method picks the LAST infeasible coordinate *)
Definition murty_pick (H1 H2 : list nat) (tr : list pevent) : list nat * list nat * list pevent :=
  match H2, H1 with
  | [], [] => ([], [], tr)                                         (* not reachable behind the exit test of the tree *)
  | [], _ => ([last H1 0], [], PvH1 (last H1 0) :: tr)              (* nH2 == 0: goto maxh1 *)
  | _, [] => ([], [last H2 0], PvH2 (last H2 0) :: tr)              (* nH1 == 0: goto maxh2 *)
  | _, _ => if Nat.ltb (last H2 0) (last H1 0)                      (* H1[nH1 - 1] > H2[nH2 - 1] *)
            then ([last H1 0], [], PvH1 (last H1 0) :: tr)
            else ([], [last H2 0], PvH2 (last H2 0) :: tr)
  end.

(* nnls.c:335-379 / :563-612: block switching while it makes progress, else (after MAX_TRIALS passes without
   progress, or when few infeasibilities are left) Murty's method. Returns murty_steps, ninf, trials, H1, H2 *)
Definition pjv_decide (s : pstate) (H1 H2 : list nat) : nat * nat * Z * list nat * list nat * list pevent :=
  (* :335-336 / :563-564 *)
  let trials := if Nat.leb (p_ninf s) (p_murty s) then (-1)%Z else p_trials s in
  let nH := length H2 + length H1 in
  (* :343-379 / :572-612 *)
  if Nat.ltb (p_murty s) (p_ninf s) &&
     (Nat.ltb nH (p_ninf s) || (escape && Z.ltb trials (- Z.of_nat (p_murty s))))
  then ((if Nat.leb nH (p_ninf s) then S (p_murty s) else p_murty s), nH, Z.of_nat max_trials, H1, H2, p_trace s)
  else
    let trials := (trials - 1)%Z in
    let tr := PvStuck trials (length H1) (length H2) :: p_trace s in
    if Z.ltb trials 0 then
      let '(H1, H2, tr) := murty_pick H1 H2 tr in (p_murty s, p_ninf s, trials, H1, H2, tr)
    else (p_murty s, p_ninf s, trials, H1, H2, tr).

(* nnls.c:381-456 / :614-731: move H1 from F to G and H2 from G to F, solve on F, update x and y.
   [k] = 3*nvar - iter, the number printed. None: the reduced solve failed (model only). *)
Definition pjv_update (k : nat) (s : pstate) (murty ninf : nat) (trials : Z) (H1 H2 : list nat) (tr : list pevent)
  : option pstate :=
  let tr := PvIter k ninf :: tr in
  (* :389-407 / modify_factor_p: G += H1, F -= H1, F += H2, G -= H2, qsort both *)
  let G1 := p_G s ++ H1 in
  let F1 := remove_ordered (p_F s) H1 in
  let F2 := F1 ++ H2 in
  let G2 := remove_ordered G1 H2 in
  let G' := sort_nat G2 in
  let F' := sort_nat F2 in
  let tr := PvSolve (length F') :: tr in
  (* :414-421 cholesky_solve(AtA_F, Atb_F) / :636-670 modify_factor + cholmod_l_solve *)
  match solve F' with
  | None => None
  | Some xF =>
      (* :423-433 / :664-682  x[F] = x_F, x[G] = 0, y[F] = 0 *)
      let x := scatter (scatter (p_x s) F' xF) G' (zeros (length G')) in
      let y := scatter (p_y s) F' (zeros (length F')) in
      (* :436-456 / :685-731  y[G] = AtA[G,F] x_F - Atb[G] *)
      let yG := map (fun i => sub (dot (gather (row M i) F') xF) (nthK b i)) G' in
      let y := scatter y G' yG in
      Some (mkP x y F' G' ninf trials murty tr)
  end.

(* the exit test, :332 / :560 *)
Definition pjv_exit_test (H1 H2 : list nat) : bool :=
  if exit_both then Nat.eqb (length H1) 0 && Nat.eqb (length H2) 0 else Nat.eqb (length H2) 0.

(* one pass of `while (iter-- > 0)` (nnls.c:314-465 / :542-738).
   inl: the loop is left by `break`; inr: the state after the pass; None: the reduced solve failed (model only). *)
Definition pjv_step (k : nat) (s : pstate) : option (pstate + pstate) :=
  (* :320-326 / :548-554 *)
  let H1 := filter (fun i => ltb (nthK (p_x s) i) (opp tol)) (p_F s) in
  let H2 := filter (fun i => ltb (nthK (p_y s) i) (opp tol)) (p_G s) in
  if pjv_exit_test H1 H2 then Some (inl s)
  else
    match pjv_decide s H1 H2 with
    | (murty, ninf, trials, H1', H2', tr) =>
        match pjv_update k s murty ninf trials H1' H2' tr with
        | None => None
        | Some s' => Some (inr s')
        end
    end.

Fixpoint pjv_loop (fuel : nat) (k : nat) (s : pstate) : presult :=
  match fuel with
  | O => mkPR (p_x s) MaxIter k (rev (p_trace s)) (p_F s)            (* `iter-- > 0` false: falls out silently *)
  | S fuel' =>
      match pjv_step (S k) s with
      | None => mkPR (p_x s) SolveFailed k (rev (p_trace s)) (p_F s)
      | Some (inl s') => mkPR (p_x s') NormalExit k (rev (p_trace s')) (p_F s')
      | Some (inr s') => pjv_loop fuel' (S k) s'
      end
  end.

(* :293-312 / :516-537: x = 0, y = -Atb, F empty, G everything, ninf = nvar + 1, trials = murty_steps = MAX_TRIALS *)
Definition pjv_init (n : nat) : pstate :=
  mkP (zeros n) (map (fun v => opp v) b) [] (seq 0 n) (S n) (Z.of_nat max_trials) max_trials [].

(* iter = 3*nvar *)
Definition pjv_run (iter_factor : nat) : presult :=
  let n := length b in pjv_loop (iter_factor * n) 0 (pjv_init n).
End Pjv.

(* KKT_TOL = 1e-6 *)
Definition pjv_tol : K := div one (ofZ (10 ^ pjv_kkt_tol_pow10)).

(* the two solvers as they are in the source tree (exit tests and constants from Generated_nnls.v) *)
Definition pjv_block (M : list (list K)) (b : list K) : presult :=
  pjv_run pjv_block_escape pjv_block_exit_both pjv_max_trials (solve_checked M b) M b pjv_tol pjv_iter_factor.
Definition pjv_updown (M : list (list K)) (b : list K) : presult :=
  pjv_run pjv_updown_escape pjv_updown_exit_both pjv_max_trials (solve_checked M b) M b pjv_tol pjv_iter_factor.

(* ---- nnls_lawson_hanson (normaleq != 0) ---------------------------------------------------------------- *)
Inductive lh_exit :=
| LhAllPassive        (* :89   `if (nZ == 0) break;` *)
| LhWmax              (* :103  `if (wmax <= 0) break;` *)
| LhTol               (* :107-122 `wmax < tolerance && n >= min_iterations` and (nP == 0 or -wpmin < tolerance) *)
| LhEquilibrium       (* :246/:251 `if (alpha == 0) break;` — anti-cycling advice *)
| LhMaxIter           (* :64   n == max_iterations *)
| LhMathFailed        (* :205-209 exit(1) *)
| LhSolveFailed | LhInnerFuel | LhOuterFuel.     (* model artefacts *)

Inductive levent :=
| LvFree (i nZ nP : nat)        (* "Freeing coefficient %ld (active: %d, passive: %d, wmax: %e)" *)
| LvBind (i nZ nP : nat).       (* "\tConstraining coefficient %ld (active: %d, passive: %d, value: %e)" *)

Record lstate := mkL { l_x : list K; l_P : list nat; l_Z : list nat; l_lf : option nat; l_trace : list levent }.
Record lresult := mkLR { lr_x : list K; lr_exit : lh_exit; lr_iters : nat; lr_trace : list levent;
                         lr_P : list nat; lr_Z : list nat; lr_lf : option nat }.

Section LH.
Variable solve : list nat -> option (list K).   (* SuiteSparseQR_C_backslash_default(A[P,P], y[P]) *)
Variable M : list (list K).            (* A (normal equations) *)
Variable b : list K.                   (* y *)
Variable tolerance : K.
Variable min_iterations max_iterations : nat.
Variable npos : nat.                   (* after `if (npos == 0) npos = A->ncol;` *)

Definition is_lf (lf : option nat) (i : nat) : bool := match lf with Some l => Nat.eqb l i | None => false end.

(* :93-101  wmax = w[Z[0]]; t = 0; for (i = 1; i < nZ; i++) if (w[Z[i]] > wmax && last_freed != Z[i]) { t = i; wmax = w[Z[t]]; } *)
Fixpoint argmax_w (w : list K) (lf : option nat) (Zrest : list nat) (i t : nat) (wmax : K) : nat * K :=
  match Zrest with
  | [] => (t, wmax)
  | z :: Z' =>
      if ltb wmax (nthK w z) && negb (is_lf lf z)
      then argmax_w w lf Z' (S i) i (nthK w z)
      else argmax_w w lf Z' (S i) t wmax
  end.

(* :114-118 *)
Fixpoint min_w (w : list K) (Prest : list nat) (wpmin : K) : K :=
  match Prest with
  | [] => wpmin
  | p :: P' => if ltb (nthK w p) wpmin then min_w w P' (nthK w p) else min_w w P' wpmin
  end.

(* :132-133  delete position t *)
Fixpoint remove_at (t : nat) (l : list nat) : list nat :=
  match l, t with
  | [], _ => []
  | _ :: l', O => l'
  | a :: l', S t' => a :: remove_at t' l'
  end.

(* :166-168  first i with P[i] < npos && p[i] <= 0 *)
Fixpoint all_positive (P : list nat) (p : list K) : bool :=
  match P, p with
  | i :: P', v :: p' => if Nat.ltb i npos && leb v zero then false else all_positive P' p'
  | _, _ => true
  end.

(* :184-203  alpha = 2; qmax = -1; for (...) { if (P[i] >= npos || p[i] > 0) continue; qtemp = x/(x - p);
             if (qtemp < alpha && qtemp != 0) { qmax = P[i]; alpha = qtemp; } else if (last_freed == P[i]) { alpha = 0; qmax = P[i]; break; } }
   (x = p = 0 gives 0/0: NaN in C, 0 at Qc; both fail `qtemp < alpha && qtemp != 0`) *)
Fixpoint step_length (x : list K) (lf : option nat) (P : list nat) (p : list K) (alpha : K) (qmax : option nat) : K * option nat :=
  match P, p with
  | i :: P', v :: p' =>
      if Nat.leb npos i || ltb zero v then step_length x lf P' p' alpha qmax
      else
        let qtemp := div (nthK x i) (sub (nthK x i) v) in
        if ltb qtemp alpha && negb (eqK qtemp zero) then step_length x lf P' p' qtemp (Some i)
        else if is_lf lf i then (zero, Some i)
        else step_length x lf P' p' alpha qmax
  | _, _ => (alpha, qmax)
  end.

(* :214-217  x[P[i]] += alpha*(p[i] - x[P[i]]) *)
Fixpoint move_x (x : list K) (P : list nat) (p : list K) (alpha : K) : list K :=
  match P, p with
  | i :: P', v :: p' => move_x (upd x i (add (nthK x i) (mul alpha (sub v (nthK x i))))) P' p' alpha
  | _, _ => x
  end.

(* :227-243  move the coefficients that are <= 0 from P to Z (in the order of P); nP counts down as in the C loop *)
Fixpoint bind_zeros (x : list K) (P : list nat) (Pkept : list nat) (Z : list nat) (tr : list levent)
  : list K * list nat * list nat * list levent :=
  match P with
  | [] => (x, rev Pkept, Z, tr)
  | i :: P' =>
      if Nat.leb npos i || ltb zero (nthK x i) then bind_zeros x P' (i :: Pkept) Z tr
      else bind_zeros (upd x i zero) P' Pkept (Z ++ [i]) (LvBind i (length Z) (length Pkept + length P) :: tr)
  end.

(* the `while (1)` loop, :139-248. inl: leave the solver; inr (alpha = 0 ?, state). [fuel]: model artefact *)
Fixpoint lh_inner (fuel : nat) (x : list K) (P Z : list nat) (lf : option nat) (tr : list levent)
  : lh_exit + (bool * lstate) :=
  match fuel with
  | O => inl LhInnerFuel
  | S fuel' =>
      match solve P with
      | None => inl LhSolveFailed
      | Some p =>
          if all_positive P p then
            (* :169-179  bzero(x); x[P] = p; break to step 2 *)
            inr (false, mkL (scatter (zeros (length x)) P p) P Z lf tr)
          else
            match step_length x lf P p (ofZ 2) None with
            | (_, None) => inl LhMathFailed
            | (alpha, Some qmax) =>
                let x := upd (move_x x P p alpha) qmax zero in                      (* :214-220 *)
                let '(x, P, Z, tr) := bind_zeros x P [] Z tr in                     (* :227-243 *)
                if eqK alpha zero then inr (true, mkL x P Z lf tr)                  (* :246 *)
                else lh_inner fuel' x P Z lf tr
            end
      end
  end.

(* one pass of the `for` loop body, :65-252: inl (exit, state) or the next state *)
Definition lh_step (n : nat) (s : lstate) : (lh_exit * lstate) + lstate :=
  (* :66-73  w = y - A x *)
  let w := vsub b (mv M (l_x s)) in
  match l_Z s with
  | [] => inl (LhAllPassive, s)                                                     (* :89 *)
  | z0 :: Zrest =>
      let (t, wmax) := argmax_w w (l_lf s) Zrest 1 0 (nthK w z0) in                 (* :93-101 *)
      if leb wmax zero then inl (LhWmax, s)                                         (* :103 *)
      else if ltb wmax tolerance && Nat.leb min_iterations n &&                     (* :107-122 *)
              match l_P s with
              | [] => true
              | p0 :: Prest => ltb (opp (min_w w Prest (nthK w p0))) tolerance
              end
      then inl (LhTol, s)
      else
        let zt := nth t (l_Z s) 0 in
        let tr := LvFree zt (length (l_Z s)) (length (l_P s)) :: l_trace s in       (* :125-133 *)
        match lh_inner (2 * length b + 2) (l_x s) (l_P s ++ [zt]) (remove_at t (l_Z s)) (Some zt) tr with
        | inl e => inl (e, s)
        | inr (true, s') => inl (LhEquilibrium, s')                                 (* :251 *)
        | inr (false, s') => inr s'
        end
  end.

Fixpoint lh_outer (fuel : nat) (n : nat) (s : lstate) : lresult :=
  let fin := fun e s' => mkLR (l_x s') e n (rev (l_trace s')) (l_P s') (l_Z s') (l_lf s') in
  match fuel with
  | O => fin LhOuterFuel s
  | S fuel' =>
      if Nat.ltb n max_iterations || Nat.eqb max_iterations 0 then               (* :64 *)
        match lh_step n s with
        | inl (e, s') => fin e s'
        | inr s' => lh_outer fuel' (S n) s'
        end
      else fin LhMaxIter s
  end.

(* :54-62 *)
Definition lh_init (n : nat) : lstate := mkL (zeros n) (seq npos (n - npos)) (seq 0 npos) None [].
Definition lh_run (fuel : nat) : lresult := lh_outer fuel 0 (lh_init (length b)).
End LH.

(* nnls_lawson_hanson(A, y, tolerance, min_iterations, max_iterations, npos = 0, normaleq = 1, ...) *)
Definition lh_normaleq (M : list (list K)) (b : list K) (tolerance : K) (min_iterations max_iterations : nat) : lresult :=
  lh_run (solve_checked M b) M b tolerance min_iterations max_iterations (length b)
         (if Nat.eqb max_iterations 0 then 64 * length b + 64 else S max_iterations).   (* fuel: model artefact when max_iterations == 0 *)

(* the coefficient freed last is back in the constrained set at a position the maximum search skips (:96-97) *)
Definition lh_skipped (r : lresult) : bool :=
  match lr_lf r with Some l => memb l (tl (lr_Z r)) | None => false end.
End Nnls2.
