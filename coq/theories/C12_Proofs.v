(* C12_Proofs.v — proofs about the hand-shake transition system Handshake.v *)
From Coq Require Import List Arith Bool Lia.
From PS Require Import Handshake.
Import ListNotations.

(* ---------------------------------------------------------------------------------------------
   Witnesses about the code AS FOUND (fixed = false / shared_common = true), by evaluation. *)
Definition lt_none (a b : nat) : bool := false.

(* D7: coordinator: create, lock, set RUN+broadcast, unlock | worker: lock, see RUN/unlock, compute, compute,
   lock, state=WAIT+broadcast, unlock, lock, see WAIT/cond_wait | coordinator: lock, cond_wait  -> everyone asleep *)
Definition d7_witness : list nat := [0;0;0;0; 1;1;1;1;1;1;1;1;1; 0;0].

Lemma run_reachable : forall N na lt fixed sch s s',
  reachable N na lt fixed s -> run N na lt fixed s sch = Some s' -> reachable N na lt fixed s'.
Proof.
  induction sch as [|t r IH]; intros s s' Hr Hrun; simpl in Hrun.
  - inversion Hrun; subst; exact Hr.
  - destruct (step N na lt fixed s t) as [s1|] eqn:Hs; [|discriminate].
    eapply IH; [|exact Hrun]. eapply reach_step; eauto.
Qed.


Lemma refuted_lost_wakeup :
  exists s, reachable 1 2 lt_none false s /\ ~ finished s /\ forall t s', step 1 2 lt_none false s t <> Some s'.
Proof.
  destruct (run 1 2 lt_none false init d7_witness) as [s|] eqn:Hrun; [|vm_compute in Hrun; discriminate].
  exists s. split; [eapply run_reachable; [apply reach_init | exact Hrun]|].
  assert (Hcp : cp s = CCvWait) by (vm_compute in Hrun; inversion Hrun; reflexivity).
  assert (Hwp : wp s 0 = WCvWait) by (vm_compute in Hrun; inversion Hrun; reflexivity).
  split.
  - unfold finished. rewrite Hcp. discriminate.
  - intros t s' Hst. destruct t as [|[|j]]; simpl in Hst.
    + unfold cstep in Hst. rewrite Hcp in Hst. discriminate.
    + unfold wstep in Hst. rewrite Hwp in Hst. discriminate.
    + discriminate.
Qed.

(* D15: two workers of one block are both in their computation, both allocating through the shared cholmod_common *)
Definition d15_witness : list nat := [0;0;0;0;0; 1;1; 2;2].
Lemma refuted_race_common :
  exists s, reachable 2 2 lt_none true s /\ raceb 2 2 lt_none true true s 1 2 LCommon = true.
Proof.
  destruct (run 2 2 lt_none true init d15_witness) as [s|] eqn:Hrun; [|vm_compute in Hrun; discriminate].
  exists s. split; [eapply run_reachable; [apply reach_init | exact Hrun]|].
  vm_compute in Hrun. inversion Hrun. vm_compute. reflexivity.
Qed.

(* ---------------------------------------------------------------------------------------------
   The inductive invariant of the FIXED hand-shake (fixed = true), for every N >= 1 and every n_alpha.
   Inv s = gok s (global: who holds the mutex, bounds of loop counters, "a coordinator asleep on the condition
   variable still has a RUNning worker in the block") /\ for every worker j a local relation wok between the
   coordinator's phase, the mutex owner and worker j's own state/pc/alpha/outputs. *)
Inductive phase := PhCreate (k : nat) | PhQuiet | PhRead | PhRun | PhTerm (k : nat).
Definition holds_c (p : cpc) : bool := match p with CSetRun | CUnlockA | CLoopB _ | CSetTerm | CUnlockT => true | _ => false end.
Definition holds_w (p : wpc) : bool := match p with WCheck | WReport | WUnlock2 => true | _ => false end.
Definition idle (p : wpc) : bool := match p with WLock1 | WCheck | WCvWait | WWoken => true | _ => false end.
Definition busy (p : wpc) : bool := match p with WCompute1 | WCompute2 | WLock2 | WReport => true | _ => false end.

Section Inv.
Variables N na : nat.
Variable lt : nat -> nat -> bool.
Hypothesis HN : 1 <= N.

Notation inb := (in_block N na).

Definition phase_of (c : cpc) : phase :=
  match c with
  | CCreate k => PhCreate k
  | CLockA | CSetRun | CLockT | CSetTerm => PhQuiet
  | CRead => PhRead
  | CUnlockA | CLockB | CLoopB _ | CCvWait | CWoken => PhRun
  | CUnlockT => PhTerm 0
  | CJoin k => PhTerm k
  | CCleanup | CDone => PhTerm N
  end.

Definition wok (ph : phase) (b : nat) (m : option nat) (j : nat) (s : wst) (p : wpc) (a o : option nat) : Prop :=
  holds_w p = (match m with Some (S i) => j =? i | _ => false end) /\
  (p = WCvWait -> s = WAIT) /\
  match ph with
  | PhCreate k => s = WAIT /\ (if j <? k then idle p = true else p = WNotCreated)
  | PhQuiet => s = WAIT /\ idle p = true
  | PhRead => s = WAIT /\ idle p = true /\ (inb b j = true -> o = Some (b * N + j))
  | PhRun => (s = RUN /\ inb b j = true /\ a = Some (b * N + j) /\ (idle p = true \/ busy p = true) /\
              (p = WLock2 \/ p = WReport -> o = Some (b * N + j)))
          \/ (s = WAIT /\ (idle p = true \/ p = WUnlock2) /\ (inb b j = true -> o = Some (b * N + j)))
  | PhTerm k => s = TERM /\ (idle p = true \/ p = WExited) /\ (j < k -> p = WExited)
  end.

Definition gok (s : state) : Prop :=
  holds_c (cp s) = (match mtx s with Some 0 => true | _ => false end) /\
  (match mtx s with Some (S i) => i < N | _ => True end) /\
  (match cp s with
   | CCreate k => k < N | CJoin k => k < N
   | CCvWait => exists j, inb (blk s) j = true /\ st s j = RUN
   | CLoopB chk => chk = true
   | _ => True end).

Definition Inv (s : state) : Prop :=
  gok s /\ forall j, j < N -> wok (phase_of (cp s)) (blk s) (mtx s) j (st s j) (wp s j) (alpha s j) (out s j).

Lemma inv_init : Inv init.
Proof.
  split.
  - unfold gok; simpl. repeat split; auto.
  - intros j Hj. unfold wok; simpl. repeat split; auto; try discriminate.
Qed.

Lemma upd_same : forall A (f : nat -> A) k v, upd f k v k = v.
Proof. intros. unfold upd. rewrite Nat.eqb_refl. reflexivity. Qed.
Lemma upd_other : forall A (f : nat -> A) k v j, j <> k -> upd f k v j = f j.
Proof. intros. unfold upd. destruct (Nat.eqb_spec j k); congruence. Qed.
Lemma phase_wake : forall c, phase_of (wake_c c) = phase_of c.
Proof. destruct c; reflexivity. Qed.
Lemma holds_wake : forall c, holds_c (wake_c c) = holds_c c.
Proof. destruct c; reflexivity. Qed.

Ltac rwp := repeat match goal with H : wp ?s ?k = _, H2 : context [holds_w (wp ?s ?k)] |- _ => rewrite H in H2; simpl in H2 end.
Ltac fin := simpl in *; intuition (try congruence; try discriminate; try lia; try (rwp; congruence)).
Ltac eqb_cases :=
  repeat match goal with
  | |- context [?a =? ?b] => destruct (Nat.eqb_spec a b); try lia
  | H : context [?a =? ?b] |- _ => destruct (Nat.eqb_spec a b); try lia
  | |- context [?a <? ?b] => destruct (Nat.ltb_spec a b); try lia
  | H : context [?a <? ?b] |- _ => destruct (Nat.ltb_spec a b); try lia
  end.
Ltac split_j j j0 :=
  destruct (Nat.eq_dec j j0) as [->|?Hne]; [rewrite ?upd_same in * | rewrite ?upd_other in * by assumption].

Lemma inv_spur : forall s t s', Inv s -> spurious N s t = Some s' -> Inv s'.
Proof.
  intros s t s' [Hg Hw] Hs. unfold gok in Hg. destruct Hg as (Hm & Ho & Hcp). destruct t as [|j0]; simpl in Hs.
  - destruct (cp s) eqn:Hc; try discriminate. inversion Hs; subst s'; clear Hs.
    split.
    + unfold gok; simpl in *. intuition.
    + intros j Hj. specialize (Hw j Hj). unfold wok in *. simpl in *. exact Hw.
  - destruct (j0 <? N) eqn:Hj0; [|discriminate].
    destruct (wp s j0) eqn:Hp; try discriminate. inversion Hs; subst s'; clear Hs.
    split.
    + unfold gok; simpl. auto.
    + intros j Hj. specialize (Hw j Hj). simpl.
      destruct (Nat.eq_dec j j0) as [->|Hne].
      * rewrite upd_same. rewrite Hp in Hw. unfold wok in *.
        destruct (phase_of (cp s)); fin. destruct (j0 <? k); fin.
      * rewrite upd_other by exact Hne. exact Hw.
Qed.

(* the holder of the mutex, from the worker-local invariant *)
Lemma holder_w : forall ph b m j s p a o, wok ph b m j s p a o -> holds_w p = true -> m = Some (S j).
Proof.
  intros ph b m j s p a o [Hh _] Hp. rewrite Hp in Hh. destruct m as [[|i]|]; try discriminate.
  destruct (Nat.eqb_spec j i); [subst; reflexivity | discriminate].
Qed.

Ltac wsolve := unfold wok in *; simpl in *;
  match goal with |- context [phase_of ?c] => generalize dependent (phase_of c); let ph := fresh "ph" in intro ph; intros; destruct ph end;
  simpl in *; eqb_cases; fin.

Ltac rwm := try match goal with H : mtx _ = _ |- _ => rewrite H in * end.
Ltac wrest s j0 Hw := let j := fresh "j" in let Hj := fresh "Hj" in
  intros j Hj; specialize (Hw j Hj); simpl; rewrite ?phase_wake; rwm; split_j j j0; wsolve.
Ltac gw s := unfold gok; simpl; rewrite ?holds_wake; rwm; repeat split; auto; try (destruct (cp s); simpl in *; auto; fail).

Lemma inv_wstep : forall s j0 s', Inv s -> j0 < N -> wstep s j0 = Some s' -> Inv s'.
Proof.
  intros s j0 s' [Hg Hw] Hj0 Hs. unfold gok in Hg. destruct Hg as (Hm & Ho & Hcp).
  pose proof (Hw j0 Hj0) as H0.
  unfold wstep in Hs.
  destruct (wp s j0) eqn:Hp; try discriminate.
  - (* WLock1 *) unfold free in Hs. destruct (mtx s) eqn:Hmt; [discriminate|]. inversion Hs; subst s'; clear Hs.
    split; [gw s|wrest s j0 Hw].
  - (* WCheck *) assert (Hmt : mtx s = Some (S j0)) by (eapply holder_w; [exact H0 | reflexivity]). rewrite Hmt in *.
    destruct (st s j0) eqn:Hst; inversion Hs; subst s'; clear Hs; (split; [gw s|wrest s j0 Hw]).
  - (* WWoken *) unfold free in Hs. destruct (mtx s) eqn:Hmt; [discriminate|]. inversion Hs; subst s'; clear Hs.
    split; [gw s|wrest s j0 Hw].
  - (* WCompute1 *) inversion Hs; subst s'; clear Hs. split; [gw s|wrest s j0 Hw].
  - (* WCompute2 *) inversion Hs; subst s'; clear Hs. split; [gw s|wrest s j0 Hw].
  - (* WLock2 *) unfold free in Hs. destruct (mtx s) eqn:Hmt; [discriminate|]. inversion Hs; subst s'; clear Hs.
    split; [gw s|wrest s j0 Hw].
  - (* WReport *) assert (Hmt : mtx s = Some (S j0)) by (eapply holder_w; [exact H0 | reflexivity]). rewrite Hmt in *.
    inversion Hs; subst s'; clear Hs. split; [gw s|]. intros j Hj; specialize (Hw j Hj); simpl; rewrite ?phase_wake; rwm; split_j j j0; [wsolve | destruct (wp s j) eqn:Hpj; wsolve].
  - (* WUnlock2 *) assert (Hmt : mtx s = Some (S j0)) by (eapply holder_w; [exact H0 | reflexivity]). rewrite Hmt in *.
    inversion Hs; subst s'; clear Hs. split; [gw s|wrest s j0 Hw].
Qed.

Lemma inb_lt : forall b j, inb b j = true -> j < N.
Proof. intros b j H. unfold in_block in H. apply andb_prop in H. destruct H as [H _]. apply Nat.ltb_lt in H. exact H. Qed.

Lemma all_done_true : forall s, all_done N na s = true -> forall j, inb (blk s) j = true -> st s j = WAIT.
Proof.
  intros s H j Hj. unfold all_done in H. rewrite forallb_forall in H.
  assert (Hin : In j (seq 0 N)) by (apply in_seq; pose proof (inb_lt _ _ Hj); lia).
  specialize (H j Hin). rewrite Hj in H. simpl in H. destruct (st s j); auto; discriminate.
Qed.

Lemma forallb_false : forall A (f : A -> bool) l, forallb f l = false -> exists x, In x l /\ f x = false.
Proof.
  induction l as [|a l IH]; simpl; intros H; [discriminate|].
  destruct (f a) eqn:Ha; simpl in H.
  - destruct (IH H) as [x [Hx Hf]]. exists x; auto.
  - exists a; auto.
Qed.

Lemma all_done_false : forall s, all_done N na s = false -> exists j, inb (blk s) j = true /\ st s j <> WAIT.
Proof.
  intros s H. unfold all_done in H. apply forallb_false in H. destruct H as [j [_ Hf]].
  exists j. destruct (inb (blk s) j); simpl in Hf; [|discriminate]. split; auto.
  destruct (st s j); simpl in Hf; congruence.
Qed.

Ltac crest s Hw := let j := fresh "j" in let Hj := fresh "Hj" in
  intros j Hj; specialize (Hw j Hj); simpl; rwm; unfold wok in *; simpl in *; eqb_cases; fin.

Lemma inv_cstep : forall s s', Inv s -> cstep N na lt true s = Some s' -> Inv s'.
Proof.
  intros s s' [Hg Hw] Hs. unfold gok in Hg. destruct Hg as (Hm & Ho & Hcp).
  unfold cstep in Hs.
  destruct (cp s) eqn:Hc; simpl in Hm, Hcp.
  - (* CCreate *) inversion Hs; subst s'; clear Hs.
    destruct (S k <? N) eqn:Hk.
    + split; [unfold gok; simpl; rwm; eqb_cases; fin|]. intros j Hj; specialize (Hw j Hj); simpl. split_j j k; unfold wok in *; simpl in *; eqb_cases; fin.
    + assert (Hq : phase_of (loop_head N na 0 false) = PhQuiet) by (unfold loop_head; destruct ((0 <? nblocks N na) && negb false); reflexivity).
      split.
      * unfold gok; simpl. unfold loop_head; destruct ((0 <? nblocks N na) && negb false); simpl; fin.
      * intros j Hj; specialize (Hw j Hj); simpl. rewrite Hq. split_j j k; unfold wok in *; simpl in *; eqb_cases; fin.
  - (* CLockA *) unfold free in Hs. destruct (mtx s) eqn:Hmt; [discriminate|]. inversion Hs; subst s'; clear Hs.
    split; [unfold gok; simpl; auto | crest s Hw].
  - (* CSetRun *) inversion Hs; subst s'; clear Hs.
    assert (Hmt : mtx s = Some 0) by (destruct (mtx s) as [[|i]|]; congruence).
    split; [unfold gok; simpl; rwm; auto|].
    intros j Hj; specialize (Hw j Hj); simpl; rwm. unfold wok in *; simpl in *.
    destruct (inb (blk s) j) eqn:Hin; destruct (wp s j) eqn:Hpj; fin.
  - (* CUnlockA *) inversion Hs; subst s'; clear Hs.
    assert (Hmt : mtx s = Some 0) by (destruct (mtx s) as [[|i]|]; congruence).
    split; [unfold gok; simpl; rwm; auto | crest s Hw].
  - (* CLockB *) unfold free in Hs. destruct (mtx s) eqn:Hmt; [discriminate|]. inversion Hs; subst s'; clear Hs.
    split; [unfold gok; simpl; auto | crest s Hw].
  - (* CLoopB *) subst chk. simpl in Hs.
    assert (Hmt : mtx s = Some 0) by (destruct (mtx s) as [[|i]|]; congruence).
    destruct (all_done N na s) eqn:Hd; inversion Hs; subst s'; clear Hs.
    + pose proof (all_done_true s Hd) as Hall.
      split; [unfold gok; simpl; auto|].
      intros j Hj; specialize (Hw j Hj); specialize (Hall j); simpl; rwm. unfold wok in *; simpl in *.
      destruct (wp s j) eqn:Hpj; fin.
    + destruct (all_done_false s Hd) as [j1 [Hj1 Hn1]].
      split.
      * unfold gok; simpl. repeat split; auto. exists j1. split; auto.
        specialize (Hw j1 (inb_lt _ _ Hj1)). unfold wok in Hw; simpl in Hw. fin.
      * crest s Hw.
  - (* CCvWait *) discriminate.
  - (* CWoken *) unfold free in Hs. destruct (mtx s) eqn:Hmt; [discriminate|]. inversion Hs; subst s'; clear Hs.
    split; [unfold gok; simpl; auto | crest s Hw].
  - (* CRead *) destruct (scan N na lt (blk s) (out s) (seq 0 N) (res s)) as [r sel]. inversion Hs; subst s'; clear Hs.
    assert (Hq : forall sc, phase_of (loop_head N na (S (blk s)) sc) = PhQuiet) by (intro sc; unfold loop_head; destruct ((S (blk s) <? nblocks N na) && negb sc); reflexivity).
    split.
    + unfold gok; simpl. unfold loop_head. destruct ((S (blk s) <? nblocks N na) && negb _); simpl; fin.
    + intros j Hj; specialize (Hw j Hj); simpl. rewrite Hq. unfold wok in *; simpl in *; fin.
  - (* CLockT *) unfold free in Hs. destruct (mtx s) eqn:Hmt; [discriminate|]. inversion Hs; subst s'; clear Hs.
    split; [unfold gok; simpl; auto | crest s Hw].
  - (* CSetTerm *) inversion Hs; subst s'; clear Hs.
    assert (Hmt : mtx s = Some 0) by (destruct (mtx s) as [[|i]|]; congruence).
    split; [unfold gok; simpl; rwm; auto|].
    intros j Hj; specialize (Hw j Hj); simpl; rwm. unfold wok in *; simpl in *.
    destruct (wp s j) eqn:Hpj; eqb_cases; fin.
  - (* CUnlockT *) inversion Hs; subst s'; clear Hs.
    assert (Hmt : mtx s = Some 0) by (destruct (mtx s) as [[|i]|]; congruence).
    split; [unfold gok; simpl; rwm; repeat split; auto; lia | crest s Hw].
  - (* CJoin *) destruct (wp s k) eqn:Hpk; try discriminate. inversion Hs; subst s'; clear Hs.
    destruct (S k <? N) eqn:Hk.
    + split; [unfold gok; simpl; rwm; eqb_cases; fin|].
      intros j Hj; specialize (Hw j Hj); simpl. unfold wok in *; simpl in *. eqb_cases.
      destruct (Nat.eq_dec j k) as [->|Hne]; [fin | destruct (Nat.lt_ge_cases j k); fin].
    + split; [unfold gok; simpl; rwm; eqb_cases; fin|].
      intros j Hj; specialize (Hw j Hj); simpl. unfold wok in *; simpl in *. eqb_cases.
      destruct (Nat.eq_dec j k) as [->|Hne]; [fin | destruct (Nat.lt_ge_cases j k); fin].
  - (* CCleanup *) inversion Hs; subst s'; clear Hs. split; [unfold gok; simpl; auto | crest s Hw].
  - (* CDone *) discriminate.
Qed.

Lemma inv_step : forall s t s', Inv s -> step N na lt true s t = Some s' -> Inv s'.
Proof.
  intros s t s' Hi Hs. destruct t as [|j]; simpl in Hs.
  - eapply inv_cstep; eauto.
  - destruct (Nat.ltb_spec j N); [|discriminate]. eapply inv_wstep; eauto.
Qed.

Lemma inv_reachable : forall s, reachable N na lt true s -> Inv s.
Proof.
  induction 1.
  - apply inv_init.
  - eapply inv_step; eauto.
  - eapply inv_spur; eauto.
Qed.

Lemma no_deadlock_inv : forall s, Inv s -> finished s \/ exists t s', step N na lt true s t = Some s'.
Proof.
  intros s [Hg Hw]. unfold gok in Hg. destruct Hg as (Hm & Ho & Hcp).
  destruct (mtx s) as [[|i]|] eqn:Hmt.
  - (* the coordinator holds the mutex *)
    right. exists 0. simpl. unfold cstep. destruct (cp s) eqn:Hc; simpl in Hm; try discriminate; eauto.
    destruct (chk && all_done N na s); eauto.
  - (* worker i holds it *)
    right. exists (S i). simpl. destruct (Nat.ltb_spec i N); [|lia].
    specialize (Hw i Ho). destruct Hw as [Hh _]. rewrite Nat.eqb_refl in Hh.
    unfold wstep. destruct (wp s i) eqn:Hp; simpl in Hh; try discriminate; eauto.
    destruct (st s i); eauto.
  - (* free *)
    assert (Hfree : free s = true) by (unfold free; rewrite Hmt; reflexivity).
    destruct (cp s) eqn:Hc; simpl in Hm; try discriminate;
      try (right; exists 0; simpl; unfold cstep; rewrite Hc, ?Hfree; eauto; fail).
    + (* CCvWait: some worker of the block still has state RUN; it is not asleep *)
      destruct Hcp as [j [Hin Hrun]]. pose proof (inb_lt _ _ Hin) as Hj. specialize (Hw j Hj).
      right. exists (S j). simpl. destruct (Nat.ltb_spec j N); [|lia].
      unfold wok in Hw; simpl in Hw. destruct Hw as (Hh & Hcv & Hph).
      unfold wstep. rewrite Hfree.
      destruct (wp s j) eqn:Hp; simpl in *; eauto; try discriminate; try (destruct (st s j); eauto; fail);
        intuition (try congruence; try discriminate).
    + (* CRead *) right. exists 0. simpl. unfold cstep. rewrite Hc. destruct (scan N na lt (blk s) (out s) (seq 0 N) (res s)) as [r sel]. eauto.
    + (* CJoin k *)
      specialize (Hw k Hcp). unfold wok in Hw; simpl in Hw. destruct Hw as (Hh & Hcv & Hst & Hp & _).
      destruct (wp s k) eqn:Hpk; simpl in *; try (intuition discriminate).
      * right. exists (S k). simpl. destruct (Nat.ltb_spec k N); [|lia]. unfold wstep. rewrite Hpk, Hfree. eauto.
      * specialize (Hcv eq_refl). congruence.
      * right. exists (S k). simpl. destruct (Nat.ltb_spec k N); [|lia]. unfold wstep. rewrite Hpk, Hfree. eauto.
      * right. exists 0. simpl. unfold cstep. rewrite Hc, Hpk. eauto.
    + left. exact Hc.
Qed.

Lemma no_early_read_inv : forall s j, Inv s -> coordinator_reading N na s j -> worker_done_with_block N s j.
Proof.
  intros s j [Hg Hw] [Hc Hin]. pose proof (inb_lt _ _ Hin) as Hj. specialize (Hw j Hj).
  unfold wok in Hw. rewrite Hc in Hw. simpl in Hw. destruct Hw as (_ & _ & Hst & Hid & Ho).
  unfold worker_done_with_block. repeat split; auto. destruct (wp s j); simpl in Hid; auto; discriminate.
Qed.

Lemma conflictb_none_r : forall a, conflictb a ANone = false.
Proof. destruct a; reflexivity. Qed.

(* no two different threads have conflicting next accesses (enabled or not), on any location other than the
   shared cholmod_common of the code as found — and on that one and on every per-worker common LWCommon j too in the
   shape after the D15 fix (sc = false): the coordinator touches commons[j] only at CCreate 0 (phase PhCreate 0: no worker
   created yet) and at CCleanup (phase PhTerm N: every worker exited), worker j touches commons[j] only *)
Lemma no_conflict_inv : forall sc s t1 t2 l, Inv s -> t1 <> t2 -> (l <> LCommon \/ sc = false) ->
  conflictb (acc N na sc s t1 l) (acc N na sc s t2 l) = false.
Proof.
  intros sc s t1 t2 l [Hg Hw] Hne Hl. unfold gok in Hg. destruct Hg as (Hm & Ho & Hcp).
  assert (CW : forall j, conflictb (acc N na sc s 0 l) (acc N na sc s (S j) l) = false /\
                         conflictb (acc N na sc s (S j) l) (acc N na sc s 0 l) = false).
  { intros j. simpl. destruct (Nat.ltb_spec j N) as [Hj|Hj]; [|rewrite conflictb_none_r; split; auto; destruct (cp s); destruct l; reflexivity].
    specialize (Hw j Hj). unfold wok in Hw.
    destruct (cp s) eqn:Hc; try subst chk; destruct l; simpl; try (split; reflexivity); rewrite ?conflictb_none_r; try (split; reflexivity);
      simpl in Hw, Hm; destruct (wp s j) eqn:Hp; simpl in *; try (split; reflexivity);
      eqb_cases; simpl; try (split; reflexivity);
      try (match goal with |- context [inb ?b ?x] => destruct (inb b x) eqn:?Hin end; simpl; try (split; reflexivity));
      try (destruct sc; simpl; try (split; reflexivity));
      try (exfalso; destruct (mtx s) as [[|?i]|]; fin; fail). }
  destruct t1 as [|j1], t2 as [|j2]; try congruence; try apply CW.
  assert (Hj : j1 <> j2) by congruence. clear CW.
  simpl. destruct (j1 <? N); [|reflexivity]. destruct (j2 <? N); [|apply conflictb_none_r].
  destruct (wp s j1); destruct l; simpl; try reflexivity; destruct (wp s j2); simpl; rewrite ?conflictb_none_r; try reflexivity;
    eqb_cases; simpl; try reflexivity; try congruence;
    try (destruct sc; reflexivity);
    destruct Hl as [Hl|Hl]; try congruence; subst sc; reflexivity.
Qed.

Lemma race_free_inv : forall sc s t1 t2 l, Inv s -> (l <> LCommon \/ sc = false) -> raceb N na lt true sc s t1 t2 l = false.
Proof.
  intros sc s t1 t2 l Hi Hl. unfold raceb.
  destruct (Nat.eqb_spec t1 t2) as [He|He]; [reflexivity|].
  rewrite (no_conflict_inv sc s t1 t2 l Hi He Hl). rewrite andb_false_r. reflexivity.
Qed.

(* D15 fix, ownership of the per-worker commons: worker t = S j touches commons[k] only for k = j, and while the coordinator
   touches any commons[k] (cholmod_l_start before the first pthread_create; free_dense + cholmod_l_finish after the last
   pthread_join) or reads the caller's common, no worker exists: every worker is not yet created or has exited *)
Lemma common_owner_worker : forall sc s j k, acc N na sc s (S j) (LWCommon k) <> ANone -> k = j /\ j < N /\ sc = false.
Proof.
  intros sc s j k H. simpl in H. destruct (Nat.ltb_spec j N) as [Hj|Hj]; [|congruence].
  destruct (wp s j); try congruence; destruct sc; simpl in H; try congruence;
    destruct (Nat.eqb_spec k j); try congruence; auto.
Qed.

Lemma common_owner_coordinator : forall sc s l, Inv s -> (l = LCommon \/ exists k, l = LWCommon k) -> acc N na sc s 0 l <> ANone ->
  forall j, j < N -> wp s j = WNotCreated \/ wp s j = WExited.
Proof using.
  intros sc s l [Hg Hw] Hl H j Hj. specialize (Hw j Hj). unfold wok in Hw. simpl in H.
  destruct (cp s) as [k0| | | | |chk| | | | | | |k0| | ] eqn:Hc; try (destruct Hl as [->|[k ->]]; try destruct chk; simpl in H; congruence).
  - (* CCreate k0 *) destruct Hl as [->|[k ->]]; destruct (Nat.eqb_spec k0 0); rewrite ?andb_false_r in H; simpl in H; try congruence;
      subst k0; simpl in Hw; destruct Hw as (_ & _ & _ & Hx); left; exact Hx.
  - (* CCleanup *) right. simpl in Hw. destruct Hw as (_ & _ & _ & _ & Hx). apply Hx. exact Hj.
Qed.
End Inv.

(* ---------------------------------------------------------------------------------------------
   Determinism: a second invariant (on top of Inv) relating blk/succ/res/result to the sequential selection *)
Section Det.
Variables N na : nat.
Variable lt : nat -> nat -> bool.
Hypothesis HN : 1 <= N.
Hypothesis Hna : 2 <= na.
Notation gsel := (goodsel na lt).

Lemma scan_spec : forall b o len j0 r,
  j0 + len = N ->
  (forall j, j0 <= j -> j < N -> b * N + j < na -> o j = Some (b * N + j)) ->
  (1 <= b * N + j0 -> r = Some 0) ->
  match scan N na lt b o (seq j0 len) r with
  | (r', None) => (forall a, 1 <= a -> b * N + j0 <= a -> a < b * N + N -> a < na -> gsel a = false)
                  /\ ((1 <= b * N + j0 \/ 1 <= len) -> r' = Some 0)
  | (r', Some (x, f)) => exists a, x = Some a /\ f = lt a 0 /\ b * N + j0 <= a /\ a < b * N + N /\ 1 <= a /\ a < na /\ gsel a = true
                  /\ (forall a', 1 <= a' -> b * N + j0 <= a' -> a' < a -> gsel a' = false)
  end.
Proof.
  intros b o len. induction len as [|l IH]; intros j0 r Hlen Ho Hr; simpl.
  - split; [intros; exfalso; lia | intros [H|H]; [auto | exfalso; lia]].
  - assert (Hb : b <> 0 -> 1 <= b * N) by (intro; destruct b; [congruence | simpl; lia]).
    destruct (Nat.leb_spec na (b * N + j0)) as [Hge|Hlt].
    + split; [intros; exfalso; lia | intros [H|H]; [auto | ]]. apply Hr; lia.
    + destruct (Nat.eqb_spec b 0) as [Hb0|Hb0]; destruct (Nat.eqb_spec j0 0) as [Hj0|Hj0]; simpl.
      * (* b = 0, j0 = 0: res = residual of trial 0 *)
        subst b j0. assert (Ho0 : o 0 = Some 0) by (rewrite (Ho 0); [reflexivity | lia | lia | simpl; lia]).
        specialize (IH 1 (o 0)). simpl in IH.
        assert (IH' := IH ltac:(lia) ltac:(intros; apply Ho; simpl; lia) ltac:(intros; exact Ho0)). clear IH.
        simpl in *. destruct (scan N na lt 0 o (seq 1 l) (o 0)) as [r' [[x f]|]].
        -- destruct IH' as (a & Hx & Hf & Hlo & Hhi & H1a & Hana & Hga & Hmin). exists a. repeat split; auto; try lia; (intros a' ? ? ?; apply Hmin; lia).
        -- destruct IH' as [Hall Hr']. split; [intros; apply Hall; lia | intros; apply Hr'; lia].
      * (* b = 0, j0 > 0 *)
        assert (Hidx : 1 <= b * N + j0) by lia. rewrite (Ho j0) by lia. rewrite (Hr Hidx). simpl.
        fold (gsel (b * N + j0)).
        destruct (gsel (b * N + j0)) eqn:Hg.
        -- exists (b * N + j0). repeat split; auto; try lia; (intros; exfalso; lia).
        -- specialize (IH (S j0) (Some 0) ltac:(lia) ltac:(intros; apply Ho; lia) ltac:(intros; reflexivity)).
           destruct (scan N na lt b o (seq (S j0) l) (Some 0)) as [r' [[x f]|]].
           ++ destruct IH as (a & Hx & Hf & Hlo & Hhi & H1a & Hana & Hga & Hmin). exists a. repeat split; auto; try lia;
              (intros a' ? ? ?; destruct (Nat.eq_dec a' (b * N + j0)); [subst; auto | apply Hmin; lia]).
           ++ destruct IH as [Hall Hr']. split; [|intros; apply Hr'; lia].
              intros a H1 H2 H3 H4. destruct (Nat.eq_dec a (b * N + j0)); [subst; auto | apply Hall; lia].
      * (* b > 0, j0 = 0 *)
        assert (Hidx : 1 <= b * N + j0) by (specialize (Hb Hb0); lia). rewrite (Ho j0) by lia. rewrite (Hr Hidx). simpl.
        fold (gsel (b * N + j0)).
        destruct (gsel (b * N + j0)) eqn:Hg.
        -- exists (b * N + j0). repeat split; auto; try lia; (intros; exfalso; lia).
        -- specialize (IH (S j0) (Some 0) ltac:(lia) ltac:(intros; apply Ho; lia) ltac:(intros; reflexivity)).
           destruct (scan N na lt b o (seq (S j0) l) (Some 0)) as [r' [[x f]|]].
           ++ destruct IH as (a & Hx & Hf & Hlo & Hhi & H1a & Hana & Hga & Hmin). exists a. repeat split; auto; try lia;
              (intros a' ? ? ?; destruct (Nat.eq_dec a' (b * N + j0)); [subst; auto | apply Hmin; lia]).
           ++ destruct IH as [Hall Hr']. split; [|intros; apply Hr'; lia].
              intros a H1 H2 H3 H4. destruct (Nat.eq_dec a (b * N + j0)); [subst; auto | apply Hall; lia].
      * (* b > 0, j0 > 0 *)
        assert (Hidx : 1 <= b * N + j0) by lia. rewrite (Ho j0) by lia. rewrite (Hr Hidx). simpl.
        fold (gsel (b * N + j0)).
        destruct (gsel (b * N + j0)) eqn:Hg.
        -- exists (b * N + j0). repeat split; auto; try lia; (intros; exfalso; lia).
        -- specialize (IH (S j0) (Some 0) ltac:(lia) ltac:(intros; apply Ho; lia) ltac:(intros; reflexivity)).
           destruct (scan N na lt b o (seq (S j0) l) (Some 0)) as [r' [[x f]|]].
           ++ destruct IH as (a & Hx & Hf & Hlo & Hhi & H1a & Hana & Hga & Hmin). exists a. repeat split; auto; try lia;
              (intros a' ? ? ?; destruct (Nat.eq_dec a' (b * N + j0)); [subst; auto | apply Hmin; lia]).
           ++ destruct IH as [Hall Hr']. split; [|intros; apply Hr'; lia].
              intros a H1 H2 H3 H4. destruct (Nat.eq_dec a (b * N + j0)); [subst; auto | apply Hall; lia].
Qed.

Inductive cls := ClCreate | ClLoop | ClAfter.
Definition cls_of (c : cpc) : cls :=
  match c with
  | CCreate _ => ClCreate
  | CLockA | CSetRun | CUnlockA | CLockB | CLoopB _ | CCvWait | CWoken | CRead => ClLoop
  | _ => ClAfter end.

Definition dok (s : state) : Prop :=
  match cls_of (cp s) with
  | ClCreate => blk s = 0 /\ succ s = false /\ result s = None
  | ClLoop => succ s = false /\ result s = None /\ (1 <= blk s -> res s = Some 0) /\
              (forall a, 1 <= a -> a < blk s * N -> a < na -> gsel a = false)
  | ClAfter => succ s = true /\ exists a, result s = Some (Some a, lt a 0) /\ is_first_good na lt a
  end.

Lemma cls_wake : forall c, cls_of (wake_c c) = cls_of c.
Proof. destruct c; reflexivity. Qed.

Lemma dok_ext : forall s s', cls_of (cp s') = cls_of (cp s) -> blk s' = blk s -> succ s' = succ s -> res s' = res s ->
  result s' = result s -> dok s -> dok s'.
Proof. intros s s' H1 H2 H3 H4 H5 H. unfold dok in *. rewrite H1, H2, H3, H4, H5. exact H. Qed.

Lemma dok_wstep : forall s j s', wstep s j = Some s' -> dok s -> dok s'.
Proof.
  intros s j s' Hs. apply dok_ext; unfold wstep in Hs;
    destruct (wp s j); try discriminate; try destruct (free s); try discriminate; try destruct (st s j);
    inversion Hs; subst s'; simpl; rewrite ?cls_wake; reflexivity.
Qed.

Lemma dok_spur : forall s t s', spurious N s t = Some s' -> dok s -> dok s'.
Proof.
  intros s t s' Hs. destruct t as [|j]; simpl in Hs.
  - destruct (cp s) eqn:Hc; try discriminate. inversion Hs; subst s'. unfold dok; simpl. rewrite Hc. simpl. auto.
  - destruct (j <? N); [|discriminate]. destruct (wp s j); try discriminate. inversion Hs; subst s'.
    apply dok_ext; reflexivity.
Qed.

Lemma nblocks_pos : 0 < nblocks N na.
Proof. unfold nblocks. apply Nat.div_str_pos. lia. Qed.

Lemma nblocks_cover : na <= nblocks N na * N.
Proof.
  unfold nblocks. assert (HN0 : N <> 0) by lia.
  pose proof (Nat.mul_succ_div_gt (na + N - 1) N HN0) as H. rewrite Nat.mul_succ_r in H.
  rewrite (Nat.mul_comm N) in H. lia.
Qed.

Lemma mul_le_l : forall a b, a <= b -> a * N <= b * N.
Proof. intros. apply Nat.mul_le_mono_r. assumption. Qed.

Lemma dok_cstep : forall s s', Inv N na s -> dok s -> cstep N na lt true s = Some s' -> dok s'.
Proof.
  intros s s' [Hg Hw] Hd Hs. unfold cstep in Hs. unfold dok in Hd.
  destruct (cp s) eqn:Hc; simpl in Hd;
    try (try (destruct (free s); [|discriminate]); inversion Hs; subst s'; unfold dok; simpl; rewrite ?cls_wake, ?Hc; simpl; exact Hd).
  - (* CCreate *) inversion Hs; subst s'. unfold dok; simpl.
    destruct (S k <? N); simpl; [exact Hd|].
    unfold loop_head. pose proof nblocks_pos as Hp. destruct (Nat.ltb_spec 0 (nblocks N na)); [|lia]. simpl.
    destruct Hd as (Hb & Hsu & Hre). rewrite Hb. repeat split; auto; intros; exfalso; lia.
  - (* CLoopB *) destruct (chk && all_done N na s); inversion Hs; subst s'; unfold dok; simpl; exact Hd.
  - (* CRead *)
    destruct Hd as (Hsu & Hre & Hres & Hall).
    pose proof (scan_spec (blk s) (out s) N 0 (res s)) as Hsc.
    assert (H1 : 0 + N = N) by lia.
    assert (H2 : forall j, 0 <= j -> j < N -> blk s * N + j < na -> out s j = Some (blk s * N + j)).
    { intros j _ Hj Hlt. specialize (Hw j Hj). unfold wok in Hw. simpl in Hw.
      destruct Hw as (_ & _ & _ & _ & Ho). apply Ho. unfold in_block.
      destruct (Nat.ltb_spec j N); [|lia]. destruct (Nat.ltb_spec (blk s * N + j) na); [reflexivity|lia]. }
    assert (H3 : 1 <= blk s * N + 0 -> res s = Some 0).
    { intros H. apply Hres. destruct (blk s); [simpl in H; lia | lia]. }
    specialize (Hsc H1 H2 H3). clear H1 H2 H3.
    destruct (scan N na lt (blk s) (out s) (seq 0 N) (res s)) as [r [[x f]|]]; inversion Hs; subst s'; clear Hs; unfold dok; simpl.
    + (* a step was accepted *)
      unfold loop_head. rewrite andb_false_r. simpl.
      destruct Hsc as (a & Hx & Hf & Hlo & Hhi & H1a & Hana & Hga & Hmin). subst x f.
      split; [reflexivity|]. exists a. split; [reflexivity|].
      unfold is_first_good. repeat split; auto.
      intros k [Hk1 Hk2]. destruct (Nat.lt_ge_cases k (blk s * N)); [apply Hall; lia | apply Hmin; lia].
    + (* none accepted in this block *)
      destruct Hsc as (Hnone & Hr').
      assert (Hall' : forall a, 1 <= a -> a < S (blk s) * N -> a < na -> gsel a = false).
      { intros a Ha1 Ha2 Ha3. simpl in Ha2. destruct (Nat.lt_ge_cases a (blk s * N)); [apply Hall; lia | apply Hnone; lia]. }
      unfold loop_head. rewrite Hsu. simpl. rewrite andb_true_r.
      destruct (Nat.ltb_spec (S (blk s)) (nblocks N na)) as [Hlt|Hge]; simpl.
      * repeat split; auto; (intros _; apply Hr'; right; lia).
      * exfalso. pose proof nblocks_cover as Hcov. pose proof (mul_le_l _ _ Hge) as Hm.
        assert (Hgood : gsel (na - 1) = true) by (unfold goodsel; rewrite Nat.eqb_refl; apply orb_true_r).
        rewrite Hall' in Hgood; [discriminate | lia | lia | lia].
  - (* CJoin *) destruct (wp s k); try discriminate. inversion Hs; subst s'. unfold dok; simpl. destruct (S k <? N); simpl; exact Hd.
Qed.

Lemma dok_init : dok init.
Proof. unfold dok; simpl. auto. Qed.

Lemma inv2_reachable : forall s, reachable N na lt true s -> Inv N na s /\ dok s.
Proof.
  induction 1 as [|s t s' Hr [Hi Hd] Hs|s t s' Hr [Hi Hd] Hs].
  - split; [apply inv_init; exact HN | apply dok_init].
  - split; [eapply inv_step; eauto|].
    destruct t as [|j]; simpl in Hs.
    + eapply dok_cstep; eauto.
    + destruct (j <? N); [|discriminate]. eapply dok_wstep; eauto.
  - split; [apply (inv_spur N na lt s t s' Hi Hs) | eapply dok_spur; eauto].
Qed.

(* the result of a finished run is the sequential selection, whatever the schedule and the number of workers *)
Lemma deterministic_reachable : forall s, reachable N na lt true s -> finished s ->
  exists a, result s = Some (Some a, lt a 0) /\ is_first_good na lt a.
Proof.
  intros s Hr Hf. destruct (inv2_reachable s Hr) as [_ Hd]. unfold dok in Hd. unfold finished in Hf. rewrite Hf in Hd.
  simpl in Hd. destruct Hd as [_ Hd]. exact Hd.
Qed.

Lemma first_good_unique : forall a b, is_first_good na lt a -> is_first_good na lt b -> a = b.
Proof.
  intros a b (Ha1 & Ha2 & Ha3) (Hb1 & Hb2 & Hb3).
  destruct (Nat.lt_trichotomy a b) as [H|[H|H]]; auto.
  - rewrite (Hb3 a) in Ha2; [discriminate | lia].
  - rewrite (Ha3 b) in Hb2; [discriminate | lia].
Qed.

Lemma find_first : forall (f : nat -> bool) len start a, find f (seq start len) = Some a ->
  start <= a < start + len /\ f a = true /\ forall k, start <= k < a -> f k = false.
Proof.
  intros f. induction len as [|l IH]; intros start a H; simpl in H; [discriminate|].
  destruct (f start) eqn:Hf.
  - inversion H; subst. repeat split; auto; try lia; (intros; exfalso; lia).
  - destruct (IH (S start) a H) as (H1 & H2 & H3). repeat split; auto; try lia;
    (intros k Hk; destruct (Nat.eq_dec k start); [subst; auto | apply H3; lia]).
Qed.

Lemma find_none : forall (f : nat -> bool) len start, find f (seq start len) = None -> forall k, start <= k < start + len -> f k = false.
Proof.
  intros f. induction len as [|l IH]; intros start H k Hk; simpl in H; [exfalso; lia|].
  destruct (f start) eqn:Hf; [discriminate|].
  destruct (Nat.eq_dec k start); [subst; auto | apply (IH (S start) H); lia].
Qed.

Lemma deterministic_spec : forall s, reachable N na lt true s -> finished s -> result s = walk_spec na lt.
Proof.
  intros s Hr Hf. destruct (deterministic_reachable s Hr Hf) as (a & Hres & Hfg).
  unfold walk_spec. destruct (find gsel (seq 1 (na - 1))) as [b|] eqn:Hfind.
  - destruct (find_first _ _ _ _ Hfind) as (H1 & H2 & H3).
    assert (Hb : is_first_good na lt b) by (unfold is_first_good; repeat split; auto; lia).
    rewrite (first_good_unique a b Hfg Hb) in Hres. exact Hres.
  - exfalso. destruct Hfg as (H1 & H2 & _). rewrite (find_none _ _ _ Hfind a) in H2; [discriminate | lia].
Qed.
End Det.


(* ---------------------------------------------------------------------------------------------
   Concrete runs (non-vacuity of the theorems' hypotheses), by evaluation *)
Definition lt_ex (a b : nat) : bool := match a, b with 2, 0 => true | _, _ => false end.
Definition ex_schedule : list nat :=
  [0; 0; 0; 0; 0; 0; 0; 1; 1; 1; 1; 1; 1; 1; 0; 0; 1; 1; 2; 2; 2; 2; 2;
   2; 2; 0; 0; 0; 0; 0; 0; 0; 0; 1; 1; 1; 1; 1; 1; 1; 0; 0; 0; 0; 0; 0;
   1; 1; 0; 2; 2; 0; 0].

Lemma ex_finished_reachable :
  exists s, reachable 2 3 lt_ex true s /\ finished s /\ result s = Some (Some 2, true) /\ length ex_schedule = 53.
Proof.
  assert (H1 : option_map (fun s => (cp s, result s)) (run 2 3 lt_ex true init ex_schedule) = Some (CDone, Some (Some 2, true))) by (vm_compute; reflexivity).
  destruct (run 2 3 lt_ex true init ex_schedule) as [s|] eqn:Hrun; [|discriminate H1].
  exists s. split; [eapply run_reachable; [apply reach_init | exact Hrun]|].
  simpl in H1. inversion H1 as [[Hc Hr]]. repeat split; auto.
Qed.

(* D15 fix, non-vacuity of race freedom on the per-worker commons: in the state where the two workers of one block are both
   computing (the witness state of refuted_race_common) each has an enabled step writing its OWN common, neither touches the
   other's nor the caller's; and the coordinator's first and last internal steps do write the commons *)
Lemma ex_commons_used :
  exists s, reachable 2 2 lt_none true s /\
    enabledb 2 2 lt_none true s 1 = true /\ enabledb 2 2 lt_none true s 2 = true /\
    acc 2 2 false s 1 (LWCommon 0) = AWrite /\ acc 2 2 false s 2 (LWCommon 1) = AWrite /\
    acc 2 2 false s 1 (LWCommon 1) = ANone /\ acc 2 2 false s 2 (LWCommon 0) = ANone /\
    acc 2 2 false s 1 LCommon = ANone /\ acc 2 2 false s 2 LCommon = ANone /\
    acc 2 2 false init 0 (LWCommon 0) = AWrite /\ acc 2 2 false init 0 (LWCommon 1) = AWrite /\ acc 2 2 false init 0 LCommon = ARead.
Proof.
  destruct (run 2 2 lt_none true init d15_witness) as [s|] eqn:Hrun; [|vm_compute in Hrun; discriminate].
  exists s. split; [eapply run_reachable; [apply reach_init | exact Hrun]|].
  vm_compute in Hrun. inversion Hrun. vm_compute. repeat split; reflexivity.
Qed.

Lemma ex_reading_reachable :
  exists s, reachable 2 3 lt_ex true s /\ coordinator_reading 2 3 s 0 /\ coordinator_reading 2 3 s 1.
Proof.
  assert (H1 : option_map (fun s => (cp s, blk s)) (run 2 3 lt_ex true init (firstn 27 ex_schedule)) = Some (CRead, 0)) by (vm_compute; reflexivity).
  destruct (run 2 3 lt_ex true init (firstn 27 ex_schedule)) as [s|] eqn:Hrun; [|discriminate H1].
  exists s. split; [eapply run_reachable; [apply reach_init | exact Hrun]|].
  simpl in H1. inversion H1 as [[Hc Hb]].
  unfold coordinator_reading. rewrite Hc, Hb. split; split; reflexivity.
Qed.
