(* C06_L1.v — proofs about photospline's own FITS logic (to_doc / of_doc), on top of C06_Proofs. *)
From Coq Require Import List NArith ZArith Bool Lia ZifyBool Arith.
From PS Require Import Generated_fits FitsModel FitsWf C06_Proofs.
Import ListNotations.
Open Scope N_scope.

(* ------------------------------------------------------------------------------------------------ *)
(* card helpers *)
Lemma card_int_int_card k z : card_int k (int_card k z) = Some z.
Proof. unfold card_int, int_card. rewrite str_eqb_refl. apply parse_int_print. Qed.

Lemma card_nat_int_card k n : card_nat k (int_card k (Z.of_N n)) = Some n.
Proof.
  unfold card_nat. rewrite card_int_int_card.
  destruct (0 <=? Z.of_N n)%Z eqn:E; [rewrite N2Z.id; reflexivity|lia].
Qed.

Lemma read_axes_numbered l : forall j rest,
  read_axes (length l) j (map (fun ja => int_card (keyn s_NAXIS (fst ja)) (Z.of_N (snd ja))) (numbered j l) ++ rest)
  = Ok (l, rest).
Proof.
  induction l as [|a l IH]; intros j rest; [reflexivity|].
  cbn [length numbered map List.app read_axes fst snd]. unfold keyn. rewrite card_int_int_card.
  destruct (Z.of_N a <? 0)%Z eqn:E; [lia|]. rewrite IH. cbn [bind fst snd]. rewrite N2Z.id. reflexivity.
Qed.

Definition primary_layout (axes : list N) : layout :=
  {| l_kind := KPrimary; l_bitpix := (-32)%Z; l_axes := axes; l_pcount := 0; l_gcount := 1 |}.

Lemma hdu_layout_primary axes rest :
  hdu_layout ([Card s_SIMPLE (VTok s_T); int_card s_BITPIX (-32); int_card s_NAXIS (Z.of_nat (length axes))]
              ++ map (fun ja => int_card (keyn s_NAXIS (fst ja)) (Z.of_N (snd ja))) (numbered 1 axes) ++ rest)
  = Ok (primary_layout axes).
Proof.
  cbn [List.app]. unfold hdu_layout.
  change (first_card_kind (Card s_SIMPLE (VTok s_T))) with (Some KPrimary).
  rewrite card_int_int_card. rewrite <- nat_N_Z, card_nat_int_card.
  change (word_size (-32)) with (Some 4%nat). cbn iota. rewrite Nat2N.id, read_axes_numbered. reflexivity.
Qed.

Definition vector_layout (n : nat) : layout :=
  {| l_kind := KImage; l_bitpix := (-64)%Z; l_axes := [N.of_nat n]; l_pcount := 0; l_gcount := 1 |}.

Lemma hdu_layout_vector name ws : hdu_layout (h_cards (vector_hdu name ws)) = Ok (vector_layout (length ws)).
Proof.
  unfold vector_hdu. cbn [h_cards]. unfold hdu_layout.
  change (first_card_kind (Card s_XTENSION (VStr (fits_quote s_IMAGE)))) with (Some KImage).
  rewrite card_int_int_card. change 1%Z with (Z.of_N 1) at 1. rewrite card_nat_int_card.
  change (word_size (-64)) with (Some 8%nat). cbn iota.
  change (N.to_nat 1) with 1%nat. cbn [read_axes]. unfold keyn at 1. rewrite card_int_int_card.
  destruct (Z.of_nat (length ws) <? 0)%Z eqn:E; [lia|]. cbn [bind fst snd].
  change 0%Z with (Z.of_N 0). rewrite card_nat_int_card. change 1%Z with (Z.of_N 1). rewrite card_nat_int_card.
  unfold vector_layout. rewrite <- nat_N_Z, N2Z.id. reflexivity.
Qed.

(* ------------------------------------------------------------------------------------------------ *)
(* keys of the primary header *)
Definition head_cards (t : table) : list card :=
  [Card s_SIMPLE (VTok s_T); int_card s_BITPIX (-32); int_card s_NAXIS (Z.of_nat (t_ndim t))]
  ++ map (fun ja => int_card (keyn s_NAXIS (fst ja)) (Z.of_N (snd ja))) (numbered 1 (List.rev (t_naxes t)))
  ++ [Card s_EXTEND (VTok s_T); str_card s_TYPE s_typeString]
  ++ map (fun io => int_card (keyn s_ORDER (fst io)) (Z.of_N (snd io))) (numbered 0 (t_order t))
  ++ match t_periods t with
     | None => []
     | Some ps => map (fun ip => Card (keyn s_PERIOD (fst ip)) (VTok (match snd ip with Some p => p | None => [48; 46] end)))
                      (numbered 0 ps)
     end.
Definition aux_cards (t : table) : list card := map (fun kv => str_card (fst kv) (snd kv)) (t_aux t).

Lemma primary_cards_split t : primary_cards t = head_cards t ++ aux_cards t.
Proof. unfold primary_cards, head_cards, aux_cards. rewrite <- !app_assoc. reflexivity. Qed.

Lemma forallb_map_numbered {A} (Q : card -> bool) (f : N * A -> card) l : forall j,
  (forall i a, Q (f (i, a)) = true) -> forallb Q (map f (numbered j l)) = true.
Proof. induction l; intros j H; simpl; auto. rewrite H, IHl; auto. Qed.

Lemma head_keys_forall (Q : str -> bool) t :
  Q s_SIMPLE = true -> Q s_BITPIX = true -> Q s_NAXIS = true -> Q s_EXTEND = true -> Q s_TYPE = true ->
  (forall i, Q (keyn s_NAXIS i) = true) -> (forall i, Q (keyn s_ORDER i) = true) -> (forall i, Q (keyn s_PERIOD i) = true) ->
  forallb (fun c => Q (card_key c)) (head_cards t) = true.
Proof.
  intros H1 H2 H3 H4 H5 HN HO HP. unfold head_cards. rewrite !forallb_app.
  cbn [forallb card_key int_card str_card]. rewrite H1, H2, H3, H4, H5. cbn [andb].
  rewrite !forallb_map_numbered; auto.
  - destruct (t_periods t); auto. apply forallb_map_numbered. intros; apply HP.
  - intros; apply HO.
  - intros; apply HN.
Qed.

Lemma find_card_skip name pre post :
  forallb (fun c => negb (str_eqb (card_key c) name)) pre = true -> find_card name (pre ++ post) = find_card name post.
Proof.
  induction pre; simpl; auto. intros H. apply andb_true_iff in H as [H1 H2].
  apply negb_true_iff in H1. rewrite H1. auto.
Qed.

Lemma find_card_none name cs :
  forallb (fun c => negb (str_eqb (card_key c) name)) cs = true -> find_card name cs = None.
Proof. intros H. rewrite <- (app_nil_r cs), find_card_skip; auto. Qed.

Lemma str_eqb_app_l p a b : str_eqb (p ++ a) (p ++ b) = str_eqb a b.
Proof. induction p; simpl; auto. rewrite N.eqb_refl. auto. Qed.

Lemma str_eqb_app_nonnil p a : a <> [] -> str_eqb (p ++ a) p = false.
Proof. intros H. rewrite <- (app_nil_r p) at 2. rewrite str_eqb_app_l. destruct a; [congruence|reflexivity]. Qed.

Lemma keyn_neq base i j : i <> j -> str_eqb (keyn base i) (keyn base j) = false.
Proof. intros H. unfold keyn. rewrite str_eqb_app_l. apply str_eqb_neq. intros E. apply dec_inj in E. auto. Qed.

Lemma reserved_prefix p k : In p reserved_prefixes -> starts_with p k = true -> reserved k = true.
Proof. intros I S. unfold reserved. apply Bool.orb_true_iff. left. apply existsb_exists. exists p. auto. Qed.

Lemma reserved_keyn p i : In p reserved_prefixes -> reserved (keyn p i) = true.
Proof. intros I. apply (reserved_prefix p); auto. apply starts_with_app. Qed.

Lemma in_NAXIS : In s_NAXIS reserved_prefixes. Proof. cbv. tauto. Qed.
Lemma in_ORDER : In s_ORDER reserved_prefixes. Proof. cbv. tauto. Qed.
Lemma in_PERIOD : In s_PERIOD reserved_prefixes. Proof. cbv. tauto. Qed.

Lemma starts_with_refl p : starts_with p p = true.
Proof. rewrite <- (app_nil_r p) at 2. apply starts_with_app. Qed.

(* ------------------------------------------------------------------------------------------------ *)
(* well-formed tables *)
(* the reloaded table: every array equal; extents as given (the knot-derived default when the table has none); auxiliary
   entries: the same keys in the same order, each value followed by the blanks that pad its card text to 8 characters
   (FitsWf.aux_reloaded) — for values with embedded quotes too *)
Definition table_eq_upto_padding (t t' : table) : Prop :=
  t_order t' = t_order t /\ t_knots t' = t_knots t /\ t_naxes t' = t_naxes t /\ t_strides t' = t_strides t /\
  t_coeffs t' = t_coeffs t /\
  t_extents t' = Some (match t_extents t with Some e => e | None => default_extents (t_order t) (t_knots t) end) /\
  t_aux t' = map (fun kv => (fst kv, aux_reloaded (snd kv))) (t_aux t).

(* ------------------------------------------------------------------------------------------------ *)
(* auxiliary keys *)
Lemma flat_map_nil {A B} (f : A -> list B) l : (forall a, In a l -> f a = []) -> flat_map f l = [].
Proof. induction l; simpl; auto. intros H. rewrite H, IHl; auto. Qed.

Lemma strip_quotes_quoted v : strip_quotes (quote :: v ++ [quote]) = v.
Proof.
  unfold strip_quotes. rewrite N.eqb_refl. destruct (v ++ [quote]) eqn:E.
  - destruct v; discriminate.
  - rewrite <- E. rewrite last_last, N.eqb_refl, removelast_last. reflexivity.
Qed.

(* the un-doubling loop undoes the doubling, whatever blank padding follows: for EVERY value (no condition on v — a
   value consisting of quotes only, or ending in one, included).
   The same fact for C16's string model is C16_Proofs.undouble_dbl; C06_AuxTie.reader_agree shows the two models of the
   reader are the same function on character strings. *)
Lemma unescape_blanks j : unescape_quotes (repeat sp j) = repeat sp j.
Proof. induction j as [|j IH]; [reflexivity|]. cbn [repeat unescape_quotes]. change (sp =? quote) with false. cbn iota. now rewrite IH. Qed.

Lemma unescape_escape_pad v j : unescape_quotes (escape_quotes v ++ repeat sp j) = v ++ repeat sp j.
Proof.
  induction v as [|c r IH]; [apply unescape_blanks|].
  cbn [escape_quotes]. destruct (c =? quote) eqn:E.
  - apply N.eqb_eq in E. subst c. cbn [List.app unescape_quotes]. rewrite N.eqb_refl. now rewrite IH.
  - cbn [List.app unescape_quotes]. rewrite E. now rewrite IH.
Qed.

Lemma escape_quotes_length v : length (escape_quotes v) = enc_len v.
Proof.
  unfold enc_len, count_char. induction v as [|c r IH]; [reflexivity|].
  cbn [escape_quotes filter]. destruct (c =? quote); cbn [length]; rewrite IH; lia.
Qed.

(* reader after writer on one value: fitsio.h 262-279 applied to the raw card value 'fits_quote v' *)
Lemma aux_value_fits_quote v : aux_value (quote :: fits_quote v ++ [quote]) = aux_reloaded v.
Proof.
  unfold aux_value. rewrite N.eqb_refl, strip_quotes_quoted. unfold fits_quote, pad_right, aux_reloaded.
  rewrite unescape_escape_pad, escape_quotes_length. reflexivity.
Qed.

Lemma aux_of_head t : aux_of_cards (head_cards t) = [].
Proof.
  unfold aux_of_cards. apply flat_map_nil. intros c I.
  pose proof (head_keys_forall reserved t) as H.
  assert (forallb (fun c => reserved (card_key c)) (head_cards t) = true) as F.
  { apply H; reflexivity. }
  rewrite forallb_forall in F. rewrite (F c I). rewrite andb_false_r. reflexivity.
Qed.

Lemma aux_of_aux_cards aux : forallb (fun kv => aux_key_ok (fst kv)) aux = true ->
  aux_of_cards (map (fun kv => str_card (fst kv) (snd kv)) aux) = map (fun kv => (fst kv, aux_reloaded (snd kv))) aux.
Proof.
  induction aux as [|[k v] aux IH]; intros W; [reflexivity|].
  cbn [forallb fst snd] in W. apply andb_true_iff in W as [W1 W2].
  unfold aux_key_ok in W1. repeat (apply andb_true_iff in W1; destruct W1 as [W1 ?]).
  cbn [map fst snd]. unfold aux_of_cards in *. cbn [flat_map]. rewrite IH by auto.
  cbn [str_card card_key raw_value]. rewrite W1. match goal with H : negb (reserved k) = true |- _ => rewrite H end.
  cbn [andb List.app]. rewrite aux_value_fits_quote. reflexivity.
Qed.

Lemma aux_of_primary t : forallb (fun kv => aux_key_ok (fst kv)) (t_aux t) = true ->
  aux_of_cards (primary_cards t) = map (fun kv => (fst kv, aux_reloaded (snd kv))) (t_aux t).
Proof.
  intros W. rewrite primary_cards_split. unfold aux_of_cards. rewrite flat_map_app.
  fold (aux_of_cards (head_cards t)). rewrite aux_of_head. cbn [List.app]. apply aux_of_aux_cards; auto.
Qed.

(* ------------------------------------------------------------------------------------------------ *)
(* orders *)
Lemma aux_not_reserved_key p aux : In p reserved_prefixes ->
  forallb (fun kv => aux_key_ok (fst kv)) aux = true ->
  forallb (fun c => negb (str_eqb (card_key c) p)) (map (fun kv => str_card (fst kv) (snd kv)) aux) = true.
Proof.
  intros I W. rewrite forallb_forall in *. intros c Hc. apply in_map_iff in Hc as ([k v] & <- & Hin).
  specialize (W _ Hin). cbn [fst snd str_card card_key] in *. unfold aux_key_ok in W.
  repeat (apply andb_true_iff in W; destruct W as [W ?]).
  destruct (str_eqb k p) eqn:E; auto. apply str_eqb_eq in E. subst k.
  rewrite (reserved_prefix p p I (starts_with_refl p)) in *. discriminate.
Qed.

Lemma key_int_ORDER_none t : forallb (fun kv => aux_key_ok (fst kv)) (t_aux t) = true ->
  key_int s_ORDER (primary_cards t) = None.
Proof.
  intros W. unfold key_int. rewrite find_card_none; auto.
  rewrite primary_cards_split, forallb_app. unfold aux_cards. rewrite (aux_not_reserved_key s_ORDER _ in_ORDER W), andb_true_r.
  apply (head_keys_forall (fun k => negb (str_eqb k s_ORDER))); try reflexivity.
  intros i. unfold keyn. rewrite str_eqb_app_nonnil; auto. apply dec_nonnil.
Qed.

Lemma find_numbered_card base (g : N -> Z) l : forall start i x rest, nth_error l i = Some x ->
  find_card (keyn base (start + N.of_nat i))
            (map (fun io => int_card (keyn base (fst io)) (g (snd io))) (numbered start l) ++ rest)
  = Some (int_card (keyn base (start + N.of_nat i)) (g x)).
Proof.
  induction l as [|a l IH]; intros start i x rest H; [destruct i; discriminate|].
  destruct i as [|i]; cbn [numbered map List.app find_card fst snd int_card card_key].
  - inversion H; subst. rewrite N.add_0_r, str_eqb_refl. reflexivity.
  - rewrite keyn_neq by lia. replace (start + N.of_nat (S i)) with ((start + 1) + N.of_nat i) by lia.
    apply IH. exact H.
Qed.

Definition pre_cards (t : table) : list card :=
  [Card s_SIMPLE (VTok s_T); int_card s_BITPIX (-32); int_card s_NAXIS (Z.of_nat (t_ndim t))]
  ++ map (fun ja => int_card (keyn s_NAXIS (fst ja)) (Z.of_N (snd ja))) (numbered 1 (List.rev (t_naxes t)))
  ++ [Card s_EXTEND (VTok s_T); str_card s_TYPE s_typeString].

Lemma primary_cards_pre t : exists rest, primary_cards t =
  pre_cards t ++ map (fun io => int_card (keyn s_ORDER (fst io)) (Z.of_N (snd io))) (numbered 0 (t_order t)) ++ rest.
Proof. eexists. unfold primary_cards, pre_cards. rewrite <- !app_assoc. reflexivity. Qed.

Lemma key_int_ORDERn t i x : nth_error (t_order t) i = Some x ->
  key_int (keyn s_ORDER (N.of_nat i)) (primary_cards t) = Some (Z.of_N x).
Proof.
  intros H. destruct (primary_cards_pre t) as [rest ->]. unfold key_int.
  rewrite find_card_skip.
  - change (N.of_nat i) with (0 + N.of_nat i). rewrite (find_numbered_card s_ORDER Z.of_N _ 0 i x rest H).
    unfold int_card. apply parse_int_print.
  - unfold pre_cards. rewrite !forallb_app. cbn [forallb card_key int_card str_card].
    rewrite forallb_map_numbered; [reflexivity|]. intros; reflexivity.
Qed.

Lemma traverse_nth {B} (f : N -> fres B) l : forall s,
  (forall k x, nth_error l k = Some x -> f (N.of_nat (s + k)) = Ok x) ->
  traverse f (map N.of_nat (seq s (length l))) = Ok l.
Proof.
  induction l as [|a l IH]; intros s H; [reflexivity|].
  cbn [length seq map traverse]. rewrite <- (Nat.add_0_r s) at 1. rewrite (H 0%nat a eq_refl). cbn [bind].
  rewrite IH; [reflexivity|]. intros k x Hk. replace (S s + k)%nat with (s + S k)%nat by lia. apply H. exact Hk.
Qed.

Lemma read_orders_primary t : forallb (fun kv => aux_key_ok (fst kv)) (t_aux t) = true ->
  forallb (fun o => o <? 2 ^ 31) (t_order t) = true ->
  read_orders (length (t_order t)) (primary_cards t) = Ok (t_order t).
Proof.
  intros W R. unfold read_orders. rewrite key_int_ORDER_none by auto.
  apply traverse_nth. intros k x Hk. cbn [Nat.add]. rewrite (key_int_ORDERn t k x Hk).
  rewrite forallb_forall in R. specialize (R x (nth_error_In _ _ Hk)). apply N.ltb_lt in R.
  assert (0 <= Z.of_N x < two32)%Z as [A B].
  { unfold two32. change (2 ^ 31) with 2147483648 in R. lia. }
  apply Z.leb_le in A. apply Z.ltb_lt in B. rewrite A, B. cbn [andb]. rewrite N2Z.id. reflexivity.
Qed.

(* ------------------------------------------------------------------------------------------------ *)
(* strides *)
Lemma prodN_app a b : prodN (a ++ b) = prodN a * prodN b.
Proof. unfold prodN. induction a; cbn [List.app fold_right]; [rewrite N.mul_1_l; reflexivity | rewrite IHa, N.mul_assoc; reflexivity]. Qed.

Lemma prodN_rev l : prodN (List.rev l) = prodN l.
Proof. induction l; [reflexivity|]. cbn [List.rev]. rewrite prodN_app, IHl. unfold prodN. cbn [fold_right]. rewrite N.mul_1_r. apply N.mul_comm. Qed.

Lemma partial_products_snoc l : forall acc x,
  partial_products acc (l ++ [x]) = partial_products acc l ++ [acc * prodN l * x].
Proof.
  induction l as [|b l IH]; intros acc x.
  - simpl. f_equal. unfold prodN. simpl. lia.
  - cbn [List.app partial_products]. rewrite IH. cbn [List.app]. do 3 f_equal. unfold prodN. cbn [fold_right]. lia.
Qed.

Lemma strides_aux r : List.rev (1 :: partial_products 1 (List.rev r)) = prodN r :: strides_of r.
Proof.
  induction r as [|b r IH]; [reflexivity|].
  change (List.rev (b :: r)) with (List.rev r ++ [b]). rewrite partial_products_snoc. cbn [strides_of].
  rewrite app_comm_cons, rev_unit, IH, prodN_rev. f_equal. unfold prodN. cbn [fold_right]. lia.
Qed.

Lemma read_strides_rev naxes : naxes <> [] -> read_strides (List.rev naxes) = strides_of naxes.
Proof.
  destruct naxes as [|a r]; [congruence|]. intros _. unfold read_strides.
  change (List.rev (a :: r)) with (List.rev r ++ [a]). rewrite removelast_last. apply strides_aux.
Qed.

(* ------------------------------------------------------------------------------------------------ *)
(* extension names *)
Lemma escape_no_quote s : no_char quote s = true -> escape_quotes s = s.
Proof. induction s; simpl; auto. intros H. apply andb_true_iff in H as [H1 H2]. apply negb_true_iff in H1. rewrite H1, IHs; auto. Qed.

Lemma unescape_no_quote s : no_char quote s = true -> unescape_quotes s = s.
Proof. induction s; simpl; auto. intros H. apply andb_true_iff in H as [H1 H2]. apply negb_true_iff in H1. rewrite H1, IHs; auto. Qed.

Lemma no_quote_pad s n : no_char quote s = true -> no_char quote (pad_right n s) = true.
Proof.
  intros H. unfold pad_right, no_char in *. rewrite forallb_app, H. cbn [andb].
  induction (n - length s)%nat; simpl; auto.
Qed.

Definition clean_name (nm : str) : Prop :=
  no_char quote nm = true /\ nm <> [] /\ last nm sp <> sp /\ map to_upper nm = nm.

Lemma string_value_clean k nm : clean_name nm -> string_value (str_card k nm) = Some nm.
Proof.
  intros (Q & NE & L & _). unfold str_card, string_value, fits_quote. rewrite escape_no_quote by auto.
  rewrite unescape_no_quote by (apply no_quote_pad; auto). unfold pad_right. rewrite strip_trailing_repeat.
  rewrite strip_trailing_id; auto.
Qed.

Lemma last_forallb (P : N -> bool) l d : l <> [] -> forallb P l = true -> P (last l d) = true.
Proof.
  induction l as [|a l IH]; intros NE F; [congruence|]. cbn [forallb] in F. apply andb_true_iff in F as [F1 F2].
  destruct l; [exact F1|]. change (last (a :: n :: l) d) with (last (n :: l) d). apply IH; auto. discriminate.
Qed.

Lemma last_app_nonnil (a b : str) d : b <> [] -> last (a ++ b) d = last b d.
Proof.
  intros NE. induction a as [|x a IH]; auto. cbn [List.app].
  assert (a ++ b <> []) as NE2 by (destruct a; [exact NE|discriminate]).
  destruct (a ++ b) eqn:E; [congruence|]. cbn [last]. exact IH.
Qed.

Lemma digit_props c : is_digit c = true -> c <> quote /\ c <> sp /\ to_upper c = c.
Proof. unfold is_digit, to_upper, quote, sp. intros H. repeat split; try lia. destruct ((97 <=? c) && (c <=? 122)) eqn:E; [lia|reflexivity]. Qed.

Lemma clean_knots i : clean_name (keyn s_KNOTS i).
Proof.
  pose proof (dec_digits i) as D. pose proof (dec_nonnil i) as NE. unfold keyn, clean_name. repeat split.
  - unfold no_char. rewrite forallb_app. cbn [forallb s_KNOTS]. cbn [andb]. 
    change (negb (75 =? quote) && (negb (78 =? quote) && (negb (79 =? quote) && (negb (84 =? quote) && (negb (83 =? quote) && true))))) with true.
    cbn [andb]. rewrite forallb_forall in *. intros c Hc. apply negb_true_iff, N.eqb_neq. apply digit_props. auto.
  - destruct (dec i); [congruence|discriminate].
  - rewrite last_app_nonnil by auto. apply digit_props. apply last_forallb; auto.
  - rewrite map_app. f_equal. rewrite forallb_forall in D. rewrite <- (map_id (dec i)) at 2. apply map_ext_in.
    intros c Hc. apply digit_props. auto.
Qed.

Lemma clean_extents : clean_name s_EXTENTS.
Proof. unfold clean_name. repeat split; try reflexivity; discriminate. Qed.

Lemma is_image_vector nm ws : is_image_hdu (vector_hdu nm ws) = true.
Proof. unfold is_image_hdu. rewrite hdu_layout_vector. reflexivity. Qed.

Lemma hdu_name_vector nm ws : hdu_name (h_cards (vector_hdu nm ws)) = string_value (str_card s_EXTNAME nm).
Proof. reflexivity. Qed.

Lemma name_matches_vector name nm ws : clean_name nm -> clean_name name ->
  name_matches name (vector_hdu nm ws) = str_eqb nm name.
Proof.
  intros C1 C2. unfold name_matches. rewrite is_image_vector, hdu_name_vector, string_value_clean by auto.
  destruct C1 as (_ & _ & _ & U1). destruct C2 as (_ & _ & _ & U2). rewrite U1, U2. reflexivity.
Qed.

(* the two names fits_movnam_hdu compares are in the reserved list read from the current source tree (Generated_fits): the
   repair of C06:aux-key:EXTNAME-shadows-KNOTSn.  If a clause is removed from reservedFitsKeyword these stop compiling. *)
Lemma reserved_EXTNAME : reserved s_EXTNAME = true. Proof. vm_compute. reflexivity. Qed.
Lemma reserved_HDUNAME : reserved s_HDUNAME = true. Proof. vm_compute. reflexivity. Qed.

Lemma hdu_name_primary_none t : forallb (fun kv => aux_key_ok (fst kv)) (t_aux t) = true ->
  hdu_name (primary_cards t) = None.
Proof.
  intros W. unfold hdu_name.
  assert (forall nm, nm = s_EXTNAME \/ nm = s_HDUNAME -> find_card nm (primary_cards t) = None) as H.
  { intros nm Hn. apply find_card_none. rewrite primary_cards_split, forallb_app. apply andb_true_iff. split.
    - destruct Hn; subst; apply (head_keys_forall (fun k => negb (str_eqb k _))); reflexivity.
    - unfold aux_cards. rewrite forallb_forall in *. intros c Hc. apply in_map_iff in Hc as ([k v] & <- & Hin).
      specialize (W _ Hin). cbn [fst snd str_card card_key] in *. unfold aux_key_ok in W.
      apply andb_true_iff in W as [_ W]. apply negb_true_iff in W.
      destruct (str_eqb k nm) eqn:E; [|reflexivity]. apply str_eqb_eq in E. subst k.
      destruct Hn; subst nm; [rewrite reserved_EXTNAME in W | rewrite reserved_HDUNAME in W]; discriminate. }
  rewrite !H; auto.
Qed.

Definition primary_hdu (t : table) : hdu := {| h_cards := primary_cards t; h_data := t_coeffs t |}.
Definition knot_hdus (start : N) (knots : list (list N)) : list hdu :=
  map (fun ik => vector_hdu (keyn s_KNOTS (fst ik)) (snd ik)) (numbered start knots).

Lemma name_matches_primary name t : forallb (fun kv => aux_key_ok (fst kv)) (t_aux t) = true ->
  name_matches name (primary_hdu t) = false.
Proof. intros W. unfold name_matches, primary_hdu. cbn [h_cards]. rewrite hdu_name_primary_none by auto. apply andb_false_r. Qed.

Lemma find_knot_hdu knots : forall start i k rest, nth_error knots i = Some k ->
  find (name_matches (keyn s_KNOTS (start + N.of_nat i))) (knot_hdus start knots ++ rest)
  = Some (vector_hdu (keyn s_KNOTS (start + N.of_nat i)) k).
Proof.
  induction knots as [|a l IH]; intros start i k rest H; [destruct i; discriminate|].
  unfold knot_hdus in *. destruct i as [|i]; cbn [numbered map List.app find fst snd].
  - inversion H; subst. rewrite N.add_0_r. rewrite name_matches_vector by apply clean_knots. rewrite str_eqb_refl. reflexivity.
  - rewrite name_matches_vector by apply clean_knots. rewrite keyn_neq by lia.
    replace (start + N.of_nat (S i)) with ((start + 1) + N.of_nat i) by lia. apply IH. exact H.
Qed.

Lemma find_extents_skip_knots knots : forall start rest,
  find (name_matches s_EXTENTS) (knot_hdus start knots ++ rest) = find (name_matches s_EXTENTS) rest.
Proof.
  induction knots as [|a l IH]; intros start rest; [reflexivity|].
  unfold knot_hdus in *. cbn [numbered map List.app find fst snd].
  rewrite name_matches_vector by (try apply clean_knots; apply clean_extents).
  unfold keyn at 1. change (str_eqb (s_KNOTS ++ dec start) s_EXTENTS) with false. apply IH.
Qed.

Lemma to_doc_shape t : to_doc t = primary_hdu t :: knot_hdus 0 (t_knots t) ++
  match t_extents t with None => [] | Some e => [vector_hdu s_EXTENTS e] end.
Proof. reflexivity. Qed.

Lemma read_knots_to_doc t i k : forallb (fun kv => aux_key_ok (fst kv)) (t_aux t) = true ->
  nth_error (t_knots t) i = Some k -> k <> [] -> read_knots (to_doc t) (N.of_nat i) = Ok k.
Proof.
  intros W H NE. unfold read_knots, find_hdu. rewrite to_doc_shape. cbn [find].
  rewrite name_matches_primary by auto. change (N.of_nat i) with (0 + N.of_nat i).
  rewrite (find_knot_hdu _ 0 i k _ H). unfold first_axis, hdu_bitpix. rewrite hdu_layout_vector. cbn [vector_layout l_axes l_bitpix].
  destruct (N.of_nat (length k) =? 0) eqn:E; [destruct k; [congruence|simpl in E; lia]|].
  change (negb (-64 =? -64)%Z) with false. cbn iota. cbn [vector_hdu h_data]. rewrite Nat2N.id, Nat.ltb_irrefl, firstn_all. reflexivity.
Qed.

Lemma read_extents_to_doc t : forallb (fun kv => aux_key_ok (fst kv)) (t_aux t) = true ->
  match t_extents t with Some e => length e = (2 * length (t_order t))%nat | None => True end ->
  read_extents (to_doc t) (length (t_order t)) (t_order t) (t_knots t)
  = Ok (match t_extents t with Some e => e | None => default_extents (t_order t) (t_knots t) end).
Proof.
  intros W H. unfold read_extents, find_hdu. rewrite to_doc_shape. cbn [find].
  rewrite name_matches_primary by auto. rewrite find_extents_skip_knots.
  destruct (t_extents t) as [e|]; [|reflexivity]. cbn [find].
  rewrite name_matches_vector by apply clean_extents. rewrite str_eqb_refl.
  unfold first_axis, hdu_bitpix. rewrite hdu_layout_vector. cbn [vector_layout l_axes l_bitpix]. rewrite H, N.eqb_refl.
  change (negb (-64 =? -64)%Z) with false. cbn [negb]. cbn iota. cbn [vector_hdu h_data].
  rewrite Nat2N.id, <- H, Nat.ltb_irrefl, firstn_all. reflexivity.
Qed.

(* ------------------------------------------------------------------------------------------------ *)
(* the L1 round trip *)
Lemma hdu_layout_primary_cards t : length (t_naxes t) = length (t_order t) ->
  hdu_layout (primary_cards t) = Ok (primary_layout (List.rev (t_naxes t))).
Proof.
  intros L. unfold primary_cards, t_ndim. replace (length (t_order t)) with (length (List.rev (t_naxes t))) by (rewrite rev_length; auto).
  apply hdu_layout_primary.
Qed.

Theorem roundtrip_L1 t : wf_table t = true -> exists t', of_doc (to_doc t) = Ok t' /\ table_eq_upto_padding t t'.
Proof.
  unfold wf_table. intros W.
  repeat (apply andb_true_iff in W; destruct W as [W ?]).
  rename H into Waux, H0 into Wext, H1 into Wkn, H2 into Word, H3 into Wco, H4 into Wst, H5 into Lna, H6 into Lkn.
  apply Nat.leb_le in W. apply Nat.eqb_eq in Lna, Lkn, Wco. apply str_eqb_eq in Wst.
  assert (Hne : t_naxes t <> []) by (destruct (t_naxes t); [simpl in Lna; lia|discriminate]).
  unfold of_doc. rewrite to_doc_shape. cbn [primary_hdu h_cards h_data].
  rewrite hdu_layout_primary_cards by auto. cbn [bind primary_layout l_kind l_axes l_bitpix].
  rewrite rev_length, Lna. destruct (length (t_order t) <? 1)%nat eqn:E1; [apply Nat.ltb_lt in E1; lia|].
  rewrite read_orders_primary by auto. cbn [bind].
  rewrite rev_involutive, read_strides_rev by auto.
  change (negb (-32 =? -32)%Z) with false. cbn iota.
  assert (Hn : hd 0 (strides_of (t_naxes t)) * hd 0 (t_naxes t) = prodN (t_naxes t)).
  { destruct (t_naxes t) as [|a r]; [congruence|]. cbn [strides_of hd]. unfold prodN. cbn [fold_right]. lia. }
  rewrite Hn, <- Wco, Nat.ltb_irrefl, firstn_all.
  rewrite <- to_doc_shape. rewrite <- Lkn.
  rewrite (traverse_nth (read_knots (to_doc t)) (t_knots t) 0).
  2:{ intros k x Hk. cbn [Nat.add]. apply read_knots_to_doc; auto.
      rewrite forallb_forall in Wkn. specialize (Wkn x (nth_error_In _ _ Hk)).
      destruct x; [discriminate|discriminate]. }
  cbn [bind]. rewrite Lkn. rewrite read_extents_to_doc; auto.
  2:{ destruct (t_extents t); auto. apply Nat.eqb_eq in Wext. exact Wext. }
  cbn [bind]. eexists. split; [reflexivity|].
  unfold table_eq_upto_padding. cbn. repeat split; auto. apply aux_of_primary; auto.
Qed.

(* ------------------------------------------------------------------------------------------------ *)
(* composition, layout, legacy *)
Lemma decode_prefix_encoded d : forallb wf_hdu d = true -> decode_prefix (encode d) = (d, None).
Proof.
  intros W. unfold decode_prefix. apply decode_hdus_encoded; auto.
  pose proof (encode_length_ge d). apply Nat.lt_succ_r. apply Nat.div_le_lower_bound; lia.
Qed.

Theorem roundtrip_bytes t : wf_table t = true -> wf_doc (to_doc t) = true ->
  exists t', of_bytes (to_bytes t) = Ok t' /\ read_bytes (to_bytes t) = Ok t' /\ table_eq_upto_padding t t'.
Proof.
  intros W D. destruct (roundtrip_L1 t W) as (t' & E & Q). exists t'. split; [|split]; auto.
  - unfold of_bytes, to_bytes. rewrite roundtrip_L2 by auto. exact E.
  - unfold read_bytes, to_bytes. rewrite decode_prefix_encoded; [exact E|].
    unfold wf_doc in D. destruct (to_doc t); [discriminate|exact D].
Qed.

Theorem axis_order t : length (t_naxes t) = length (t_order t) ->
  exists h rest, to_doc t = h :: rest /\ h_data h = t_coeffs t /\
    hdu_layout (h_cards h) = Ok (primary_layout (List.rev (t_naxes t))) /\
    forall j, (1 <= j <= length (t_naxes t))%nat ->
      nth (j - 1) (List.rev (t_naxes t)) 0 = nth (length (t_naxes t) - j) (t_naxes t) 0.
Proof.
  intros L. eexists. eexists. split; [apply to_doc_shape|]. split; [reflexivity|]. split.
  - apply hdu_layout_primary_cards; auto.
  - intros j Hj. rewrite rev_nth by lia. f_equal. lia.
Qed.

Theorem legacy_single_order n cs z : key_int s_ORDER cs = Some z -> (- two31 <= z < two31)%Z ->
  read_orders n cs = Ok (repeat (Z.to_N (z mod two32)) n).
Proof.
  intros H [A B]. unfold read_orders. rewrite H. apply Z.leb_le in A. apply Z.ltb_lt in B. rewrite A, B. reflexivity.
Qed.

Theorem legacy_no_extents d n o k : find_hdu s_EXTENTS d = None -> read_extents d n o k = Ok (default_extents o k).
Proof. intros H. unfold read_extents. rewrite H. reflexivity. Qed.

Theorem legacy_no_period n cs : (forall i, find_card (keyn s_PERIOD i) cs = None) ->
  Forall (fun p => p = None) (read_periods n cs).
Proof.
  intros H. unfold read_periods. apply Forall_forall. intros x Hx. apply in_map_iff in Hx as (i & <- & _).
  rewrite H. reflexivity.
Qed.
