(* C09_Index.v — mixed-radix index arithmetic used by slicemultiply / flatten_ndarray_to_sparse:
   flat (last index fastest) and unflat (the / and % loop) are mutually inverse on valid indices; rotation of
   axes and its inverse. *)
From Coq Require Import ZArith NArith List Bool Lia.
From PS Require Import Arith FitModel.
Import ListNotations.
Local Open Scope N_scope.

Definition valid_idx (rs idx : list N) : Prop := Forall2 (fun i r => i < r) idx rs.

Lemma valid_idx_length rs idx : valid_idx rs idx -> length idx = length rs.
Proof. induction 1; cbn [length]; congruence. Qed.

Lemma flat_lt rs : forall idx, valid_idx rs idx -> flat rs idx < prodN rs \/ (rs = [] /\ idx = []).
Proof.
  induction rs as [|r rs IH]; intros idx H; inversion H as [|i r' idx' rs' Hi H']; subst; [right; auto|]. left.
  cbn [flat prodN fold_right]. fold (prodN rs).
  destruct (IH idx' H') as [Hlt|[-> ->]].
  - nia.
  - cbn [flat prodN fold_right]. nia.
Qed.
Lemma flat_lt' rs idx : valid_idx rs idx -> flat rs idx < prodN rs.
Proof.
  intro H. destruct (flat_lt rs idx H) as [Hl|[-> ->]]; [exact Hl|]. cbn. lia.
Qed.

Lemma unflat_length rs : forall j, length (unflat rs j) = length rs.
Proof. induction rs as [|r rs IH]; intro j; cbn [unflat length]; [reflexivity | rewrite IH; reflexivity]. Qed.

Lemma unflat_flat rs : forall idx, valid_idx rs idx -> unflat rs (flat rs idx) = idx.
Proof.
  induction rs as [|r rs IH]; intros idx H; inversion H as [|i r' idx' rs' Hi H']; subst; [reflexivity|].
  cbn [flat unflat]. pose proof (flat_lt' rs idx' H') as Hlt.
  assert (Hp : prodN rs <> 0) by lia.
  rewrite N.div_add_l by exact Hp. rewrite (N.div_small _ _ Hlt), N.add_0_r.
  rewrite N.add_comm, N.mod_add by exact Hp. rewrite (N.mod_small _ _ Hlt). rewrite IH by exact H'. reflexivity.
Qed.

Lemma unflat_valid rs : forall j, j < prodN rs -> valid_idx rs (unflat rs j).
Proof.
  induction rs as [|r rs IH]; intros j H; cbn [unflat]; [constructor|].
  cbn [prodN fold_right] in H. fold (prodN rs) in H.
  assert (Hp : prodN rs <> 0) by (intro E; rewrite E in H; lia).
  constructor.
  - apply N.div_lt_upper_bound; [exact Hp | lia].
  - apply IH. apply N.mod_lt. exact Hp.
Qed.

Lemma flat_unflat rs : forall j, j < prodN rs -> flat rs (unflat rs j) = j.
Proof.
  induction rs as [|r rs IH]; intros j H; cbn [unflat flat].
  - cbn in H. lia.
  - cbn [prodN fold_right] in H. fold (prodN rs) in H.
    assert (Hp : prodN rs <> 0) by (intro E; rewrite E in H; lia).
    rewrite IH by (apply N.mod_lt; exact Hp). rewrite N.mul_comm. symmetry. apply N.div_mod. exact Hp.
Qed.

Lemma flat_inj rs idx idx' : valid_idx rs idx -> valid_idx rs idx' -> flat rs idx = flat rs idx' -> idx = idx'.
Proof. intros H H' E. rewrite <- (unflat_flat rs idx H), <- (unflat_flat rs idx' H'), E. reflexivity. Qed.

(* rotation: everything through the decomposition l = P ++ x :: Q with |P| = dim *)
Lemma rot_length {X} dim (l : list X) : (dim < length l)%nat -> length (rot dim l) = (length l - 1)%nat.
Proof. intro H. unfold rot. rewrite app_length, skipn_length, firstn_length. lia. Qed.
Lemma rot_mid {X} dim (P Q : list X) x : length P = dim -> rot dim (P ++ x :: Q) = Q ++ P.
Proof.
  intro H. unfold rot. rewrite skipn_app, firstn_app, H.
  rewrite (skipn_all2 P) by lia. replace (S dim - dim)%nat with 1%nat by lia. replace (dim - dim)%nat with 0%nat by lia.
  cbn [skipn firstn app]. rewrite <- H, firstn_all, app_nil_r. reflexivity.
Qed.
Lemma unrot_mid {X} dim (P Q : list X) c : length P = dim -> unrot dim (dim + 1 + length Q) c (Q ++ P) = P ++ c :: Q.
Proof.
  intro H. unfold unrot. replace (dim + 1 + length Q - 1 - dim)%nat with (length Q) by lia.
  rewrite skipn_app, firstn_app, skipn_all, firstn_all. replace (length Q - length Q)%nat with 0%nat by lia.
  cbn [skipn firstn app]. rewrite app_nil_r. reflexivity.
Qed.
Lemma nth_mid {X} dim (P Q : list X) x d : length P = dim -> nth dim (P ++ x :: Q) d = x.
Proof. intros <-. apply nth_middle. Qed.
Lemma set_nth_mid {X} dim (P Q : list X) x r : length P = dim -> set_nth dim r (P ++ x :: Q) = P ++ r :: Q.
Proof. intros <-. induction P as [|a P IH]; cbn [length app set_nth]; [reflexivity | rewrite IH; reflexivity]. Qed.

Lemma split_at {X} (d : X) dim (l : list X) : (dim < length l)%nat ->
  exists P Q, l = P ++ nth dim l d :: Q /\ length P = dim /\ length l = (dim + 1 + length Q)%nat.
Proof.
  intro H. destruct (nth_split l d H) as [P [Q [E L]]]. exists P, Q. split; [exact E|]. split; [exact L|].
  rewrite E at 1. rewrite app_length. cbn [length]. lia.
Qed.

Lemma unrot_rot {X} (d : X) dim (l : list X) : (dim < length l)%nat -> unrot dim (length l) (nth dim l d) (rot dim l) = l.
Proof.
  intro H. destruct (split_at d dim l H) as [P [Q [E [L1 L2]]]]. rewrite L2. rewrite E at 2. rewrite (rot_mid dim P Q _ L1).
  rewrite (unrot_mid dim P Q _ L1). symmetry. exact E.
Qed.
Lemma rot_unrot {X} dim ndim (c : X) (tail : list X) : (dim < ndim)%nat -> length tail = (ndim - 1)%nat ->
  rot dim (unrot dim ndim c tail) = tail.
Proof.
  intros H L. rewrite <- (firstn_skipn (ndim - 1 - dim) tail) at 1.
  assert (L1 : length (skipn (ndim - 1 - dim) tail) = dim) by (rewrite skipn_length; lia).
  assert (L2 : length (firstn (ndim - 1 - dim) tail) = (ndim - 1 - dim)%nat) by (rewrite firstn_length; lia).
  replace ndim with (dim + 1 + length (firstn (ndim - 1 - dim) tail))%nat at 1 by lia.
  rewrite (unrot_mid dim _ _ c L1). rewrite (rot_mid dim _ _ c L1). apply firstn_skipn.
Qed.
Lemma nth_unrot {X} dim ndim (c d : X) (tail : list X) : (dim < ndim)%nat -> length tail = (ndim - 1)%nat ->
  nth dim (unrot dim ndim c tail) d = c.
Proof.
  intros H L. rewrite <- (firstn_skipn (ndim - 1 - dim) tail) at 1.
  assert (L1 : length (skipn (ndim - 1 - dim) tail) = dim) by (rewrite skipn_length; lia).
  assert (L2 : length (firstn (ndim - 1 - dim) tail) = (ndim - 1 - dim)%nat) by (rewrite firstn_length; lia).
  replace ndim with (dim + 1 + length (firstn (ndim - 1 - dim) tail))%nat at 1 by lia.
  rewrite (unrot_mid dim _ _ c L1). apply nth_mid. exact L1.
Qed.
Lemma unrot_length {X} dim ndim (c : X) (tail : list X) : length tail = (ndim - 1)%nat -> (dim < ndim)%nat ->
  length (unrot dim ndim c tail) = ndim.
Proof.
  intros L H. unfold unrot. rewrite app_length. cbn [length]. rewrite skipn_length, firstn_length. lia.
Qed.

(* unrot dim ndim c tail = idx  <->  c = idx[dim] /\ tail = rot dim idx *)
Lemma unrot_eq_iff {X} (d : X) dim ndim (c : X) (tail idx : list X) : (dim < ndim)%nat -> length tail = (ndim - 1)%nat -> length idx = ndim ->
  (unrot dim ndim c tail = idx <-> (c = nth dim idx d /\ tail = rot dim idx)).
Proof.
  intros H L Li. split.
  - intros <-. split; [symmetry; apply nth_unrot; assumption | symmetry; apply rot_unrot; assumption].
  - intros [-> ->]. rewrite <- Li. apply unrot_rot. lia.
Qed.
(* idx' = set_nth dim r idx  <->  idx'[dim] = r /\ rot dim idx' = rot dim idx *)
Lemma set_nth_unrot {X} (d : X) dim (r : X) (idx : list X) : (dim < length idx)%nat ->
  set_nth dim r idx = unrot dim (length idx) r (rot dim idx).
Proof.
  intro H. destruct (split_at d dim idx H) as [P [Q [E [L1 L2]]]]. rewrite L2. rewrite E.
  rewrite (set_nth_mid dim P Q _ r L1), (rot_mid dim P Q _ L1), (unrot_mid dim P Q r L1). reflexivity.
Qed.
Lemma eq_set_nth_iff {X} (d : X) dim (r : X) (idx idx' : list X) : (dim < length idx)%nat -> length idx' = length idx ->
  (idx' = set_nth dim r idx <-> (nth dim idx' d = r /\ rot dim idx' = rot dim idx)).
Proof.
  intros H L. rewrite (set_nth_unrot d dim r idx H). split.
  - intros ->. split; [apply nth_unrot; [lia | apply rot_length; lia] | apply rot_unrot; [lia | apply rot_length; lia]].
  - intros [<- E]. rewrite <- E, <- L. symmetry. apply unrot_rot. lia.
Qed.
Lemma set_nth_length {X} dim (r : X) (l : list X) : length (set_nth dim r l) = length l.
Proof. revert dim. induction l as [|a l IH]; intros [|dim]; cbn [set_nth length]; try reflexivity. rewrite IH. reflexivity. Qed.


(* validity is preserved by rotation *)
Lemma valid_rot dim rs idx : valid_idx rs idx -> valid_idx (rot dim rs) (rot dim idx).
Proof.
  intro H. unfold rot, valid_idx. apply Forall2_app.
  - revert H. generalize (S dim) as k. intros k H. revert k. induction H as [|i r idx' rs' Hi H IH]; intros [|k]; cbn [skipn]; try constructor; auto.
  - revert dim. induction H as [|i r idx' rs' Hi H IH]; intros [|k]; cbn [firstn]; try constructor; auto.
Qed.
