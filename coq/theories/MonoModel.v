(* MonoModel.v — executable model of how a monotonic fit enforces monotonicity (C10).

   src/fitter/glam.c, glamfit_complex:
     * lines 60-70  : the basis of the monotonic dimension is multiplied by cholmod_tril (splineutil.c:50-67), the
                      lower-triangular matrix of ones: the T-spline basis  ([tril], [mmulT]);
       lines 447-457: the same for the finite-difference (penalty) matrix in calc_penalty;
     * lines 227-229: the normal equations are solved by nnls_normal_block3 (NnlsModel.block3, C11): increments >= 0;
     * lines 264-265: the double solution is stored into the float coefficient array  ([store_float]);
     * lines 280-300: the cumulative sum along monodim, in place, in float, over the flat row-major array with the
                      strides computed by the loop of lines 284-289  ([strides_loop], [step], [loop_k/j/i], [backtransform]).

   The cumulative-sum loop is generic in the carrier and in the addition ([K], [fadd]) so that the same term is used
   with exact arithmetic, with an abstract rounding operator, and with IEEE binary32 (Flocq) in the theorems, and with
   native floats in the extracted driver (bitwise correspondence with the real code).  No proofs in this file. *)
From Coq Require Import List ZArith Bool PeanoNat.
From PS Require Import Arith Generated_nnls NnlsModel.
Import ListNotations.

Section Generic.
Variable K : Type.
Variable fadd : K -> K -> K.     (* `out[p] += out[q]`  is  out[p] := fadd out[p] out[q] *)
Variable dflt : K.               (* value of an out-of-range read (never happens for a well-formed call; see wf_call) *)

Definition getK (a : list K) (p : nat) : K := nth p a dflt.
Fixpoint setK (a : list K) (p : nat) (v : K) : list K :=
  match a, p with
  | [], _ => []
  | _ :: a', O => v :: a'
  | c :: a', S p' => c :: setK a' p' v
  end.

(* glam.c:281-289
     stride1 = stride2 = 1;
     for (i = 0; i < ndim; i++) { if (i < monodim) stride1 *= naxes[i]; else if (i > monodim) stride2 *= naxes[i]; } *)
Fixpoint strides_loop (naxes : list nat) (i monodim : nat) (s1 s2 : nat) : nat * nat :=
  match naxes with
  | [] => (s1, s2)
  | n :: rest =>
      if i <? monodim then strides_loop rest (S i) monodim (s1 * n) s2
      else if monodim <? i then strides_loop rest (S i) monodim s1 (s2 * n)
      else strides_loop rest (S i) monodim s1 s2
  end.

(* glam.c:294-296   out[i*stride2*naxes[monodim] + j*stride2 + k] += out[i*stride2*naxes[monodim] + (j-1)*stride2 + k] *)
Definition step (nm s2 : nat) (a : list K) (i j k : nat) : list K :=
  let p := i * s2 * nm + j * s2 + k in
  let q := i * s2 * nm + (j - 1) * s2 + k in
  setK a p (fadd (getK a p) (getK a q)).
(* glam.c:293  for (k = 0; k < stride2; k++) *)
Definition loop_k (nm s2 i j : nat) (a : list K) : list K :=
  fold_left (fun a k => step nm s2 a i j k) (seq 0 s2) a.
(* glam.c:292  for (j = 1; j < naxes[monodim]; j++) *)
Definition loop_j (nm s2 i : nat) (a : list K) : list K :=
  fold_left (fun a j => loop_k nm s2 i j a) (seq 1 (nm - 1)) a.
(* glam.c:291  for (i = 0; i < stride1; i++) *)
Definition loop_i (s1 nm s2 : nat) (a : list K) : list K :=
  fold_left (fun a i => loop_j nm s2 i a) (seq 0 s1) a.

Definition backtransform (naxes : list nat) (monodim : nat) (a : list K) : list K :=
  let '(s1, s2) := strides_loop naxes 0 monodim 1 1 in
  loop_i s1 (nth monodim naxes 0) s2 a.

(* the flat formulation the proofs go through: every position p whose index along monodim is >= 1 (p mod (s2*nm) >= s2),
   in increasing order, receives a[p] += a[p - s2] *)
Definition flat_step (nm s2 : nat) (a : list K) (p : nat) : list K :=
  if s2 <=? p mod (s2 * nm) then setK a p (fadd (getK a p) (getK a (p - s2))) else a.
Definition flat_loop (nm s2 total : nat) (a : list K) : list K :=
  fold_left (flat_step nm s2) (seq 0 total) a.

(* well-formed call: monodim names a dimension, the array has prod naxes entries *)
Definition wf_call (naxes : list nat) (monodim : nat) (a : list K) : Prop :=
  monodim < length naxes /\ length a = fold_right Nat.mul 1 naxes.

(* "non-decreasing along monodim" for a flat row-major array, in the code's own index arithmetic *)
Definition nondecreasing_along (le : K -> K -> Prop) (s1 nm s2 : nat) (a : list K) : Prop :=
  forall i j k, i < s1 -> S j < nm -> k < s2 ->
    le (getK a (i * s2 * nm + j * s2 + k)) (getK a (i * s2 * nm + S j * s2 + k)).
End Generic.

Arguments getK {K}.
Arguments setK {K}.
Arguments step {K}.
Arguments loop_k {K}.
Arguments loop_j {K}.
Arguments loop_i {K}.
Arguments backtransform {K}.
Arguments flat_step {K}.
Arguments flat_loop {K}.
Arguments wf_call {K}.
Arguments nondecreasing_along {K}.

Section WithArith.
Context {A : Arith}.
Notation K := (T A).

(* glam.c:264-265  out_coefficients[i] = coefficients->x[i] read as double  (double -> float store) *)
Definition store_float (x : list K) : list K := map rnd x.
(* float += float : one addition, result stored in the working precision *)
Definition addf (a b : K) : K := rnd (add a b).
(* glam.c:264-300: from the NNLS solution (increments, double) to the B-spline coefficients (float) *)
Definition glam_backtransform (naxes : list nat) (monodim : nat) (x : list K) : list K :=
  backtransform addf zero naxes monodim (store_float x).

(* ---- the T-spline change of basis (one dimension) ----------------------------------------------------------- *)
(* splineutil.c:50-67 cholmod_tril: dim x dim, entry (row, col) = 1 for row >= col, else 0 *)
Definition tril (n : nat) : list (list K) :=
  map (fun r => map (fun c => if c <=? r then one else zero) (seq 0 n)) (seq 0 n).
(* vectors and matrices: NnlsModel.dot, NnlsModel.mv (dense lists, as in C11) *)
Definition colK (j : nat) (M : list (list K)) : list K := map (fun r => nth j r zero) M.
(* cholmod_l_ssmult(B, tril): (B tril)[p][c] = sum_r B[p][r] tril[r][c] *)
Definition mmulK (B M : list (list K)) (ncol : nat) : list (list K) :=
  map (fun brow => map (fun c => dot brow (colK c M)) (seq 0 ncol)) B.
(* cumulative sums, exact: c_j = inc_0 + ... + inc_j *)
Fixpoint cumsum_from (acc : K) (inc : list K) : list K :=
  match inc with [] => [] | a :: r => add acc a :: cumsum_from (add acc a) r end.
Definition cumsum (inc : list K) : list K := cumsum_from zero inc.
(* increments of a coefficient vector: c_0, c_1 - c_0, ... *)
Fixpoint diffs_from (prev : K) (c : list K) : list K :=
  match c with [] => [] | a :: r => sub a prev :: diffs_from a r end.
Definition diffs (c : list K) : list K := diffs_from zero c.
End WithArith.
