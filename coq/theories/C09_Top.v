(* C09_Top.v — the composition of theorems (1), (2), (3): the system (matrix, right-hand side) that the model hands to the
   solver is the normal system nmat / nrhs of ONE list of (weight, design row, value) triples — the data triples
   (w_e, Kronecker product of the basis rows, z_e) followed by the penalty triples (lambda_d, p, 0), p the rows of
   I x .. x D_d x .. x I — i.e. of the penalised weighted least-squares objective of the property. *)
From Coq Require Import ZArith NArith List Bool Lia Field Ring FMapPositive.
From PS Require Import Arith EvalModel BSpline OFieldKit FitModel C09_LinAlg C09_Penalty C09_Index C09_Glam C09_Kron.
Import ListNotations.

Section Top.
Context {A : Arith}.
Variable F : OField A.
Notation K := (T A).
Add Field Kfield_c09top : (OFth F).
Notation le := (@OFieldKit.le A).
Notation wt e := (fst (fst e)).
Notation brow e := (snd (fst e)).
Notation zval e := (snd e).

(* normal matrix / right-hand side / objective of a concatenation *)
Lemma nmat_app n (E1 E2 : list (K * list K * K)) : wf_rows n E1 -> wf_rows n E2 ->
  nmat n (E1 ++ E2) = madd (nmat n E1) (nmat n E2).
Proof.
  intros H1 H2. assert (H12 : wf_rows n (E1 ++ E2)) by (apply Forall_app; split; assumption).
  rewrite (nmat_entries n _ H12), (nmat_entries n _ H1), (nmat_entries n _ H2), madd_map_map.
  apply map_ext. intro i. rewrite vadd_map_map. apply map_ext. intro j. rewrite map_app. apply (sumK_app F).
Qed.
Lemma nrhs_app_zero n (E1 E2 : list (K * list K * K)) : wf_rows n E1 -> wf_rows n E2 -> Forall (fun e => zval e = zero) E2 ->
  nrhs n (E1 ++ E2) = nrhs n E1.
Proof.
  intros H1 H2 Hz. assert (H12 : wf_rows n (E1 ++ E2)) by (apply Forall_app; split; assumption).
  rewrite (nrhs_entries n _ H12), (nrhs_entries n _ H1). apply map_ext. intro i. rewrite map_app, (sumK_app F).
  rewrite (sumK_zero F _ E2); [ring|]. intros e He. rewrite Forall_forall in Hz. rewrite (Hz e He). ring.
Qed.
Lemma wrss_app (E1 E2 : list (K * list K * K)) c : wrss (E1 ++ E2) c = add (wrss E1 c) (wrss E2 c).
Proof. unfold wrss. rewrite map_app. apply (sumK_app F). Qed.

(* a scaled Gram-type penalty term as triples *)
Definition scaled_rows (lam : K) (M : list (list K)) : list (K * list K * K) := map (fun p => (lam, p, zero)) M.
Lemma scaled_rows_wf n lam M : rows_len n M -> wf_rows n (scaled_rows lam M).
Proof. intro H. unfold wf_rows, scaled_rows. apply Forall_map. exact H. Qed.
Lemma nmat_scaled_rows n lam (M : list (list K)) : rows_len n M ->
  mscale lam (nmat n (unit_rows M)) = nmat n (scaled_rows lam M).
Proof.
  intro H. rewrite (nmat_entries n _ (unit_rows_wf n M H)), (nmat_entries n _ (scaled_rows_wf n lam M H)).
  unfold mscale, vscale. rewrite map_map. apply map_ext. intro i. rewrite map_map. apply map_ext. intro j.
  rewrite (sumK_mul_l F). unfold unit_rows, scaled_rows. rewrite !map_map. cbn [fst snd].
  apply sumK_ext_in. intros p _. ring.
Qed.
(* the penalty part of the objective: lambda * sum over the rows p of (p . c)^2 *)
Lemma wrss_scaled_rows lam (M : list (list K)) c : wrss (scaled_rows lam M) c = mul lam (sumK (map (fun p => sq (dot p c)) M)).
Proof.
  unfold wrss, scaled_rows. rewrite map_map. cbn [fst snd]. rewrite (sumK_mul_l F).
  apply sumK_ext_in. intros p _. unfold sq. ring.
Qed.

(* the penalty triples of fit.h / add_penalty_term: per dimension, skipped when the smoothing factor is zero *)
Definition pen_triples_of (nsplines : list nat) (smoothing : list K) (porders : list nat) (id : nat * @dimspec A)
  : list (K * list K * K) :=
  let lam := pick zero smoothing (fst id) in
  if eqK lam zero then []
  else scaled_rows lam (penalty_root nsplines (fun k => nth k (ds_knots (snd id)) zero) (fst id) (ds_order (snd id)) (pick 0%nat porders (fst id))).
Definition pen_triples (dims : list dimspec) (smoothing : list K) (porders : list nat) : list (K * list K * K) :=
  flat_map (pen_triples_of (map ds_nsplines dims) smoothing porders) (combine (seq 0 (length dims)) dims).

Lemma penalty_fold (nsplines : list nat) (smoothing : list K) (porders : list nat) :
  nsplines <> [] ->
  let n := fold_right Nat.mul 1%nat nsplines in
  forall (ids : list (nat * dimspec)) (Pl : list (K * list K * K)), wf_rows n Pl ->
  fold_left (fun pen id => let i := fst id in let d := snd id in
                           add_penalty_term nsplines (fun k => nth k (ds_knots d) zero) i (ds_order d)
                                            (pick 0%nat porders i) (pick zero smoothing i) pen) ids (nmat n Pl)
  = nmat n (Pl ++ flat_map (pen_triples_of nsplines smoothing porders) ids)
  /\ wf_rows n (Pl ++ flat_map (pen_triples_of nsplines smoothing porders) ids).
Proof.
  intros Hne n. induction ids as [|[i d] ids IH]; intros Pl HPl; cbn [fold_left flat_map fst snd].
  - rewrite app_nil_r. split; [reflexivity | exact HPl].
  - destruct (calc_penalty_is_gram F nsplines (fun k => nth k (ds_knots d) zero) i (ds_order d) (pick 0%nat porders i) Hne) as [Hg Hr].
    fold n in Hg, Hr.
    assert (Hstep : add_penalty_term nsplines (fun k => nth k (ds_knots d) zero) i (ds_order d) (pick 0%nat porders i) (pick zero smoothing i) (nmat n Pl)
                    = nmat n (Pl ++ pen_triples_of nsplines smoothing porders (i, d))
                    /\ wf_rows n (Pl ++ pen_triples_of nsplines smoothing porders (i, d))).
    { unfold add_penalty_term, pen_triples_of. cbn [fst snd]. destruct (eqK (pick zero smoothing i) zero).
      - rewrite app_nil_r. split; [reflexivity | exact HPl].
      - pose proof (scaled_rows_wf n (pick zero smoothing i) _ Hr) as Hs. split.
        + rewrite (nmat_app n Pl _ HPl Hs). f_equal. rewrite Hg, (gram_is_nmat F n _ Hr). apply nmat_scaled_rows. exact Hr.
        + apply Forall_app. split; assumption. }
    destruct Hstep as [E1 W1]. rewrite E1. rewrite app_assoc. apply IH. exact W1.
Qed.

Theorem penalty_matrix_is_nmat (dims : list dimspec) (smoothing : list K) (porders : list nat) :
  let n := fold_right Nat.mul 1%nat (map ds_nsplines dims) in
  penalty_matrix dims smoothing porders = nmat n (pen_triples dims smoothing porders)
  /\ wf_rows n (pen_triples dims smoothing porders)
  /\ Forall (fun e => zval e = zero) (pen_triples dims smoothing porders).
Proof.
  intro n. split; [|split].
  - destruct dims as [|d dims]; [reflexivity|].
    assert (Hne : map ds_nsplines (d :: dims) <> []) by discriminate.
    exact (proj1 (penalty_fold (map ds_nsplines (d :: dims)) smoothing porders Hne (combine (seq 0 (length (d :: dims))) (d :: dims)) [] (Forall_nil _))).
  - destruct dims as [|d dims]; [constructor|].
    assert (Hne : map ds_nsplines (d :: dims) <> []) by discriminate.
    exact (proj2 (penalty_fold (map ds_nsplines (d :: dims)) smoothing porders Hne (combine (seq 0 (length (d :: dims))) (d :: dims)) [] (Forall_nil _))).
  - unfold pen_triples. rewrite Forall_forall. intros e He. apply in_flat_map in He. destruct He as [id [_ He]].
    unfold pen_triples_of in He. destruct (eqK _ zero); [destruct He|]. unfold scaled_rows in He. apply in_map_iff in He.
    destruct He as [p [<- _]]. reflexivity.
Qed.

Lemma pick_nonneg (smoothing : list K) i : Forall (fun l => le zero l) smoothing -> le zero (pick zero smoothing i).
Proof.
  intro H. unfold pick. rewrite Forall_forall in H.
  destruct (Nat.ltb 1 (length smoothing)).
  - destruct (nth_in_or_default i smoothing zero) as [Hin | ->]; [apply H; exact Hin | apply (le_refl F)].
  - destruct (nth_in_or_default 0 smoothing zero) as [Hin | ->]; [apply H; exact Hin | apply (le_refl F)].
Qed.
Lemma pen_triples_nonneg dims smoothing porders : Forall (fun l => le zero l) smoothing ->
  nonneg_weights (pen_triples dims smoothing porders).
Proof.
  intro H. unfold nonneg_weights, pen_triples. rewrite Forall_forall. intros e He. apply in_flat_map in He. destruct He as [id [_ He]].
  unfold pen_triples_of in He. destruct (eqK _ zero); [destruct He|]. unfold scaled_rows in He. apply in_map_iff in He.
  destruct He as [p [<- _]]. cbn [fst]. apply pick_nonneg. exact H.
Qed.

(* the penalty part of the objective, per dimension: lambda_d * sum over the rows p of I x..x D_d x..x I of (p . c)^2 *)
Lemma wrss_flat_map {Y} (f : Y -> list (K * list K * K)) (l : list Y) c : wrss (flat_map f l) c = sumK (map (fun y => wrss (f y) c) l).
Proof.
  induction l as [|y l IH]; [reflexivity|]. cbn [flat_map map]. rewrite wrss_app, IH. reflexivity.
Qed.
Theorem penalty_objective (dims : list dimspec) (smoothing : list K) (porders : list nat) (c : list K) :
  wrss (pen_triples dims smoothing porders) c
  = sumK (map (fun id : nat * dimspec =>
                 let lam := pick zero smoothing (fst id) in
                 if eqK lam zero then zero
                 else mul lam (sumK (map (fun p => sq (dot p c))
                        (penalty_root (map ds_nsplines dims) (fun k => nth k (ds_knots (snd id)) zero) (fst id) (ds_order (snd id))
                                      (pick 0%nat porders (fst id))))))
              (combine (seq 0 (length dims)) dims)).
Proof.
  unfold pen_triples. rewrite wrss_flat_map. apply sumK_ext_in. intros id _. unfold pen_triples_of. cbv zeta.
  destruct (eqK (pick zero smoothing (fst id)) zero); [reflexivity | apply wrss_scaled_rows].
Qed.

(* the whole system *)
Definition data_triples (dims : list dimspec) (data : list (list N * K * K)) : list (K * list K * K) :=
  map (fun e => (snd e, design_row (map (fun d => bsplinebasis (ds_knots d) (ds_coords d) (ds_order d)) dims) (fst (fst e)), snd (fst e))) data.
Definition objective_triples dims smoothing porders data : list (K * list K * K) :=
  data_triples dims data ++ pen_triples dims smoothing porders.

Theorem fit_system_is_normal_system (dims : list dimspec) (smoothing : list K) (porders : list nat) (data : list (list N * K * K)) :
  Forall (fun e => valid_idx (map (fun d => N.of_nat (length (ds_coords d))) dims) (fst (fst e))) data ->
  let n := fold_right Nat.mul 1%nat (map ds_nsplines dims) in
  let E := objective_triples dims smoothing porders data in
  fit_system dims smoothing porders data = (nmat n E, nrhs n E) /\ wf_rows n E.
Proof.
  intros Hdata n E. destruct (glam_is_kron F dims smoothing porders data Hdata) as [_ [_ [Hsys Hwf]]].
  destruct (penalty_matrix_is_nmat dims smoothing porders) as [Hp [Hpw Hpz]].
  fold n in Hsys, Hwf, Hp, Hpw. fold (data_triples dims data) in Hsys, Hwf. unfold E, objective_triples. split.
  - rewrite Hsys, Hp. rewrite (nmat_app n _ _ Hwf Hpw), (nrhs_app_zero n _ _ Hwf Hpw Hpz). reflexivity.
  - apply Forall_app. split; assumption.
Qed.

(* ... and with the solver oracle: the solution of the model's system minimises the penalised objective *)
Section Solver.
Variable solve : list (list K) -> list K -> list K.
Hypothesis solve_spec : forall n M r, spd n M -> length (solve M r) = n /\ matvec M (solve M r) = r.

Theorem fit_minimises_penalised_objective (dims : list dimspec) (smoothing : list K) (porders : list nat) (data : list (list N * K * K)) :
  Forall (fun e => valid_idx (map (fun d => N.of_nat (length (ds_coords d))) dims) (fst (fst e))) data ->
  Forall (fun e => le zero (snd e)) data ->
  Forall (fun l => le zero l) smoothing ->
  let n := fold_right Nat.mul 1%nat (map ds_nsplines dims) in
  let sys := fit_system dims smoothing porders data in
  let J := fun c => add (wrss (data_triples dims data) c) (wrss (pen_triples dims smoothing porders) c) in
  spd n (fst sys) ->
  let c := solve (fst sys) (snd sys) in
  length c = n /\ forall c', length c' = n -> le (J c) (J c') /\ (J c' = J c -> c' = c).
Proof.
  intros Hdata Hw Hs n sys J Hspd c.
  destruct (fit_system_is_normal_system dims smoothing porders data Hdata) as [Hsys Hwf]. fold n in Hsys, Hwf. fold sys in Hsys.
  set (E := objective_triples dims smoothing porders data) in *.
  assert (HJ : forall x, J x = wrss E x) by (intro x; unfold J, E, objective_triples; symmetry; apply wrss_app).
  assert (Hnn : nonneg_weights E).
  { unfold E, objective_triples, nonneg_weights. apply Forall_app. split.
    - unfold data_triples. apply Forall_map. exact Hw.
    - apply pen_triples_nonneg. exact Hs. }
  unfold c. rewrite Hsys in *. cbn [fst snd] in *.
  destruct (solve_spec n (nmat n E) (nrhs n E) Hspd) as [Hl Hsol]. split; [exact Hl|].
  intros c' Hc'. rewrite !HJ.
  destruct (normal_eq_minimise F n E _ Hwf Hnn Hl Hsol c' Hc') as [_ [H1 H2]]. split; [exact H1 | exact (H2 Hspd)].
Qed.
End Solver.

End Top.
