(* Properties_C06.v — FITS serialisation round-trips every table exactly, in the documented layout.
   Statements only; proofs are in C06_Proofs.v (L2, the byte format), C06_L1.v (L1, photospline's logic) and C06_Wf.v
   (well-formedness of the produced document from table-level conditions; operator==). *)
From Coq Require Import List NArith ZArith Bool Lia.
From Coq Require String.
From PS Require Import Generated_fits FitsModel FitsWf C06_Proofs C06_L1 C06_Wf C06_AuxTie.
From PS Require AuxModel Generated_aux.
Import ListNotations.
Open Scope N_scope.

(* L2: the byte format is a codec on well-formed documents: 2880-byte blocks, 80-byte cards (fixed-format tokens,
   quoted strings with doubled quotes, HIERARCH keys, commentary cards, END, blank fill), big-endian words, zero fill.
   Unbounded: any number of HDUs, cards and words. *)
Theorem C06_roundtrip_L2 : forall d, wf_doc d = true -> decode (encode d) = Ok d.
Proof. exact roundtrip_L2. Qed.

(* leaf codec facts, exported because C07/C08 reuse them *)
Theorem C06_word_bytes : forall n w, w < 256 ^ N.of_nat n -> be_word (be_bytes n w) = w /\ length (be_bytes n w) = n.
Proof. intros n w H. split; [apply be_word_be_bytes; exact H|apply be_bytes_length]. Qed.
Theorem C06_decimal : forall z, parse_int (print_int z) = Some z.
Proof. exact parse_int_print. Qed.
Theorem C06_card : forall c, wf_card c = true -> decode_card (encode_card c) = c /\ length (encode_card c) = 80%nat.
Proof. intros c W. split; [apply decode_encode_card; exact W|apply encode_card_length, wf_card_len; exact W]. Qed.

(* L1: read_fits_core (as written) applied to what write_fits_core produces gives back the table: ndim, orders, knots,
   coefficients (bit patterns), naxes, strides, extents (the knot-derived default when the table has none), auxiliary
   keys in order, each value followed by the blanks that pad its card text to 8 characters (FitsWf.aux_reloaded) and
   nothing else — embedded quotes, doubled on the card, come back single *)
Theorem C06_roundtrip_L1 : forall t, wf_table t = true ->
  exists t', of_doc (to_doc t) = Ok t' /\ table_eq_upto_padding t t'.
Proof. exact roundtrip_L1. Qed.

(* "values may gain trailing blanks only", for EVERY value (no condition on v: quotes in any position, any number of them):
   the reader's text for the card the writer makes of v — opening quote, every quote doubled, blank padding to 8 characters,
   closing quote — is v followed by 8 - (length v + number of quotes in v) blanks (none when that is not positive) *)
Theorem C06_aux_padding_only : forall k v,
  aux_value (raw_value (str_card k v)) = v ++ repeat sp (8 - (length v + count_char quote v)).
Proof. intros k v. exact (aux_value_fits_quote v). Qed.
(* the un-doubling loop of the reader inverts the doubling of the writer in front of any blank padding *)
Theorem C06_undouble_inverts_doubling : forall v j, unescape_quotes (escape_quotes v ++ repeat sp j) = v ++ repeat sp j.
Proof. exact unescape_escape_pad. Qed.

(* bytes: strict and lenient (C07) readers, with the card-level well-formedness of the produced document as an explicit
   hypothesis (kept: C07/C08 use it for documents that do not come from wf_table' tables) *)
Theorem C06_roundtrip_partial : forall t, wf_table t = true -> wf_doc (to_doc t) = true ->
  exists t', of_bytes (to_bytes t) = Ok t' /\ read_bytes (to_bytes t) = Ok t' /\ table_eq_upto_padding t t'.
Proof. exact roundtrip_bytes. Qed.

(* that hypothesis is derived from conditions on the table alone (FitsWf.wf_table': wf_table, ndim <= 999, axis lengths and
   knot counts < 2^63, coefficient words < 2^32, knot/extent words < 2^64, period tokens, auxiliary keys and values that fit
   on one card in the standard form — see the comment at wf_table') *)
Theorem C06_wf_doc : forall t, wf_table' t = true -> wf_doc (to_doc t) = true.
Proof. exact wf_doc_to_doc. Qed.

(* THE FULL STATEMENT: every wf_table' table round-trips through bytes, for the strict and the lenient (C07) reader *)
Theorem C06_roundtrip : forall t, wf_table' t = true ->
  exists t', of_bytes (to_bytes t) = Ok t' /\ read_bytes (to_bytes t) = Ok t' /\ table_eq_upto_padding t t'.
Proof. exact roundtrip_full. Qed.

(* the auxiliary-entry conjunct of wf_table' against C16's model of write_key (AuxModel.accepts with the parameters read from
   the current source tree): every accepted (key, value) satisfies aux_entry_ok, except
   HIERARCH keys whose card does not fit in the standard form (EXTNAME / HDUNAME, once a second exception — the fixed finding
   C06:aux-key:EXTNAME-shadows-KNOTSn — are rejected by write_key: C06_name_keys_reserved, over the translated list); the second theorem says which accepted entries those are:
   encoded value length = 67 - keylen (cfitsio writes "key= 'value'"), or keylen > 58 (the 8-character minimum is truncated) *)
Theorem C06_write_key_accepted_entry_ok : forall ks vs,
  AuxModel.accepts Generated_aux.gen_params ks vs = true ->
  ((length (lit ks) <= 8)%nat \/ (length (lit ks) + Nat.max 8 (enc_len (lit vs)) <= 66)%nat) ->
  aux_entry_ok (lit ks, lit vs) = true.
Proof. exact write_key_accepted_entry_ok. Qed.
Theorem C06_write_key_fit_gap : forall ks vs,
  AuxModel.accepts Generated_aux.gen_params ks vs = true -> (8 < length (lit ks))%nat ->
  (length (lit ks) + Nat.max 8 (enc_len (lit vs)) <= 66)%nat \/
  (length (lit ks) + enc_len (lit vs) = 67)%nat \/ (58 < length (lit ks) <= 66)%nat.
Proof. exact fit_condition_gap. Qed.

(* the names fits_movnam_hdu compares (EXTNAME, failing that HDUNAME; its search starts at the primary HDU) are reserved in the
   current source tree: no auxiliary entry of a wf_table' table — and nothing write_key accepts — can put them into the primary
   header, so the primary HDU never answers to KNOTSn / EXTENTS *)
Theorem C06_name_keys_reserved :
  reserved s_EXTNAME = true /\ reserved s_HDUNAME = true /\
  (forall ks vs, lit ks = s_EXTNAME \/ lit ks = s_HDUNAME -> AuxModel.accepts Generated_aux.gen_params ks vs = false) /\
  (forall t name, wf_table' t = true -> name_matches name (primary_hdu t) = false).
Proof. exact name_keys_reserved. Qed.
(* the two Coq models of the auxiliary-key code are models of the same functions:
   reader — FitsModel.aux_value (this property) and AuxModel.reader_value (C16) agree on every character string;
   writer — for a key that passes write_key's alphabet checks and a printable value, C16's limit is max_data_len and
   write_key accepts exactly when FitsModel.write_key_offer (the function the check asks for the predicted refusals: reserved
   name, or encoded length — every quote counted twice — above 68 resp. 67 - keylen) says Stored, and refuses as too long otherwise *)
Theorem C06_aux_reader_is_C16_reader : forall raw,
  lit (AuxModel.reader_value Generated_aux.gen_params raw) = aux_value (lit raw).
Proof. exact reader_agree. Qed.
Theorem C06_write_key_offer_is_C16_write_key : forall ks vs m,
  AuxModel.check_key Generated_aux.gen_params ks = inr m -> AuxModel.forall_chars AuxModel.is_printable vs = true ->
  m = N.of_nat (max_data_len (lit ks)) /\
  (AuxModel.accepts Generated_aux.gen_params ks vs = true <-> write_key_offer (lit ks) (lit vs) = Stored) /\
  (AuxModel.accepts Generated_aux.gen_params ks vs = false <-> write_key_offer (lit ks) (lit vs) = RefusedTooLong).
Proof. exact offer_agree. Qed.
(* ANY auxiliary value write_key accepts round-trips exactly: the other parts of the table satisfy wf_table' (set_aux t [] is t
   without auxiliary entries), every entry is a pair write_key accepts — whatever quotes the value holds — and its card fits in the
   standard form (always, for keys of at most 8 characters; C06_write_key_fit_gap says which HIERARCH entries do not).  Then both
   readers return a table with every array equal, the same keys in the same order, and each value followed by padding blanks only *)
Theorem C06_accepted_values_roundtrip : forall t, wf_table' (set_aux t []) = true -> Forall accepted_entry (t_aux t) ->
  exists t', of_bytes (to_bytes t) = Ok t' /\ read_bytes (to_bytes t) = Ok t' /\ table_eq_upto_padding t t' /\
             map fst (t_aux t') = map fst (t_aux t) /\
             Forall2 (fun kv kv' => snd kv' = snd kv ++ repeat sp (8 - enc_len (snd kv))) (t_aux t) (t_aux t').
Proof. exact accepted_values_roundtrip. Qed.

(* "the reloaded table compares equal": table_op_eq is the model of splinetable::operator== (C06_Wf.v, section H).
   Every field operator== reads is equal in the reloaded table, so it compares to anything exactly as the original does,
   and equal to the original whenever the original holds no NaN (IEEE: a NaN is not == to itself; see C06_nan_compares_unequal) *)
Theorem C06_reload_compares_equal : forall t t', table_eq_upto_padding t t' ->
  (t_ndim t' = t_ndim t /\ t_order t' = t_order t /\ t_naxes t' = t_naxes t /\
   map (@length N) (t_knots t') = map (@length N) (t_knots t) /\ t_knots t' = t_knots t /\
   ncoeffs t' = ncoeffs t /\ t_coeffs t' = t_coeffs t) /\
  (forall x, table_op_eq t' x = table_op_eq t x /\ table_op_eq x t' = table_op_eq x t) /\
  (nan_free t = true -> table_op_eq t' t = true /\ table_op_eq t t' = true).
Proof. exact reload_compares_equal_all. Qed.
Theorem C06_roundtrip_compares_equal : forall t, wf_table' t = true -> nan_free t = true ->
  exists t', of_bytes (to_bytes t) = Ok t' /\ read_bytes (to_bytes t) = Ok t' /\
             table_op_eq t' t = true /\ table_op_eq t t' = true.
Proof. exact roundtrip_compares_equal. Qed.
Theorem C06_nan_compares_unequal : forall t x w, (0 < t_ndim t)%nat ->
  In w (firstn (N.to_nat (ncoeffs t)) (t_coeffs t)) -> is_nan32 w = true -> table_op_eq t x = false.
Proof. exact nan_compares_unequal. Qed.

(* documented layout: HDU 0 holds the coefficients in row-major order as they are in memory (data word k = coefficient k),
   BITPIX -32, and NAXISj = naxes[ndim-j] *)
Theorem C06_axis_order : forall t, length (t_naxes t) = length (t_order t) ->
  exists h rest, to_doc t = h :: rest /\ h_data h = t_coeffs t /\
    hdu_layout (h_cards h) = Ok (primary_layout (List.rev (t_naxes t))) /\
    forall j, (1 <= j <= length (t_naxes t))%nat ->
      nth (j - 1) (List.rev (t_naxes t)) 0 = nth (length (t_naxes t) - j) (t_naxes t) 0.
Proof. exact axis_order. Qed.

(* legacy files *)
Theorem C06_legacy_single_order : forall n cs z, key_int s_ORDER cs = Some z -> (- two31 <= z < two31)%Z ->
  read_orders n cs = Ok (repeat (Z.to_N (z mod two32)) n).
Proof. exact legacy_single_order. Qed.
Theorem C06_legacy_no_extents : forall d n o k, find_hdu s_EXTENTS d = None -> read_extents d n o k = Ok (default_extents o k).
Proof. exact legacy_no_extents. Qed.
Theorem C06_legacy_no_period : forall n cs, (forall i, find_card (keyn s_PERIOD i) cs = None) ->
  Forall (fun p => p = None) (read_periods n cs).
Proof. exact legacy_no_period. Qed.

(* ---- the hypotheses are satisfiable on a concrete, non-trivial instance ---- *)
Definition ex_table : table :=
  {| t_order := [1; 0];
     t_knots := [[0; 4607182418800017408; 4611686018427387904; 4613937818241073152];          (* 0 1 2 3 *)
                 [9223372036854775808; 1; 9218868437227405312; 18442240474082181120]];       (* -0 denormal +inf -inf *)
     t_naxes := [2; 3]; t_strides := [3; 1];
     t_coeffs := [2143289344; 4286578688; 2147483648; 1; 2139095041; 1065353216];             (* NaN -inf -0 denormal sNaN 1 *)
     t_extents := Some [13830554455654793216; 4619567317775286272; 0; 9214364837600034815];
     t_periods := Some [None; Some [54; 46; 50; 56]];
     t_aux := [([70; 79; 79], [98; 97; 114]); ([76; 79; 78; 71; 75; 69; 89; 78; 65; 77; 69; 49; 50], [97; 32; 98]); ([69], [])] |}.

Example ex_wf_table : wf_table ex_table = true. Proof. vm_compute. reflexivity. Qed.
Example ex_wf_doc : wf_doc (to_doc ex_table) = true. Proof. vm_compute. reflexivity. Qed.
Example ex_wf_table' : wf_table' ex_table = true. Proof. vm_compute. reflexivity. Qed.
(* more auxiliary keys: a value with quotes (doubled on the card), a HIERARCH key with inner blanks and punctuation, a short key
   with a 68-character value and a 30-character HIERARCH key with the longest value that fits (36 = 66 - 30) *)
Definition ex_table2 : table :=
  {| t_order := t_order ex_table; t_knots := t_knots ex_table; t_naxes := t_naxes ex_table; t_strides := t_strides ex_table;
     t_coeffs := t_coeffs ex_table; t_extents := None; t_periods := None;
     t_aux := t_aux ex_table ++
              [([81; 85; 79; 84; 69; 68], [105; 116; 39; 115; 32; 39; 39]);                           (* QUOTED = it's '' *)
               ([76; 79; 78; 71; 32; 75; 69; 89; 46; 87; 73; 84; 72; 32; 66; 76; 65; 78; 75; 83], [120]);   (* LONG KEY.WITH BLANKS *)
               ([77; 65; 88; 54; 56], repeat 122 68);
               (repeat 75 30, repeat 122 36)] |}.
Example ex_wf_table'2 : wf_table' ex_table2 = true. Proof. vm_compute. reflexivity. Qed.
Example ex_roundtrip2 : exists t', of_bytes (to_bytes ex_table2) = Ok t' /\ nth 3 (t_aux t') ([], []) =
  ([81; 85; 79; 84; 69; 68], [105; 116; 39; 115; 32; 39; 39]).                                (* it's '' : 7 characters + 3 quotes >= 8, no padding *)
Proof. eexists. split; vm_compute; reflexivity. Qed.
(* auxiliary values with quotes in every position: single (it's), doubled (a''b), leading ('lead), trailing (trail'), a run of
   three, a lone quote, quotes only up to the limit (34 quotes = 68 encoded characters), and a HIERARCH key whose value ends in a
   quote at the limit of its card (30 + 36 = 66).  wf_table' holds; write_key (C16's model) accepts every entry; the card of the
   first entry is  QUOTED  = 'it''s   '  ; both readers return each value with its padding blanks and single quotes *)
Module ExQuotes.
Import String.
Local Open Scope string_scope.
Definition ex_aux_strings : list (string * string) :=
  [("QUOTED", "it's"); ("DOUBLED", "a''b"); ("LEADING", "'lead"); ("TRAILING", "trail'"); ("THREE", "'''"); ("LONE", "'");
   ("ALLQ", "''''''''''''''''''''''''''''''''''");
   ("KKKKKKKKKKKKKKKKKKKKKKKKKKKKKK", "zzzzzzzzzzzzzzzzzzzzzzzzzzzzzzzzzz'")].
Definition ex_table_q : table :=
  {| t_order := t_order ex_table; t_knots := t_knots ex_table; t_naxes := t_naxes ex_table; t_strides := t_strides ex_table;
     t_coeffs := t_coeffs ex_table; t_extents := t_extents ex_table; t_periods := None;
     t_aux := map (fun kv => (lit (fst kv), lit (snd kv))) ex_aux_strings |}.
Example ex_q_wf : wf_table' ex_table_q = true /\ wf_table' (set_aux ex_table_q []) = true. Proof. split; vm_compute; reflexivity. Qed.
Example ex_q_accepted : Forall accepted_entry (t_aux ex_table_q).
Proof.
  unfold ex_table_q, t_aux, ex_aux_strings. cbn [map fst snd].
  repeat (apply Forall_cons; [match goal with |- accepted_entry (lit ?k, lit ?v) =>
            exists k, v; split; [reflexivity|split; [vm_compute; reflexivity|vm_compute; lia]] end|]).
  apply Forall_nil.
Qed.
Example ex_q_offers : map (fun kv => write_key_offer (lit (fst kv)) (lit (snd kv))) ex_aux_strings = repeat Stored 8 /\
  (* one more quote and write_key refuses: 35 quotes = 70 encoded characters; 69 characters of which one is a quote; the HIERARCH value one longer *)
  write_key_offer (lit "ALLQ") (repeat quote 35) = RefusedTooLong /\
  write_key_offer (lit "MAX") (repeat 122%N 67 ++ [quote])%list = RefusedTooLong /\ write_key_offer (lit "MAX") (repeat 122%N 66 ++ [quote])%list = Stored /\
  write_key_offer (lit "KKKKKKKKKKKKKKKKKKKKKKKKKKKKKK") (repeat 122%N 36 ++ [quote])%list = RefusedTooLong /\
  AuxModel.accepts Generated_aux.gen_params "ALLQ" "'''''''''''''''''''''''''''''''''''" = false.
Proof. repeat split; vm_compute; reflexivity. Qed.
Example ex_q_card : encode_card (str_card (lit "QUOTED") (lit "it's")) = pad_right 80 (lit "QUOTED  = 'it''s   '") /\
  encode_card (str_card (lit "THREE") (lit "'''")) = pad_right 80 (lit "THREE   = '''''''  '") /\
  decode_card (pad_right 80 (lit "THREE   = '''''''  '")) = Card (lit "THREE") (VStr (lit "''''''  ")).
Proof. repeat split; vm_compute; reflexivity. Qed.
Example ex_q_roundtrip : exists t', of_bytes (to_bytes ex_table_q) = Ok t' /\ read_bytes (to_bytes ex_table_q) = Ok t' /\
  t_coeffs t' = t_coeffs ex_table_q /\
  t_aux t' = map (fun kv => (lit (fst kv), lit (snd kv)))
    [("QUOTED", "it's   "); ("DOUBLED", "a''b  "); ("LEADING", "'lead  "); ("TRAILING", "trail' "); ("THREE", "'''  "); ("LONE", "'      ");
     ("ALLQ", "''''''''''''''''''''''''''''''''''");
     ("KKKKKKKKKKKKKKKKKKKKKKKKKKKKKK", "zzzzzzzzzzzzzzzzzzzzzzzzzzzzzzzzzz'")].
Proof. eexists. split; [|split; [|split]]; vm_compute; reflexivity. Qed.
Example ex_q_bytes_length : List.length (to_bytes ex_table_q) = 23040%nat. Proof. vm_compute. reflexivity. Qed.
End ExQuotes.
(* one more character in either maximal value and the card no longer fits: wf_table' is false (and so is wf_doc) *)
Example ex_not_wf_table' :
  wf_table' {| t_order := [0]; t_knots := [[0; 1]]; t_naxes := [1]; t_strides := [1]; t_coeffs := [0]; t_extents := None;
               t_periods := None; t_aux := [(repeat 75 30, repeat 122 37)] |} = false /\
  wf_doc (to_doc {| t_order := [0]; t_knots := [[0; 1]]; t_naxes := [1]; t_strides := [1]; t_coeffs := [0]; t_extents := None;
               t_periods := None; t_aux := [(repeat 75 30, repeat 122 37)] |}) = false.
Proof. split; vm_compute; reflexivity. Qed.
(* write_key accepts the example's keys and values (C16's model), also a value that only fits in cfitsio's compressed form *)
Module ExAccepts.
Import String.
Local Open Scope string_scope.
Example ex_accepts :
  AuxModel.accepts Generated_aux.gen_params "LONGKEYNAME12" "a b" = true /\ AuxModel.accepts Generated_aux.gen_params "QUOTED" "it's ''" = true /\
  lit "LONGKEYNAME12" = [76; 79; 78; 71; 75; 69; 89; 78; 65; 77; 69; 49; 50] /\
  AuxModel.accepts Generated_aux.gen_params "KKKKKKKKKKKKKKKKKKKKKKKKKKKKKK" "zzzzzzzzzzzzzzzzzzzzzzzzzzzzzzzzzzzzz" = true /\
  aux_entry_ok (lit "KKKKKKKKKKKKKKKKKKKKKKKKKKKKKK", lit "zzzzzzzzzzzzzzzzzzzzzzzzzzzzzzzzzzzzz") = false.
Proof. repeat split; vm_compute; reflexivity. Qed.
End ExAccepts.
(* operator== on the example: it holds NaN coefficients, so it is not == to itself; with the NaNs replaced it is *)
Example ex_nan_unequal : nan_free ex_table = false /\ table_op_eq ex_table ex_table = false. Proof. split; vm_compute; reflexivity. Qed.
Definition ex_table3 : table :=
  {| t_order := t_order ex_table; t_knots := [[0; 4607182418800017408; 4611686018427387904; 4613937818241073152];
                                               [9223372036854775808; 1; 4607182418800017408; 9218868437227405312]];
     t_naxes := t_naxes ex_table; t_strides := t_strides ex_table;
     t_coeffs := [2139095040; 4286578688; 2147483648; 1; 0; 1065353216];          (* +inf -inf -0 denormal +0 1 *)
     t_extents := t_extents ex_table; t_periods := t_periods ex_table; t_aux := t_aux ex_table |}.
Example ex_nan_free : wf_table' ex_table3 = true /\ nan_free ex_table3 = true. Proof. split; vm_compute; reflexivity. Qed.
Example ex_roundtrip : of_bytes (to_bytes ex_table) =
  Ok {| t_order := t_order ex_table; t_knots := t_knots ex_table; t_naxes := [2; 3]; t_strides := [3; 1];
        t_coeffs := t_coeffs ex_table; t_extents := t_extents ex_table; t_periods := Some [Some [48; 46]; Some [54; 46; 50; 56]];
        t_aux := [([70; 79; 79], [98; 97; 114; 32; 32; 32; 32; 32]);
                  ([76; 79; 78; 71; 75; 69; 89; 78; 65; 77; 69; 49; 50], [97; 32; 98; 32; 32; 32; 32; 32]);
                  ([69], [32; 32; 32; 32; 32; 32; 32; 32])] |}.
Proof. vm_compute. reflexivity. Qed.
Example ex_bytes_length : length (to_bytes ex_table) = 23040%nat. Proof. vm_compute. reflexivity. Qed.
(* a legacy document: single ORDER key, no EXTENTS extension, no PERIOD keys *)
Example ex_legacy :
  let d := [ {| h_cards := [Card s_SIMPLE (VTok s_T); int_card s_BITPIX (-32); int_card s_NAXIS 1; int_card (keyn s_NAXIS 1) 2;
                            int_card s_ORDER 1];
               h_data := [1065353216; 0] |};
             vector_hdu (keyn s_KNOTS 0) [0; 4607182418800017408; 4611686018427387904; 4613937818241073152] ] in
  wf_doc d = true /\
  of_bytes (encode d) = Ok {| t_order := [1]; t_knots := [[0; 4607182418800017408; 4611686018427387904; 4613937818241073152]];
                              t_naxes := [2]; t_strides := [1]; t_coeffs := [1065353216; 0];
                              t_extents := Some [4607182418800017408; 4611686018427387904];
                              t_periods := Some [None]; t_aux := [] |}.
Proof. vm_compute. split; reflexivity. Qed.
(* what the strict reader rejects and the writer never produces: a quote that is not doubled *)
Example ex_not_wf : wf_card (Card [70] (VStr [39; 65])) = false. Proof. reflexivity. Qed.

Print Assumptions C06_roundtrip_L2.
Print Assumptions C06_word_bytes.
Print Assumptions C06_decimal.
Print Assumptions C06_card.
Print Assumptions C06_roundtrip_L1.
Print Assumptions C06_aux_padding_only.
Print Assumptions C06_undouble_inverts_doubling.
Print Assumptions C06_roundtrip_partial.
Print Assumptions C06_wf_doc.
Print Assumptions C06_roundtrip.
Print Assumptions C06_write_key_accepted_entry_ok.
Print Assumptions C06_write_key_fit_gap.
Print Assumptions C06_name_keys_reserved.
Print Assumptions C06_aux_reader_is_C16_reader.
Print Assumptions C06_write_key_offer_is_C16_write_key.
Print Assumptions C06_accepted_values_roundtrip.
Print Assumptions C06_reload_compares_equal.
Print Assumptions C06_roundtrip_compares_equal.
Print Assumptions C06_nan_compares_unequal.
Print Assumptions C06_axis_order.
Print Assumptions C06_legacy_single_order.
Print Assumptions C06_legacy_no_extents.
Print Assumptions C06_legacy_no_period.
