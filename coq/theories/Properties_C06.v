From PS Require Import FitsModel.
Example placeholder : decode nil = Error ENoHDU. Proof. reflexivity. Qed.
