(* C10_Proofs.v — C10 lemmas over an ordered field: the exact and the abstract-rounding instances of the
   cumulative-sum monotonicity (C10_Cumsum.v), the T-spline change of basis, and the inactive-constraint statement
   through C11's KKT uniqueness. (The surface statement is in C10_Surface.v, the IEEE instance in C10_IEEE.v.) *)
From Coq Require Import List ZArith Bool PeanoNat Lia Field Ring.
From PS Require Import Arith EvalModel BSpline OFieldKit Generated_nnls NnlsModel C11_Spec C11_KKT_Proofs MonoModel C10_Cumsum.
Import ListNotations.

Section OverField.
Context {A : Arith}.
Variable F : OField A.
Notation K := (T A).
Add Field KfieldC10 : (OFth F).
Notation le := (@OFieldKit.le A).

Lemma le_add_nonneg_l (u y : K) : le zero u -> le y (add u y).
Proof.
  intro H. pose proof (OF_add_le A F zero u y H) as H1.
  replace (add zero y) with y in H1 by ring. exact H1.
Qed.

(* ---- exact arithmetic ------------------------------------------------------------------------------------ *)
Lemma store_float_id (x : list K) : store_float x = x.
Proof. unfold store_float. rewrite (map_ext _ (fun v => v)) by (intro v; apply (OF_rnd A F)). apply map_id. Qed.

Theorem cumsum_monotone_exact (naxes : list nat) (md : nat) (x : list K) :
  wf_call naxes md x -> Forall (fun u => le zero u) x ->
  nondecreasing_along zero le (prodn (firstn md naxes)) (nth md naxes 0%nat) (prodn (skipn (S md) naxes))
                      (glam_backtransform naxes md x).
Proof.
  intros Hwf Hx. unfold glam_backtransform. rewrite store_float_id.
  apply (backtransform_monotone K addf zero le (fun _ => True) (fun u => le zero u)).
  - intros u y _ Hu _ _. unfold addf. rewrite (OF_rnd A F). apply le_add_nonneg_l. exact Hu.
  - exact Hwf.
  - apply Forall_forall. intros u Hu. split; [exact I|]. exact (proj1 (Forall_forall _ _) Hx u Hu).
  - apply Forall_forall. intros; exact I.
Qed.

(* ---- an abstract rounding operator: monotone, idempotent, 0 |-> 0; float add = rd (a + b) -------------------- *)
Section Rounded.
Variable rd : K -> K.
Hypothesis rd_mono : forall a b, le a b -> le (rd a) (rd b).
Hypothesis rd_idem : forall a, rd (rd a) = rd a.
Hypothesis rd_zero : rd zero = zero.

Definition addr (u y : K) : K := rd (add u y).

Lemma setK_Forall (P : K -> Prop) (a : list K) : forall p v, Forall P a -> P v -> Forall P (setK a p v).
Proof.
  induction a as [|c a IH]; intros [|p] v Ha Hv; cbn [setK]; auto.
  - inversion Ha; subst. constructor; assumption.
  - inversion Ha; subst. constructor; [assumption|]. apply IH; assumption.
Qed.

Lemma backtransform_Forall (P : K -> Prop) (fadd : K -> K -> K) (naxes : list nat) (md : nat) (a : list K) :
  (forall u y, P (fadd u y)) -> Forall P a -> Forall P (backtransform fadd zero naxes md a).
Proof.
  intros Hf. unfold backtransform. destruct (strides_loop naxes 0 md 1 1) as [s1 s2].
  unfold loop_i. generalize (seq 0 s1). intro l. revert a. induction l as [|i l IH]; intros a Ha; [exact Ha|].
  cbn [fold_left]. apply IH. unfold loop_j. generalize (seq 1 (nth md naxes 0 - 1)). intro lj. revert a Ha.
  induction lj as [|j lj IHj]; intros a Ha; [exact Ha|]. cbn [fold_left]. apply IHj.
  unfold loop_k. generalize (seq 0 s2). intro lk. revert a Ha.
  induction lk as [|k lk IHk]; intros a Ha; [exact Ha|]. cbn [fold_left]. apply IHk. unfold step.
  apply setK_Forall; [exact Ha|apply Hf].
Qed.

(* the doubles x handed back by NNLS are >= 0; they are stored as floats (map rd), then summed with rounded additions *)
Theorem cumsum_monotone_rnd (naxes : list nat) (md : nat) (x : list K) :
  wf_call naxes md x -> Forall (fun u => le zero u) x ->
  nondecreasing_along zero le (prodn (firstn md naxes)) (nth md naxes 0%nat) (prodn (skipn (S md) naxes))
                      (backtransform addr zero naxes md (map rd x)).
Proof.
  intros [Hmd Hlen] Hx.
  apply (backtransform_monotone K addr zero le (fun y => rd y = y) (fun u => le zero u)).
  - intros u y _ Hu Hy _. unfold addr. rewrite <- Hy at 1. apply rd_mono. apply le_add_nonneg_l. exact Hu.
  - split; [exact Hmd|]. rewrite map_length. exact Hlen.
  - apply Forall_forall. intros u Hu. apply in_map_iff in Hu. destruct Hu as [v [<- Hv]]. split; [apply rd_idem|].
    rewrite <- rd_zero. apply rd_mono. exact (proj1 (Forall_forall _ _) Hx v Hv).
  - apply backtransform_Forall; [intros u y; unfold addr; apply rd_idem|].
    apply Forall_forall. intros u Hu. apply in_map_iff in Hu. destruct Hu as [v [<- Hv]]. apply rd_idem.
Qed.
End Rounded.

(* ---- the T-spline change of basis ------------------------------------------------------------------------- *)
(* suffix sums of a row: (b tril)_c = sum_{r >= c} b_r *)
Fixpoint sufs (b : list K) : list K :=
  match b with [] => [] | x :: r => add x (hd zero (sufs r)) :: sufs r end.
Fixpoint sumL (b : list K) : K := match b with [] => zero | x :: r => add x (sumL r) end.

Lemma sufs_length b : length (sufs b) = length b.
Proof. induction b; cbn [sufs length]; auto. Qed.
Lemma hd_sufs b : hd zero (sufs b) = sumL b.
Proof. destruct b as [|x r]; [reflexivity|]. cbn [sufs hd sumL]. f_equal. clear x. induction r as [|y r IH]; [reflexivity|]. cbn [sufs hd sumL]. rewrite IH. reflexivity. Qed.

Lemma dot_sufs_cumsum : forall (b inc : list K) (acc : K), length b = length inc ->
  dot b (cumsum_from acc inc) = add (mul acc (sumL b)) (dot (sufs b) inc).
Proof.
  induction b as [|x b IH]; intros [|a inc] acc H; cbn [length] in H; try lia.
  - cbn [dot cumsum_from sumL sufs]. ring.
  - cbn [dot cumsum_from sumL sufs]. rewrite IH by lia. rewrite hd_sufs. ring.
Qed.

Definition ind (c r : nat) : K := if c <=? r then one else zero.

Lemma dot_ind_ge : forall (b : list K) k c, c <= k -> dot b (map (ind c) (seq k (length b))) = sumL b.
Proof.
  induction b as [|x b IH]; intros k c H; [reflexivity|].
  cbn [length seq map dot sumL]. rewrite IH by lia. unfold ind. replace (c <=? k) with true by (symmetry; apply Nat.leb_le; lia). ring.
Qed.

Lemma dot_ind : forall (b : list K) k c, k <= c -> c < k + length b ->
  dot b (map (ind c) (seq k (length b))) = nth (c - k) (sufs b) zero.
Proof.
  induction b as [|x b IH]; intros k c H1 H2; cbn [length] in H2; [lia|].
  cbn [length seq map dot sufs]. destruct (Nat.eq_dec c k) as [->|Hne].
  - rewrite Nat.sub_diag. cbn [nth]. rewrite dot_ind_ge by lia. rewrite hd_sufs. unfold ind. rewrite Nat.leb_refl. ring.
  - replace (c - k) with (S (c - S k)) by lia. cbn [nth]. rewrite IH by lia.
    unfold ind. replace (c <=? k) with false by (symmetry; apply Nat.leb_gt; lia). ring.
Qed.

Lemma nth_map_seq {X} (f : nat -> X) (d : X) n c : c < n -> nth c (map f (seq 0 n)) d = f c.
Proof.
  intro H. rewrite (nth_indep _ d (f 0)) by (rewrite map_length, seq_length; exact H).
  rewrite map_nth. rewrite seq_nth by exact H. reflexivity.
Qed.

Lemma colK_tril n c : c < n -> colK c (tril n) = map (ind c) (seq 0 n).
Proof.
  intro H. unfold colK, tril. rewrite map_map. apply map_ext_in. intros r Hr.
  rewrite nth_map_seq by exact H. reflexivity.
Qed.

Lemma row_tril (b : list K) : map (fun c => dot b (colK c (tril (length b)))) (seq 0 (length b)) = sufs b.
Proof.
  apply (nth_ext _ _ zero zero); [rewrite map_length, seq_length, sufs_length; reflexivity|].
  intros c Hc. rewrite map_length, seq_length in Hc.
  rewrite nth_map_seq by exact Hc.
  rewrite colK_tril by exact Hc. rewrite dot_ind by lia. rewrite Nat.sub_0_r. reflexivity.
Qed.

(* (B tril) inc = B (cumsum inc), for every matrix B with n columns — the basis matrix and the finite-difference matrix alike *)
Theorem tspline_basis (n : nat) (B : list (list K)) (inc : list K) :
  Forall (fun r => length r = n) B -> length inc = n ->
  mv (mmulK B (tril n) n) inc = mv B (cumsum inc).
Proof.
  intros HB Hi. unfold mv, mmulK. rewrite map_map. apply map_ext_in. intros b Hb.
  pose proof (proj1 (Forall_forall _ _) HB b Hb) as Lb. subst n. rewrite <- Lb.
  rewrite row_tril. unfold cumsum. rewrite dot_sufs_cumsum by lia. ring.
Qed.

(* cumsum and increments are inverse to each other *)
Lemma cumsum_diffs_from : forall (c : list K) (p : K), cumsum_from p (diffs_from p c) = c.
Proof.
  induction c as [|a c IH]; intro p; [reflexivity|]. cbn [diffs_from cumsum_from].
  replace (add p (sub a p)) with a by ring. rewrite IH. reflexivity.
Qed.
Theorem cumsum_diffs (c : list K) : cumsum (diffs c) = c.
Proof. apply cumsum_diffs_from. Qed.

(* ---- inactive constraint --------------------------------------------------------------------------------- *)
Lemma vsub_self (b : list K) : vsub b b = zeros (length b).
Proof. induction b as [|x b IH]; [reflexivity|]. cbn [vsub length]. unfold zeros in *. cbn [repeat]. rewrite IH. f_equal. ring. Qed.

Lemma solution_is_kkt (M : list (list K)) (b z : list K) :
  mv M z = b -> length z = length b -> C11_Spec.nonneg z -> kkt M b z.
Proof.
  intros Hs Hl Hz. unfold kkt, kkt_tol, gradient. rewrite Hs, vsub_self. rewrite <- Hl. clear Hs Hl.
  induction Hz as [|x z Hx Hz IH]; [constructor|]. cbn [length]. unfold zeros in *. cbn [repeat]. constructor; [|exact IH].
  split; [exact Hx|left; reflexivity].
Qed.

Variable ofZ_two : @ofZ A 2 = add one one.

(* if the unconstrained solution z of the T-basis normal equations is >= 0, every KKT point of the NNLS problem is z *)
Theorem inactive_constraint (n : nat) (M : list (list K)) (b z x : list K) :
  spd n M -> length b = n -> length z = n -> length x = n ->
  mv M z = b -> C11_Spec.nonneg z -> kkt M b x -> x = z.
Proof.
  intros Hspd Hb Hz Hx Hs Hn Hk.
  apply (kkt_unique F ofZ_two n M b x z Hspd Hb Hx Hz Hk).
  apply solution_is_kkt; [exact Hs|congruence|exact Hn].
Qed.

(* ... and a point that is KKT only within the solver's tolerance t has an objective within 2 t sum(z) of the optimum z *)
Theorem inactive_constraint_tol (n : nat) (M : list (list K)) (b z x : list K) (t : K) :
  spd n M -> length b = n -> length z = n -> length x = n -> C11_Spec.le zero t ->
  mv M z = b -> C11_Spec.nonneg z -> kkt_tol t M b x ->
  C11_Spec.le (sub (qobj M b x) (qobj M b z)) (mul (add one one) (mul t (vsum z))).
Proof.
  intros Hspd Hb Hz Hx Ht Hs Hn Hk.
  exact (kkt_tol_gap F ofZ_two n M b x z t Hspd Hb Hx Hz Ht Hk Hn).
Qed.

(* the T-basis system is the transformed B-basis system: with L = cumulative sums (cums), L' its transpose (sufsv),
   M = L' AB L and b = L' rB as operators, the increments of the unconstrained B-spline minimiser solve the T-basis system *)
Theorem tsystem_solution (M AB : list (list K)) (b rB cstar z : list K) (cums sufsv : list K -> list K) :
  (forall v, mv M v = sufsv (mv AB (cums v))) -> b = sufsv rB ->
  mv AB cstar = rB -> cums z = cstar -> mv M z = b.
Proof. intros HM Hb Hc Hz. rewrite HM, Hz, Hc, Hb. reflexivity. Qed.

End OverField.
