(* Properties_C04.v — C04: center lookup accepts exactly the knot range and brackets the point.
   Statements only; proofs are in C04_Proofs.v. The model is EvalModel.searchcenters, compared exactly
   with splinetable::searchcenters / evaluator / tablesearchcenters on every run.

   [ord] is "not NaN"; [OrdLaws] is what IEEE comparison satisfies on non-NaN values (total preorder,
   [ltb] its strict part). Nothing else about the arithmetic is assumed: the statements hold for every
   [Arith], in particular for binary64 with +-inf, signed zeros and denormals. *)
From Coq Require Import ZArith List Bool Lia QArith Qcanon.
From PS Require Import Arith EvalModel C04_Proofs.
Import ListNotations.
Local Open Scope Z_scope.

Section C04.
Context {A : Arith}.
Variable ord : T A -> Prop.
Hypothesis laws : OrdLaws A ord.
Variable t : @table A.
Variable xs : list (T A).
Hypothesis Hwf : Forall (wf_dim ord) (dims t).     (* >= 2*order+2 knots, naxes = nknots-order-1, knots non-NaN and non-decreasing *)
Hypothesis Hxs : Forall ord xs.                    (* non-NaN coordinates *)
Hypothesis Hlen : length xs = length (dims t).

(* the lookup terminates: the iteration budget (nknots+1 per dimension) is never exhausted *)
Theorem C04_terminates : searchcenters t xs <> CNoFuel.
Proof. exact (sc_terminates ord laws t xs Hwf Hxs Hlen). Qed.

(* it succeeds exactly when every coordinate is in (first knot, last knot] *)
Theorem C04_accepts_iff : (exists cs, searchcenters t xs = CFound cs) <-> Forall2 in_range (dims t) xs.
Proof. exact (sc_accepts_iff ord laws t xs Hwf Hxs Hlen). Qed.
Theorem C04_rejects_iff : searchcenters t xs = COutside <-> ~ Forall2 in_range (dims t) xs.
Proof. exact (sc_rejects_iff ord laws t xs Hwf Hxs Hlen). Qed.

(* every returned index c satisfies order <= c <= nknots-order-2; in the fully supported range it brackets
   the coordinate (knot[c] <= x < knot[c+1]); below it is the first, from knot[naxes] upwards the last
   fully supported interval of positive width at or below x *)
Theorem C04_post : forall cs, searchcenters t xs = CFound cs -> Forall3 center_post (dims t) xs cs.
Proof. exact (sc_post ord laws t xs Hwf Hxs Hlen). Qed.

(* in particular: from knots[naxes] upwards, unless x sits on a knot repeated there, the index is the last fully
   supported span naxes-1; on a repeated knot it is the nearest span of positive width below (third clause of
   [center_post]: everything stepped over equals x, and knots[c] < x or c = order) *)
Theorem C04_post_last : forall cs, searchcenters t xs = CFound cs -> Forall3 center_last (dims t) xs cs.
Proof. exact (sc_post_last ord laws t xs Hwf Hxs Hlen). Qed.

(* the convenience call operator: zero when the lookup fails, the evaluated value otherwise *)
Theorem C04_call_operator :
  (searchcenters t xs = COutside -> call_operator t xs = zero) /\
  (forall cs, searchcenters t xs = CFound cs -> call_operator t xs = ndsplineeval t xs cs 0).
Proof. exact (call_operator_spec t xs). Qed.

End C04.

(* non-vacuity: a concrete well-formed table (order 1, knots 0 1 2 3) and point 3/2 on exact rationals *)
Definition ex_dim : @dimn QcA :=
  @mkDim QcA 1%nat 4 2 1 (fun i => Q2Qc (inject_Z i)).
Example C04_hypotheses_satisfiable :
  Forall (wf_dim (A := QcA) (fun _ => True)) [ex_dim] /\
  searchcenters (@mkTable QcA [ex_dim] (fun _ => Q2Qc 1)) [Q2Qc (3 # 2)] = CFound [1].
Proof.
  split.
  - constructor; [|constructor]. unfold wf_dim, ex_dim; cbn [d_order d_nknots d_naxes d_kn].
    split; [lia|]. split; [lia|]. split; [auto|].
    intros i j Hi Hij Hj.
    assert (i = 0 \/ i = 1 \/ i = 2 \/ i = 3) as Ci by lia.
    assert (j = 0 \/ j = 1 \/ j = 2 \/ j = 3) as Cj by lia.
    destruct Ci as [->|[->|[->| ->]]]; destruct Cj as [->|[->|[->| ->]]]; try lia; vm_compute; reflexivity.
  - vm_compute. reflexivity.
Qed.

Print Assumptions C04_terminates.
Print Assumptions C04_accepts_iff.
Print Assumptions C04_rejects_iff.
Print Assumptions C04_post.
Print Assumptions C04_post_last.
Print Assumptions C04_call_operator.
Print Assumptions C04_hypotheses_satisfiable.
