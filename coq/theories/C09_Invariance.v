(* C09_Invariance.v — theorem (4): the objective, the normal matrix and the right-hand side do not depend on the
   listing order of the data entries, and entries of weight zero have no influence. *)
From Coq Require Import ZArith List Bool Lia Field Ring Permutation.
From PS Require Import Arith EvalModel BSpline OFieldKit FitModel C09_LinAlg.
Import ListNotations.

Section Inv.
Context {A : Arith}.
Variable F : OField A.
Notation K := (T A).
Add Field Kfield_c09inv : (OFth F).
Notation wt e := (fst (fst e)).
Notation brow e := (snd (fst e)).
Notation zval e := (snd e).

Lemma sumK_perm (l l' : list K) : Permutation l l' -> sumK l = sumK l'.
Proof. unfold sumK. induction 1; cbn [fold_right]; try congruence; ring. Qed.

Lemma wrss_perm (E E' : list (K * list K * K)) c : Permutation E E' -> wrss E' c = wrss E c.
Proof. intro H. unfold wrss. symmetry. apply sumK_perm. apply Permutation_map. exact H. Qed.

Lemma wrss_zero_weight (e : K * list K * K) E c : wt e = zero -> wrss (e :: E) c = wrss E c.
Proof. intro H. unfold wrss. cbn [map sumK fold_right]. rewrite H. fold (sumK (map (fun e0 => mul (wt e0) (sq (sub (zval e0) (dot (brow e0) c)))) E)). ring. Qed.

(* vectors / matrices: commutation of additions *)
Lemma vadd_swap (u v w : list K) : vadd u (vadd v w) = vadd v (vadd u w).
Proof.
  revert v w. induction u as [|a u IH]; intros [|b v] [|c w]; cbn [vadd]; try reflexivity.
  rewrite IH. f_equal. ring.
Qed.
Lemma madd_swap (X Y M : list (list K)) : madd X (madd Y M) = madd Y (madd X M).
Proof.
  revert Y M. induction X as [|a X IH]; intros [|b Y] [|c M]; cbn [madd]; try reflexivity.
  rewrite IH. f_equal. apply vadd_swap.
Qed.
Lemma vadd_zero_scaled (u r : list K) : length u = length r -> vadd (vscale zero u) r = r.
Proof.
  revert r. induction u as [|a u IH]; intros [|b r] H; cbn in H; try lia; [reflexivity|].
  cbn [vscale map vadd]. fold (vscale zero u). rewrite IH by lia. f_equal. ring.
Qed.

Lemma nmat_perm n (E E' : list (K * list K * K)) : Permutation E E' -> nmat n E' = nmat n E.
Proof.
  induction 1 as [| e E E' _ IH | e1 e2 E | E1 E2 E3 _ IH1 _ IH2]; cbn [nmat fold_right]; try reflexivity.
  - fold (nmat n E). fold (nmat n E'). rewrite IH. reflexivity.
  - fold (nmat n E). apply madd_swap.
  - congruence.
Qed.
Lemma nrhs_perm n (E E' : list (K * list K * K)) : Permutation E E' -> nrhs n E' = nrhs n E.
Proof.
  induction 1 as [| e E E' _ IH | e1 e2 E | E1 E2 E3 _ IH1 _ IH2]; cbn [nrhs fold_right]; try reflexivity.
  - fold (nrhs n E). fold (nrhs n E'). rewrite IH. reflexivity.
  - fold (nrhs n E). apply vadd_swap.
  - congruence.
Qed.

Lemma madd_zero_outer (u v : list K) (M : list (list K)) : length M = length u -> rows_len (length v) M ->
  madd (mscale zero (outer u v)) M = M.
Proof.
  revert M. induction u as [|a u IH]; intros M L1 L2; cbn [length] in L1.
  - destruct M; [reflexivity | cbn in L1; lia].
  - destruct M as [|r M]; [cbn in L1; lia|]. pose proof (Forall_inv L2) as Hr. pose proof (Forall_inv_tail L2) as HM. cbn beta in Hr.
    cbn [outer map mscale madd]. fold (outer u v). fold (mscale zero (outer u v)).
    rewrite (IH M) by (cbn in L1; auto; lia). f_equal.
    transitivity (vadd (vscale zero v) r); [|apply vadd_zero_scaled; lia].
    f_equal. unfold vscale. rewrite map_map. apply map_ext. intro x. ring.
Qed.
Lemma nmat_zero_weight n (e : K * list K * K) E : wf_rows n (e :: E) -> wt e = zero -> nmat n (e :: E) = nmat n E.
Proof.
  intros Hwf Hw. pose proof (Forall_inv Hwf) as He. pose proof (Forall_inv_tail Hwf) as HE. cbn beta in He.
  cbn [nmat fold_right]. fold (nmat n E). rewrite Hw.
  destruct (nmat_shape n E HE) as [L1 L2]. apply madd_zero_outer; [lia | rewrite He; exact L2].
Qed.
Lemma nrhs_zero_weight n (e : K * list K * K) E : wf_rows n (e :: E) -> wt e = zero -> nrhs n (e :: E) = nrhs n E.
Proof.
  intros Hwf Hw. pose proof (Forall_inv Hwf) as He. pose proof (Forall_inv_tail Hwf) as HE. cbn beta in He. cbn [nrhs fold_right]. fold (nrhs n E). rewrite Hw.
  replace (mul zero (zval e)) with (@zero A) by ring. apply vadd_zero_scaled. rewrite (nrhs_length n E HE). exact He.
Qed.

End Inv.
