(* FitModel.v — executable model of the unconstrained spline fit (property C09):
     include/photospline/detail/fit.h   splinetable::fit            (penalty assembly, call of glamfit_complex)
     src/fitter/glam.c                  glamfit_complex, add_penalty_term, calc_penalty, divided_diffs,
                                        flatten_ndarray_to_sparse
     src/fitter/splineutil.c            bspline, bsplinebasis, box, slicemultiply, kronecker_product
   up to (and excluding) the linear solve: the model returns the normal matrix and the right-hand side that
   glamfit_complex hands to cholesky_solve.  CHOLMOD is not modelled: a cholmod_sparse / cholmod_dense is
   modelled by the dense matrix (list of rows) it denotes, a cholmod_triplet -> cholmod_sparse conversion by
   "sum the entries with equal position" (what cholmod_l_triplet_to_sparse does), cholmod_l_ssmult /
   cholmod_l_transpose / cholmod_l_add by dense product / transpose / sum.  The n-dimensional arrays
   (struct ndsparse) ARE modelled as the code has them: a list of (index tuple, value) entries plus the
   ranges, and slicemultiply / the reshape in glamfit_complex perform the code's index arithmetic
   (rotate, flatten with strides, multiply, unflatten with / and %, split, reorder, flatten).
   Arithmetic-polymorphic (Arith.v); executed on exact rationals.  NO PROOFS in this file. *)
From Coq Require Import ZArith NArith List Bool FMapPositive.
From PS Require Import Arith.
Import ListNotations.

Section FitModel.
Context {A : Arith}.
Notation K := (T A).

(* ------------------------------------------------------------------------------------------------ *)
(* dense vectors and matrices (a matrix is the list of its rows) *)
Fixpoint dot (u v : list K) : K :=
  match u, v with
  | a :: u', b :: v' => add (mul a b) (dot u' v')
  | _, _ => zero
  end.
Fixpoint vadd (u v : list K) : list K :=
  match u, v with
  | a :: u', b :: v' => add a b :: vadd u' v'
  | _, _ => []
  end.
Definition vscale (a : K) (v : list K) : list K := map (mul a) v.
Definition vsub (u v : list K) : list K := vadd u (vscale (opp one) v).
Definition vzero (n : nat) : list K := repeat zero n.
Definition matvec (M : list (list K)) (v : list K) : list K := map (fun row => dot row v) M.
Fixpoint madd (M N : list (list K)) : list (list K) :=
  match M, N with
  | r :: M', s :: N' => vadd r s :: madd M' N'
  | _, _ => []
  end.
Definition mscale (a : K) (M : list (list K)) : list (list K) := map (vscale a) M.
Definition mzero (n m : nat) : list (list K) := repeat (vzero m) n.
Definition col (j : nat) (M : list (list K)) : list K := map (fun row => nth j row zero) M.
(* cholmod_l_transpose of a matrix with [ncol] columns *)
Definition transpose (ncol : nat) (M : list (list K)) : list (list K) := map (fun j => col j M) (seq 0 ncol).
(* cholmod_l_ssmult M N, N having [ncol] columns *)
Definition mmul (M N : list (list K)) (ncol : nat) : list (list K) :=
  let Nt := transpose ncol N in map (fun row => matvec Nt row) M.
Definition eye (n : nat) : list (list K) :=
  map (fun i => map (fun j => if Nat.eqb i j then one else zero) (seq 0 n)) (seq 0 n).
Definition eqK (a b : K) : bool := leb a b && leb b a.

(* ------------------------------------------------------------------------------------------------ *)
(* splineutil.c: bspline (static; Cox-de Boor recursion; since fix 07dbb30 a term whose denominator vanishes — repeated
   knots — is skipped instead of dividing 0/0; since fix F30_1 the flag [left] selects the side of the order-0 indicator):
     double a = 0, b = 0;
     if (n == 0) return (left ? (x > knots[i] && x <= knots[i+1]) : (x >= knots[i] && x < knots[i+1])) ? 1.0 : 0.0;
     if (knots[i+n]   != knots[i])   a = (x - knots[i])*bspline(knots, x, i, n-1, left) / (knots[i+n] - knots[i]);
     if (knots[i+n+1] != knots[i+1]) b = (knots[i+n+1] - x)*bspline(knots, x, i+1, n-1, left) / (knots[i+n+1] - knots[i+1]);
     return a + b;
   The same function as GridModel.bspline_guarded (C17), with nat indices: C09_Basis.fit_bspline_is_guarded. *)
Fixpoint bspline (kn : nat -> K) (x : K) (i : nat) (n : nat) (left : bool) : K :=
  match n with
  | O => if (if left then ltb (kn i) x && leb x (kn (i + 1))               (* x > knots[i] && x <= knots[i+1] *)
             else leb (kn i) x && ltb x (kn (i + 1)))                      (* x >= knots[i] && x < knots[i+1] *)
         then one else zero
  | S n' =>
      add (if eqK (kn (i + n)) (kn i) then zero
           else div (mul (sub x (kn i)) (bspline kn x i n' left)) (sub (kn (i + n)) (kn i)))
          (if eqK (kn (i + n + 1)) (kn (i + 1)) then zero
           else div (mul (sub (kn (i + n + 1)) x) (bspline kn x (i + 1) n' left)) (sub (kn (i + n + 1)) (kn (i + 1))))
  end.

(* splineutil.c: bsplinebasis — npts rows, nknots-order-1 columns, entry (row, col) =
   bspline(knots, x[row], col, order, x[row] >= knots[nsplines]): right-continuous below the upper end of the fully supported
   range, left-continuous from there upwards, like pointwise evaluation (BSpline.side_of) *)
Definition bsplinebasis (knots : list K) (xs : list K) (order : nat) : list (list K) :=
  let kn := fun i => nth i knots zero in
  let nsplines := length knots - order - 1 in
  map (fun x => map (fun c => bspline kn x c order (leb (kn nsplines) x)) (seq 0 nsplines)) xs.

(* splineutil.c: box — row-wise Kronecker product: entry (row, ja*ncol_b + jb) = a[row][ja] * b[row][jb] *)
Definition boxrow (ra rb : list K) : list K := flat_map (fun ai => map (mul ai) rb) ra.
Definition box (a b : list (list K)) : list (list K) := map (fun p => boxrow (fst p) (snd p)) (combine a b).

(* splineutil.c: kronecker_product — entry (ia*nrow_b + ib, ja*ncol_b + jb) = a[ia][ja] * b[ib][jb] *)
Definition kronecker_product (a b : list (list K)) : list (list K) :=
  flat_map (fun ra => map (fun rb => boxrow ra rb) b) a.

(* ------------------------------------------------------------------------------------------------ *)
(* struct ndsparse: ranges and (index tuple, value) entries *)
Record ndarr := mkNd { nd_ranges : list N; nd_entries : list (list N * K) }.

Definition prodN (l : list N) : N := fold_right N.mul 1%N l.
(* sum_k idx[k]*stride_k with stride_k the product of the ranges behind k (last index fastest):
   the loops "stride = 1; for k from the back: j += stride*i[k]; stride *= ranges[k]" of slicemultiply and
   "moduli[last] = 1; moduli[i] = moduli[i+1]*ranges[i+1]; k += i[j]*moduli[j]" of flatten_ndarray_to_sparse *)
Fixpoint flat (rs idx : list N) : N :=
  match rs, idx with
  | _ :: rs', i :: idx' => (i * prodN rs' + flat rs' idx')%N
  | _, _ => 0%N
  end.
(* slicemultiply's unflatten loop: stride = product of all; per axis: stride /= range; i = j/stride; j = j%stride *)
Fixpoint unflat (rs : list N) (j : N) : list N :=
  match rs with
  | [] => []
  | _ :: rs' => (j / prodN rs')%N :: unflat rs' (j mod prodN rs')%N
  end.
(* axes dim+1, ..., ndim-1, 0, ..., dim-1  (k % ndim for k = dim+1 .. dim+ndim-1) *)
Definition rot {X} (dim : nat) (l : list X) : list X := skipn (S dim) l ++ firstn dim l.
(* inverse: put [c] at axis [dim] and the rotated tail back in place; [ndim] the total number of axes *)
Definition unrot {X} (dim ndim : nat) (c : X) (l : list X) : list X :=
  skipn (ndim - 1 - dim) l ++ c :: firstn (ndim - 1 - dim) l.
Fixpoint set_nth {X} (n : nat) (x : X) (l : list X) : list X :=
  match l, n with
  | [], _ => []
  | _ :: t, O => x :: t
  | h :: t, S n' => h :: set_nth n' x t
  end.

(* cholmod_l_triplet_to_sparse: entries with the same position are summed. Positions are keyed by a flat
   number; the accumulator is a binary trie (only an efficiency device of the model). *)
Definition key (k : N) : positive := N.succ_pos k.
Definition getm (m : PositiveMap.t K) (k : N) : K :=
  match PositiveMap.find (key k) m with Some v => v | None => zero end.
Definition accum (kvs : list (N * K)) : PositiveMap.t K :=
  fold_left (fun m kv => PositiveMap.add (key (fst kv)) (add (getm m (fst kv)) (snd kv)) m) kvs (PositiveMap.empty K).
Definition Nseq (n : N) : list N := map N.of_nat (seq 0 (N.to_nat n)).

(* splineutil.c: slicemultiply(a, b, dim): a := b^T applied along axis dim.  [b] has [ncolb] columns.
   (The check b->nrow == a->ranges[dim] cannot fail in glamfit_complex: bases[i] is built with
   data->ranges[i] rows.) *)
Definition slicemultiply (a : ndarr) (b : list (list K)) (ncolb : nat) (dim : nat) : ndarr :=
  let rs := nd_ranges a in
  let ndim := length rs in
  let nrow := nth dim rs 0%N in
  let rr := rot dim rs in
  let cols := prodN rr in
  (* section: row = i[dim], column = rotated flat index; triplet -> sparse *)
  let sect := accum (map (fun e => ((nth dim (fst e) 0%N) * cols + flat rr (rot dim (fst e)), snd e)%N) (nd_entries a)) in
  let bt := transpose ncolb b in
  (* bta = bt . section, then back to triplets (row c, column j) and unflatten/unrotate *)
  let ents :=
    flat_map (fun j =>
      let scol := map (fun r => getm sect (r * cols + j)%N) (Nseq nrow) in
      let tail := unflat rr j in
      map (fun c => (unrot dim ndim (N.of_nat c) tail, dot (nth c bt []) scol)) (seq 0 ncolb))
      (Nseq cols) in
  mkNd (set_nth dim (N.of_nat ncolb) rs) ents.

(* glam.c: flatten_ndarray_to_sparse(array, nrow, ncol): k = sum i[j]*moduli[j]; (k / ncol, k % ncol) *)
Definition flatten_to_matrix (a : ndarr) (nrow ncol : N) : list (list K) :=
  let m := accum (map (fun e => let k := flat (nd_ranges a) (fst e) in
                                 ((k / ncol) * ncol + (k mod ncol), snd e)%N) (nd_entries a)) in
  map (fun r => map (fun c => getm m (r * ncol + c)%N) (Nseq ncol)) (Nseq nrow).

(* glam.c: the reshape of F in glamfit_complex: every axis (of range n*n) is split into two axes of range
   sqrt(n*n) with indices i / n and i % n; then the even-numbered axes come first, the odd ones after *)
Definition split_idx (rs2 idx : list N) : list N * list N :=
  (map (fun p => (snd p / N.sqrt (fst p))%N) (combine rs2 idx), map (fun p => (snd p mod N.sqrt (fst p))%N) (combine rs2 idx)).
Definition reshape_F (a : ndarr) : ndarr :=
  let rs2 := nd_ranges a in
  let sq := map N.sqrt rs2 in
  mkNd (sq ++ sq)
       (map (fun e => let p := split_idx rs2 (fst e) in (fst p ++ snd p, snd e)) (nd_entries a)).

(* ------------------------------------------------------------------------------------------------ *)
(* glam.c: divided_diffs(order, porder, j, knots, out) *)
Fixpoint divided_diffs (kn : nat -> K) (order porder j : nat) : list K :=
  match porder with
  | O => [one]
  | S p' =>
      let a := divided_diffs kn order p' (j + 1) in
      let b := divided_diffs kn order p' j in
      let delta := div (sub (kn (j + order + 1)) (kn (j + porder)))
                       (ofZ (Z.of_nat order - (Z.of_nat porder - 1))) in
      div (opp (nth 0 b zero)) delta
        :: map (fun i => div (sub (nth (i - 1) a zero) (nth i b zero)) delta) (seq 1 (porder - 1))
        ++ [div (nth (porder - 1) a zero) delta]
  end.

(* glam.c: calc_penalty, the finite-difference matrix: nspl - porder rows, row `row' carries divd at
   columns row .. row+porder *)
Definition finitediff (kn : nat -> K) (order porder nspl : nat) : list (list K) :=
  map (fun row => vzero row ++ divided_diffs kn order porder row ++ vzero (nspl - row - porder - 1))
      (seq 0 (nspl - porder)).

(* glam.c: calc_penalty (mono = 0): DtD = finitediff^T finitediff, then Kronecker products with identities,
   left to right *)
Definition calc_penalty (nsplines : list nat) (kn : nat -> K) (dim order porder : nat) : list (list K) :=
  let nspl := nth dim nsplines 0 in
  let D := finitediff kn order porder nspl in
  let DtD := mmul (transpose nspl D) D nspl in
  let factors := map (fun i => if Nat.eqb i dim then DtD else eye (nth i nsplines 0)) (seq 0 (length nsplines)) in
  match factors with
  | [] => []
  | f :: fs => fold_left kronecker_product fs f
  end.

(* glam.c: add_penalty_term *)
Definition add_penalty_term (nsplines : list nat) (kn : nat -> K) (dim order porder : nat) (scale : K)
           (penalty : list (list K)) : list (list K) :=
  if eqK scale zero then penalty
  else madd penalty (mscale scale (calc_penalty nsplines kn dim order porder)).

(* ------------------------------------------------------------------------------------------------ *)
(* fit.h + glamfit_complex up to the call of cholesky_solve *)
Record dimspec := mkDim { ds_order : nat; ds_knots : list K; ds_coords : list K }.

(* fit.h: (penaltyOrder.size()>1 ? penaltyOrder[i] : penaltyOrder[0]) *)
Definition pick {X} (d : X) (l : list X) (i : nat) : X := if Nat.ltb 1 (length l) then nth i l d else nth 0 l d.

Definition ds_nsplines (d : dimspec) : nat := length (ds_knots d) - ds_order d - 1.

Definition penalty_matrix (dims : list dimspec) (smoothing : list K) (porders : list nat) : list (list K) :=
  let nsplines := map ds_nsplines dims in
  let sidelen := fold_right Nat.mul 1 nsplines in
  fold_left (fun pen id =>
               let i := fst id in let d := snd id in
               add_penalty_term nsplines (fun k => nth k (ds_knots d) zero) i (ds_order d)
                                (pick 0 porders i) (pick zero smoothing i) pen)
            (combine (seq 0 (length dims)) dims) (mzero sidelen sidelen).

(* data entries: (index tuple, value, weight) *)
Definition Farr (dims : list dimspec) (data : list (list N * K * K)) : ndarr :=
  let ranges := map (fun d => N.of_nat (length (ds_coords d))) dims in
  fold_left (fun a id =>
               let i := fst id in let d := snd id in
               let b := bsplinebasis (ds_knots d) (ds_coords d) (ds_order d) in
               slicemultiply a (box b b) (ds_nsplines d * ds_nsplines d) i)
            (combine (seq 0 (length dims)) dims)
            (mkNd ranges (map (fun e => (fst (fst e), snd e)) data)).            (* F = weights *)
Definition Rarr (dims : list dimspec) (data : list (list N * K * K)) : ndarr :=
  let ranges := map (fun d => N.of_nat (length (ds_coords d))) dims in
  fold_left (fun a id =>
               let i := fst id in let d := snd id in
               let b := bsplinebasis (ds_knots d) (ds_coords d) (ds_order d) in
               slicemultiply a b (ds_nsplines d) i)
            (combine (seq 0 (length dims)) dims)
            (mkNd ranges (map (fun e => (fst (fst e), mul (snd e) (snd (fst e)))) data)).  (* R = weights*data *)

Definition fit_system (dims : list dimspec) (smoothing : list K) (porders : list nat)
           (data : list (list N * K * K)) : list (list K) * list K :=
  let sidelen := N.of_nat (fold_right Nat.mul 1 (map ds_nsplines dims)) in
  let Fmat := flatten_to_matrix (reshape_F (Farr dims data)) sidelen sidelen in
  let Rmat := flatten_to_matrix (Rarr dims data) sidelen 1%N in
  (madd Fmat (penalty_matrix dims smoothing porders), map (fun row => nth 0 row zero) Rmat).

(* ------------------------------------------------------------------------------------------------ *)
(* the statement's objective, written directly (NOT through the GLAM path): the e-th row of the design
   matrix is the Kronecker product of the basis rows at the entry's abscissae *)
Fixpoint kronrow (rows : list (list K)) : list K :=
  match rows with
  | [] => [one]
  | r :: rest => boxrow r (kronrow rest)
  end.
Definition design_row (bases : list (list (list K))) (idx : list N) : list K :=
  kronrow (map (fun bi => nth (N.to_nat (snd bi)) (fst bi) []) (combine bases idx)).
Definition sumK (l : list K) : K := fold_right add zero l.
Definition sq (x : K) : K := mul x x.
(* weighted residual sum of squares over a list of (weight, design row, value) *)
Definition wrss (E : list (K * list K * K)) (c : list K) : K :=
  sumK (map (fun e => mul (fst (fst e)) (sq (sub (snd e) (dot (snd (fst e)) c)))) E).

End FitModel.
