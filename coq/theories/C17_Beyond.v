(* C17_Beyond.v — a grid point with SOME coordinate beyond the last knot of its dimension has specification value zero
   (every Cox–de Boor function of that dimension vanishes there, on either side), whatever the other coordinates are.
   Together with C17_grideval_spec (an entry depends on the coordinates of its grid point only) this is why a grid of
   2^31 .. 2^32 and more points, all but a handful of whose abscissae per axis lie beyond the last knot, must yield exactly the
   entries of the small grid made of that handful, re-indexed, and nothing else. Over any ordered field. *)
From Coq Require Import ZArith List Bool Lia Field Ring.
From PS Require Import Arith EvalModel BSpline OFieldKit C04_Proofs GridModel.
Import ListNotations.
Local Open Scope Z_scope.

Section Beyond.
Context {A : Arith}.
Variable F : OField A.
Notation K := (T A).
Add Field KfieldBeyond : (OFth F).
Notation le := (@OFieldKit.le A).
Notation lt := (@OFieldKit.lt A).

Section OneDim.
Variable kn : Z -> K.
Variable nknots : Z.
Hypothesis Hmono : forall i j, 0 <= i -> i <= j -> j < nknots -> le (kn i) (kn j).
Variable x : K.
Hypothesis Hx : lt (kn (nknots - 1)) x.

Lemma beyond_knot j : 0 <= j -> j < nknots -> lt (kn j) x.
Proof.
  intros H0 H1. apply (OFieldKit.le_lt_trans F (kn j) (kn (nknots - 1)) x); [apply Hmono; lia | exact Hx].
Qed.

Lemma B0_beyond side i : 0 <= i -> i + 1 < nknots -> B0 kn side i x = zero.
Proof.
  intros H0 H1. pose proof (beyond_knot (i + 1) ltac:(lia) H1) as Hb.
  unfold B0. destruct side.
  - rewrite (OFieldKit.le_not_lt F (kn (i + 1)) x (OFieldKit.lt_le F _ _ Hb)). rewrite andb_false_r. reflexivity.
  - rewrite (proj1 (OFieldKit.lt_iff_nle F (kn (i + 1)) x) Hb). rewrite andb_false_r. reflexivity.
Qed.

Lemma Bfun_beyond side : forall n i, 0 <= i -> i + Z.of_nat n + 1 < nknots -> Bfun kn side n i x = zero.
Proof.
  induction n as [|n IH]; intros i H0 H1.
  - cbn [Bfun]. apply B0_beyond; lia.
  - cbn [Bfun]. rewrite IH by lia. rewrite IH by lia. ring.
Qed.
End OneDim.

Lemma sum_range_zero (f : Z -> K) : forall n a, (forall i, a <= i < a + Z.of_nat n -> f i = zero) -> sum_range f a n = zero.
Proof.
  induction n as [|n IH]; intros a H; cbn [sum_range]; [reflexivity|].
  rewrite H by lia. rewrite IH by (intros; apply H; lia). ring.
Qed.

Lemma tensor_zero_pr (cf : Z -> K) : forall ds xs pos, tensor_sum_grid cf ds xs pos zero = zero.
Proof.
  induction ds as [|d ds IH]; intros xs pos.
  - cbn. ring.
  - destruct xs as [|x xs]; [cbn; ring|]. cbn [tensor_sum_grid].
    apply sum_range_zero. intros i _. replace (mul zero (Bfun (d_kn d) (side_of d x) (d_order d) i x)) with (@zero A) by ring. apply IH.
Qed.

(* dimension d, abscissa x: beyond the last knot of a well-formed dimension *)
Definition beyond (d : @dimn A) (x : K) : Prop := wf_dim (fun _ => True) d /\ lt (d_kn d (d_nknots d - 1)) x.

Fixpoint some_beyond (ds : list (@dimn A)) (xs : list K) : Prop :=
  match ds, xs with
  | d :: ds', x :: xs' => beyond d x \/ some_beyond ds' xs'
  | _, _ => False
  end.

Lemma tensor_some_beyond (cf : Z -> K) : forall ds xs pos pr, some_beyond ds xs -> tensor_sum_grid cf ds xs pos pr = zero.
Proof.
  induction ds as [|d ds IH]; intros xs pos pr H; [destruct H|].
  destruct xs as [|x xs]; [destruct H|]. cbn [tensor_sum_grid]. cbn [some_beyond] in H.
  apply sum_range_zero. intros i Hi.
  destruct H as [[[W1 [W2 [_ W4]]] Hb] | H].
  - rewrite (Bfun_beyond (d_kn d) (d_nknots d)) ; [| | exact Hb | lia | ].
    + replace (mul pr zero) with (@zero A) by ring. apply tensor_zero_pr.
    + intros a b Ha Hab Hbn. unfold OFieldKit.le. apply W4; assumption.
    + assert (0 <= d_naxes d) by lia. rewrite Z2Nat.id in Hi by lia. lia.
  - apply IH. exact H.
Qed.

Theorem grid_spec_beyond_last_knot (t : @table A) (xs : list K) : some_beyond (dims t) xs -> grid_spec t xs = zero.
Proof. intro H. unfold grid_spec. apply tensor_some_beyond. exact H. Qed.

End Beyond.
