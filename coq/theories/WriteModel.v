(* WriteModel.v — executable models for property C08 (failing / interrupted writes).  No proofs in this file.

   Part A (error propagation): photospline's FITS writers (include/photospline/detail/fitsio.h: write_fits,
   write_fits_mem, write_fits_core) as the time-ordered list of cfitsio calls they make, each with the information
   whether its status is tested right after the call; run against an arbitrary failure oracle  fails : nat -> bool
   (the k-th call reports an error).  cfitsio's convention is modelled too: a call entered with a non-zero status does
   nothing and returns that status ("pending").  [run_writer] is the code after the C08 fixes, [run_writer_old] the code
   before them (scope guard whose close status is only printed; fits_create_memfile status never looked at).

   Part B (crash states): the schedule of positioned writes the writer issues on the file, the file content after the
   first k bytes of that schedule, and the exact bytes cfitsio produces for a table ([cf_bytes]: FitsModel's cards plus
   the comments and the two COMMENT cards cfitsio adds).  cfitsio's buffering policy is an ORACLE: with the header keys
   written before the image data (fix C08_2) the observed schedule is ONE front-to-back pass over the final bytes, in
   pieces that are a function of cfitsio's cache (40 buffers of 2880 bytes, direct writes >= 8640 bytes); after
   coalescing adjacent pieces it is [(0, cf_bytes t)].  The check compares exactly that with the recorded trace. *)
From Coq Require Import List NArith ZArith Bool Arith.
From PS Require Import Generated_fits FitsModel.
Import ListNotations.
Local Open Scope nat_scope.

(* ------------------------------------------------------------------------------------------------ *)
(* Part A *)
Inductive call :=
| CCreateFile      (* fits_create_file   (ffinit)  write_fits *)
| CCreateMem       (* fits_create_memfile (ffimem) write_fits_mem *)
| CCreateImg       (* fits_create_img    (ffcrim) *)
| CWriteKey        (* fits_write_key     (ffpky) *)
| CUpdateKey       (* fits_update_key    (ffuky) *)
| CWritePix        (* fits_write_pix     (ffppx) *)
| CClose.          (* fits_close_file    (ffclos) *)

Record step := { s_call : call; s_checked : bool }.
Definition chk (c : call) : step := {| s_call := c; s_checked := true |}.
Definition unchk (c : call) : step := {| s_call := c; s_checked := false |}.

Definition ndim_of (t : table) : nat := length (t_order t).

(* write_fits_core after fix C08_2: create_img; TYPE; ORDERi; PERIODi (if periods); aux keys; write_pix (coefficients);
   per dimension create_img, update_key EXTNAME, write_pix; if extents: create_img, update_key, write_pix.
   Every call is followed by  if (error != 0) throw. *)
Definition core_steps (t : table) : list step :=
  [chk CCreateImg; chk CWriteKey]
  ++ repeat (chk CWriteKey) (ndim_of t)
  ++ match t_periods t with Some _ => repeat (chk CWriteKey) (ndim_of t) | None => [] end
  ++ repeat (chk CWriteKey) (length (t_aux t))
  ++ [chk CWritePix]
  ++ concat (repeat [chk CCreateImg; chk CUpdateKey; chk CWritePix] (ndim_of t))
  ++ match t_extents t with Some _ => [chk CCreateImg; chk CUpdateKey; chk CWritePix] | None => [] end.

(* the same calls in the order of the code before fix C08_2 (coefficients right after create_img) *)
Definition core_steps_old (t : table) : list step :=
  [chk CCreateImg; chk CWritePix; chk CWriteKey]
  ++ repeat (chk CWriteKey) (ndim_of t)
  ++ match t_periods t with Some _ => repeat (chk CWriteKey) (ndim_of t) | None => [] end
  ++ repeat (chk CWriteKey) (length (t_aux t))
  ++ concat (repeat [chk CCreateImg; chk CUpdateKey; chk CWritePix] (ndim_of t))
  ++ match t_extents t with Some _ => [chk CCreateImg; chk CUpdateKey; chk CWritePix] | None => [] end.

Inductive writer := WFile | WMem.

(* fixed code: create (checked), core, explicit close whose status is thrown *)
Definition steps (w : writer) (t : table) : list step :=
  chk (match w with WFile => CCreateFile | WMem => CCreateMem end) :: core_steps t ++ [chk CClose].

(* code before the fixes: the close happens in the guard's destructor with a status variable of its own that is only
   printed; write_fits_mem never looks at the status of fits_create_memfile *)
Definition steps_old (w : writer) (t : table) : list step :=
  (match w with WFile => chk CCreateFile | WMem => unchk CCreateMem end) :: core_steps_old t ++ [unchk CClose].

Inductive outcome := Success | Failed (at_step : nat).

(* k: index of the next call; pending: a status that is non-zero and has not been tested yet (index of the call that set it).
   A call entered with a pending status does nothing.  A tested non-zero status throws: the writer reports failure
   (the scope guard then deletes the incomplete file — fix C08_5; that call has a status of its own and cannot change the
   outcome).
   Reaching the end with a pending, never tested status returns normally: the error is lost. *)
Fixpoint run_steps (fails : nat -> bool) (k : nat) (pending : option nat) (l : list step) : outcome :=
  match l with
  | [] => Success
  | s :: r =>
      let pending' := match pending with Some j => Some j | None => if fails k then Some k else None end in
      if s_checked s then
        match pending' with Some j => Failed j | None => run_steps fails (S k) None r end
      else run_steps fails (S k) pending' r
  end.

Definition run_writer (w : writer) (t : table) (fails : nat -> bool) : outcome := run_steps fails 0 None (steps w t).

(* old code: each of create / core / guard-close has its own status variable, so a pending status does not carry over:
   the unchecked create of write_fits_mem leaves `fits' uninitialised (undefined behaviour, observed: crash) — modelled
   as the error simply being lost, which is the most favourable reading; the close status is printed and dropped. *)
Fixpoint run_steps_old (fails : nat -> bool) (k : nat) (l : list step) : outcome :=
  match l with
  | [] => Success
  | s :: r => if s_checked s && fails k then Failed k else run_steps_old fails (S k) r
  end.
Definition run_writer_old (w : writer) (t : table) (fails : nat -> bool) : outcome :=
  run_steps_old fails 0 (steps_old w t).

Definition nsteps (w : writer) (t : table) : nat := length (steps w t).

(* first failing call below n, if any *)
Fixpoint first_fault (fails : nat -> bool) (k n : nat) : option nat :=
  match n with
  | O => None
  | S m => if fails k then Some k else first_fault fails (S k) m
  end.

(* ------------------------------------------------------------------------------------------------ *)
(* Part B: schedules and crash states *)
Definition write_op := (nat * list N)%type.            (* (file offset, bytes) — one positioned write *)

Definition apply_write (f : list N) (w : write_op) : list N :=
  let '(off, d) := w in
  firstn off f ++ repeat 0%N (off - length f) ++ d ++ skipn (off + length d) f.

Definition apply_sched (s : list write_op) : list N := fold_left apply_write s [].

Definition total (s : list write_op) : nat := fold_right (fun w a => length (snd w) + a) 0 s.

(* the first k bytes of the schedule: whole writes, then a partial one *)
Fixpoint take_sched (k : nat) (s : list write_op) : list write_op :=
  match s with
  | [] => []
  | (off, d) :: r => if k <=? length d then [(off, firstn k d)] else (off, d) :: take_sched (k - length d) r
  end.

(* adjacent writes merged (what the check does to the recorded trace before comparing) *)
Fixpoint coalesce (s : list write_op) : list write_op :=
  match s with
  | [] => []
  | (off, d) :: r =>
      match coalesce r with
      | (off2, d2) :: r2 => if off2 =? off + length d then (off, d ++ d2) :: r2 else (off, d) :: (off2, d2) :: r2
      | [] => [(off, d)]
      end
  end.

(* --- the bytes cfitsio writes (ffphpr / ffpky / ffuky card texts, cfitsio 4.2) --- *)
Module CfLits.
Import String.
Local Open Scope string_scope.
Definition c_simple   : str := Eval compute in lit "file does conform to FITS standard".
Definition c_bitpix   : str := Eval compute in lit "number of bits per data pixel".
Definition c_naxis    : str := Eval compute in lit "number of data axes".
Definition c_naxisn   : str := Eval compute in lit "length of data axis ".
Definition c_extend   : str := Eval compute in lit "FITS dataset may contain extensions".
Definition c_comment1 : str := Eval compute in lit "  FITS (Flexible Image Transport System) format is defined in 'Astronomy".
Definition c_comment2 : str := Eval compute in lit "  and Astrophysics', volume 376, page 359; bibcode: 2001A&A...376..359H".
Definition c_order    : str := Eval compute in lit "B-Spline Order".
Definition c_xtension : str := Eval compute in lit "IMAGE extension".
Definition c_pcount   : str := Eval compute in lit "required keyword; must = 0".
Definition c_gcount   : str := Eval compute in lit "required keyword; must = 1".
Definition s_COMMENT  : str := Eval compute in lit "COMMENT".
End CfLits.
Export CfLits.

(* ffmkky: value padded to column 30, then " / comment" *)
Definition cf_card (c : card) (comment : str) : str :=
  match comment with
  | [] => encode_card c
  | _ => pad_right 80 (pad_right 30 (card_text c) ++ [sp; slash; sp] ++ comment)
  end.

Record rawhdu := { r_cards : list str;      (* the 80-byte header records before END *)
                   r_ws : nat;              (* bytes per data word *)
                   r_data : list N }.

Definition cf_primary_cards (t : table) : list str :=
  [cf_card (Card s_SIMPLE (VTok s_T)) c_simple; cf_card (int_card s_BITPIX (-32)) c_bitpix;
   cf_card (int_card s_NAXIS (Z.of_nat (t_ndim t))) c_naxis]
  ++ map (fun ja => cf_card (int_card (keyn s_NAXIS (fst ja)) (Z.of_N (snd ja))) (c_naxisn ++ dec (fst ja)))
         (numbered 1 (List.rev (t_naxes t)))
  ++ [cf_card (Card s_EXTEND (VTok s_T)) c_extend;
      encode_card (Commentary s_COMMENT c_comment1); encode_card (Commentary s_COMMENT c_comment2);
      encode_card (str_card s_TYPE s_typeString)]
  ++ map (fun io => cf_card (int_card (keyn s_ORDER (fst io)) (Z.of_N (snd io))) c_order) (numbered 0 (t_order t))
  ++ match t_periods t with
     | None => []
     | Some ps => map (fun ip => encode_card (Card (keyn s_PERIOD (fst ip)) (VTok (match snd ip with Some p => p | None => [48; 46]%N end))))
                      (numbered 0 ps)
     end
  ++ map (fun kv => encode_card (str_card (fst kv) (snd kv))) (t_aux t).

Definition cf_vector_cards (name : str) (n : nat) : list str :=
  [cf_card (Card s_XTENSION (VStr (fits_quote s_IMAGE))) c_xtension; cf_card (int_card s_BITPIX (-64)) c_bitpix;
   cf_card (int_card s_NAXIS 1) c_naxis; cf_card (int_card (keyn s_NAXIS 1) (Z.of_nat n)) (c_naxisn ++ dec 1);
   cf_card (int_card s_PCOUNT 0) c_pcount; cf_card (int_card s_GCOUNT 1) c_gcount;
   encode_card (str_card s_EXTNAME name)].

Definition cf_raw_doc (t : table) : list rawhdu :=
  {| r_cards := cf_primary_cards t; r_ws := 4; r_data := t_coeffs t |}
  :: map (fun ik => {| r_cards := cf_vector_cards (keyn s_KNOTS (fst ik)) (length (snd ik)); r_ws := 8; r_data := snd ik |})
         (numbered 0 (t_knots t))
  ++ match t_extents t with
     | None => []
     | Some e => [{| r_cards := cf_vector_cards s_EXTENTS (length e); r_ws := 8; r_data := e |}]
     end.

Definition enc_raw (r : rawhdu) : list N :=
  pad_block sp (concat (r_cards r) ++ end_card) ++ pad_block 0%N (concat (map (be_bytes (r_ws r)) (r_data r))).

Definition cf_bytes (t : table) : list N := concat (map enc_raw (cf_raw_doc t)).

(* the write schedule (cfitsio policy oracle, see the head of this file) and the crash states *)
Definition sched_of (final : list N) : list write_op := [(0, final)].
Definition sched (t : table) : list write_op := sched_of (cf_bytes t).
Definition crash_of (final : list N) (k : nat) : list N := apply_sched (take_sched k (sched_of final)).
Definition crash (t : table) (k : nat) : list N := crash_of (cf_bytes t) k.

(* what the property compares: orders, knots, coefficients (and the array shape that gives the coefficients meaning) *)
Definition list_eqb (a b : list N) : bool := str_eqb a b.
Fixpoint lists_eqb (a b : list (list N)) : bool :=
  match a, b with
  | [], [] => true
  | x :: a', y :: b' => list_eqb x y && lists_eqb a' b'
  | _, _ => false
  end.
Definition same_okc (a b : table) : Prop :=
  t_order a = t_order b /\ t_knots a = t_knots b /\ t_coeffs a = t_coeffs b /\ t_naxes a = t_naxes b /\ t_strides a = t_strides b.
Definition same_okc_b (a b : table) : bool :=
  list_eqb (t_order a) (t_order b) && lists_eqb (t_knots a) (t_knots b) && list_eqb (t_coeffs a) (t_coeffs b) &&
  list_eqb (t_naxes a) (t_naxes b) && list_eqb (t_strides a) (t_strides b).

(* hypothesis of the crash theorem on cfitsio's bytes, evaluated (extracted) by the check on every generated table:
   the model reader accepts the complete file and recovers orders, knots and coefficients *)
Definition complete_reads_back (t : table) : bool :=
  match read_bytes (cf_bytes t) with Ok t' => same_okc_b t t' | Error _ => false end.
