(* Properties_C11.v — C11: the non-negative least-squares solvers return the constrained optimum.
   Statements only; proofs in C11_KKT_Proofs.v, C11_Proofs.v, C11_Exit_Proofs.v, C11_Pjv_Proofs.v, C11_LH_Proofs.v, C11_Term_Proofs.v.

   Vocabulary (C11_Spec.v): [spd n M] = n x n, entry-wise symmetric, v'Mv > 0 for every non-zero v;
   [kkt M b x] = x >= 0, and per component: gradient (Mx - b)_i = 0, or x_i = 0 and (Mx - b)_i >= 0;
   [kkt_tol t] = the same with (Mx - b)_i >= -t on the zero components; [qobj M b x] = x'Mx - 2 b'x.
   [block3] = NnlsModel's transcription of nnls_normal_block3 with the exit test and constants read from the
   source tree (Generated_nnls.v); [block3_gen false] / [block3_gen true] = the same code with the exit test
   `nH2 == 0` (before the repair) / `nH2 == 0 && nH1 == 0 && full_step` (after). *)
From Coq Require Import List ZArith Bool QArith Qcanon.
From PS Require Import Arith Generated_nnls NnlsModel NnlsModel2 C11_Spec C11_Spec2 C11_KKT_Proofs C11_Proofs C11_Exit_Proofs
  C11_Pjv_Proofs C11_LH_Proofs C11_Term_Proofs.
Import ListNotations.

Section AnyOrderedField.
Context {A : Arith}.
Variable OF : OField A.
Hypothesis ofZ_two : @ofZ A 2 = add one one.      (* the only fact about int->K conversion that is used *)
Notation K := (T A).

(* KKT => minimiser of 1/2 x'Mx - b'x over x >= 0 (stated for twice the objective) *)
Theorem C11_kkt_minimises : forall n (M : list (list K)) (b x : list K),
  spd n M -> length b = n -> length x = n -> kkt M b x ->
  forall x', length x' = n -> nonneg x' -> le (qobj M b x) (qobj M b x').
Proof. exact (kkt_minimises OF ofZ_two). Qed.

(* KKT => unique: "the" constrained optimum is well defined *)
Theorem C11_kkt_unique : forall n (M : list (list K)) (b x x' : list K),
  spd n M -> length b = n -> length x = n -> length x' = n -> kkt M b x -> kkt M b x' -> x = x'.
Proof. exact (kkt_unique OF ofZ_two). Qed.

(* KKT within t => objective within 2 t sum(x') of any feasible x' (in particular of the optimum) *)
Theorem C11_kkt_tol_gap : forall n (M : list (list K)) (b x x' : list K) (t : K),
  spd n M -> length b = n -> length x = n -> length x' = n -> le zero t ->
  kkt_tol t M b x -> nonneg x' ->
  le (sub (qobj M b x) (qobj M b x')) (mul (add one one) (mul t (vsum x'))).
Proof. exact (kkt_tol_gap OF ofZ_two). Qed.

(* the boolean checks used by the witnesses/examples mean what they say *)
Theorem C11_kkt_check_iff : forall (t : K) (M : list (list K)) (b x : list K),
  kkt_check t M b x = true <-> kkt_tol t M b x.
Proof. exact (kkt_check_iff OF). Qed.
Theorem C11_symb_sound : forall M : list (list K), symb M = true -> symmetric M /\ wf_mat (length M) M.
Proof. exact (symb_sound OF). Qed.

(* x >= 0 on EVERY exit of the solver (normal, max_iter, and the model's failure exits), whatever the exit
   test, the reduced solver, the tolerance and the iteration budget are: exact, no tolerance *)
Theorem C11_block3_nonneg_gen : forall repaired solve (M : list (list K)) (b : list K) tol max_iter,
  nonneg (r_x (block3_run repaired solve M b tol max_iter)).
Proof. exact (block3_run_nonneg OF). Qed.
Theorem C11_block3_nonneg : forall (M : list (list K)) (b : list K), nonneg (r_x (block3 M b)).
Proof. exact (block3_nonneg A OF). Qed.

(* normal exit => KKT within the solver's tolerance — for the solver AS IT IS IN THE SOURCE TREE.
   (Does not type-check against a tree whose exit test is still `nH2 == 0`: see the _refuted theorem.) *)
Theorem C11_block3_exit_kkt : forall (M : list (list K)) (b : list K),
  wf_mat (length b) M ->
  r_exit (block3 M b) = NormalExit ->
  kkt_tol (block3_tol (length b)) M b (r_x (block3 M b)).
Proof. exact (block3_exit_kkt_tree A OF). Qed.

(* the inner loop `while (!feasible)` terminates: the model's InnerFuel exit (fuel 2n+2 per outer pass) is unreachable.
   Every pass that does not end the loop either shrinks the free set or (at most once between two shrinks) steps to a
   break point, which leaves a coefficient at exactly 0 whose reduced solution is negative, so that the next pass
   shrinks the free set. Exact arithmetic; no symmetry or definiteness needed; only hypothesis: M is n x n. *)
Theorem C11_block3_inner_terminates : forall (M : list (list K)) (b : list K),
  wf_mat (length b) M -> r_exit (block3 M b) <> InnerFuel.
Proof. exact (block3_inner_terminates A OF). Qed.
Theorem C11_block3_inner_terminates_gen : forall (solve : list nat -> option (list K)) (M : list (list K)) (b : list K) (tol : K) rep max_iter,
  solve_ok solve M b -> wf_mat (length b) M -> r_exit (block3_run rep solve M b tol max_iter) <> InnerFuel.
Proof. exact (fun solve M b tol rep max_iter Hs HM => block3_run_inner_terminates OF solve M b tol Hs HM rep max_iter). Qed.

(* ---- the other three solvers (NnlsModel2.v) ------------------------------------------------------------------
   [pjv_block] / [pjv_updown] = transcriptions of nnls_normal_block / nnls_normal_block_updown with the exit test, the
   progress test, KKT_TOL, MAX_TRIALS read from the source tree; [kkt_tol2 tx tg] (C11_Spec2.v): per component, zero
   gradient and x_i >= -tx, or x_i = 0 and gradient >= -tg. *)

(* exit on `nH1 == 0 && nH2 == 0` => KKT within KKT_TOL (incl. x >= -KKT_TOL) — for the solvers AS THEY ARE IN THE TREE;
   only hypothesis: M is n x n *)
Theorem C11_pjv_exit_kkt_tol : forall (M : list (list K)) (b : list K),
  wf_mat (length b) M ->
  pr_exit (pjv_block M b) = NormalExit ->
  kkt_tol2 pjv_tol pjv_tol M b (pr_x (pjv_block M b)).
Proof. exact (pjv_block_exit_kkt_tree A OF). Qed.
Theorem C11_pjv_updown_exit_kkt_tol : forall (M : list (list K)) (b : list K),
  wf_mat (length b) M ->
  pr_exit (pjv_updown M b) = NormalExit ->
  kkt_tol2 pjv_tol pjv_tol M b (pr_x (pjv_updown M b)).
Proof. exact (pjv_updown_exit_kkt_tree A OF). Qed.
(* the same for any reduced solver that returns solutions, any tolerance, budget, MAX_TRIALS and either progress test *)
Theorem C11_pjv_exit_kkt_gen : forall escape max_trials (solve : list nat -> option (list K))
    (M : list (list K)) (b : list K) (tol : K) (iter_factor : nat),
  wf_mat (length b) M -> solve_ok solve M b ->
  pr_exit (pjv_run escape true max_trials solve M b tol iter_factor) = NormalExit ->
  kkt_tol2 tol tol M b (pr_x (pjv_run escape true max_trials solve M b tol iter_factor)).
Proof. exact (pjv_exit_kkt_gen A OF). Qed.
(* a non-negative vector that is KKT within (tx, tg) is KKT within tg in the sense of C11_kkt_tol_gap *)
Theorem C11_kkt_tol2_nonneg : forall (tx tg : K) (M : list (list K)) (b x : list K),
  kkt_tol2 tx tg M b x -> nonneg x -> kkt_tol tg M b x.
Proof. exact (kkt_tol2_nonneg A). Qed.

(* nnls_lawson_hanson on normal equations, all coefficients constrained ([lh_normaleq]): the three "converged" exits.
   PARTIAL. FULL statement wanted (C11_lh_exit_kkt_tol):
       lr_exit r = LhWmax -> kkt M b (lr_x r)        for spd M, without the hypothesis [lh_skipped r = false].
   The hypothesis says: the coefficient freed last is not back in the constrained set Z at a position >= 1 when the exit
   is taken. It is needed because the source's search for wmax skips that entry (`last_freed != Z[i]`), so `wmax <= 0`
   says nothing about its multiplier. That it cannot happen for positive definite systems in exact arithmetic (the
   objective decreases strictly inside the inner loop) is not proved; the check evaluates [lh_skipped] on every model run
   and the corresponding condition on every trace of the real solver (0 observed). *)
Theorem C11_lh_exit_kkt_tol_partial : forall (M : list (list K)) (b : list K) (tolerance : K) (min_iterations max_iterations : nat),
  wf_mat (length b) M ->
  let r := lh_normaleq M b tolerance min_iterations max_iterations in
  lh_skipped r = false ->
  ((lr_exit r = LhAllPassive \/ lr_exit r = LhWmax) -> kkt M b (lr_x r)) /\
  (lr_exit r = LhTol -> kkt_tol tolerance M b (lr_x r)).
Proof. exact (lh_exit_kkt_normaleq A OF). Qed.
End AnyOrderedField.

(* the PJV loops make at most 3*nvar passes (and exactly that many when they fall out silently) *)
Theorem C11_pjv_terminates : forall (A : Arith) (M : list (list (T A))) (b : list (T A)),
  ((pr_iters (pjv_block M b) <= pjv_iter_factor * length b)%nat /\
   (pr_exit (pjv_block M b) = MaxIter -> pr_iters (pjv_block M b) = (pjv_iter_factor * length b)%nat)) /\
  ((pr_iters (pjv_updown M b) <= pjv_iter_factor * length b)%nat /\
   (pr_exit (pjv_updown M b) = MaxIter -> pr_iters (pjv_updown M b) = (pjv_iter_factor * length b)%nat)).
Proof. exact (fun A M b => conj (pjv_block_iters A M b) (pjv_updown_iters A M b)). Qed.

(* termination: the outer loop makes at most max_iter passes (and exactly max_iter when it gives up);
   each pass makes at most [fuel] = 2n+2 reduced solves before the model reports InnerFuel.
   That the InnerFuel exit is unreachable is C11_block3_inner_terminates above (the name _partial is kept for the
   references to it): together, the model of nnls_normal_block3 always terminates, with at most
   max_iter * (2n+2) reduced solves. *)
Theorem C11_block3_terminates_partial : forall (A : Arith) (M : list (list (T A))) (b : list (T A)),
  (r_iters (block3 M b) <= block3_max_iter)%nat /\
  (r_exit (block3 M b) = MaxIter -> r_iters (block3 M b) = block3_max_iter).
Proof. exact block3_terminates. Qed.
Theorem C11_block3_inner_bound : forall (A : Arith) solve (M : list (list (T A))) b tol fuel x F G H1 H2 tr r,
  inner solve M b tol fuel x F G H1 H2 tr = inr r -> (solves (ir_trace r) <= solves tr + fuel)%nat.
Proof. exact (@inner_solves). Qed.

(* the exit test `nH2 == 0` (nnls_normal_block3 before the repair) does NOT imply KKT: three exit paths,
   three symmetric positive definite integer systems (W1 = B'B with B = [[1,-1,0],[0,1,1],[0,0,1]] etc.),
   each replayed on the real solver (corpus/C11/). *)
Theorem C11_block3_old_exit_kkt_refuted :
  exists (M : list (list Qc)) (b : list Qc),
    @symmetric QcA M /\ @wf_mat QcA (length b) M /\
    r_exit (@block3_gen QcA false M b) = NormalExit /\
    ~ @kkt_tol QcA (@block3_tol QcA (length b)) M b (r_x (@block3_gen QcA false M b)).
Proof. exact block3_old_exit_kkt_refuted. Qed.

(* ---- the hypotheses are satisfiable, the conclusions are not vacuous ---------------------------------- *)
Example C11_example_kkt : @kkt QcA W1_M W1_b (Qv [4; 2; 0]%Z).
Proof. exact example_kkt. Qed.
Example C11_example_normal_exit :
  r_exit (@block3_gen QcA true W1_M W1_b) = NormalExit /\ r_x (@block3_gen QcA true W1_M W1_b) = Qv [4; 2; 0]%Z /\
  @wf_mat QcA (length W1_b) W1_M.
Proof. exact example_normal_exit. Qed.
Example C11_example_three_bad_exits : bad_exit W1_M W1_b = true /\ bad_exit W2_M W2_b = true /\ bad_exit W3_M W3_b = true.
Proof. exact (conj W1_bad (conj W2_bad W3_bad)). Qed.
Example C11_example_maxiter_exit_is_unprotected :
  let r := @block3_run QcA true (@solve_checked QcA W1_M W1_b) W1_M W1_b (@block3_tol QcA 3) 1 in
  r_exit r = MaxIter /\ @kkt_check QcA (@block3_tol QcA 3) W1_M W1_b (r_x r) = false.
Proof. exact maxiter_exit_not_kkt. Qed.
(* P8: a symmetric 8 x 8 system (8 > MAX_TRIALS: the first pass is a block switch of 5 coefficients, then Murty's method):
   both PJV solver models exit normally with the exact optimum (= nnls_spec, exact KKT), free set neither empty nor full *)
Example C11_example_pjv_exit :
  pjv_example_ok (@pjv_block QcA P8_M P8_b) = true /\ pjv_example_ok (@pjv_updown QcA P8_M P8_b) = true /\
  @wf_mat QcA (length P8_b) P8_M.
Proof. exact (conj pjv_block_example (conj pjv_updown_example P8_wf)). Qed.
(* Lawson-Hanson model: exit on wmax <= 0 with the exact optimum, lh_skipped = false, on W1, P8 and on L3 where the inner
   loop binds a coefficient again (one LvBind event) *)
Example C11_example_lh_exit :
  lh_example_ok W1_M W1_b true 0 = true /\ lh_example_ok P8_M P8_b true 0 = true /\ lh_example_ok L3_M L3_b true 1 = true /\
  @wf_mat QcA (length L3_b) L3_M /\ @wf_mat QcA (length W1_b) W1_M.
Proof. exact (conj lh_example_W1 (conj lh_example_P8 (conj lh_example_L3 (conj L3_wf W1_wf)))). Qed.
Example C11_example_ofZ_two : @ofZ QcA 2 = @add QcA one one.
Proof. exact QcA_ofZ_two. Qed.

Print Assumptions C11_kkt_minimises.
Print Assumptions C11_kkt_unique.
Print Assumptions C11_kkt_tol_gap.
Print Assumptions C11_kkt_check_iff.
Print Assumptions C11_symb_sound.
Print Assumptions C11_block3_nonneg_gen.
Print Assumptions C11_block3_nonneg.
Print Assumptions C11_block3_exit_kkt.
Print Assumptions C11_block3_terminates_partial.
Print Assumptions C11_block3_inner_bound.
Print Assumptions C11_block3_old_exit_kkt_refuted.
Print Assumptions C11_pjv_exit_kkt_tol.
Print Assumptions C11_pjv_updown_exit_kkt_tol.
Print Assumptions C11_pjv_exit_kkt_gen.
Print Assumptions C11_kkt_tol2_nonneg.
Print Assumptions C11_lh_exit_kkt_tol_partial.
Print Assumptions C11_pjv_terminates.
Print Assumptions C11_block3_inner_terminates.
Print Assumptions C11_block3_inner_terminates_gen.
