(* Properties_C11.v — C11: the non-negative least-squares solvers return the constrained optimum.
   Statements only; proofs in C11_KKT_Proofs.v, C11_Proofs.v, C11_Exit_Proofs.v.

   Vocabulary (C11_Spec.v): [spd n M] = n x n, entry-wise symmetric, v'Mv > 0 for every non-zero v;
   [kkt M b x] = x >= 0, and per component: gradient (Mx - b)_i = 0, or x_i = 0 and (Mx - b)_i >= 0;
   [kkt_tol t] = the same with (Mx - b)_i >= -t on the zero components; [qobj M b x] = x'Mx - 2 b'x.
   [block3] = NnlsModel's transcription of nnls_normal_block3 with the exit test and constants read from the
   source tree (Generated_nnls.v); [block3_gen false] / [block3_gen true] = the same code with the exit test
   `nH2 == 0` (before the repair) / `nH2 == 0 && nH1 == 0 && full_step` (after). *)
From Coq Require Import List ZArith Bool QArith Qcanon.
From PS Require Import Arith Generated_nnls NnlsModel C11_Spec C11_KKT_Proofs C11_Proofs C11_Exit_Proofs.
Import ListNotations.

Section AnyOrderedField.
Context {A : Arith}.
Variable OF : OField A.
Hypothesis ofZ_two : @ofZ A 2 = add one one.      (* the only fact about int->K conversion that is used *)
Notation K := (T A).

(* KKT => minimiser of 1/2 x'Mx - b'x over x >= 0 (stated for twice the objective) *)
Theorem C11_kkt_minimises : forall n (M : list (list K)) (b x : list K),
  spd n M -> length b = n -> length x = n -> kkt M b x ->
  forall x', length x' = n -> nonneg x' -> le (qobj M b x) (qobj M b x').
Proof. exact (kkt_minimises OF ofZ_two). Qed.

(* KKT => unique: "the" constrained optimum is well defined *)
Theorem C11_kkt_unique : forall n (M : list (list K)) (b x x' : list K),
  spd n M -> length b = n -> length x = n -> length x' = n -> kkt M b x -> kkt M b x' -> x = x'.
Proof. exact (kkt_unique OF ofZ_two). Qed.

(* KKT within t => objective within 2 t sum(x') of any feasible x' (in particular of the optimum) *)
Theorem C11_kkt_tol_gap : forall n (M : list (list K)) (b x x' : list K) (t : K),
  spd n M -> length b = n -> length x = n -> length x' = n -> le zero t ->
  kkt_tol t M b x -> nonneg x' ->
  le (sub (qobj M b x) (qobj M b x')) (mul (add one one) (mul t (vsum x'))).
Proof. exact (kkt_tol_gap OF ofZ_two). Qed.

(* the boolean checks used by the witnesses/examples mean what they say *)
Theorem C11_kkt_check_iff : forall (t : K) (M : list (list K)) (b x : list K),
  kkt_check t M b x = true <-> kkt_tol t M b x.
Proof. exact (kkt_check_iff OF). Qed.
Theorem C11_symb_sound : forall M : list (list K), symb M = true -> symmetric M /\ wf_mat (length M) M.
Proof. exact (symb_sound OF). Qed.

(* x >= 0 on EVERY exit of the solver (normal, max_iter, and the model's failure exits), whatever the exit
   test, the reduced solver, the tolerance and the iteration budget are: exact, no tolerance *)
Theorem C11_block3_nonneg_gen : forall repaired solve (M : list (list K)) (b : list K) tol max_iter,
  nonneg (r_x (block3_run repaired solve M b tol max_iter)).
Proof. exact (block3_run_nonneg OF). Qed.
Theorem C11_block3_nonneg : forall (M : list (list K)) (b : list K), nonneg (r_x (block3 M b)).
Proof. exact (block3_nonneg A OF). Qed.

(* normal exit => KKT within the solver's tolerance — for the solver AS IT IS IN THE SOURCE TREE.
   (Does not type-check against a tree whose exit test is still `nH2 == 0`: see the _refuted theorem.) *)
Theorem C11_block3_exit_kkt : forall (M : list (list K)) (b : list K),
  wf_mat (length b) M ->
  r_exit (block3 M b) = NormalExit ->
  kkt_tol (block3_tol (length b)) M b (r_x (block3 M b)).
Proof. exact (block3_exit_kkt_tree A OF). Qed.
End AnyOrderedField.

(* termination: the outer loop makes at most max_iter passes (and exactly max_iter when it gives up);
   each pass makes at most [fuel] = 2n+2 reduced solves before the model reports InnerFuel.
   PARTIAL: that the InnerFuel exit is unreachable (every repeated pass of `while (!feasible)` either binds a
   coefficient — neg_set_nonempty — or strictly reduces the residual) is not proved; the check counts such
   exits of the model on every generated case (0 observed).
   FULL statement wanted:  r_exit (block3 M b) <> InnerFuel  for spd M. *)
Theorem C11_block3_terminates_partial : forall (A : Arith) (M : list (list (T A))) (b : list (T A)),
  (r_iters (block3 M b) <= block3_max_iter)%nat /\
  (r_exit (block3 M b) = MaxIter -> r_iters (block3 M b) = block3_max_iter).
Proof. exact block3_terminates. Qed.
Theorem C11_block3_inner_bound : forall (A : Arith) solve (M : list (list (T A))) b tol fuel x F G H1 H2 tr r,
  inner solve M b tol fuel x F G H1 H2 tr = inr r -> (solves (ir_trace r) <= solves tr + fuel)%nat.
Proof. exact (@inner_solves). Qed.

(* the exit test `nH2 == 0` (nnls_normal_block3 before the repair) does NOT imply KKT: three exit paths,
   three symmetric positive definite integer systems (W1 = B'B with B = [[1,-1,0],[0,1,1],[0,0,1]] etc.),
   each replayed on the real solver (corpus/C11/). *)
Theorem C11_block3_old_exit_kkt_refuted :
  exists (M : list (list Qc)) (b : list Qc),
    @symmetric QcA M /\ @wf_mat QcA (length b) M /\
    r_exit (@block3_gen QcA false M b) = NormalExit /\
    ~ @kkt_tol QcA (@block3_tol QcA (length b)) M b (r_x (@block3_gen QcA false M b)).
Proof. exact block3_old_exit_kkt_refuted. Qed.

(* ---- the hypotheses are satisfiable, the conclusions are not vacuous ---------------------------------- *)
Example C11_example_kkt : @kkt QcA W1_M W1_b (Qv [4; 2; 0]%Z).
Proof. exact example_kkt. Qed.
Example C11_example_normal_exit :
  r_exit (@block3_gen QcA true W1_M W1_b) = NormalExit /\ r_x (@block3_gen QcA true W1_M W1_b) = Qv [4; 2; 0]%Z /\
  @wf_mat QcA (length W1_b) W1_M.
Proof. exact example_normal_exit. Qed.
Example C11_example_three_bad_exits : bad_exit W1_M W1_b = true /\ bad_exit W2_M W2_b = true /\ bad_exit W3_M W3_b = true.
Proof. exact (conj W1_bad (conj W2_bad W3_bad)). Qed.
Example C11_example_maxiter_exit_is_unprotected :
  let r := @block3_run QcA true (@solve_checked QcA W1_M W1_b) W1_M W1_b (@block3_tol QcA 3) 1 in
  r_exit r = MaxIter /\ @kkt_check QcA (@block3_tol QcA 3) W1_M W1_b (r_x r) = false.
Proof. exact maxiter_exit_not_kkt. Qed.
Example C11_example_ofZ_two : @ofZ QcA 2 = @add QcA one one.
Proof. exact QcA_ofZ_two. Qed.

Print Assumptions C11_kkt_minimises.
Print Assumptions C11_kkt_unique.
Print Assumptions C11_kkt_tol_gap.
Print Assumptions C11_kkt_check_iff.
Print Assumptions C11_symb_sound.
Print Assumptions C11_block3_nonneg_gen.
Print Assumptions C11_block3_nonneg.
Print Assumptions C11_block3_exit_kkt.
Print Assumptions C11_block3_terminates_partial.
Print Assumptions C11_block3_inner_bound.
Print Assumptions C11_block3_old_exit_kkt_refuted.
