(* C02_Real.v — Part 2 of C02_Analytic: over the real numbers, the derivative formula is the analytic derivative
   (Coquelicot's [is_derive]) of the Cox–de Boor function at every point strictly inside a knot interval.
   This file (and only this file) depends on the standard library's axioms for the real numbers. *)
From Coq Require Import ZArith List Bool Lia Reals Lra Field.
From Coquelicot Require Import Coquelicot.
From PS Require Import Arith EvalModel BSpline OFieldKit C01_Basis C02_Basis C02_Analytic.
Import ListNotations.
Local Open Scope R_scope.

Definition R_ltb (a b : R) : bool := if Rlt_dec a b then true else false.
Definition R_leb (a b : R) : bool := if Rle_dec a b then true else false.
Definition RA : Arith := {|
  T := R; add := Rplus; sub := Rminus; mul := Rmult; div := Rdiv; opp := Ropp;
  zero := 0; one := 1; ofZ := IZR; ltb := R_ltb; leb := R_leb; rnd := fun x => x |}.

Lemma R_leb_le a b : R_leb a b = true <-> a <= b.
Proof. unfold R_leb. destruct (Rle_dec a b); split; intros; try assumption; try reflexivity; try discriminate; contradiction. Qed.
Lemma R_ltb_lt a b : R_ltb a b = true <-> a < b.
Proof. unfold R_ltb. destruct (Rlt_dec a b); split; intros; try assumption; try reflexivity; try discriminate; contradiction. Qed.

Lemma RA_OField : OField RA.
Proof.
  constructor; cbn [T add sub mul div opp zero one ltb leb rnd RA].
  - constructor.
    + exact RTheory.
    + exact R1_neq_R0.
    + intros p q. unfold inv; cbn. unfold Rdiv. ring.
    + intros p Hp. unfold inv; cbn. unfold Rdiv. rewrite Rmult_1_l. apply Rinv_l. exact Hp.
  - reflexivity.
  - intro a. apply R_leb_le. lra.
  - intros a b c. rewrite !R_leb_le. lra.
  - intros a b. rewrite !R_leb_le. lra.
  - intros a b. rewrite !R_leb_le. lra.
  - intros a b. destruct (R_ltb a b) eqn:E1; destruct (R_leb b a) eqn:E2; cbn; auto.
    + apply R_ltb_lt in E1. apply R_leb_le in E2. lra.
    + assert (~ a < b) by (rewrite <- R_ltb_lt; congruence).
      assert (~ b <= a) by (rewrite <- R_leb_le; congruence). lra.
  - intros a b c. rewrite !R_leb_le. lra.
  - intros a b. rewrite !R_leb_le. intros. apply Rmult_le_pos; assumption.
Qed.

Section Real.
Variable kn : Z -> R.
Variable nknots : Z.
Hypothesis Hstrict : forall i j, (0 <= i)%Z -> (i < j)%Z -> (j < nknots)%Z -> kn i < kn j.
Variable l : Z.

Lemma affine1 a d x : is_derive (fun x : R => (x - a) / d) x (1 / d).
Proof. auto_derive; [exact I|]. unfold Rdiv. ring. Qed.
Lemma affine2 b d x : is_derive (fun x : R => (b - x) / d) x (- (1 / d)).
Proof. auto_derive; [exact I|]. unfold Rdiv. ring. Qed.

(* the polynomial piece and its derivative (C02_Analytic.Bp / Dp at the real instance) *)
Notation BpR := (@Bp RA kn l).
Notation DpR := (@Dp RA kn l).

Theorem Dp_is_derivative : forall n i x, is_derive (fun x : R => BpR n i x) x (DpR n i x).
Proof.
  induction n as [|n IH]; intros i x.
  - cbn [Bp Dp]. apply (is_derive_const (K := R_AbsRing) (V := R_NormedModule)).
  - change (BpR (S n) i) with
      (fun x : R => (x - kn i) / (kn (i + Z.of_nat (S n)) - kn i) * BpR n i x +
                    (kn (i + Z.of_nat (S n) + 1) - x) / (kn (i + Z.of_nat (S n) + 1) - kn (i + 1)) * BpR n (i + 1) x).
    change (DpR (S n) i x) with
      ((BpR n i x / (kn (i + Z.of_nat (S n)) - kn i) + (x - kn i) / (kn (i + Z.of_nat (S n)) - kn i) * DpR n i x) +
       (- (BpR n (i + 1) x / (kn (i + Z.of_nat (S n) + 1) - kn (i + 1))) +
        (kn (i + Z.of_nat (S n) + 1) - x) / (kn (i + Z.of_nat (S n) + 1) - kn (i + 1)) * DpR n (i + 1) x)).
    set (d1 := kn (i + Z.of_nat (S n)) - kn i). set (d2 := kn (i + Z.of_nat (S n) + 1) - kn (i + 1)).
    apply (is_derive_plus (K := R_AbsRing) (V := R_NormedModule)
             (fun x : R => (x - kn i) / d1 * BpR n i x) (fun x : R => (kn (i + Z.of_nat (S n) + 1) - x) / d2 * BpR n (i + 1) x)).
    + replace (BpR n i x / d1 + (x - kn i) / d1 * DpR n i x) with (1 / d1 * BpR n i x + (x - kn i) / d1 * DpR n i x) by (unfold Rdiv; ring).
      apply (is_derive_mult (fun x : R => (x - kn i) / d1) (fun x : R => BpR n i x) x (1 / d1) (DpR n i x)); [apply affine1|apply IH|exact Rmult_comm].
    + replace (- (BpR n (i + 1) x / d2) + (kn (i + Z.of_nat (S n) + 1) - x) / d2 * DpR n (i + 1) x)
        with (- (1 / d2) * BpR n (i + 1) x + (kn (i + Z.of_nat (S n) + 1) - x) / d2 * DpR n (i + 1) x) by (unfold Rdiv; ring).
      apply (is_derive_mult (fun x : R => (kn (i + Z.of_nat (S n) + 1) - x) / d2) (fun x : R => BpR n (i + 1) x) x (- (1 / d2)) (DpR n (i + 1) x)); [apply affine2|apply IH|exact Rmult_comm].
Qed.

(* at a point strictly inside the knot interval l, the Cox–de Boor function coincides with its piece in a neighbourhood *)
Hypothesis Hl0 : (0 <= l)%Z.
Hypothesis Hl1 : (l + 1 < nknots)%Z.

Lemma strictA : forall i j, (0 <= i)%Z -> (i < j)%Z -> (j < nknots)%Z -> @OFieldKit.lt RA (kn i) (kn j).
Proof. intros i j H1 H2 H3. apply R_ltb_lt. apply Hstrict; assumption. Qed.

Theorem dB_is_the_derivative : forall n i x0, (0 <= i)%Z -> (i + Z.of_nat n + 1 < nknots)%Z ->
  kn l < x0 < kn (l + 1) ->
  is_derive (fun x : R => @Bfun RA kn true n i x) x0 (@dBfun RA kn true 1 n i x0).
Proof.
  intros n i x0 Hi0 Hi1 [Hx1 Hx2].
  assert (Hp0 : @in_piece RA kn true l x0).
  { cbn [in_piece]. split; [apply R_leb_le; lra|apply R_ltb_lt; exact Hx2]. }
  rewrite (dB1_is_piece_derivative RA_OField eq_refl (fun z _ => plus_IZR z 1) kn nknots strictA l Hl0 Hl1 true x0 Hp0 n i Hi0 Hi1).
  apply (is_derive_ext_loc (fun x : R => BpR n i x)).
  - (* locally equal *)
    assert (He : 0 < Rmin (x0 - kn l) (kn (l + 1) - x0)) by (apply Rmin_pos; lra).
    exists (mkposreal _ He). intros y Hy. cbn [pos] in Hy.
    unfold ball in Hy; cbn in Hy. unfold AbsRing_ball, abs, minus, plus, opp in Hy; cbn in Hy.
    assert (Hy' : Rabs (y - x0) < Rmin (x0 - kn l) (kn (l + 1) - x0)) by exact Hy.
    pose proof (Rmin_l (x0 - kn l) (kn (l + 1) - x0)). pose proof (Rmin_r (x0 - kn l) (kn (l + 1) - x0)).
    apply Rabs_def2 in Hy'. destruct Hy' as [Hy1 Hy2].
    symmetry. apply (Bfun_is_piece RA_OField kn nknots strictA l Hl0 Hl1 true y); try assumption.
    cbn [in_piece]. split; [apply R_leb_le; lra|apply R_ltb_lt; lra].
  - apply Dp_is_derivative.
Qed.

End Real.
