(* C02_Real.v — Part 2 of C02_Analytic: over the real numbers, the derivative formula is the analytic derivative
   (Coquelicot's [is_derive]) of the Cox–de Boor function at every point strictly inside a knot interval.
   This file (and only this file) depends on the standard library's axioms for the real numbers. *)
From Coq Require Import ZArith List Bool Lia Reals Lra Field.
From Coquelicot Require Import Coquelicot.
From PS Require Import Arith EvalModel BSpline OFieldKit C01_Basis C02_Basis C02_Analytic C02_AnalyticRep.
Import ListNotations.
Local Open Scope R_scope.

Definition R_ltb (a b : R) : bool := if Rlt_dec a b then true else false.
Definition R_leb (a b : R) : bool := if Rle_dec a b then true else false.
Definition RA : Arith := {|
  T := R; add := Rplus; sub := Rminus; mul := Rmult; div := Rdiv; opp := Ropp;
  zero := 0; one := 1; ofZ := IZR; ltb := R_ltb; leb := R_leb; rnd := fun x => x |}.

Lemma R_leb_le a b : R_leb a b = true <-> a <= b.
Proof. unfold R_leb. destruct (Rle_dec a b); split; intros; try assumption; try reflexivity; try discriminate; contradiction. Qed.
Lemma R_ltb_lt a b : R_ltb a b = true <-> a < b.
Proof. unfold R_ltb. destruct (Rlt_dec a b); split; intros; try assumption; try reflexivity; try discriminate; contradiction. Qed.

Lemma RA_OField : OField RA.
Proof.
  constructor; cbn [T add sub mul div opp zero one ltb leb rnd RA].
  - constructor.
    + exact RTheory.
    + exact R1_neq_R0.
    + intros p q. unfold inv; cbn. unfold Rdiv. ring.
    + intros p Hp. unfold inv; cbn. unfold Rdiv. rewrite Rmult_1_l. apply Rinv_l. exact Hp.
  - reflexivity.
  - intro a. apply R_leb_le. lra.
  - intros a b c. rewrite !R_leb_le. lra.
  - intros a b. rewrite !R_leb_le. lra.
  - intros a b. rewrite !R_leb_le. lra.
  - intros a b. destruct (R_ltb a b) eqn:E1; destruct (R_leb b a) eqn:E2; cbn; auto.
    + apply R_ltb_lt in E1. apply R_leb_le in E2. lra.
    + assert (~ a < b) by (rewrite <- R_ltb_lt; congruence).
      assert (~ b <= a) by (rewrite <- R_leb_le; congruence). lra.
  - intros a b c. rewrite !R_leb_le. lra.
  - intros a b. rewrite !R_leb_le. intros. apply Rmult_le_pos; assumption.
Qed.

Section Real.
Variable kn : Z -> R.
Variable nknots : Z.
Hypothesis Hstrict : forall i j, (0 <= i)%Z -> (i < j)%Z -> (j < nknots)%Z -> kn i < kn j.
Variable l : Z.

Lemma affine1 a d x : is_derive (fun x : R => (x - a) / d) x (1 / d).
Proof. auto_derive; [exact I|]. unfold Rdiv. ring. Qed.
Lemma affine2 b d x : is_derive (fun x : R => (b - x) / d) x (- (1 / d)).
Proof. auto_derive; [exact I|]. unfold Rdiv. ring. Qed.

(* the polynomial piece and its derivative (C02_Analytic.Bp / Dp at the real instance) *)
Notation BpR := (@Bp RA kn l).
Notation DpR := (@Dp RA kn l).

Theorem Dp_is_derivative : forall n i x, is_derive (fun x : R => BpR n i x) x (DpR n i x).
Proof.
  induction n as [|n IH]; intros i x.
  - cbn [Bp Dp]. apply (is_derive_const (K := R_AbsRing) (V := R_NormedModule)).
  - change (BpR (S n) i) with
      (fun x : R => (x - kn i) / (kn (i + Z.of_nat (S n)) - kn i) * BpR n i x +
                    (kn (i + Z.of_nat (S n) + 1) - x) / (kn (i + Z.of_nat (S n) + 1) - kn (i + 1)) * BpR n (i + 1) x).
    change (DpR (S n) i x) with
      ((BpR n i x / (kn (i + Z.of_nat (S n)) - kn i) + (x - kn i) / (kn (i + Z.of_nat (S n)) - kn i) * DpR n i x) +
       (- (BpR n (i + 1) x / (kn (i + Z.of_nat (S n) + 1) - kn (i + 1))) +
        (kn (i + Z.of_nat (S n) + 1) - x) / (kn (i + Z.of_nat (S n) + 1) - kn (i + 1)) * DpR n (i + 1) x)).
    set (d1 := kn (i + Z.of_nat (S n)) - kn i). set (d2 := kn (i + Z.of_nat (S n) + 1) - kn (i + 1)).
    apply (is_derive_plus (K := R_AbsRing) (V := R_NormedModule)
             (fun x : R => (x - kn i) / d1 * BpR n i x) (fun x : R => (kn (i + Z.of_nat (S n) + 1) - x) / d2 * BpR n (i + 1) x)).
    + replace (BpR n i x / d1 + (x - kn i) / d1 * DpR n i x) with (1 / d1 * BpR n i x + (x - kn i) / d1 * DpR n i x) by (unfold Rdiv; ring).
      apply (is_derive_mult (fun x : R => (x - kn i) / d1) (fun x : R => BpR n i x) x (1 / d1) (DpR n i x)); [apply affine1|apply IH|exact Rmult_comm].
    + replace (- (BpR n (i + 1) x / d2) + (kn (i + Z.of_nat (S n) + 1) - x) / d2 * DpR n (i + 1) x)
        with (- (1 / d2) * BpR n (i + 1) x + (kn (i + Z.of_nat (S n) + 1) - x) / d2 * DpR n (i + 1) x) by (unfold Rdiv; ring).
      apply (is_derive_mult (fun x : R => (kn (i + Z.of_nat (S n) + 1) - x) / d2) (fun x : R => BpR n (i + 1) x) x (- (1 / d2)) (DpR n (i + 1) x)); [apply affine2|apply IH|exact Rmult_comm].
Qed.

(* at a point strictly inside the knot interval l, the Cox–de Boor function coincides with its piece in a neighbourhood *)
Hypothesis Hl0 : (0 <= l)%Z.
Hypothesis Hl1 : (l + 1 < nknots)%Z.

Lemma strictA : forall i j, (0 <= i)%Z -> (i < j)%Z -> (j < nknots)%Z -> @OFieldKit.lt RA (kn i) (kn j).
Proof. intros i j H1 H2 H3. apply R_ltb_lt. apply Hstrict; assumption. Qed.

Theorem dB_is_the_derivative : forall n i x0, (0 <= i)%Z -> (i + Z.of_nat n + 1 < nknots)%Z ->
  kn l < x0 < kn (l + 1) ->
  is_derive (fun x : R => @Bfun RA kn true n i x) x0 (@dBfun RA kn true 1 n i x0).
Proof.
  intros n i x0 Hi0 Hi1 [Hx1 Hx2].
  assert (Hp0 : @in_piece RA kn true l x0).
  { cbn [in_piece]. split; [apply R_leb_le; lra|apply R_ltb_lt; exact Hx2]. }
  rewrite (dB1_is_piece_derivative RA_OField eq_refl (fun z _ => plus_IZR z 1) kn nknots strictA l Hl0 Hl1 true x0 Hp0 n i Hi0 Hi1).
  apply (is_derive_ext_loc (fun x : R => BpR n i x)).
  - (* locally equal *)
    assert (He : 0 < Rmin (x0 - kn l) (kn (l + 1) - x0)) by (apply Rmin_pos; lra).
    exists (mkposreal _ He). intros y Hy. cbn [pos] in Hy.
    unfold ball in Hy; cbn in Hy. unfold AbsRing_ball, abs, minus, plus, opp in Hy; cbn in Hy.
    assert (Hy' : Rabs (y - x0) < Rmin (x0 - kn l) (kn (l + 1) - x0)) by exact Hy.
    pose proof (Rmin_l (x0 - kn l) (kn (l + 1) - x0)). pose proof (Rmin_r (x0 - kn l) (kn (l + 1) - x0)).
    apply Rabs_def2 in Hy'. destruct Hy' as [Hy1 Hy2].
    symmetry. apply (Bfun_is_piece RA_OField kn nknots strictA l Hl0 Hl1 true y); try assumption.
    cbn [in_piece]. split; [apply R_leb_le; lra|apply R_ltb_lt; lra].
  - apply Dp_is_derivative.
Qed.

End Real.

(* ---------------------------------------------------------------------------------------------- *)
(* The same for NON-DECREASING knots (repeated knots allowed), with the dropped-term convention of BSpline.wdiv. *)
Section RealRep.
Variable kn : Z -> R.
Variable nknots : Z.
Hypothesis Hmono : forall i j, (0 <= i)%Z -> (i <= j)%Z -> (j < nknots)%Z -> kn i <= kn j.
Variable l : Z.

Notation wd := (@wdiv RA).
Notation BqR := (@Bq RA kn l).
Notation DqR := (@Dq RA kn l).

(* d/dx [ w(x) P(x) ] for the weight w(x) = (x - a)/d, or identically 0 when d = 0 *)
Lemma wterm1 a d (P : R -> R) P' x : is_derive P x P' ->
  is_derive (fun x : R => wd (x - a) d * P x) x (wd (P x) d + wd (x - a) d * P').
Proof.
  intros HP. destruct (Req_dec d 0) as [E|E].
  - apply (is_derive_ext (fun _ : R => 0)).
    + intro t. rewrite (wdiv_z RA_OField (t - a) d E). cbn. ring.
    + rewrite (wdiv_z RA_OField (P x) d E), (wdiv_z RA_OField (x - a) d E). cbn.
      replace (0 + 0 * P') with 0 by ring. apply (is_derive_const (K := R_AbsRing) (V := R_NormedModule)).
  - apply (is_derive_ext (fun t : R => (t - a) / d * P t)).
    + intro t. rewrite (wdiv_nz RA_OField (t - a) d E). reflexivity.
    + rewrite (wdiv_nz RA_OField (P x) d E), (wdiv_nz RA_OField (x - a) d E). cbn.
      replace (P x / d + (x - a) / d * P') with (1 / d * P x + (x - a) / d * P') by (unfold Rdiv; ring).
      apply (is_derive_mult (fun x : R => (x - a) / d) P x (1 / d) P'); [apply affine1|exact HP|exact Rmult_comm].
Qed.
Lemma wterm2 b d (P : R -> R) P' x : is_derive P x P' ->
  is_derive (fun x : R => wd (b - x) d * P x) x (- wd (P x) d + wd (b - x) d * P').
Proof.
  intros HP. destruct (Req_dec d 0) as [E|E].
  - apply (is_derive_ext (fun _ : R => 0)).
    + intro t. rewrite (wdiv_z RA_OField (b - t) d E). cbn. ring.
    + rewrite (wdiv_z RA_OField (P x) d E), (wdiv_z RA_OField (b - x) d E). cbn.
      replace (- 0 + 0 * P') with 0 by ring. apply (is_derive_const (K := R_AbsRing) (V := R_NormedModule)).
  - apply (is_derive_ext (fun t : R => (b - t) / d * P t)).
    + intro t. rewrite (wdiv_nz RA_OField (b - t) d E). reflexivity.
    + rewrite (wdiv_nz RA_OField (P x) d E), (wdiv_nz RA_OField (b - x) d E). cbn.
      replace (- (P x / d) + (b - x) / d * P') with (- (1 / d) * P x + (b - x) / d * P') by (unfold Rdiv; ring).
      apply (is_derive_mult (fun x : R => (b - x) / d) P x (- (1 / d)) P'); [apply affine2|exact HP|exact Rmult_comm].
Qed.

Theorem Dq_is_derivative : forall n i x, is_derive (fun x : R => BqR n i x) x (DqR n i x).
Proof.
  induction n as [|n IH]; intros i x.
  - cbn [Bq Dq]. apply (is_derive_const (K := R_AbsRing) (V := R_NormedModule)).
  - change (BqR (S n) i) with
      (fun x : R => wd (x - kn i) (kn (i + Z.of_nat (S n)) - kn i) * BqR n i x +
                    wd (kn (i + Z.of_nat (S n) + 1) - x) (kn (i + Z.of_nat (S n) + 1) - kn (i + 1)) * BqR n (i + 1) x).
    change (DqR (S n) i x) with
      ((wd (BqR n i x) (kn (i + Z.of_nat (S n)) - kn i) + wd (x - kn i) (kn (i + Z.of_nat (S n)) - kn i) * DqR n i x) +
       (- wd (BqR n (i + 1) x) (kn (i + Z.of_nat (S n) + 1) - kn (i + 1)) +
        wd (kn (i + Z.of_nat (S n) + 1) - x) (kn (i + Z.of_nat (S n) + 1) - kn (i + 1)) * DqR n (i + 1) x)).
    apply (is_derive_plus (K := R_AbsRing) (V := R_NormedModule)
             (fun x : R => wd (x - kn i) (kn (i + Z.of_nat (S n)) - kn i) * BqR n i x)
             (fun x : R => wd (kn (i + Z.of_nat (S n) + 1) - x) (kn (i + Z.of_nat (S n) + 1) - kn (i + 1)) * BqR n (i + 1) x)).
    + apply (wterm1 (kn i) _ (fun x : R => BqR n i x) (DqR n i x) x). apply IH.
    + apply (wterm2 (kn (i + Z.of_nat (S n) + 1)) _ (fun x : R => BqR n (i + 1) x) (DqR n (i + 1) x) x). apply IH.
Qed.

Hypothesis Hl0 : (0 <= l)%Z.
Hypothesis Hl1 : (l + 1 < nknots)%Z.

Lemma monoA : forall i j, (0 <= i)%Z -> (i <= j)%Z -> (j < nknots)%Z -> @OFieldKit.le RA (kn i) (kn j).
Proof. intros i j H1 H2 H3. apply R_leb_le. apply Hmono; assumption. Qed.

(* at a point strictly inside a knot interval (which then has positive width), for non-decreasing knots *)
Theorem dB_is_the_derivative_rep : forall n i x0, (0 <= i)%Z -> (i + Z.of_nat n + 1 < nknots)%Z ->
  kn l < x0 < kn (l + 1) ->
  is_derive (fun x : R => @Bfun RA kn true n i x) x0 (@dBfun RA kn true 1 n i x0).
Proof.
  intros n i x0 Hi0 Hi1 [Hx1 Hx2].
  assert (Hpos : @OFieldKit.lt RA (kn l) (kn (l + 1))) by (apply R_ltb_lt; lra).
  assert (Hp0 : @in_piece RA kn true l x0).
  { cbn [in_piece]. split; [apply R_leb_le; lra|apply R_ltb_lt; exact Hx2]. }
  rewrite (dB1_is_Dq RA_OField eq_refl (fun z _ => plus_IZR z 1) kn nknots monoA l Hl0 Hl1 Hpos true x0 Hp0 n i Hi0 Hi1).
  apply (is_derive_ext_loc (fun x : R => BqR n i x)).
  - assert (He : 0 < Rmin (x0 - kn l) (kn (l + 1) - x0)) by (apply Rmin_pos; lra).
    exists (mkposreal _ He). intros y Hy. cbn [pos] in Hy.
    unfold ball in Hy; cbn in Hy. unfold AbsRing_ball, abs, minus, plus, opp in Hy; cbn in Hy.
    assert (Hy' : Rabs (y - x0) < Rmin (x0 - kn l) (kn (l + 1) - x0)) by exact Hy.
    pose proof (Rmin_l (x0 - kn l) (kn (l + 1) - x0)). pose proof (Rmin_r (x0 - kn l) (kn (l + 1) - x0)).
    apply Rabs_def2 in Hy'. destruct Hy' as [Hy1 Hy2].
    symmetry. apply (Bfun_is_Bq RA_OField kn nknots monoA l Hl0 Hl1 true y); try assumption.
    cbn [in_piece]. split; [apply R_leb_le; lra|apply R_ltb_lt; lra].
  - apply Dq_is_derivative.
Qed.

(* every further order: the (k+1)-st formula is the derivative of the k-th (the formula is a fixed linear combination
   of lower-order formulas, u |-> wdiv u d is linear) — so dBfun k is the k-th derivative of the Cox–de Boor function *)
Lemma wlin d (P : R -> R) P' x : is_derive P x P' -> is_derive (fun x : R => wd (P x) d) x (wd P' d).
Proof.
  intros HP. destruct (Req_dec d 0) as [E|E].
  - apply (is_derive_ext (fun _ : R => 0)); [intro t; rewrite (wdiv_z RA_OField (P t) d E); reflexivity|].
    rewrite (wdiv_z RA_OField P' d E). apply (is_derive_const (K := R_AbsRing) (V := R_NormedModule)).
  - apply (is_derive_ext (fun t : R => / d * P t)); [intro t; rewrite (wdiv_nz RA_OField (P t) d E); cbn; unfold Rdiv; ring|].
    rewrite (wdiv_nz RA_OField P' d E). cbn. replace (P' / d) with (/ d * P') by (unfold Rdiv; ring).
    apply (is_derive_scal P x (/ d) P'). exact HP.
Qed.

Theorem dBk_is_the_derivative : forall k n i x0, (0 <= i)%Z -> (i + Z.of_nat n + 1 < nknots)%Z ->
  kn l < x0 < kn (l + 1) ->
  is_derive (fun x : R => @dBfun RA kn true k n i x) x0 (@dBfun RA kn true (S k) n i x0).
Proof.
  induction k as [|k IH]; intros n i x0 Hi0 Hi1 Hx.
  - apply dB_is_the_derivative_rep; assumption.
  - destruct n as [|n].
    + cbn [dBfun]. apply (is_derive_const (K := R_AbsRing) (V := R_NormedModule)).
    + change (fun x : R => @dBfun RA kn true (S k) (S n) i x) with
        (fun x : R => IZR (Z.of_nat (S n)) *
           (wd (@dBfun RA kn true k n i x) (kn (i + Z.of_nat (S n)) - kn i) -
            wd (@dBfun RA kn true k n (i + 1) x) (kn (i + Z.of_nat (S n) + 1) - kn (i + 1)))).
      change (@dBfun RA kn true (S (S k)) (S n) i x0) with
        (IZR (Z.of_nat (S n)) *
           (wd (@dBfun RA kn true (S k) n i x0) (kn (i + Z.of_nat (S n)) - kn i) -
            wd (@dBfun RA kn true (S k) n (i + 1) x0) (kn (i + Z.of_nat (S n) + 1) - kn (i + 1)))).
      apply (is_derive_scal (fun x : R => wd (@dBfun RA kn true k n i x) (kn (i + Z.of_nat (S n)) - kn i) -
                                           wd (@dBfun RA kn true k n (i + 1) x) (kn (i + Z.of_nat (S n) + 1) - kn (i + 1)))).
      apply (is_derive_minus (K := R_AbsRing) (V := R_NormedModule)
               (fun x : R => wd (@dBfun RA kn true k n i x) (kn (i + Z.of_nat (S n)) - kn i))
               (fun x : R => wd (@dBfun RA kn true k n (i + 1) x) (kn (i + Z.of_nat (S n) + 1) - kn (i + 1)))).
      * apply (wlin _ (fun x : R => @dBfun RA kn true k n i x)). apply IH; try assumption; lia.
      * apply (wlin _ (fun x : R => @dBfun RA kn true k n (i + 1) x)). apply IH; try assumption; lia.
Qed.

End RealRep.
