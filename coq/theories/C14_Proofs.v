(* C14_Proofs.v — lemmas and proof scripts for C14 (convolution). *)
From Coq Require Import ZArith QArith Qcanon List Bool Lia Permutation Arith.PeanoNat.
From PS Require Import Arith EvalModel ConvModel.
Import ListNotations.
Local Open Scope nat_scope.

(* ============================================================================================== *)
(** * list helpers *)
Lemma replace_nth_length {X} n (l : list X) v : length (replace_nth n l v) = length l.
Proof. revert n; induction l as [|a l IH]; intros [|n]; simpl; auto. Qed.

Lemma replace_nth_same {X} n (l : list X) v d : n < length l -> nth n (replace_nth n l v) d = v.
Proof. revert n; induction l as [|a l IH]; intros [|n] H; simpl in *; try lia; auto. apply IH; lia. Qed.

Lemma replace_nth_other {X} n e (l : list X) v d : e <> n -> nth e (replace_nth n l v) d = nth e l d.
Proof. revert n e; induction l as [|a l IH]; intros [|n] [|e] H; simpl; auto; try lia. Qed.

Lemma replace_nth_map {X Y} (f : X -> Y) n (l : list X) v : map f (replace_nth n l v) = replace_nth n (map f l) (f v).
Proof. revert n; induction l as [|a l IH]; intros [|n]; simpl; auto. now rewrite IH. Qed.

Lemma replace_nth_split {X} n (l : list X) v : n < length l -> replace_nth n l v = firstn n l ++ v :: skipn (S n) l.
Proof. revert n; induction l as [|a l IH]; intros [|n] H; simpl in *; try lia; auto. rewrite IH by lia. reflexivity. Qed.

Lemma prodn_app a b : prodn (a ++ b) = prodn a * prodn b.
Proof. induction a as [|x a IH]; simpl; [lia|]. unfold prodn in *. simpl. rewrite IH. lia. Qed.

Lemma prodn_cons v l : prodn (v :: l) = v * prodn l.
Proof. reflexivity. Qed.

Lemma strides_of_length l : length (fst (strides_of l)) = length l.
Proof. induction l as [|n l IH]; simpl; auto. destruct (strides_of l) as [s sz]. simpl in *. now rewrite IH. Qed.

Lemma strides_of_size l : snd (strides_of l) = prodn l.
Proof. induction l as [|n l IH]; simpl; auto. destruct (strides_of l) as [s sz]. simpl in *. unfold prodn in *. simpl. now rewrite IH. Qed.

(* strides[i] = product of the extents of the later dimensions *)
Lemma strides_of_nth l i : i < length l -> nth i (fst (strides_of l)) 0 = prodn (skipn (S i) l).
Proof.
  revert i; induction l as [|n l IH]; intros i H; simpl in *; [lia|].
  pose proof (strides_of_size l) as Hs. destruct (strides_of l) as [s sz]. simpl in *.
  destruct i as [|i]; simpl.
  - exact Hs.
  - apply IH. lia.
Qed.

Lemma natlist_eqb_refl l : natlist_eqb l l = true.
Proof. induction l; simpl; auto. rewrite Nat.eqb_refl. auto. Qed.
Lemma natlist_eqb_eq a b : natlist_eqb a b = true -> a = b.
Proof.
  revert b; induction a as [|x a IH]; intros [|y b] H; simpl in *; try discriminate; auto.
  apply andb_true_iff in H as [H1 H2]. apply Nat.eqb_eq in H1. f_equal; auto.
Qed.

Lemma flat_map_length_uniform {X Y} (f : X -> list Y) n l : (forall a, In a l -> length (f a) = n) -> length (flat_map f l) = length l * n.
Proof.
  induction l as [|a l IH]; intros H; simpl; auto. rewrite app_length, IH, H; simpl; auto.
  intros; apply H; simpl; auto.
Qed.

Lemma nth_flat_map_uniform {X Y} (f : X -> list Y) n l i r (dx : X) (dy : Y) :
  (forall a, length (f a) = n) -> i < length l -> r < n ->
  nth (i * n + r) (flat_map f l) dy = nth r (f (nth i l dx)) dy.
Proof.
  intros Hn. revert i; induction l as [|a l IH]; intros i Hi Hr; simpl in *; [lia|].
  destruct i as [|i]; simpl.
  - rewrite app_nth1; auto. rewrite Hn; auto.
  - rewrite app_nth2 by (rewrite Hn; lia). rewrite Hn.
    replace (n + i * n + r - n) with (i * n + r) by lia. apply IH; lia.
Qed.

Lemma nth_map_seq {Y} (f : nat -> Y) n j d : j < n -> nth j (map f (seq 0 n)) d = f j.
Proof.
  intros H. rewrite (nth_indep _ d (f 0)) by (now rewrite map_length, seq_length).
  rewrite map_nth. now rewrite seq_nth by lia.
Qed.

Lemma fold_left_ext_eq {X Y} (f g : X -> Y -> X) l a0 : (forall a b, f a b = g a b) -> fold_left f l a0 = fold_left g l a0.
Proof. intros H. revert a0; induction l as [|b l IH]; intros a0; simpl; auto. rewrite H. apply IH. Qed.

(* ============================================================================================== *)
(** * the coefficient update is the mode-[dim] product with the transfer matrix *)
Section ModeProduct.
Context {A : Arith}.
Notation K := (T A).

Lemma apply_trafo_length (trafo : list (list K)) old s1 s2 na_old :
  length (apply_trafo trafo old s1 s2 na_old) = s1 * (length trafo * s2).
Proof.
  unfold apply_trafo. rewrite (flat_map_length_uniform _ (length trafo * s2)).
  - now rewrite seq_length.
  - intros i _. rewrite (flat_map_length_uniform _ s2); auto.
    intros row _. now rewrite map_length, seq_length.
Qed.

(* coefficients'[i*stride2*naxes_new + j*stride2 + k] = the accumulation over l of trafo[j][l] * coefficients[i*stride2*naxes_old + l*stride2 + k] *)
Lemma apply_trafo_nth (trafo : list (list K)) old s1 s2 na_old i j k :
  i < s1 -> j < length trafo -> k < s2 ->
  nth (i * s2 * length trafo + j * s2 + k) (apply_trafo trafo old s1 s2 na_old) zero
  = cell (nth j trafo []) old s2 na_old i k.
Proof.
  intros Hi Hj Hk. unfold apply_trafo.
  replace (i * s2 * length trafo + j * s2 + k) with (i * (length trafo * s2) + (j * s2 + k)) by lia.
  rewrite (nth_flat_map_uniform _ (length trafo * s2) _ _ _ 0).
  - rewrite seq_nth by lia. simpl.
    rewrite (nth_flat_map_uniform _ s2 _ _ _ []); auto.
    + now rewrite nth_map_seq by lia.
    + intros row. now rewrite map_length, seq_length.
  - intros a. rewrite (flat_map_length_uniform _ s2); auto. intros row _. now rewrite map_length, seq_length.
  - now rewrite seq_length.
  - nia.
Qed.

(* with exact arithmetic ([rnd] the identity) the accumulation is the plain sum  sum_l trafo[j][l] * old[...] *)
Definition dot_along (row old : list K) (s2 na_old i k : nat) : K :=
  fold_left (fun acc lt => add acc (mul (snd lt) (nth (i * s2 * na_old + fst lt * s2 + k) old zero)))
            (combine (seq 0 na_old) row) zero.
Lemma cell_exact (Hrnd : forall x : K, rnd x = x) row old s2 na_old i k :
  cell row old s2 na_old i k = dot_along row old s2 na_old i k.
Proof.
  unfold cell, dot_along. apply fold_left_ext_eq. intros a b. apply Hrnd.
Qed.

Lemma trafo_matrix_length nrm knots kk rho k q nn no : length (trafo_matrix (A:=A) nrm knots kk rho k q nn no) = nn.
Proof. unfold trafo_matrix. now rewrite map_length, seq_length. Qed.
Lemma trafo_matrix_nth nrm knots kk rho k q nn no j :
  j < nn -> nth j (trafo_matrix (A:=A) nrm knots kk rho k q nn no) [] = map (fun l => trafo_entry nrm knots kk rho k q j l) (seq 0 no).
Proof.
  intros H. unfold trafo_matrix. now rewrite nth_map_seq by lia.
Qed.
End ModeProduct.

(* ============================================================================================== *)
(** * structure of the result: orders, knots, counts, untouched dimensions, strides, well-formedness *)
Section Structure.
Context {A : Arith}.
Notation K := (T A).

Definition restride (ds : @cdim A * nat) : @cdim A :=
  mkCDim (c_order (fst ds)) (c_knots (fst ds)) (c_naxes (fst ds)) (snd ds) (c_ext (fst ds)).

Lemma restride_length l (s : list nat) : length s = length l -> length (map restride (combine l s)) = length l.
Proof. intros H. rewrite map_length, combine_length. lia. Qed.

Lemma restride_nth l (s : list nat) e : length s = length l -> e < length l ->
  nth e (map restride (combine l s)) dummy_dim = restride (nth e l dummy_dim, nth e s 0).
Proof.
  intros H He.
  rewrite (nth_indep _ dummy_dim (restride (dummy_dim, 0))) by (rewrite map_length, combine_length; lia).
  rewrite map_nth. now rewrite combine_nth by lia.
Qed.

Lemma restride_map_naxes l (s : list nat) : length s = length l -> map c_naxes (map restride (combine l s)) = map c_naxes l.
Proof.
  revert s; induction l as [|a l IH]; intros [|x s] H; simpl in *; try lia; auto. f_equal. apply IH. lia.
Qed.
Lemma restride_map_stride l (s : list nat) : length s = length l -> map c_stride (map restride (combine l s)) = s.
Proof.
  revert s; induction l as [|a l IH]; intros [|x s] H; simpl in *; try lia; auto. f_equal. apply IH. lia.
Qed.
Lemma restride_forallb_wf l (s : list nat) : length s = length l -> forallb wf_dim (map restride (combine l s)) = forallb wf_dim l.
Proof.
  revert s; induction l as [|a l IH]; intros [|x s] H; simpl in *; try lia; auto. f_equal. apply IH. lia.
Qed.

Lemma pairwise_sums_length (knots kk : list K) : length (pairwise_sums knots kk) = length knots * length kk.
Proof. unfold pairwise_sums. apply flat_map_length_uniform. intros a _. apply map_length. Qed.

Lemma forallb_replace_nth {X} (p : X -> bool) n l v : forallb p l = true -> p v = true -> forallb p (replace_nth n l v) = true.
Proof.
  revert n; induction l as [|a l IH]; intros [|n] H Hv; simpl in *; auto;
  apply andb_true_iff in H as [H1 H2]; apply andb_true_iff; split; auto.
Qed.

Lemma forallb_nth {X} (p : X -> bool) l e d : forallb p l = true -> e < length l -> p (nth e l d) = true.
Proof. intros H He. rewrite forallb_forall in H. apply H. now apply nth_In. Qed.

Variable sort : list K -> list K.
Hypothesis sort_sorted : forall l, sortedb (sort l) = true.
Hypothesis sort_perm : forall l, Permutation l (sort l).
Variable fact : nat -> Z.
Variable flip : bool.

Lemma sort_length l : length (sort l) = length l.
Proof. symmetry. apply Permutation_length. apply sort_perm. Qed.

Theorem structure (t : @ctable A) (dim : nat) (kk : list K) :
  wf_table t = true -> dim < length (c_dims t) -> 2 <= length kk ->
  let t' := convolve_with fact flip sort t dim kk in
  let d  := nth dim (c_dims t) dummy_dim in
  let d' := nth dim (c_dims t') dummy_dim in
  length (c_dims t') = length (c_dims t)
  /\ c_order d' = c_order d + length kk - 1
  /\ sortedb (c_knots d') = true
  /\ Permutation (pairwise_sums (c_knots d) kk) (c_knots d')
  /\ c_nknots d' = c_nknots d * length kk
  /\ c_naxes d' = c_nknots d' - c_order d' - 1
  /\ (forall e, e <> dim -> e < length (c_dims t) ->
        let de := nth e (c_dims t) dummy_dim in let de' := nth e (c_dims t') dummy_dim in
        c_order de' = c_order de /\ c_knots de' = c_knots de /\ c_naxes de' = c_naxes de /\ c_ext de' = c_ext de)
  /\ map c_stride (c_dims t') = fst (strides_of (map c_naxes (c_dims t')))
  /\ length (c_coef t') = prodn (map c_naxes (c_dims t'))
  /\ wf_table t' = true.
Proof.
  intros Hwf Hdim Hn. unfold wf_table in Hwf.
  apply andb_true_iff in Hwf as [Hwf Hlen]. apply andb_true_iff in Hwf as [Hwf Hstr].
  apply andb_true_iff in Hwf as [Hnd Hall].
  pose proof (forallb_nth _ _ dim dummy_dim Hall Hdim) as Hd. unfold wf_dim in Hd.
  apply andb_true_iff in Hd as [Hd Hsorted]. apply andb_true_iff in Hd as [Hnk Hna].
  apply Nat.leb_le in Hnk. apply Nat.eqb_eq in Hna.
  cbv zeta. unfold convolve_with.
  set (d := nth dim (c_dims t) dummy_dim) in *.
  set (n := length kk) in *.
  set (rho := sort (pairwise_sums (c_knots d) kk)).
  set (naxes_new := c_nknots d * n - (c_order d + n - 1) - 1).
  set (naxes := replace_nth dim (map c_naxes (c_dims t)) naxes_new).
  set (strides := fst (strides_of naxes)).
  set (dnew := mkCDim (c_order d + n - 1) rho naxes_new 0 _).
  set (dims1 := replace_nth dim (c_dims t) dnew).
  change (fun ds : cdim * nat => mkCDim (c_order (fst ds)) (c_knots (fst ds)) (c_naxes (fst ds)) (snd ds) (c_ext (fst ds))) with restride.
  cbn [c_dims c_coef].
  assert (Hl1 : length dims1 = length (c_dims t)) by (unfold dims1; apply replace_nth_length).
  assert (Hls : length strides = length dims1).
  { unfold strides. rewrite strides_of_length. unfold naxes. rewrite replace_nth_length, map_length. lia. }
  assert (Hrho : length rho = c_nknots d * n).
  { unfold rho. rewrite sort_length, pairwise_sums_length. reflexivity. }
  assert (Hnax : map c_naxes dims1 = naxes).
  { unfold dims1, naxes. rewrite replace_nth_map. reflexivity. }
  assert (Hdn : nth dim (map restride (combine dims1 strides)) dummy_dim = restride (dnew, nth dim strides 0)).
  { rewrite restride_nth by lia. unfold dims1. rewrite replace_nth_same by lia. reflexivity. }
  assert (Hwfnew : wf_dim dnew = true).
  { unfold wf_dim, c_nknots, dnew. cbn [c_order c_knots c_naxes]. rewrite Hrho.
    apply andb_true_iff; split; [apply andb_true_iff; split|].
    - apply Nat.leb_le. unfold c_nknots in *. nia.
    - apply Nat.eqb_eq. reflexivity.
    - apply sort_sorted. }
  split; [rewrite restride_length by lia; lia|].
  rewrite Hdn. unfold dnew at 1 2 3 4 5 6. unfold c_nknots. cbn [restride fst snd c_order c_knots c_naxes c_ext].
  split; [reflexivity|].
  split; [apply sort_sorted|].
  split; [apply sort_perm|].
  split; [exact Hrho|].
  split; [rewrite Hrho; reflexivity|].
  split.
  { intros e He Hel. cbv zeta. rewrite restride_nth by lia. unfold dims1. rewrite replace_nth_other by auto.
    cbn [restride fst snd c_order c_knots c_naxes c_ext]. auto. }
  assert (Hstr' : map c_stride (map restride (combine dims1 strides)) = fst (strides_of (map c_naxes (map restride (combine dims1 strides))))).
  { rewrite restride_map_stride by lia. rewrite restride_map_naxes by lia. rewrite Hnax. reflexivity. }
  assert (Hlen' : length (apply_trafo (trafo_matrix (norm_with fact flip (c_order d + 1) (n - 1)) (c_knots d) kk rho (c_order d + 1) (n - 1) naxes_new (c_naxes d))
                                        (c_coef t) (prodn (firstn dim naxes)) (prodn (skipn (S dim) naxes)) (c_naxes d))
                  = prodn (map c_naxes (map restride (combine dims1 strides)))).
  { rewrite apply_trafo_length, trafo_matrix_length. rewrite restride_map_naxes by lia. rewrite Hnax.
    unfold naxes at 3. rewrite replace_nth_split by (rewrite map_length; lia).
    rewrite prodn_app, prodn_cons.
    assert (E1 : firstn dim naxes = firstn dim (map c_naxes (c_dims t))).
    { unfold naxes. rewrite replace_nth_split by (rewrite map_length; lia). rewrite firstn_app, firstn_firstn.
      rewrite firstn_length, map_length. replace (Nat.min dim dim) with dim by lia.
      replace (dim - Nat.min dim (length (c_dims t))) with 0 by lia. simpl. apply app_nil_r. }
    assert (E2 : skipn (S dim) naxes = skipn (S dim) (map c_naxes (c_dims t))).
    { unfold naxes. rewrite replace_nth_split by (rewrite map_length; lia).
      rewrite skipn_app. rewrite firstn_length, map_length. replace (Nat.min dim (length (c_dims t))) with dim by lia.
      rewrite skipn_all2 by (rewrite firstn_length, map_length; lia). replace (S dim - dim) with 1 by lia. reflexivity. }
    rewrite E1, E2. nia. }
  split; [exact Hstr'|].
  split; [exact Hlen'|].
  unfold wf_table. cbn [c_dims c_coef].
  rewrite restride_length by lia. rewrite Hl1. rewrite Hnd. cbn [andb].
  rewrite restride_forallb_wf by lia.
  unfold dims1. rewrite forallb_replace_nth by auto. cbn [andb].
  fold dims1. rewrite Hstr'. rewrite natlist_eqb_refl. cbn [andb].
  apply Nat.eqb_eq. exact Hlen'.
Qed.
End Structure.

(* ============================================================================================== *)
(** * the insertion sort used when the model is executed satisfies the std::sort oracle's contract *)
Section ISort.
Context {A : Arith}.
Notation K := (T A).
Hypothesis leb_total : forall a b : K, leb a b = true \/ leb b a = true.

Lemma insert_sorted_perm (a : K) l : Permutation (a :: l) (insert_sorted a l).
Proof.
  induction l as [|b r IH]; simpl; auto. destruct (leb a b); auto.
  eapply perm_trans; [apply perm_swap|]. apply perm_skip. exact IH.
Qed.
Lemma isort_perm (l : list K) : Permutation l (isort l).
Proof.
  induction l as [|a l IH]; simpl; auto. eapply perm_trans; [apply perm_skip; exact IH|]. apply insert_sorted_perm.
Qed.

Lemma insert_sorted_sorted (a : K) l : sortedb l = true -> sortedb (insert_sorted a l) = true.
Proof.
  induction l as [|b r IH]; intros H; [reflexivity|].
  cbn [insert_sorted]. destruct (leb a b) eqn:Eab.
  - change (leb a b && sortedb (b :: r) = true). rewrite Eab, H. reflexivity.
  - assert (Hba : leb b a = true) by (destruct (leb_total a b) as [E|E]; congruence).
    destruct r as [|c r'].
    + cbn. rewrite Hba. reflexivity.
    + change (leb b c && sortedb (c :: r') = true) in H. apply andb_true_iff in H as [Hbc Hs].
      specialize (IH Hs). cbn [insert_sorted] in *. destruct (leb a c) eqn:Eac.
      * change (leb b a && (leb a c && sortedb (c :: r')) = true). rewrite Hba, Eac, Hs. reflexivity.
      * change (leb b c && sortedb (c :: insert_sorted a r') = true). rewrite Hbc, IH. reflexivity.
Qed.
Lemma isort_sorted (l : list K) : sortedb (isort l) = true.
Proof. induction l as [|a l IH]; simpl; auto. apply insert_sorted_sorted. exact IH. Qed.
End ISort.

Lemma structure_executed {A : Arith} (leb_total : forall a b : T A, leb a b = true \/ leb b a = true)
        (t : @ctable A) (dim : nat) (kk : list (T A)) :
  wf_table t = true -> dim < length (c_dims t) -> 2 <= length kk ->
  let t' := convolve isort t dim kk in
  let d  := nth dim (c_dims t) dummy_dim in
  let d' := nth dim (c_dims t') dummy_dim in
  c_order d' = c_order d + length kk - 1
  /\ sortedb (c_knots d') = true /\ Permutation (pairwise_sums (c_knots d) kk) (c_knots d')
  /\ c_nknots d' = c_nknots d * length kk
  /\ wf_table t' = true.
Proof.
  intros H1 H2 H3.
  destruct (structure isort (isort_sorted leb_total) isort_perm factorial false t dim kk H1 H2 H3)
    as (_ & E1 & E2 & E3 & E4 & _ & _ & _ & _ & E5).
  repeat split; assumption.
Qed.

Lemma Qc_leb_total : forall a b : T QcA, leb a b = true \/ leb b a = true.
Proof. exact (OF_leb_total QcA QcA_OField). Qed.

(* ============================================================================================== *)
(** * low-degree instances of the analytic identity (sign and normalisation anchors), over exact rationals Q *)
From Coq Require Import Lqa Field Setoid.
Local Open Scope Q_scope.

Definition Qltb (a b : Q) : bool := negb (Qle_bool b a).
Definition QA : Arith := {| T := Q; add := Qplus; sub := Qminus; mul := Qmult; div := Qdiv; opp := Qopp; zero := 0; one := 1;
  ofZ := inject_Z; ltb := Qltb; leb := Qle_bool; rnd := fun x => x |}.

Lemma Qle_bool_false a b : Qle_bool a b = false -> b < a.
Proof. intros H. apply Qnot_le_lt. intro C. apply Qle_bool_iff in C. congruence. Qed.

Definition conv_box0 (t0 t1 a b x : Q) : Q :=
  let hi := if Qle_bool (x - a) t1 then x - a else t1 in
  let lo := if Qle_bool (x - b) t0 then t0 else x - b in
  (if Qle_bool lo hi then hi - lo else 0) / (b - a).

Lemma div_eq (x y c : Q) : x == y -> x / c == y / c.
Proof. intros H. rewrite H. reflexivity. Qed.

Ltac split_tests :=
  repeat (match goal with
          | |- context [Qle_bool ?a ?b] =>
              let E := fresh "E" in
              destruct (Qle_bool a b) eqn:E; [apply Qle_bool_iff in E | apply Qle_bool_false in E]
          end; try (exfalso; lra)).

Local Arguments Qplus : simpl never.
Local Arguments Qminus : simpl never.
Local Arguments Qmult : simpl never.
Local Arguments Qdiv : simpl never.
Local Arguments Qle_bool : simpl never.
Local Arguments inject_Z : simpl never.
Local Arguments Z.mul : simpl never.

Theorem lowdeg0 (t0 t1 a b z w : Q) :
  t0 < t1 -> a < b -> z <= w ->
  (forall s, In s [t0 + a; t0 + b; t1 + a; t1 + b] -> s <= z \/ w <= s) ->
  @mul QA (norm_with factorial false 1 1) (@convoluted_blossom QA [t0; t1] [a; b] z [w]) == conv_box0 t0 t1 a b w.
Proof.
  intros Ht Hab Hzw Hcons.
  pose proof (Hcons (t0 + a) ltac:(simpl; auto)) as H00.
  pose proof (Hcons (t0 + b) ltac:(simpl; auto)) as H01.
  pose proof (Hcons (t1 + a) ltac:(simpl; auto)) as H10.
  pose proof (Hcons (t1 + b) ltac:(simpl; auto 6)) as H11.
  clear Hcons.
  unfold norm_with, convoluted_blossom, fun_y_of, det_of, conv_box0, gtb.
  cbn. unfold Qltb.
  change (inject_Z (1 * 1)) with 1. change (inject_Z 1) with 1.
  match goal with
  | |- ?c * (if ?e then 0 else ?s * (((?f11 - ?f10) / ?d - (?f01 - ?f00) / ?d) / ?s)) == ?S / ?d =>
      transitivity ((if e then 0 else f11 - f10 - f01 + f00) / d);
      [ generalize f11 f10 f01 f00; intros g11 g10 g01 g00; destruct e; field; lra | apply div_eq ]
  end.
  destruct (Qle_bool (w - b) t0) eqn:E1; [apply Qle_bool_iff in E1 | apply Qle_bool_false in E1];
  (destruct (Qle_bool (w - a) t1) eqn:E2; [apply Qle_bool_iff in E2 | apply Qle_bool_false in E2]);
  split_tests; cbn [negb orb]; lra.
Qed.
Definition Pp (x : Q) : Q := if Qle_bool 0 x then x else 0.
Lemma Pp_ext x y : x == y -> Pp x == Pp y.
Proof.
  intros H. unfold Pp.
  destruct (Qle_bool 0 x) eqn:E1; [apply Qle_bool_iff in E1 | apply Qle_bool_false in E1];
  (destruct (Qle_bool 0 y) eqn:E2; [apply Qle_bool_iff in E2 | apply Qle_bool_false in E2]); lra.
Qed.

Definition hatF (t0 t1 t2 y : Q) : Q :=
  if Qle_bool y t0 then 0
  else if Qle_bool y t1 then (y - t0) * (y - t0) / (2 * (t1 - t0))
  else if Qle_bool y t2 then (t1 - t0) / 2 + ((t2 - t1) * (t2 - t1) - (t2 - y) * (t2 - y)) / (2 * (t2 - t1))
  else (t2 - t0) / 2.
Definition conv_box1 (t0 t1 t2 a b x : Q) : Q := (hatF t0 t1 t2 (x - a) - hatF t0 t1 t2 (x - b)) / (b - a).
Definition coef_box1 (t0 t1 t2 a b u v : Q) : Q :=
  2 * conv_box1 t0 t1 t2 a b ((1 # 2) * (u + v)) - (conv_box1 t0 t1 t2 a b u + conv_box1 t0 t1 t2 a b v) / 2.

Lemma hatF_trunc t0 t1 t2 y : t0 < t1 -> t1 < t2 ->
  hatF t0 t1 t2 y == ((t2 - t0) - (Pp (t0 - y) * Pp (t0 - y) / (t1 - t0)
                                   - Pp (t1 - y) * Pp (t1 - y) * (1 / (t1 - t0) + 1 / (t2 - t1))
                                   + Pp (t2 - y) * Pp (t2 - y) / (t2 - t1))) / 2.
Proof.
  intros H01 H12. unfold hatF, Pp.
  split_tests; try (field; lra).
Qed.

Lemma Pp_nonpos x : x <= 0 -> Pp x == 0.
Proof. intros H. unfold Pp. destruct (Qle_bool 0 x) eqn:E; [apply Qle_bool_iff in E; lra | reflexivity]. Qed.
Lemma Pp_nonneg x : 0 <= x -> Pp x == x.
Proof. intros H. unfold Pp. destruct (Qle_bool 0 x) eqn:E; [reflexivity | apply Qle_bool_false in E; lra]. Qed.

Lemma trunc_id z u v s : z <= u -> u <= v -> (s <= z \/ u <= s) -> (s <= u \/ v <= s) ->
  (if negb (Qle_bool (s - z) 0) then 1 * (s - u) * (s - v) else 0)
  == 2 * (Pp (s - (1 # 2) * (u + v)) * Pp (s - (1 # 2) * (u + v))) - (Pp (s - u) * Pp (s - u) + Pp (s - v) * Pp (s - v)) / 2.
Proof.
  intros Hzu Huv H1 H2.
  destruct H2 as [H2|H2].
  - (* s <= u: every truncated term vanishes *)
    setoid_replace (Pp (s - (1 # 2) * (u + v))) with 0 by (apply Pp_nonpos; lra). setoid_replace (Pp (s - u)) with 0 by (apply Pp_nonpos; lra). setoid_replace (Pp (s - v)) with 0 by (apply Pp_nonpos; lra).
    destruct (Qle_bool (s - z) 0) eqn:E; cbn [negb]; [field|].
    apply Qle_bool_false in E. assert (Hs : s == u) by lra. rewrite Hs. field.
  - (* v <= s: every truncated term is active *)
    setoid_replace (Pp (s - (1 # 2) * (u + v))) with (s - (1 # 2) * (u + v)) by (apply Pp_nonneg; lra). setoid_replace (Pp (s - u)) with (s - u) by (apply Pp_nonneg; lra). setoid_replace (Pp (s - v)) with (s - v) by (apply Pp_nonneg; lra).
    destruct (Qle_bool (s - z) 0) eqn:E; cbn [negb]; [|field].
    apply Qle_bool_iff in E. assert (Hs : s == u) by lra. assert (Hv : v == u) by lra. rewrite Hs, Hv. field.
Qed.


(* the truncated blossom term of the code:  (s - z > 0) ? 1.0*(s - u)*(s - v) : 0.0 *)
Definition gtr (z u v s : Q) : Q := if negb (Qle_bool (s - z) 0) then 1 * (s - u) * (s - v) else 0.

(* what convoluted_blossom computes for k = 2, q = 1 when it does not take the early exit, times norm = 1!1!/2! *)
Definition blossom1_expr (t0 t1 t2 a b z u v : Q) : Q :=
  1 / 2 * ((t2 - t0) *
    ((((gtr z u v (t2 + b) - gtr z u v (t2 + a)) / (b - a) - (gtr z u v (t1 + b) - gtr z u v (t1 + a)) / (b - a)) / (t2 - t1)
      - ((gtr z u v (t1 + b) - gtr z u v (t1 + a)) / (b - a) - (gtr z u v (t0 + b) - gtr z u v (t0 + a)) / (b - a)) / (t1 - t0)) / (t2 - t0))).

Definition consecutive1 (t0 t1 t2 a b z u v : Q) : Prop :=
  forall s, In s [t0 + a; t0 + b; t1 + a; t1 + b; t2 + a; t2 + b] -> (s <= z \/ u <= s) /\ (s <= u \/ v <= s).

Lemma coef_box1_as_blossom (t0 t1 t2 a b z u v : Q) :
  t0 < t1 -> t1 < t2 -> a < b -> z <= u -> u <= v -> consecutive1 t0 t1 t2 a b z u v ->
  coef_box1 t0 t1 t2 a b u v == blossom1_expr t0 t1 t2 a b z u v.
Proof.
  intros H01 H12 Hab Hzu Huv Hcons.
  pose proof (trunc_id z u v (t0 + a) Hzu Huv (proj1 (Hcons (t0 + a) ltac:(simpl; auto))) (proj2 (Hcons (t0 + a) ltac:(simpl; auto)))) as G0a.
  pose proof (trunc_id z u v (t0 + b) Hzu Huv (proj1 (Hcons (t0 + b) ltac:(simpl; auto))) (proj2 (Hcons (t0 + b) ltac:(simpl; auto)))) as G0b.
  pose proof (trunc_id z u v (t1 + a) Hzu Huv (proj1 (Hcons (t1 + a) ltac:(simpl; auto))) (proj2 (Hcons (t1 + a) ltac:(simpl; auto)))) as G1a.
  pose proof (trunc_id z u v (t1 + b) Hzu Huv (proj1 (Hcons (t1 + b) ltac:(simpl; auto 6))) (proj2 (Hcons (t1 + b) ltac:(simpl; auto 6)))) as G1b.
  pose proof (trunc_id z u v (t2 + a) Hzu Huv (proj1 (Hcons (t2 + a) ltac:(simpl; auto 7))) (proj2 (Hcons (t2 + a) ltac:(simpl; auto 7)))) as G2a.
  pose proof (trunc_id z u v (t2 + b) Hzu Huv (proj1 (Hcons (t2 + b) ltac:(simpl; auto 8))) (proj2 (Hcons (t2 + b) ltac:(simpl; auto 8)))) as G2b.
  clear Hcons. unfold blossom1_expr, gtr.
  rewrite G0a, G0b, G1a, G1b, G2a, G2b.
  unfold coef_box1, conv_box1. rewrite !hatF_trunc by assumption.
  repeat match goal with
         | |- context [Pp (?t - (?x - ?y))] => rewrite (Pp_ext (t - (x - y)) (t + y - x)) by ring
         end.
  field. lra.
Qed.

Lemma gtr_active z u v s : z < s -> gtr z u v s == (s - u) * (s - v).
Proof.
  intros H. unfold gtr. destruct (Qle_bool (s - z) 0) eqn:E; cbn [negb]; [apply Qle_bool_iff in E; lra | field].
Qed.
Lemma gtr_zero z u v s : s <= u -> (s <= z \/ u <= s) -> gtr z u v s == 0.
Proof.
  intros H1 H2. unfold gtr. destruct (Qle_bool (s - z) 0) eqn:E; cbn [negb]; [reflexivity|].
  apply Qle_bool_false in E. assert (Hs : s == u) by lra. rewrite Hs. field.
Qed.

Theorem lowdeg1 (t0 t1 t2 a b z u v : Q) :
  t0 < t1 -> t1 < t2 -> a < b -> z <= u -> u <= v -> consecutive1 t0 t1 t2 a b z u v ->
  @mul QA (norm_with factorial false 2 1) (@convoluted_blossom QA [t0; t1; t2] [a; b] z [u; v]) == coef_box1 t0 t1 t2 a b u v.
Proof.
  intros H01 H12 Hab Hzu Huv Hcons.
  rewrite (coef_box1_as_blossom t0 t1 t2 a b z u v) by assumption.
  unfold norm_with, convoluted_blossom, fun_y_of, det_of, gtb.
  cbn. unfold Qltb.
  change (inject_Z (1 * 1)) with 1. change (inject_Z (1 * 2)) with 2.
  destruct (Qle_bool (t0 + a) z) eqn:Elo; cbn [negb orb].
  - destruct (Qle_bool v (t2 + b)) eqn:Ehi; cbn [negb].
    + unfold blossom1_expr, gtr. reflexivity.
    + (* every pairwise sum is below v, hence at most u: every truncated term vanishes *)
      apply Qle_bool_false in Ehi. unfold blossom1_expr.
      rewrite (gtr_zero z u v (t0 + a)), (gtr_zero z u v (t0 + b)), (gtr_zero z u v (t1 + a)), (gtr_zero z u v (t1 + b)),
              (gtr_zero z u v (t2 + a)), (gtr_zero z u v (t2 + b));
        try (field; lra);
        try (apply (Hcons _); simpl; auto 8);
        try (match goal with |- ?s <= u => destruct (proj2 (Hcons s ltac:(simpl; auto 8))); [assumption | lra] end).
  - (* every pairwise sum is above z: the full divided difference of a quadratic vanishes *)
    apply Qle_bool_false in Elo. unfold blossom1_expr.
    rewrite (gtr_active z u v (t0 + a)), (gtr_active z u v (t0 + b)), (gtr_active z u v (t1 + a)), (gtr_active z u v (t1 + b)),
            (gtr_active z u v (t2 + a)), (gtr_active z u v (t2 + b)) by lra.
    field. lra.
Qed.

(* the same statements phrased on the transfer-matrix entry of the model *)
Lemma trafo_entry_order0_box (knots kk rho : list Q) (i j : nat) (t0 t1 a b z w : Q) :
  firstn 2 (skipn j knots) = [t0; t1] -> kk = [a; b] -> nth i rho 0 = z -> firstn 1 (skipn (i + 1) rho) = [w] ->
  t0 < t1 -> a < b -> z <= w ->
  (forall s, In s [t0 + a; t0 + b; t1 + a; t1 + b] -> s <= z \/ w <= s) ->
  @trafo_entry QA (norm_with factorial false 1 1) knots kk rho 1 1 i j == conv_box0 t0 t1 a b w.
Proof.
  intros Hx Hk Hz Hb. intros. unfold trafo_entry. cbn [Nat.add Nat.sub T QA zero].
  rewrite Hx, Hk, Hz, Hb. apply lowdeg0; assumption.
Qed.
Lemma trafo_entry_order1_box (knots kk rho : list Q) (i j : nat) (t0 t1 t2 a b z u v : Q) :
  firstn 3 (skipn j knots) = [t0; t1; t2] -> kk = [a; b] -> nth i rho 0 = z -> firstn 2 (skipn (i + 1) rho) = [u; v] ->
  t0 < t1 -> t1 < t2 -> a < b -> z <= u -> u <= v -> consecutive1 t0 t1 t2 a b z u v ->
  @trafo_entry QA (norm_with factorial false 2 1) knots kk rho 2 1 i j == coef_box1 t0 t1 t2 a b u v.
Proof.
  intros Hx Hk Hz Hb. intros. unfold trafo_entry. cbn [Nat.add Nat.sub T QA zero].
  rewrite Hx, Hk, Hz, Hb. apply lowdeg1; assumption.
Qed.

Local Close Scope Q_scope.
Local Open Scope nat_scope.

(* ============================================================================================== *)
(** * the new coefficients, cell by cell *)
Theorem coeffs_mode_product {A : Arith} (fact : nat -> Z) (flip : bool) (sort : list (T A) -> list (T A))
        (t : @ctable A) (dim : nat) (kk : list (T A)) (i j k : nat) :
  let d := nth dim (c_dims t) dummy_dim in
  let n := length kk in
  let rho := sort (pairwise_sums (c_knots d) kk) in
  let naxes_new := c_nknots d * n - (c_order d + n - 1) - 1 in
  let naxes := replace_nth dim (map c_naxes (c_dims t)) naxes_new in
  let s1 := prodn (firstn dim naxes) in
  let s2 := prodn (skipn (S dim) naxes) in
  let nrm := norm_with fact flip (c_order d + 1) (n - 1) in
  let row := map (fun l => trafo_entry nrm (c_knots d) kk rho (c_order d + 1) (n - 1) j l) (seq 0 (c_naxes d)) in
  i < s1 -> j < naxes_new -> k < s2 ->
  length (c_coef (convolve_with fact flip sort t dim kk)) = s1 * (naxes_new * s2)
  /\ nth (i * s2 * naxes_new + j * s2 + k) (c_coef (convolve_with fact flip sort t dim kk)) zero
     = cell row (c_coef t) s2 (c_naxes d) i k
  /\ ((forall x : T A, rnd x = x) ->
      nth (i * s2 * naxes_new + j * s2 + k) (c_coef (convolve_with fact flip sort t dim kk)) zero
      = dot_along row (c_coef t) s2 (c_naxes d) i k).
Proof.
  cbv zeta. intros Hi Hj Hk. unfold convolve_with. cbn [c_coef].
  set (tm := trafo_matrix _ _ _ _ _ _ _ _).
  assert (Hl : length tm = c_nknots (nth dim (c_dims t) dummy_dim) * length kk - (c_order (nth dim (c_dims t) dummy_dim) + length kk - 1) - 1)
    by (unfold tm; apply trafo_matrix_length).
  split; [rewrite apply_trafo_length, Hl; reflexivity|].
  assert (E : nth (i * prodn (skipn (S dim) (replace_nth dim (map c_naxes (c_dims t)) (length tm))) * length tm
                   + j * prodn (skipn (S dim) (replace_nth dim (map c_naxes (c_dims t)) (length tm))) + k)
                  (apply_trafo tm (c_coef t) (prodn (firstn dim (replace_nth dim (map c_naxes (c_dims t)) (length tm))))
                               (prodn (skipn (S dim) (replace_nth dim (map c_naxes (c_dims t)) (length tm)))) (c_naxes (nth dim (c_dims t) dummy_dim))) zero
              = cell (nth j tm []) (c_coef t) (prodn (skipn (S dim) (replace_nth dim (map c_naxes (c_dims t)) (length tm)))) (c_naxes (nth dim (c_dims t) dummy_dim)) i k).
  { apply apply_trafo_nth; rewrite Hl; assumption. }
  rewrite Hl in E. unfold tm in E. rewrite trafo_matrix_nth in E by assumption. fold tm in E.
  split; [exact E|]. intros Hrnd. rewrite E. apply cell_exact. exact Hrnd.
Qed.

(* ============================================================================================== *)
(** * regression statements about the code as shipped (defects D4 and the (-1)^k factor), and examples *)
Definition qz (z : Z) : Qc := Q2Qc (inject_Z z).
(* order 0, knots 0..4, all coefficients 1: the surface is 1 on [0,4) *)
Definition ex0_table : @ctable QcA :=
  @mkCTable QcA [@mkCDim QcA 0 (map qz [0;1;2;3;4]%Z) 4 1 (qz 0, qz 4)] (map qz [1;1;1;1]%Z).
(* order 2, knots 0..7, all coefficients 1: the surface is 1 on [2,5] *)
Definition ex2_table : @ctable QcA :=
  @mkCTable QcA [@mkCDim QcA 2 (map qz [0;1;2;3;4;5;6;7]%Z) 5 1 (qz 2, qz 5)] (map qz [1;1;1;1;1]%Z).
(* a 2-dimensional table, convolved along dimension 1 *)
Definition ex2d_table : @ctable QcA :=
  @mkCTable QcA [@mkCDim QcA 1 (map qz [0;1;3;4]%Z) 2 3 (qz 1, qz 3); @mkCDim QcA 1 (map qz [0;2;3;5;6]%Z) 3 1 (qz 2, qz 5)]
            (map qz [1;2;3;4;5;6]%Z).
Definition box_kernel : list Qc := [Q2Qc (-1 # 2); Q2Qc (1 # 2)].
Definition tri_kernel : list Qc := [Q2Qc (-1 # 2); Q2Qc (1 # 4); Q2Qc (1 # 2)].

(* D4: as shipped, every coefficient of an order-0 convolution is 0 (the convolved constant 1 becomes 0) *)
Lemma refuted_order0_shipped :
  c_coef (convolve_shipped (@isort QcA) ex0_table 0 box_kernel) = repeat (qz 0) 8.
Proof. vm_compute. reflexivity. Qed.
(* after the factorial fix alone the constant 1 becomes -1 for order 0 and order 2 (interior coefficients) *)
Lemma refuted_even_order_signflip :
  c_coef (convolve_signflip (@isort QcA) ex0_table 0 box_kernel) = repeat (qz (-1)) 8
  /\ nth 4 (c_coef (convolve_signflip (@isort QcA) ex2_table 0 box_kernel)) (qz 0) = qz (-1).
Proof. split; vm_compute; reflexivity. Qed.
(* the current code: the constant stays 1 *)
Lemma fixed_examples :
  c_coef (convolve (@isort QcA) ex0_table 0 box_kernel) = repeat (qz 1) 8
  /\ nth 4 (c_coef (convolve (@isort QcA) ex2_table 0 box_kernel)) (qz 0) = qz 1
  /\ nth 5 (c_coef (convolve (@isort QcA) ex2_table 0 tri_kernel)) (qz 0) = qz 1.
Proof. repeat split; vm_compute; reflexivity. Qed.

Lemma examples_wf : wf_table ex0_table = true /\ wf_table ex2_table = true /\ wf_table ex2d_table = true
  /\ wf_table (convolve (@isort QcA) ex2d_table 1 tri_kernel) = true.
Proof. repeat split; vm_compute; reflexivity. Qed.
