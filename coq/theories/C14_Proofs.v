(* C14_Proofs.v — lemmas and proof scripts for C14 (convolution). *)
From Coq Require Import ZArith QArith Qcanon List Bool Lia Permutation Sorted.
From PS Require Import Arith EvalModel ConvModel.
Import ListNotations.

(* ---------------------------------------------------------------------------------------------- *)
(** * D4: the shipped factorial(0) = 0 makes every coefficient of an order-0 convolution vanish *)
Definition qz (z : Z) : Qc := Q2Qc (inject_Z z).
Definition ex0_table : @ctable QcA :=
  @mkCTable QcA [@mkCDim QcA 0 (map qz [0;1;2;3;4]%Z) 4 1 (qz 0, qz 4)] (map qz [1;1;1;1]%Z).
Definition ex0_kernel : list Qc := [Q2Qc (-1 # 2); Q2Qc (1 # 2)].

Lemma refuted_order0_shipped :
  c_coef (convolve_shipped (@isort QcA) ex0_table 0 ex0_kernel) = repeat (qz 0) 8.
Proof. vm_compute. reflexivity. Qed.
