(* C01_Core.v — all dimensions: the coefficient block walk of ndsplineeval_core (EvalModel.core_loop: odometer
   over dimensions 0..D-2, inner chunk over the last dimension) computes, over any ordered field (in fact any
   commutative ring with rnd = id), the nested sum
        sum_{i_0} ... sum_{i_{D-1}}  coef(pos0 + sum_d i_d*stride_d) * prod_d localbasis_d[i_d]
   for every number of dimensions and every order. *)
From Coq Require Import ZArith List Bool Lia Field Ring Arith.
From PS Require Import Arith EvalModel BSpline OFieldKit C01_Basis.
Import ListNotations.
Local Open Scope Z_scope.

Section Core.
Context {A : Arith}.
Variable F : OField A.
Notation K := (T A).
Add Field Kfield2 : (OFth F).
Variable cf : Z -> K.

(* sum_i f lb[i] (pos + i*s) *)
Fixpoint lsum (f : K -> Z -> K) (lb : list K) (pos s : Z) : K :=
  match lb with [] => zero | l :: r => add (f l pos) (lsum f r (pos + s) s) end.
(* the nested block sum, dimension 0 outermost; [pr] accumulates the product of local basis values *)
Fixpoint block_sum (lbs : list (list K)) (ss : list Z) (pos : Z) (pr : K) : K :=
  match lbs, ss with
  | lb :: lbs', s :: ss' => lsum (fun l p => block_sum lbs' ss' p (mul pr l)) lb pos s
  | _, _ => mul pr (cf pos)
  end.

Lemma lsum_ext f g lb : forall pos s, (forall l p, f l p = g l p) -> lsum f lb pos s = lsum g lb pos s.
Proof. induction lb as [|l r IH]; intros pos s H; cbn [lsum]; [reflexivity|]. rewrite H, (IH _ _ H). reflexivity. Qed.

(* all coefficients one: the block sum factorises into the product of the sums of the local bases *)
Fixpoint prodsum (lbs : list (list K)) : K :=
  match lbs with [] => one | lb :: r => mul (sumK lb) (prodsum r) end.
Lemma lsum_factor (c0 : K) lb : forall pos s pr, lsum (fun l _ => mul (mul pr l) c0) lb pos s = mul pr (mul (sumK lb) c0).
Proof. induction lb as [|l r IH]; intros pos s pr; cbn [lsum sumK]; [ring|]. rewrite IH. ring. Qed.
Lemma block_sum_ones : (forall p, cf p = one) -> forall lbs ss pos pr, length lbs = length ss ->
  block_sum lbs ss pos pr = mul pr (prodsum lbs).
Proof.
  intro H1. induction lbs as [|lb lbs IH]; intros ss pos pr Hlen.
  - destruct ss; [|discriminate]. cbn [block_sum prodsum]. rewrite H1. reflexivity.
  - destruct ss as [|s ss]; [discriminate|]. cbn [block_sum prodsum].
    rewrite (lsum_ext _ (fun l _ => mul (mul pr l) (prodsum lbs))) by (intros l p; apply IH; cbn [length] in Hlen; lia).
    apply lsum_factor.
Qed.

(* ---------------------------------------------------------------------------------------------- *)
(* the inner chunk *)
Lemma chunk_sum bt lb : forall pos res,
  chunk cf bt lb pos res = add res (lsum (fun l p => mul (mul bt l) (cf p)) lb pos 1).
Proof.
  induction lb as [|l r IH]; intros pos res; cbn [chunk lsum].
  - ring.
  - rewrite IH. rewrite !(rnd_id F). ring.
Qed.

(* ---------------------------------------------------------------------------------------------- *)
(* the odometer loop with an abstract body *)
Fixpoint loopG (fuel : nat) (body : list digit -> Z -> K -> K) (rd : list digit) (pos : Z) (res : K) : K :=
  match fuel with
  | O => res
  | S f => let res' := body rd pos res in
           let '(rd', dpos) := odo_incr rd in loopG f body rd' (pos + dpos) res'
  end.

Lemma core_loop_loopG lbs lb_last : forall fuel rd pos res,
  core_loop cf fuel lbs lb_last rd pos res =
  loopG fuel (fun rd pos res => chunk cf (bt_of lbs (rev (map digit_pos rd))) lb_last pos res) rd pos res.
Proof.
  induction fuel as [|f IH]; intros rd pos res; [reflexivity|].
  cbn [core_loop loopG]. cbv zeta. destruct f as [|f'].
  - destruct (odo_incr rd) as [rd' dpos]. reflexivity.
  - destruct (odo_incr rd) as [rd' dpos]. apply IH.
Qed.

(* sweep of the least significant digit: positions p, p+1, ..., p+cnt-1 *)
Fixpoint sweep (body : list digit -> Z -> K -> K) (o : nat) (s : Z) (rest : list digit) (cnt p : nat) (pos : Z) (res : K) : K :=
  match cnt with
  | O => res
  | S c => sweep body o s rest c (S p) (pos + s) (body ((o, s, p) :: rest) pos res)
  end.

Lemma loopG_nocarry body o s rest f : forall cnt p pos res, (p + cnt <= o)%nat ->
  loopG (cnt + f) body ((o, s, p) :: rest) pos res =
  loopG f body ((o, s, (p + cnt)%nat) :: rest) (pos + Z.of_nat cnt * s) (sweep body o s rest cnt p pos res).
Proof.
  induction cnt as [|c IH]; intros p pos res H.
  - cbn [Nat.add sweep]. rewrite Nat.add_0_r. f_equal. lia.
  - change (S c + f)%nat with (S (c + f)). cbn [loopG sweep odo_incr]. cbv zeta.
    replace (o <? S p)%nat with false by (symmetry; apply Nat.ltb_ge; lia).
    rewrite IH by lia. f_equal; [f_equal; f_equal; lia | lia].
Qed.

Lemma sweep_snoc body o s rest : forall cnt p pos res,
  sweep body o s rest (S cnt) p pos res =
  body ((o, s, (p + cnt)%nat) :: rest) (pos + Z.of_nat cnt * s) (sweep body o s rest cnt p pos res).
Proof.
  induction cnt as [|c IH]; intros p pos res.
  - cbn [sweep]. rewrite Nat.add_0_r. f_equal. lia.
  - change (sweep body o s rest (S (S c)) p pos res) with (sweep body o s rest (S c) (S p) (pos + s) (body ((o, s, p) :: rest) pos res)).
    rewrite IH. cbn [sweep]. f_equal; [f_equal; f_equal; lia | lia].
Qed.

Lemma loopG_fullsweep body o s rest f pos res :
  loopG (S o + f) body ((o, s, O) :: rest) pos res =
  let '(rest', dpos) := odo_incr rest in
  loopG f body ((o, s, O) :: rest') (pos + dpos) (sweep body o s rest (S o) 0 pos res).
Proof.
  replace (S o + f)%nat with (o + S f)%nat by lia.
  rewrite loopG_nocarry by lia. cbn [Nat.add]. cbn [loopG odo_incr]. cbv zeta.
  replace (o <? S o)%nat with true by (symmetry; apply Nat.ltb_lt; lia).
  destruct (odo_incr rest) as [rest' dpos].
  rewrite sweep_snoc. cbn [Nat.add]. f_equal. lia.
Qed.

(* peeling the least significant digit: M full sweeps *)
Lemma loopG_peel body o s : forall M rest pos res,
  loopG (M * S o) body ((o, s, O) :: rest) pos res =
  loopG M (fun rest' pos' res' => sweep body o s rest' (S o) 0 pos' res') rest pos res.
Proof.
  induction M as [|M IH]; intros rest pos res; [reflexivity|].
  change (S M * S o)%nat with (S o + M * S o)%nat.
  rewrite loopG_fullsweep. cbn [loopG]. cbv zeta.
  destruct (odo_incr rest) as [rest' dpos]. apply IH.
Qed.

(* all digits: nested sweeps, least significant innermost *)
Fixpoint nest (body : list digit -> Z -> K -> K) (rd : list digit) (pos : Z) (res : K) : K :=
  match rd with
  | [] => body [] pos res
  | (o, s, _) :: rest => nest (fun rest' pos' res' => sweep body o s rest' (S o) 0 pos' res') rest pos res
  end.
Fixpoint prodS (rd : list digit) : nat :=
  match rd with [] => 1%nat | (o, _, _) :: rest => (prodS rest * S o)%nat end.

Lemma loopG_nest : forall rd body pos res, Forall (fun d => digit_pos d = O) rd ->
  loopG (prodS rd) body rd pos res = nest body rd pos res.
Proof.
  induction rd as [|[[o s] p] rest IH]; intros body pos res Hz.
  - cbn [prodS loopG nest odo_incr]. reflexivity.
  - inversion Hz as [|? ? Hp Hrest]; subst. unfold digit_pos in Hp. cbn [snd] in Hp. subst p.
    cbn [prodS nest]. rewrite loopG_peel. apply IH. exact Hrest.
Qed.


(* ---------------------------------------------------------------------------------------------- *)
(* list helpers *)
Lemma skipn_nth_cons {X} (d : X) : forall m (l : list X), (m < length l)%nat -> skipn m l = nth m l d :: skipn (S m) l.
Proof.
  induction m as [|m IH]; intros l H; destruct l as [|a l]; cbn [length] in H; try lia; [reflexivity|].
  cbn [skipn nth]. rewrite (IH l) by lia. reflexivity.
Qed.
Lemma firstn_S_snoc {X} (d : X) : forall m (l : list X), (m < length l)%nat -> firstn (S m) l = firstn m l ++ [nth m l d].
Proof.
  induction m as [|m IH]; intros l H; destruct l as [|a l]; cbn [length] in H; try lia; [reflexivity|].
  cbn [firstn nth app]. f_equal. change (a0 :: firstn m l0) with (firstn (S m) (a0 :: l0)) || idtac. apply IH. lia.
Qed.
Lemma combine_app_eq {X Y} : forall (l1 : list X) (l1' : list Y) l2 l2', length l1 = length l1' ->
  combine (l1 ++ l2) (l1' ++ l2') = combine l1 l1' ++ combine l2 l2'.
Proof.
  induction l1 as [|a l1 IH]; intros l1' l2 l2' H; destruct l1' as [|b l1']; cbn [length] in H; try lia; [reflexivity|].
  cbn [app combine]. f_equal. apply IH. lia.
Qed.

Lemma map_fst_combine {X Y} : forall (l : list X) (l' : list Y), (length l <= length l')%nat -> map fst (combine l l') = l.
Proof.
  induction l as [|a l IH]; intros l' H; [reflexivity|]. destruct l' as [|b l']; cbn [length] in H; [lia|].
  cbn [combine map fst]. f_equal. apply IH. lia.
Qed.

Lemma bt_of_snoc (lbs : list (list K)) (lb : list K) (ps : list nat) (p : nat) : length lbs = length ps ->
  bt_of (lbs ++ [lb]) (ps ++ [p]) = mul (bt_of lbs ps) (nth p lb zero).
Proof.
  intro H. unfold bt_of. rewrite combine_app_eq by exact H. rewrite fold_left_app. cbn [combine fold_left fst snd].
  rewrite (rnd_id F). reflexivity.
Qed.

Section Shaped.
Variable lbs' : list (list K).     (* local bases of dimensions 0..D-2 *)
Variable lb_last : list K.         (* local basis of dimension D-1 *)
Variable ss : list Z.              (* all D strides *)
Variable os' : list nat.           (* orders of dimensions 0..D-2 *)
Let m1 := length lbs'.
Hypothesis Hos : length os' = m1.
Hypothesis Hss : length ss = S m1.
Hypothesis Hlb : forall i, (i < m1)%nat -> length (nth i lbs' []) = S (nth i os' O).
Hypothesis Hs1 : nth m1 ss 0 = 1.

Let lbs_all := lbs' ++ [lb_last].
Let trip := combine (combine os' (firstn m1 ss)) (repeat O m1).
Let body0 : list digit -> Z -> K -> K :=
  fun rd pos res => chunk cf (bt_of lbs' (rev (map digit_pos rd))) lb_last pos res.

Definition shaped (m : nat) (body : list digit -> Z -> K -> K) : Prop :=
  forall rest pos res, length rest = m ->
    body rest pos res =
    add res (block_sum (skipn m lbs_all) (skipn m ss) pos (bt_of (firstn m lbs') (rev (map digit_pos rest)))).

Lemma shaped_base : shaped m1 body0.
Proof.
  intros rest pos res Hlen. unfold body0. rewrite chunk_sum. f_equal.
  unfold lbs_all. unfold m1 at 1. rewrite skipn_app, skipn_all, Nat.sub_diag.
  cbn [skipn app]. rewrite (skipn_nth_cons 0 m1 ss) by lia. rewrite Hs1.
  rewrite skipn_all2 by lia. unfold m1. rewrite firstn_all. cbn [block_sum].
  apply lsum_ext. intros l p. reflexivity.
Qed.

Lemma shaped_step m body : (m < m1)%nat -> shaped (S m) body ->
  shaped m (fun rest' pos' res' => sweep body (nth m os' O) (nth m ss 0) rest' (S (nth m os' O)) 0 pos' res').
Proof.
  intros Hm Hb rest pos res Hlen.
  set (o := nth m os' O). set (s := nth m ss 0). set (lb := nth m lbs' []).
  assert (Hlbl : length lb = S o) by (apply Hlb; exact Hm).
  set (PR := bt_of (firstn m lbs') (rev (map digit_pos rest))).
  assert (E1 : skipn m lbs_all = lb :: skipn (S m) lbs_all).
  { rewrite (skipn_nth_cons [] m lbs_all) by (unfold lbs_all; rewrite app_length; cbn [length]; fold m1; lia).
    f_equal. unfold lbs_all. rewrite app_nth1 by (fold m1; lia). reflexivity. }
  assert (E2 : skipn m ss = s :: skipn (S m) ss) by (apply skipn_nth_cons; lia).
  rewrite E1, E2. cbn [block_sum].
  (* the sweep, from any starting position *)
  assert (G : forall cnt p pos res, (p + cnt = S o)%nat ->
            sweep body o s rest cnt p pos res =
            add res (lsum (fun l q => block_sum (skipn (S m) lbs_all) (skipn (S m) ss) q (mul PR l)) (skipn p lb) pos s)).
  { induction cnt as [|c IH]; intros p pos0 res0 Hpc.
    - cbn [sweep]. rewrite (@skipn_all2 _ p lb) by lia. cbn [lsum]. ring.
    - cbn [sweep]. rewrite IH by lia.
      rewrite (Hb ((o, s, p) :: rest) pos0 res0) by (cbn [length]; lia).
      rewrite (skipn_nth_cons zero p lb) by lia. cbn [lsum].
      cbn [map rev]. change (digit_pos (o, s, p)) with p.
      rewrite (firstn_S_snoc [] m lbs') by (fold m1; lia). fold lb.
      rewrite bt_of_snoc by (rewrite firstn_length, rev_length, map_length; fold m1; lia).
      fold PR. ring. }
  rewrite G by lia. cbn [skipn]. reflexivity.
Qed.

Lemma trip_length : length trip = m1.
Proof. unfold trip. rewrite !combine_length, firstn_length, repeat_length. lia. Qed.

Lemma trip_nth m : (m < m1)%nat -> nth m trip (O, 0, O) = (nth m os' O, nth m ss 0, O).
Proof.
  intro Hm. unfold trip.
  rewrite combine_nth by (rewrite combine_length, firstn_length, repeat_length; lia).
  rewrite combine_nth by (rewrite firstn_length; lia).
  rewrite nth_repeat. f_equal. f_equal.
  rewrite <- (firstn_skipn m1 ss) at 2. rewrite app_nth1 by (rewrite firstn_length; lia). reflexivity.
Qed.

Lemma nest_shaped : forall m, (m <= m1)%nat -> forall body, shaped m body -> forall pos res,
  nest body (rev (firstn m trip)) pos res = add res (block_sum lbs_all ss pos one).
Proof.
  induction m as [|m IH]; intros Hm body Hb pos res.
  - cbn [firstn rev nest]. rewrite (Hb [] pos res) by reflexivity. cbn [skipn firstn map rev].
    unfold bt_of. cbn [combine fold_left]. rewrite (rnd_id F). reflexivity.
  - rewrite (firstn_S_snoc (O, 0, O) m trip) by (rewrite trip_length; lia).
    rewrite rev_app_distr. cbn [rev app]. rewrite trip_nth by lia. cbn [nest].
    apply IH; [lia|]. apply shaped_step; [lia|exact Hb].
Qed.

Lemma trip_zero : Forall (fun d => digit_pos d = O) (rev trip).
Proof.
  apply Forall_forall. intros d Hd. apply in_rev in Hd. unfold trip in Hd.
  destruct d as [[o s] p]. apply in_combine_r in Hd. apply repeat_spec in Hd. exact Hd.
Qed.

Lemma prodS_rev_trip : prodS (rev trip) = nchunks_of os'.
Proof.
  unfold nchunks_of.
  assert (G : forall (l : list (nat * Z * nat)) acc, fold_left (fun a (d : nat * Z * nat) => (a * S (fst (fst d)))%nat) l acc = (acc * prodS (rev l))%nat).
  { induction l as [|[[o s] p] l IH]; intros acc; cbn [fold_left rev]; [cbn [prodS]; lia|].
    rewrite IH. cbn [fst].
    assert (P : forall l1 l2, prodS (l1 ++ l2) = (prodS l1 * prodS l2)%nat).
    { induction l1 as [|[[o1 s1] p1] l1 IH1]; intros l2; cbn [app prodS]; [lia|]. rewrite IH1. lia. }
    rewrite P. cbn [prodS]. lia. }
  assert (M : map (fun d : nat * Z * nat => fst (fst d)) trip = os').
  { unfold trip. rewrite <- (map_map fst fst).
    rewrite map_fst_combine by (rewrite combine_length, firstn_length, repeat_length; lia).
    rewrite map_fst_combine by (rewrite firstn_length; lia). reflexivity. }
  assert (H : forall (l : list (nat * Z * nat)) acc, fold_left (fun a (d : nat * Z * nat) => (a * S (fst (fst d)))%nat) l acc =
                           fold_left (fun acc o => (acc * S o)%nat) (map (fun d : nat * Z * nat => fst (fst d)) l) acc).
  { induction l as [|d l IH]; intros acc; cbn [map fold_left]; [reflexivity|apply IH]. }
  rewrite <- M, <- H, G. lia.
Qed.

End Shaped.
End Core.
