From PS Require Import Resource Generated_mem MemModel.
Theorem C19_stub : True. Proof. exact I. Qed.
Print Assumptions C19_stub.
