(* Properties_C19.v — C19: estimateMemory bounds the memory actually requested while loading and convolving.

   Model: MemModel.v (allocator requests of read_fits_core, convolve, ~splinetable, in program order;
   estimateMemory with its arithmetic taken from Generated_mem.v, which tools/translators/mem.py rewrites from
   the source tree on every run).  Trace semantics: Resource.v.  Proof scripts: C19_Proofs.v.
   All statements quantify over every shape: any number of dimensions, any sizes/orders, any number of
   auxiliary keys, any kernel size n >= 1, any dimension. *)
From Coq Require Import NArith List.
From PS Require Import Resource Generated_mem MemModel C19_Proofs.
Import ListNotations.
Open Scope N_scope.

(* The property: the peak of the bytes simultaneously requested from the table's allocator while loading the
   file and performing the declared convolution never exceeds estimateMemory's value. *)
Theorem C19_bound : forall sh n dim, card_limits sh = true -> valid_conv sh n dim = true ->
  peak (read_trace sh ++ convolve_trace sh n dim) <= estimate sh n dim.
Proof. exact bound. Qed.

(* No convolution: estimateMemory(path) = estimateMemory(path, 1, 0) bounds the load alone. *)
Theorem C19_bound_noconv : forall sh, card_limits sh = true -> valid_conv sh 1 0 = true ->
  peak (read_trace sh) <= estimate sh 1 0.
Proof. exact bound_noconv. Qed.

(* Stronger: the estimate also covers the table object itself and leaves more than one KB spare —
   "a fixed-size arena of that size suffices" with room for the object and bookkeeping. *)
Theorem C19_bound_with_slack : forall sh n dim, card_limits sh = true -> valid_conv sh n dim = true ->
  peak (read_trace sh ++ convolve_trace sh n dim) + sizeof_table + KB + 1 <= estimate sh n dim.
Proof. exact bound_with_slack. Qed.

(* The mechanism: convolve releases the old storage before requesting the new, so the peak over load + convolve is
   just what the convolved table holds at the end (nothing transient is ever requested on top). *)
Theorem C19_peak_is_final_state : forall sh n dim, valid_conv sh n dim = true ->
  peak (read_trace sh ++ convolve_trace sh n dim) = live (read_trace sh ++ convolve_trace sh n dim).
Proof. exact peak_is_final_state. Qed.

(* The destructor returns every byte with matching counts (never more than outstanding, nothing left),
   provided no auxiliary value had FITS quotes stripped by the reader. *)
Theorem C19_balanced_after_destroy : forall sh n dim, no_quotes sh = true -> valid_conv sh n dim = true ->
  balanced (life_trace sh n dim) = true.
Proof. exact balanced_after_destroy. Qed.

(* Proof obligations on the code as translated in this run *)
Theorem C19_aux_keys_counted_on_primary_hdu : est_naux_from_primary = true.
Proof. exact naux_primary. Qed.

Theorem C19_estimate_tracks_convolve : forall n d, 1 <= n -> est_dim n d = conv_dim n d.
Proof. exact est_dim_is_conv_dim. Qed.

(* --- the hypotheses are satisfiable on a non-trivial instance (3 dims, mixed orders, 3 keys incl. a HIERARCH
       one and a maximal value, 3-knot kernel in the last dimension), and the quantities are what they should be *)
Example C19_example_hypotheses :
  card_limits ex_shape = true /\ valid_conv ex_shape 3 2 = true /\ valid_conv ex_shape 1 0 = true /\ no_quotes ex_shape = true.
Proof. exact ex_hyps. Qed.

Example C19_example_values :
  peak (read_trace ex_shape ++ convolve_trace ex_shape 3 2) = 3061 /\ estimate ex_shape 3 2 = 5120 /\
  peak (read_trace ex_shape) = 1253 /\ estimate ex_shape 1 0 = 3072.
Proof. exact ex_values. Qed.

(* --- neither hypothesis can be dropped *)
Example C19_card_limits_needed :
  exists sh n dim, valid_conv sh n dim = true /\ estimate sh n dim < peak (read_trace sh ++ convolve_trace sh n dim).
Proof. exact card_limits_needed. Qed.

Example C19_consistent_dim_needed :
  exists sh, card_limits sh = true /\ estimate sh 1 0 < peak (read_trace sh).
Proof. exact consistent_dim_needed. Qed.

(* --- history: the estimate of the tree before `fix: estimateMemory counts the auxiliary keys of the primary HDU'
       (naux taken from the last KNOTS extension) does NOT bound the peak.  Witness replayed on the real code
       (corpus/C19/aux_keys_wrong_hdu.json): estimate 2048, measured peak 5092. *)
Example C19_bound_refuted_before_fix :
  exists sh n dim, card_limits sh = true /\ valid_conv sh n dim = true /\
     estimate_before_fix sh n dim < peak (read_trace sh ++ convolve_trace sh n dim).
Proof. exact bound_refuted_before_fix. Qed.

(* --- values stored without their FITS quotes used to be freed with a smaller byte count than they were allocated with
       (C20's finding, fixed in /repo: the value block is now requested with the stored length); the model follows the
       fixed reader, and a quoted value is returned byte for byte *)
Example C19_destroy_returns_quoted_values :
  exists sh, card_limits sh = true /\ valid_conv sh 1 0 = true /\ no_quotes sh = false /\ live (life_trace sh 1 0) = 0.
Proof. exact destroy_returns_quoted_values. Qed.

Print Assumptions C19_bound.
Print Assumptions C19_bound_noconv.
Print Assumptions C19_bound_with_slack.
Print Assumptions C19_peak_is_final_state.
Print Assumptions C19_balanced_after_destroy.
Print Assumptions C19_aux_keys_counted_on_primary_hdu.
Print Assumptions C19_estimate_tracks_convolve.
