From Coq Require Import List String Ascii NArith ZArith Bool Arith.
From PS Require Import AuxModel Generated_aux C16_Proofs.
Theorem C16_translation_ok : gen_translation_ok = true. Proof. exact translation_ok. Qed.
Print Assumptions C16_translation_ok.
