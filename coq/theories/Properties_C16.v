(* Properties_C16.v — C16: auxiliary keys behave as an ordered string map that survives serialisation.
   Statements only; proofs are in C16_Proofs.v. [gen_params] is what tools/translators/aux.py read from the
   library's current working tree (reserved keyword lists, limits, which checks are present); [upstream_params]
   is the pinned original code. The model (AuxModel.v) is tied to the code by the correspondence check. *)
From Coq Require Import List String Ascii NArith ZArith Bool Arith.
From PS Require Import AuxModel Generated_aux C16_Proofs.
Import ListNotations.
Open Scope string_scope.

(* the translator recognised every transcribed function of the current tree, and the parameters it read satisfy
   what the round-trip theorem needs (limits 8/68/80/13, long keys <= 66, blank / quote / printable checks present,
   COMMENT, HISTORY, END, CONTINUE and the blank keyword reserved) *)
Theorem C16_translation_ok : gen_translation_ok = true /\ params_sound gen_params = true /\ prelude_ok gen_params harness_prelude = true.
Proof. exact (conj translation_ok (conj gen_params_sound harness_prelude_ok)). Qed.

(* Refinement: for every operation list (writes of strings and ints, removals, lookups, typed reads, indexed key
   access, count), run from any store without duplicate keys, the outputs equal those of the abstract
   insertion-ordered map op by op, and the final store abstracts to the final abstract state (same key order,
   same lookup function); no duplicate key ever appears. *)
Theorem C16_refines_ordered_map : forall p ops s a, NoDup (map fst s) -> agrees s a ->
  snd (run p s ops) = snd (a_run p a ops) /\ agrees (fst (run p s ops)) (fst (a_run p a ops)) /\ NoDup (map fst (fst (run p s ops))).
Proof. exact run_refines. Qed.

Corollary C16_refines_from_empty : forall ops,
  snd (run gen_params [] ops) = snd (a_run gen_params a_empty ops) /\
  agrees (fst (run gen_params [] ops)) (fst (a_run gen_params a_empty ops)).
Proof.
  intros ops. destruct (run_refines gen_params ops [] a_empty (NoDup_nil _) (conj eq_refl (fun _ => eq_refl))) as (H1 & H2 & _). now split.
Qed.

(* what the abstract map's operations are: lookup returns the latest stored value, other keys are untouched, a new
   key goes to the end of the order and an overwritten one keeps its place; removal deletes exactly that key and
   keeps the order of the rest *)
Theorem C16_spec_put : forall k v a k2,
  (a_put k v a).(a_map) k2 = (if String.eqb k2 k then Some v else a.(a_map) k2) /\
  (a_put k v a).(a_order) = (if a_present k a then a.(a_order) else a.(a_order) ++ [k])%list.
Proof. intros; split; [apply a_put_lookup | apply a_put_order]. Qed.
Theorem C16_spec_del : forall k a k2,
  (a_del k a).(a_map) k2 = (if String.eqb k2 k then None else a.(a_map) k2) /\
  (a_del k a).(a_order) = filter (fun k' => negb (String.eqb k' k)) a.(a_order).
Proof. intros; split; [apply a_del_lookup | apply a_del_order]. Qed.

(* Rejection (reserved keyword, malformed key, non-printable or over-long value) leaves the store unchanged, and
   a write is rejected exactly when [accepts] is false. *)
Theorem C16_reject_no_change : forall p k v s s' e, write_key p k v s = (s', W_rejected e) -> s' = s.
Proof. exact reject_no_change. Qed.
Theorem C16_rejected_iff : forall p k v s, accepts p k v = true <-> (forall e, snd (write_key p k v s) <> W_rejected e).
Proof. exact accepts_iff_not_rejected. Qed.

(* Typed read-back. The decimal text of every integer parses back to it (also when followed by anything that is
   not a digit, e.g. the blanks a FITS round trip appends); an accepted int that fits the C type is read back
   exactly; an accepted string is read back exactly. *)
Theorem C16_print_parse_int : forall z rest, stops rest -> parse_Z (print_Z z ++ rest) = Some z.
Proof. exact parse_print_Z. Qed.
Theorem C16_typed_read : forall p k z s, accepts p k (print_Z z) = true -> (int_min <= z <= int_max)%Z ->
  read_int k (fst (write_int p k z s)) = Some z.
Proof. exact typed_read_int. Qed.
Theorem C16_typed_read_string : forall p k v s, accepts p k v = true -> read_str k (fst (write_key p k v s)) = Some v.
Proof. exact typed_read_str. Qed.

(* Survival of a FITS round trip: a store all of whose entries were accepted is written without error and read
   back with the same keys in the same order and every value intact up to trailing blanks. Stores built by any
   operation list from the empty store consist of accepted entries. *)
Theorem C16_survives_roundtrip : forall prelude s, prelude_ok gen_params prelude = true -> all_accepted gen_params s ->
  exists s', roundtrip gen_params prelude s = Some s' /\ same_up_to_blanks s s' /\ all_accepted gen_params s'.
Proof. intros prelude s. apply survives_roundtrip. exact gen_params_sound. Qed.
(* ... so operations and round trips can be interleaved: after a round trip the store again consists of accepted
   entries (and has the same keys, hence no duplicates), and stays so under every further operation list *)
Theorem C16_accepted_preserved : forall ops s, all_accepted gen_params s -> all_accepted gen_params (fst (run gen_params s ops)).
Proof. intros ops s. apply run_accepted. Qed.
Theorem C16_roundtrip_lookup : forall s s' k, same_up_to_blanks s s' ->
  map fst s' = map fst s /\
  match get k s with
  | Some v => exists v', get k s' = Some v' /\ rstrip v' = rstrip v
  | None => get k s' = None
  end.
Proof. intros s s' k H. split; [now apply same_keys | now apply same_get]. Qed.
Theorem C16_reachable_accepted : forall ops, all_accepted gen_params (fst (run gen_params [] ops)).
Proof. intros ops. apply run_accepted. apply all_accepted_nil. Qed.

(* The pinned upstream code does not have the property (faithful model with the upstream parameters; each witness
   is replayed on the real code by corpus/C16): *)
Theorem C16_survives_roundtrip_refuted_quote :
  accepts upstream_params "AB" "it's" = true /\
  roundtrip upstream_params harness_prelude [("AB", "it's")] = Some [("AB", "it''s   ")].
Proof. exact upstream_quote_doubled. Qed.
Theorem C16_survives_roundtrip_refuted_END :
  accepts upstream_params "END" "x" = true /\
  roundtrip upstream_params harness_prelude [("A", "before"); ("END", "x"); ("B", "after")] = Some [("A", "before  ")].
Proof. exact upstream_END_drops_entries. Qed.
Theorem C16_survives_roundtrip_refuted_commentary :
  accepts upstream_params "HISTORY" "h" = true /\ accepts upstream_params "CONTINUE" "c" = true /\ accepts upstream_params "" "b" = true /\
  roundtrip upstream_params harness_prelude [("HISTORY", "h"); ("CONTINUE", "c"); ("", "b")] = Some [("HISTORY", ""); ("CONTINUE", ""); ("", "")].
Proof. exact upstream_commentary_value_lost. Qed.
Theorem C16_survives_roundtrip_refuted_long_key :
  let k := repeat_char "K"%char 68 in
  accepts upstream_params k (repeat_char "x"%char 200) = true /\ roundtrip upstream_params harness_prelude [(k, "1.5")] = None.
Proof. exact upstream_long_key_wraps. Qed.
Theorem C16_survives_roundtrip_refuted_renamed :
  accepts upstream_params "HIERARCH ABC DEF" "v" = true /\
  roundtrip upstream_params harness_prelude [("HIERARCH ABC DEF", "v"); (" LEADING SPACE", "w")] = Some [("ABC DEF", "v       "); ("LEADING SPACE", "w       ")].
Proof. exact upstream_long_key_renamed. Qed.
Theorem C16_fixed_rejects_witnesses :
  accepts gen_params "END" "x" = false /\ accepts gen_params "HISTORY" "h" = false /\ accepts gen_params "CONTINUE" "c" = false /\
  accepts gen_params "" "b" = false /\ accepts gen_params "PCOUNT" "0" = false /\ accepts gen_params "GCOUNT" "1" = false /\
  accepts gen_params "EXTNAME" "KNOTS0" = false /\ accepts gen_params "HDUNAME" "EXTENTS" = false /\ accepts gen_params "EXTNAMES" "KNOTS0" = true /\
  accepts gen_params (repeat_char "K"%char 68) "1.5" = false /\ accepts gen_params (repeat_char "K"%char 67) "" = false /\
  accepts gen_params "HIERARCH ABC DEF" "v" = false /\ accepts gen_params " LEADING SPACE" "w" = false /\
  accepts gen_params "Q" (repeat_char quote 40) = false /\
  roundtrip gen_params harness_prelude [("AB", "it's")] = Some [("AB", "it's   ")].
Proof. exact fixed_rejects_witnesses. Qed.

(* the hypotheses are satisfiable on a non-trivial instance: a store built by writes, an overwrite and a removal,
   all accepted, with a short key, a HIERARCH key, a quote and an int; it survives the round trip *)
Example C16_example_ops :
  let ops := [OWrite "GEOTYPE" "it's"; OWriteInt "LEVEL" (-42); OWrite "A VERY LONG KEY" "v"; OWrite "GEOTYPE" "x'y";
              OWrite "END" "no"; ORemove "LEVEL"; OWriteInt "N" 2147483647; OReadInt "N"; OGet "GEOTYPE"] in
  run gen_params [] ops =
    ([("GEOTYPE", "x'y"); ("A VERY LONG KEY", "v"); ("N", "2147483647")],
     [RWrite W_appended; RWrite W_appended; RWrite W_appended; RWrite W_overwritten; RWrite (W_rejected E_reserved);
      RBool true; RWrite W_appended; RInt (Some 2147483647%Z); RStr (Some "x'y")]) /\
  roundtrip gen_params harness_prelude (fst (run gen_params [] ops)) =
    Some [("GEOTYPE", "x'y    "); ("A VERY LONG KEY", "v       "); ("N", "2147483647")].
Proof. split; vm_compute; reflexivity. Qed.
Example C16_example_accepts : accepts gen_params "LEVEL" (print_Z (-42)) = true /\ (int_min <= -42 <= int_max)%Z /\ stops "   ".
Proof. repeat split; vm_compute; congruence. Qed.

Print Assumptions C16_translation_ok.
Print Assumptions C16_refines_ordered_map.
Print Assumptions C16_refines_from_empty.
Print Assumptions C16_spec_put.
Print Assumptions C16_spec_del.
Print Assumptions C16_reject_no_change.
Print Assumptions C16_rejected_iff.
Print Assumptions C16_print_parse_int.
Print Assumptions C16_typed_read.
Print Assumptions C16_typed_read_string.
Print Assumptions C16_survives_roundtrip.
Print Assumptions C16_accepted_preserved.
Print Assumptions C16_roundtrip_lookup.
Print Assumptions C16_reachable_accepted.
Print Assumptions C16_survives_roundtrip_refuted_quote.
Print Assumptions C16_survives_roundtrip_refuted_END.
Print Assumptions C16_survives_roundtrip_refuted_commentary.
Print Assumptions C16_survives_roundtrip_refuted_long_key.
Print Assumptions C16_survives_roundtrip_refuted_renamed.
Print Assumptions C16_fixed_rejects_witnesses.
