(* C07_Checks.v — the vocabulary of consistency checks that read_fits_core may perform before it hands out a table (property C07).
   Definitions only. tools/translators/readchecks.py regenerates Generated_readchecks.v (the list of checks actually present in
   include/photospline/detail/fitsio.h, in program order) in terms of this type; C07_Model.v gives each check its meaning.
   Conditions already modelled inside FitsModel.of_doc (status tests, NAXIS < 1, NAXISn < 0, NAXIS1 <= 0 of a knot vector) are not
   listed here: the translator only verifies that they are still present. *)
From Coq Require Import NArith.

Inductive rcheck :=
| CkAxisPositive                    (* if(naxes_temp[i]<=0) throw                                   — every coefficient axis has length >= 1 *)
| CkKnotsEnough (m b : N)           (* if(uint64_t(nknots_temp) < m*uint64_t(order[i])+b) throw       — needed: m = 2, b = 2 *)
| CkAxesMatch (j : N)               (* if(naxes[i] != uint64_t(nknots_temp)-order[i]-j) throw       — needed: j = 1 (uint64 arithmetic) *)
| CkKnotsFinite                     (* if(!std::isfinite(knots[i][k])) throw *)
| CkKnotsSorted.                    (* if(knots[i][k] < knots[i][k-1]) throw   (k >= 1) *)

Definition rcheck_eqb (a b : rcheck) : bool :=
  match a, b with
  | CkAxisPositive, CkAxisPositive => true
  | CkKnotsEnough m1 b1, CkKnotsEnough m2 b2 => N.eqb m1 m2 && N.eqb b1 b2
  | CkAxesMatch j1, CkAxesMatch j2 => N.eqb j1 j2
  | CkKnotsFinite, CkKnotsFinite => true
  | CkKnotsSorted, CkKnotsSorted => true
  | _, _ => false
  end.
