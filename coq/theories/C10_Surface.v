(* C10_Surface.v — non-decreasing coefficients along a dimension => the derivative along that dimension, given by de Boor's
   derivative formula, is >= 0 on the fully supported region. Over any ordered field, any number of dimensions.
     * Bfun_nonneg: Cox-de Boor functions are non-negative (induction on the order; the weights of the recurrence are
       in [0,1] on the supporting pieces, the other terms vanish by local support);
     * abel: summation by parts;  dB_{i,n} = g_i - g_{i+1} with g_i = n B_{i,n-1}/(t_{i+n} - t_i) >= 0, and g_0 = g_N = 0 on
       full support (boundary terms vanish);
     * tensor_sum is additive and homogeneous, so the dimensions before/after the differentiated one only contribute
       non-negative factors. *)
From Coq Require Import ZArith List Bool Lia Field Ring.
From PS Require Import Arith EvalModel BSpline OFieldKit C04_Proofs C01_Basis C01_Proofs C02_Basis.
Import ListNotations.
Local Open Scope Z_scope.

Section Surface.
Context {A : Arith}.
Variable F : OField A.
Notation K := (T A).
Add Field KfieldC10s : (OFth F).
Notation le := (@OFieldKit.le A).
Notation lt := (@OFieldKit.lt A).

(* ---- order kit ------------------------------------------------------------------------------------------- *)
Lemma le0_add (a b : K) : le zero a -> le zero b -> le zero (add a b).
Proof.
  intros Ha Hb. apply (OFieldKit.le_trans F _ b); [exact Hb|].
  pose proof (OF_add_le A F zero a b Ha) as H. replace (add zero b) with b in H by ring. exact H.
Qed.
Lemma le0_mul (a b : K) : le zero a -> le zero b -> le zero (mul a b).
Proof. apply (OF_mul_pos A F). Qed.
Lemma le_sub0 (a b : K) : le a b -> le zero (sub b a).
Proof.
  intro H. pose proof (OF_add_le A F a b (opp a) H) as H1.
  replace (add a (opp a)) with (@zero A) in H1 by ring. replace (add b (opp a)) with (sub b a) in H1 by ring. exact H1.
Qed.
Lemma le0_one : le zero (@one A).
Proof.
  destruct (OFieldKit.le_total F zero one) as [H|H]; [exact H|].
  assert (H1 : le zero (opp (@one A))).
  { pose proof (le_sub0 one zero H) as H2. replace (sub zero one) with (opp (@one A)) in H2 by ring. exact H2. }
  pose proof (OF_mul_pos A F _ _ H1 H1) as H3. replace (mul (opp one) (opp one)) with (@one A) in H3 by ring. exact H3.
Qed.
Lemma one_neq_zero : @one A <> zero.
Proof. destruct (OF_field A F) as [_ H _ _]. exact H. Qed.
Lemma inv_nonneg (b : K) : lt zero b -> le zero (div one b).
Proof.
  intro Hb. assert (Nb : b <> zero) by (intro E; subst; exact (OFieldKit.lt_irrefl F _ Hb)).
  destruct (OFieldKit.le_total F zero (div one b)) as [H|H]; [exact H|]. exfalso.
  assert (H1 : le zero (opp (div one b))).
  { pose proof (le_sub0 _ _ H) as H2. replace (sub zero (div one b)) with (opp (div one b)) in H2 by ring. exact H2. }
  pose proof (OF_mul_pos A F _ _ (OFieldKit.lt_le F _ _ Hb) H1) as H3.
  replace (mul b (opp (div one b))) with (opp (@one A)) in H3 by (field; exact Nb).
  pose proof (OF_add_le A F _ _ one H3) as H4.
  replace (add zero one) with (@one A) in H4 by ring. replace (add (opp one) one) with (@zero A) in H4 by ring.
  apply one_neq_zero. apply (OFieldKit.le_antisym F); [exact H4 | exact le0_one].
Qed.
Lemma wdiv_nonneg (a b : K) : le zero a -> le zero b -> le zero (wdiv a b).
Proof.
  intros Ha Hb. unfold wdiv. destruct (eqbK b zero) eqn:E; [apply (OFieldKit.le_refl F)|].
  assert (Nb : b <> zero) by (intro H; apply (OFieldKit.eqbK_true F) in H; congruence).
  assert (Lb : lt zero b).
  { apply (OFieldKit.lt_iff_nle F). destruct (leb b zero) eqn:E2; [|reflexivity]. exfalso. apply Nb. apply (OFieldKit.le_antisym F); assumption. }
  replace (div a b) with (mul a (div one b)) by (field; exact Nb).
  apply le0_mul; [exact Ha|apply inv_nonneg; exact Lb].
Qed.

(* ---- sums ------------------------------------------------------------------------------------------------ *)
Lemma sum_range_nonneg (f : Z -> K) : forall n a, (forall i, a <= i < a + Z.of_nat n -> le zero (f i)) -> le zero (sum_range f a n).
Proof.
  induction n as [|n IH]; intros a H; cbn [sum_range]; [apply (OFieldKit.le_refl F)|].
  apply le0_add; [apply H; lia|]. apply IH. intros i Hi. apply H. lia.
Qed.
Lemma sum_range_sub (G f h : Z -> K) : forall n a, (forall i, a <= i < a + Z.of_nat n -> G i = sub (f i) (h i)) ->
  sum_range G a n = sub (sum_range f a n) (sum_range h a n).
Proof.
  induction n as [|n IH]; intros a H; cbn [sum_range]; [ring|].
  rewrite H by lia. rewrite (IH (a + 1)) by (intros i Hi; apply H; lia). ring.
Qed.
Lemma sum_range_scale (G f : Z -> K) (b : K) : forall n a, (forall i, a <= i < a + Z.of_nat n -> G i = mul b (f i)) ->
  sum_range G a n = mul b (sum_range f a n).
Proof.
  induction n as [|n IH]; intros a H; cbn [sum_range]; [ring|].
  rewrite H by lia. rewrite (IH (a + 1)) by (intros i Hi; apply H; lia). ring.
Qed.

(* summation by parts *)
Lemma abel (c g : Z -> K) : forall m a,
  sum_range (fun i => mul (sub (g i) (g (i + 1))) (c i)) a (S m) =
  add (sub (mul (g a) (c a)) (mul (g (a + Z.of_nat m + 1)) (c (a + Z.of_nat m))))
      (sum_range (fun i => mul (g (i + 1)) (sub (c (i + 1)) (c i))) a m).
Proof.
  induction m as [|m IH]; intro a.
  - cbn [sum_range]. replace (a + Z.of_nat 0 + 1) with (a + 1) by lia. replace (a + Z.of_nat 0) with a by lia. ring.
  - change (sum_range (fun i => mul (sub (g i) (g (i + 1))) (c i)) a (S (S m)))
      with (add (mul (sub (g a) (g (a + 1))) (c a)) (sum_range (fun i => mul (sub (g i) (g (i + 1))) (c i)) (a + 1) (S m))).
    rewrite (IH (a + 1)).
    change (sum_range (fun i => mul (g (i + 1)) (sub (c (i + 1)) (c i))) a (S m))
      with (add (mul (g (a + 1)) (sub (c (a + 1)) (c a))) (sum_range (fun i => mul (g (i + 1)) (sub (c (i + 1)) (c i))) (a + 1) m)).
    replace (a + 1 + Z.of_nat m + 1) with (a + Z.of_nat (S m) + 1) by lia.
    replace (a + 1 + Z.of_nat m) with (a + Z.of_nat (S m)) by lia. ring.
Qed.

(* ---- one dimension ---------------------------------------------------------------------------------------- *)
Section OneDim.
Variable kn : Z -> K.
Variable nknots : Z.
Hypothesis Hmono : forall i j, 0 <= i -> i <= j -> j < nknots -> le (kn i) (kn j).
Variable side : bool.
Variable l : Z.
Variable x : K.
Hypothesis Hl0 : 0 <= l.
Hypothesis Hl1 : l + 1 < nknots.
Hypothesis Hpiece : in_piece kn side l x.

Lemma piece_lo : le (kn l) x.
Proof using F Hpiece. destruct side; destruct Hpiece as [H1 H2]; [exact H1|apply (OFieldKit.lt_le F); exact H1]. Qed.
Lemma piece_hi : le x (kn (l + 1)).
Proof using F Hpiece. destruct side; destruct Hpiece as [H1 H2]; [apply (OFieldKit.lt_le F); exact H2|exact H2]. Qed.

(* B-splines are non-negative *)
Lemma Bfun_nonneg : forall n i, 0 <= i -> i + Z.of_nat n + 1 < nknots -> le zero (Bfun kn side n i x).
Proof using F Hmono Hl0 Hl1 Hpiece.
  induction n as [|n IH]; intros i Hi0 Hi1.
  - cbn [Bfun]. unfold B0.
    destruct side; [destruct (leb (kn i) x && ltb x (kn (i + 1)))|destruct (ltb (kn i) x && leb x (kn (i + 1)))];
      first [apply le0_one | apply (OFieldKit.le_refl F)].
  - cbn [Bfun]. apply le0_add.
    + destruct (Z_le_gt_dec i l) as [Hil|Hil].
      * apply le0_mul; [|apply IH; lia]. apply wdiv_nonneg.
        -- apply le_sub0. apply (OFieldKit.le_trans F _ (kn l)); [apply Hmono; lia | exact piece_lo].
        -- apply le_sub0. apply Hmono; lia.
      * rewrite (Bfun_support F kn nknots Hmono side l x Hl0 Hl1 Hpiece n i) by lia. rewrite (OFieldKit.mul_zero_r F). apply (OFieldKit.le_refl F).
    + destruct (Z_le_gt_dec l (i + Z.of_nat (S n))) as [Hil|Hil].
      * apply le0_mul; [|apply IH; lia]. apply wdiv_nonneg.
        -- apply le_sub0. apply (OFieldKit.le_trans F _ (kn (l + 1))); [exact piece_hi | apply Hmono; lia].
        -- apply le_sub0. apply Hmono; lia.
      * rewrite (Bfun_support F kn nknots Hmono side l x Hl0 Hl1 Hpiece n (i + 1)) by lia. rewrite (OFieldKit.mul_zero_r F). apply (OFieldKit.le_refl F).
Qed.

(* the derivative formula as a difference, order n = S n1 *)
Variable n1 : nat.
Notation n := (S n1).
Hypothesis HofZ : le zero (ofZ (Z.of_nat n)).
Hypothesis Hfull0 : Z.of_nat n <= l.
Hypothesis Hfull1 : l + Z.of_nat n + 1 < nknots.

Definition gfun (i : Z) : K := mul (ofZ (Z.of_nat n)) (wdiv (Bfun kn side n1 i x) (sub (kn (i + Z.of_nat n)) (kn i))).

Lemma dB_g i : dBfun kn side 1 n i x = sub (gfun i) (gfun (i + 1)).
Proof using All.
  unfold gfun. cbn [dBfun]. replace (i + 1 + Z.of_nat n) with (i + Z.of_nat n + 1) by lia. ring.
Qed.
Lemma g_nonneg i : 0 <= i -> i + Z.of_nat n < nknots -> le zero (gfun i).
Proof using All.
  intros Hi0 Hi1. unfold gfun. apply le0_mul; [exact HofZ|]. apply wdiv_nonneg.
  - apply Bfun_nonneg; lia.
  - apply le_sub0. apply Hmono; lia.
Qed.
Lemma g_lo : gfun 0 = zero.
Proof using All.
  unfold gfun. rewrite (Bfun_support F kn nknots Hmono side l x Hl0 Hl1 Hpiece n1 0) by lia.
  rewrite (wdiv_zero_num F). ring.
Qed.
Lemma g_hi : gfun (nknots - Z.of_nat n - 1) = zero.
Proof using All.
  unfold gfun. rewrite (Bfun_support F kn nknots Hmono side l x Hl0 Hl1 Hpiece n1 (nknots - Z.of_nat n - 1)) by lia.
  rewrite (wdiv_zero_num F). ring.
Qed.

(* one dimension: sum_i dB_i c_i >= 0 for non-decreasing c (N = nknots - n - 1 coefficients) *)
Lemma deriv_sum_nonneg (c : Z -> K) :
  (forall i, 0 <= i -> i + 1 < nknots - Z.of_nat n - 1 -> le (c i) (c (i + 1))) ->
  le zero (sum_range (fun i => mul (dBfun kn side 1 n i x) (c i)) 0 (Z.to_nat (nknots - Z.of_nat n - 1))).
Proof using All.
  intro Hc. set (N := nknots - Z.of_nat n - 1).
  assert (HN : Z.to_nat N = S (Z.to_nat (N - 1))) by (subst N; lia).
  rewrite HN. set (m := Z.to_nat (N - 1)).
  rewrite (sum_range_ext _ (fun i => mul (sub (gfun i) (gfun (i + 1))) (c i))) by (intros i Hi; rewrite dB_g; reflexivity).
  rewrite abel. rewrite g_lo.
  replace (0 + Z.of_nat m + 1) with (nknots - Z.of_nat n - 1) by (subst m N; lia). rewrite g_hi.
  apply le0_add.
  - replace (sub (mul zero (c 0)) (mul zero (c (0 + Z.of_nat m)))) with (@zero A) by ring. apply (OFieldKit.le_refl F).
  - apply sum_range_nonneg. intros i Hi. apply le0_mul.
    + apply g_nonneg; subst m N; lia.
    + apply le_sub0. apply Hc; subst m N; lia.
Qed.
End OneDim.

(* ---- all dimensions --------------------------------------------------------------------------------------- *)
Variable cf : Z -> K.
Let anyord : K -> Prop := fun _ => True.

Fixpoint offs (ds : list (@dimn A)) (m : list Z) : Z :=
  match ds, m with d :: ds', i :: m' => i * d_stride d + offs ds' m' | _, _ => 0 end.
Definition inbox (ds : list (@dimn A)) (m : list Z) : Prop := Forall2 (fun d i => 0 <= i < d_naxes d) ds m.
(* x lies in a (non-empty) knot interval l of the fully supported range of d: order <= l <= naxes-1 *)
Definition in_full_support (d : @dimn A) (x : K) : Prop :=
  wf_dim anyord d /\
  exists l, Z.of_nat (d_order d) <= l <= d_naxes d - 1 /\ in_piece (d_kn d) (side_of d x) l x.
Definition dflt_dim : @dimn A := mkDim O 0 0 0 (fun _ => zero).
Definition zeros_k (ds : list (@dimn A)) : list nat := repeat O (length ds).
Fixpoint unitv (j n : nat) : list nat :=
  match n with
  | O => []
  | S n' => match j with O => 1%nat :: repeat O n' | S j' => O :: unitv j' n' end
  end.
(* coefficients non-decreasing along dimension j (multi-indices m of the box, flat position pos + sum m_e stride_e) *)
Definition mono_along (cfn : Z -> K) (ds : list (@dimn A)) (j : nat) (pos : Z) : Prop :=
  forall m, inbox ds m -> nth j m 0 + 1 < d_naxes (nth j ds dflt_dim) ->
    le (cfn (pos + offs ds m)) (cfn (pos + offs ds m + d_stride (nth j ds dflt_dim))).

Lemma basis_nonneg (d : @dimn A) (x : K) i : in_full_support d x -> 0 <= i < d_naxes d ->
  le zero (Bfun (d_kn d) (side_of d x) (d_order d) i x).
Proof.
  intros [[W1 [W2 [_ W4]]] [l [Hl Hp]]] Hi.
  apply (Bfun_nonneg (d_kn d) (d_nknots d) W4 (side_of d x) l x); try lia. exact Hp.
Qed.

Lemma tensor_nonneg : forall ds xs, Forall2 in_full_support ds xs -> forall (cfn : Z -> K) pos pr, le zero pr ->
  (forall m, inbox ds m -> le zero (cfn (pos + offs ds m))) ->
  le zero (tensor_sum cfn ds xs (zeros_k ds) pos pr).
Proof.
  induction 1 as [|d x ds xs Hd Hds IH]; intros cfn pos pr Hpr Hc.
  - cbn [tensor_sum zeros_k]. apply le0_mul; [exact Hpr|]. specialize (Hc [] (Forall2_nil _)). cbn [offs] in Hc.
    replace (pos + 0) with pos in Hc by lia. exact Hc.
  - unfold zeros_k. cbn [length repeat tensor_sum]. fold (zeros_k ds).
    apply sum_range_nonneg. intros i Hi. cbv zeta. cbn [dBfun].
    destruct (eqbK (Bfun (d_kn d) (side_of d x) (d_order d) i x) zero); [apply (OFieldKit.le_refl F)|].
    assert (Hi' : 0 <= i < d_naxes d) by (destruct Hd as [[W1 [W2 _]] _]; lia).
    apply IH.
    + apply le0_mul; [exact Hpr|]. apply basis_nonneg; assumption.
    + intros m Hm. specialize (Hc (i :: m) (Forall2_cons _ _ Hi' Hm)). cbn [offs] in Hc.
      replace (pos + i * d_stride d + offs ds m) with (pos + (i * d_stride d + offs ds m)) by lia. exact Hc.
Qed.

Lemma tensor_diff (s : Z) : forall ds xs ks pos pr,
  tensor_sum (fun p => sub (cf (p + s)) (cf p)) ds xs ks pos pr =
  sub (tensor_sum cf ds xs ks (pos + s) pr) (tensor_sum cf ds xs ks pos pr).
Proof.
  induction ds as [|d ds IH]; intros xs ks pos pr; [cbn [tensor_sum]; ring|].
  destruct xs as [|x xs]; [cbn [tensor_sum]; ring|]. destruct ks as [|k ks]; [cbn [tensor_sum]; ring|].
  cbn [tensor_sum]. apply sum_range_sub. intros i Hi. cbv zeta.
  destruct (eqbK (dBfun (d_kn d) (side_of d x) k (d_order d) i x) zero); [ring|].
  rewrite IH. replace (pos + i * d_stride d + s) with (pos + s + i * d_stride d) by lia. reflexivity.
Qed.

Lemma tensor_scale (b : K) : forall ds xs ks pos pr,
  tensor_sum cf ds xs ks pos (mul pr b) = mul b (tensor_sum cf ds xs ks pos pr).
Proof.
  induction ds as [|d ds IH]; intros xs ks pos pr; [cbn [tensor_sum]; ring|].
  destruct xs as [|x xs]; [cbn [tensor_sum]; ring|]. destruct ks as [|k ks]; [cbn [tensor_sum]; ring|].
  cbn [tensor_sum]. apply sum_range_scale. intros i Hi. cbv zeta.
  destruct (eqbK (dBfun (d_kn d) (side_of d x) k (d_order d) i x) zero); [ring|].
  replace (mul (mul pr b) (dBfun (d_kn d) (side_of d x) k (d_order d) i x))
    with (mul (mul pr (dBfun (d_kn d) (side_of d x) k (d_order d) i x)) b) by ring.
  apply IH.
Qed.

Hypothesis HofZ : forall z, 0 <= z -> le zero (@ofZ A z).

Theorem coeff_monotone_implies_surface : forall ds xs, Forall2 in_full_support ds xs -> forall j pos pr,
  (j < length ds)%nat -> le zero pr -> mono_along cf ds j pos ->
  le zero (tensor_sum cf ds xs (unitv j (length ds)) pos pr).
Proof.
  induction 1 as [|d x ds xs Hd Hds IH]; intros j pos pr Hj Hpr Hm; cbn [length] in Hj; [lia|].
  destruct j as [|j].
  - (* the differentiated dimension *)
    cbn [length unitv tensor_sum]. fold (zeros_k ds).
    set (c := fun i => tensor_sum cf ds xs (zeros_k ds) (pos + i * d_stride d) pr).
    rewrite (sum_range_ext _ (fun i => mul (dBfun (d_kn d) (side_of d x) 1 (d_order d) i x) (c i))).
    2:{ intros i Hi. cbv zeta. destruct (eqbK (dBfun (d_kn d) (side_of d x) 1 (d_order d) i x) zero) eqn:E.
        - apply (OFieldKit.eqbK_true F) in E. rewrite E. ring.
        - unfold c. apply tensor_scale. }
    destruct Hd as [[W1 [W2 [W3 W4]]] [l [Hl Hp]]].
    assert (Hcmono : forall i, 0 <= i -> i + 1 < d_naxes d -> le (c i) (c (i + 1))).
    { intros i Hi0 Hi1. unfold c.
      assert (D : le zero (sub (tensor_sum cf ds xs (zeros_k ds) (pos + i * d_stride d + d_stride d) pr)
                               (tensor_sum cf ds xs (zeros_k ds) (pos + i * d_stride d) pr))).
      { rewrite <- tensor_diff. apply tensor_nonneg; [exact Hds|exact Hpr|].
        intros m Hbox. apply le_sub0.
        assert (Hi' : 0 <= i < d_naxes d) by lia.
        specialize (Hm (i :: m) (Forall2_cons _ _ Hi' Hbox)). cbn [nth offs] in Hm.
        specialize (Hm Hi1).
        replace (pos + i * d_stride d + offs ds m) with (pos + (i * d_stride d + offs ds m)) by lia.
        replace (pos + i * d_stride d + offs ds m + d_stride d) with (pos + (i * d_stride d + offs ds m) + d_stride d) by lia.
        exact Hm. }
      replace (pos + (i + 1) * d_stride d) with (pos + i * d_stride d + d_stride d) by lia.
      pose proof (OF_add_le A F _ _ (tensor_sum cf ds xs (zeros_k ds) (pos + i * d_stride d) pr) D) as D2.
      match type of D2 with leb ?u ?v = true => replace u with (tensor_sum cf ds xs (zeros_k ds) (pos + i * d_stride d) pr) in D2 by ring;
                                                 replace v with (tensor_sum cf ds xs (zeros_k ds) (pos + i * d_stride d + d_stride d) pr) in D2 by ring end.
      exact D2. }
    destruct (d_order d) as [|n1] eqn:Eo.
    + (* order 0: the derivative formula is identically zero *)
      rewrite (sum_range_zero F) by (intros i Hi; cbn [dBfun]; ring). apply (OFieldKit.le_refl F).
    + rewrite W2.
      assert (A1 : 0 <= l) by lia. assert (A2 : l + 1 < d_nknots d) by lia.
      assert (A3 : Z.of_nat (S n1) <= l) by lia. assert (A4 : l + Z.of_nat (S n1) + 1 < d_nknots d) by lia.
      assert (A5 : le zero (@ofZ A (Z.of_nat (S n1)))) by (apply HofZ; lia).
      apply (deriv_sum_nonneg (d_kn d) (d_nknots d) W4 (side_of d x) l x A1 A2 Hp n1 A5 A3 A4 c).
      intros i Hi0 Hi1. apply Hcmono; lia.
  - (* a dimension before it: non-negative basis factor *)
    cbn [length unitv tensor_sum].
    apply sum_range_nonneg. intros i Hi. cbv zeta. cbn [dBfun].
    destruct (eqbK (Bfun (d_kn d) (side_of d x) (d_order d) i x) zero); [apply (OFieldKit.le_refl F)|].
    assert (Hi' : 0 <= i < d_naxes d) by (destruct Hd as [[W1 [W2 _]] _]; lia).
    apply IH; [lia| |].
    + apply le0_mul; [exact Hpr|]. apply basis_nonneg; assumption.
    + intros m Hbox Hn. specialize (Hm (i :: m) (Forall2_cons _ _ Hi' Hbox)). cbn [nth offs] in Hm. specialize (Hm Hn).
      replace (pos + i * d_stride d + offs ds m) with (pos + (i * d_stride d + offs ds m)) by lia. exact Hm.
Qed.

End Surface.
