(* placeholder, filled below *)
