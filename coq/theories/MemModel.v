(* MemModel.v — executable model of the allocator requests of the FITS reader, of convolve, of the destructor,
   and of splinetable::estimateMemory.  No proofs here.

   Source (repo working tree):
     include/photospline/detail/fitsio.h   splinetable::read_fits_core, splinetable::estimateMemory
     include/photospline/detail/convolve.h splinetable::convolve
     include/photospline/splinetable.h     ~splinetable, allocate<T>(n) / deallocate(p,n)  (n*sizeof(T) bytes)
   The sizes and the arithmetic of estimateMemory come from Generated_mem.v (tools/translators/mem.py).

   A *shape* is what the allocator requests depend on:
     per dimension  naxis  (NAXISk of the coefficient image, already reversed into table order),
                    nknots (NAXIS1 of extension KNOTSk), order (ORDERk / ORDER);
     per auxiliary (non-reserved) key of the primary header, in header order:
                    keylen = strlen(key), vallen = strlen(value) as fits_read_keyn returns them
                    (value still carries its FITS quotes), strip = how many quote characters the reader drops
                    (0, 1 or 2) — only the destructor's byte counts depend on it;
     ext_naux       number of non-reserved keys in the header of the LAST KNOTS extension (what
                    estimateMemory counted before the fix that moved countAuxKeywords; unused when
                    est_naux_from_primary = true).
   Byte counts are unbounded N; the C arithmetic is uint64/size_t — no theorem here is about wrap-around. *)
From Coq Require Import NArith List.
From PS Require Import Resource Generated_mem.
Import ListNotations.
Open Scope N_scope.

Record dimrec : Set := { naxis : N; nknots : N; order : N }.
Record auxrec : Set := { keylen : N; vallen : N; strip : N }.
Record shape : Set := { dims : list dimrec; auxs : list auxrec; ext_naux : N }.

Definition ndim (sh : shape) : N := N.of_nat (length (dims sh)).
Definition naux (sh : shape) : N := N.of_nat (length (auxs sh)).

(* uint64_t ncoeffs = strides[0]*naxes[0]  (fitsio.h: strides are the partial products of naxes) *)
Definition ncoeffs (ds : list dimrec) : N := fold_right N.mul 1 (map naxis ds).

(* allocate<double>(nknots[i]+2*order[i])  — fitsio.h knot loop, convolve.h, splinetable.h destructor *)
Definition knot_bytes (d : dimrec) : N := (nknots d + 2 * order d) * sizeof_double.

(* ---------------------------------------------------------------- read_fits_core, in program order *)

(* aux[i] = allocate<char_ptr>(2); aux[i][0] = allocate<char>(keylen); aux[i][1] = allocate<char>(storedlen)
   with keylen = strlen(key)+1 and storedlen = strlen(stored value)+1, the stored value being the raw value minus the
   stripped outer quotes and collapsed doubled quotes (since the fix "read_fits requests exactly the stored length of an
   auxiliary value"; before it the request was strlen(raw value)+1 and the release strlen(stored)+1) *)
Definition aux_entry_sizes (a : auxrec) : list N :=
  [ 2 * sizeof_char_ptr; (keylen a + 1) * sizeof_char; (vallen a - strip a + 1) * sizeof_char ].

(* aux = allocate<char_ptr_ptr>(naux): always executed — a primary header always has keys (nkeys > 0) *)
Definition aux_sizes (sh : shape) : list N :=
  naux sh * sizeof_char_ptr_ptr :: flat_map aux_entry_sizes (auxs sh).

Definition fixed_sizes (sh : shape) : list N :=
  [ ndim sh * sizeof_uint32;          (* order   = allocate<uint32_t>(ndim) *)
    ndim sh * sizeof_double;          (* periods = allocate<double>(ndim) *)
    ndim sh * sizeof_double_ptr;      (* knots   = allocate<double_ptr>(ndim) *)
    ndim sh * sizeof_uint64;          (* nknots  = allocate<uint64_t>(ndim) *)
    ndim sh * sizeof_double_ptr;      (* extents = allocate<double_ptr>(ndim) *)
    2 * ndim sh * sizeof_double;      (* extents[0] = allocate<double>(2*ndim) *)
    ndim sh * sizeof_uint64;          (* naxes   = allocate<uint64_t>(ndim) *)
    ndim sh * sizeof_uint64 ].        (* strides = allocate<uint64_t>(ndim) *)

Definition read_sizes (sh : shape) : list N :=
  aux_sizes sh ++ fixed_sizes sh
  ++ [ ncoeffs (dims sh) * sizeof_float ]        (* coefficients = allocate<float>(ncoeffs) *)
  ++ map knot_bytes (dims sh).                   (* knots[i] = allocate<double>(nknots[i]+2*order[i]) *)

Definition read_trace (sh : shape) : list ev := allocs (read_sizes sh).

(* ---------------------------------------------------------------- convolve(dim, conv_knots, n) *)

(* n_rho = nknots[dim]*n;  convorder = order[dim]+n-1;  naxes[dim] = n_rho - convorder - 1 *)
Definition conv_dim (n : N) (d : dimrec) : dimrec :=
  let nk := nknots d * n in
  let o := order d + n - 1 in
  {| naxis := nk - o - 1; nknots := nk; order := o |}.

Fixpoint upd_at {A : Type} (f : A -> A) (k : nat) (xs : list A) : list A :=
  match xs, k with
  | [], _ => []
  | x :: xs', O => f x :: xs'
  | x :: xs', S k' => x :: upd_at f k' xs'
  end.

Definition conv_dims (ds : list dimrec) (n : N) (dim : nat) : list dimrec := upd_at (conv_dim n) dim ds.

(* deallocate(coefficients, naxes[0]*strides[0]); for i: deallocate(knots[i]-order[i], nknots[i]+2*order[i]);
   (members updated) coefficients = allocate<float>(arraysize); for i: knots[i] = allocate<double>(...) *)
Definition convolve_trace (sh : shape) (n : N) (dim : nat) : list ev :=
  frees (ncoeffs (dims sh) * sizeof_float :: map knot_bytes (dims sh))
  ++ allocs (ncoeffs (conv_dims (dims sh) n dim) * sizeof_float :: map knot_bytes (conv_dims (dims sh) n dim)).

Definition shape_after_conv (sh : shape) (n : N) (dim : nat) : shape :=
  {| dims := conv_dims (dims sh) n dim; auxs := auxs sh; ext_naux := ext_naux sh |}.

(* ---------------------------------------------------------------- ~splinetable (splinetable.h) *)

(* deallocate(aux[i][0], strlen(key)+1); deallocate(aux[i][1], strlen(stored value)+1); deallocate(aux[i], 2)
   — the stored value is the raw value minus the stripped quotes *)
Definition aux_entry_free_sizes (a : auxrec) : list N :=
  [ (keylen a + 1) * sizeof_char; (vallen a - strip a + 1) * sizeof_char; 2 * sizeof_char_ptr ].

Definition destroy_trace (sh : shape) : list ev :=
  frees (map knot_bytes (dims sh)
         ++ [ ndim sh * sizeof_double_ptr;     (* knots *)
              ndim sh * sizeof_uint64;         (* nknots *)
              ndim sh * sizeof_uint32;         (* order *)
              2 * ndim sh * sizeof_double;     (* extents[0] *)
              ndim sh * sizeof_double_ptr;     (* extents *)
              ndim sh * sizeof_double;         (* periods *)
              ncoeffs (dims sh) * sizeof_float;(* coefficients *)
              ndim sh * sizeof_uint64;         (* naxes *)
              ndim sh * sizeof_uint64 ]        (* strides *)
         ++ flat_map aux_entry_free_sizes (auxs sh)
         ++ [ naux sh * sizeof_char_ptr_ptr ]).

(* ---------------------------------------------------------------- estimateMemory(path, n, dim) *)

(* order[convolution_dimension] += n-1 before the loop; in the loop, for i == convolution_dimension:
   nknots *= n; naxes[i] = nknots - order[i] - 1.  (Executed for n = 1, dim = 0 too — the defaults.) *)
Definition est_dim (n : N) (d : dimrec) : dimrec :=
  let o := est_conv_order (order d) n in
  let nk := est_conv_nknots (nknots d) n in
  {| naxis := est_conv_naxis nk o; nknots := nk; order := o |}.

Definition est_dims (ds : list dimrec) (n : N) (dim : nat) : list dimrec := upd_at (est_dim n) dim ds.

(* uint32_t naux = countAuxKeywords(fits): counts the non-reserved keys of whatever HDU is current *)
Definition est_naux (sh : shape) : N := if est_naux_from_primary then naux sh else ext_naux sh.

Definition estimate (sh : shape) (n : N) (dim : nat) : N :=
  let ds := est_dims (dims sh) n dim in
  let size := est_init in
  let size := fold_left (fun s d => s + est_knot_term (nknots d) (order d)) ds size in
  let size := fold_left N.add (est_fixed_terms (ndim sh) (ncoeffs ds) (est_naux sh)) size in
  est_round size.

(* the estimate as it was before the fix (naux counted on the last KNOTS extension) — kept for the regression
   example C19_bound_refuted_before_fix *)
Definition estimate_before_fix (sh : shape) (n : N) (dim : nat) : N :=
  let ds := est_dims (dims sh) n dim in
  let size := est_init in
  let size := fold_left (fun s d => s + est_knot_term (nknots d) (order d)) ds size in
  let size := fold_left N.add (est_fixed_terms (ndim sh) (ncoeffs ds) (ext_naux sh)) size in
  est_round size.

(* ---------------------------------------------------------------- hypotheses of the theorems, as booleans *)

(* one header card is FLEN_CARD-1 = 80 characters; keyword and value are disjoint pieces of it *)
Definition card_limits (sh : shape) : bool :=
  forallb (fun a => keylen a + vallen a <=? FLEN_CARD - 1) (auxs sh).

(* the convolution is one that can be performed: at least one kernel knot (n = 1: "no convolution"),
   the dimension exists, and in it the coefficient count matches the knot vector (naxis = nknots-order-1) *)
Definition valid_conv (sh : shape) (n : N) (dim : nat) : bool :=
  (1 <=? n) &&
  match nth_error (dims sh) dim with
  | Some d => naxis d + order d + 1 =? nknots d
  | None => false
  end.

Definition no_quotes (sh : shape) : bool := forallb (fun a => strip a =? 0) (auxs sh).

(* the whole life of the object *)
Definition life_trace (sh : shape) (n : N) (dim : nat) : list ev :=
  read_trace sh ++ convolve_trace sh n dim ++ destroy_trace (shape_after_conv sh n dim).
