(* C10_Congruence.v — the normal system of a monotone fit (MonoFitModel.fit_system_mono, the code after fix F28_1) is the
   congruence transform of the normal system of the unconstrained fit (FitModel.fit_system, C09) by the change of variables
   c = Lbig a  (B-spline coefficients = cumulative sums of the T-spline coefficients along the monotonic dimension):

       fit_system_mono = (nmat n E_T, nrhs n E_T),   E_T = the triples (w, p Lbig, z) of the triples (w, p, z) of C09's objective,

   for every number of dimensions and every monotonic dimension. Hence  J_T(a) = J_B(Lbig a),  A_T = Lbig' A_B Lbig and
   r_T = Lbig' r_B as operators, and the increments of the unconstrained minimiser solve the T-basis system.

   Parts: (A) row-vector/matrix products and the triples under a change of variables; (B) Kronecker mixed products, chains,
   associativity of the row-wise product; (C) design rows and penalty roots of the monotone model; (D) the system. *)
From Coq Require Import ZArith NArith List Bool Lia Field Ring PeanoNat.
From PS Require Import Arith EvalModel BSpline OFieldKit FitModel C09_LinAlg C09_Penalty C09_Index C09_Glam C09_Kron C09_Top MonoModel MonoFitModel.
Import ListNotations.

Section Congruence.
Context {A : Arith}.
Variable F : OField A.
Notation K := (T A).
Add Field Kfield_c10cong : (OFth F).
Notation le := (@OFieldKit.le A).
Notation wt e := (fst (fst e)).
Notation brow e := (snd (fst e)).
Notation zval e := (snd e).

(* ---------------------------------------------------------------------------------------------- *)
(* (A) vecmat *)
Lemma vecmat_length (p : list K) M n : length (vecmat p M n) = n.
Proof. unfold vecmat. rewrite map_length, seq_length. reflexivity. Qed.

Lemma mmul_as_vecmat (M N : list (list K)) n : mmul M N n = map (fun row => vecmat row N n) M.
Proof.
  unfold mmul, vecmat, matvec, transpose. apply map_ext. intro row. rewrite map_map. reflexivity.
Qed.

Lemma vecmat_nil_l (M : list (list K)) n : vecmat [] M n = vzero n.
Proof.
  unfold vecmat, vzero. rewrite (map_ext _ (fun _ => zero)) by (intro j; apply dot_nil_r).
  rewrite map_const_repeat, seq_length. reflexivity.
Qed.
Lemma vecmat_nil_r (p : list K) n : vecmat p [] n = vzero n.
Proof.
  unfold vecmat, vzero. cbn [col map dot]. rewrite map_const_repeat, seq_length. reflexivity.
Qed.

Lemma vecmat_cons x (p r : list K) M n : length r = n ->
  vecmat (x :: p) (r :: M) n = vadd (vscale x r) (vecmat p M n).
Proof.
  intro Hr. unfold vecmat. cbn [col map dot].
  assert (Hs : vscale x r = map (fun j => mul (nth j r zero) x) (seq 0 n)).
  { unfold vscale. rewrite (map_as_map_nth (mul x) r), Hr. apply map_ext. intro j. ring. }
  rewrite Hs, vadd_map_map. reflexivity.
Qed.

(* (p M) . a = p . (M a) *)
Lemma dot_vecmat : forall (M : list (list K)) (p a : list K) n, rows_len n M -> length a = n ->
  dot (vecmat p M n) a = dot p (matvec M a).
Proof.
  induction M as [|r M IH]; intros p a n HM Ha.
  - rewrite vecmat_nil_r, (dot_vzero_l F). cbn [matvec map]. rewrite dot_nil_r. reflexivity.
  - destruct p as [|x p].
    + rewrite vecmat_nil_l, (dot_vzero_l F). reflexivity.
    + pose proof (Forall_inv HM) as Hr. pose proof (Forall_inv_tail HM) as HM'.
      rewrite (vecmat_cons x p r M n Hr).
      rewrite (dot_vadd_l F) by (rewrite vscale_length, vecmat_length; exact Hr).
      rewrite (dot_vscale_l F), (IH p a n HM' Ha). cbn [matvec map dot]. reflexivity.
Qed.

Lemma vecmat_vzero k (M : list (list K)) n : vecmat (vzero k) M n = vzero n.
Proof.
  unfold vecmat. rewrite (map_ext _ (fun _ => zero)) by (intro j; rewrite (dot_comm F); apply (dot_vzero_l F)).
  unfold vzero. rewrite map_const_repeat, seq_length. reflexivity.
Qed.
Lemma vecmat_vadd (u v : list K) M n : length u = length v ->
  vecmat (vadd u v) M n = vadd (vecmat u M n) (vecmat v M n).
Proof.
  intro H. unfold vecmat. rewrite vadd_map_map. apply map_ext. intro j. apply (dot_vadd_r F). exact H.
Qed.
Lemma vecmat_vscale c (u : list K) M n : vecmat (vscale c u) M n = vscale c (vecmat u M n).
Proof. unfold vecmat, vscale at 2. rewrite map_map. apply map_ext. intro j. apply (dot_vscale_r F). Qed.

(* the triples in the new variables *)
Lemma tripleT_wf L n (E : list (K * list K * K)) : wf_rows n (map (tripleT L n) E).
Proof. unfold wf_rows. apply Forall_map. apply Forall_forall. intros e _. cbn [tripleT fst snd]. apply vecmat_length. Qed.
Lemma tripleT_nonneg L n (E : list (K * list K * K)) : nonneg_weights E -> nonneg_weights (map (tripleT L n) E).
Proof. unfold nonneg_weights. intro H. apply Forall_map. exact H. Qed.

(* objective: J_T(a) = J_B(L a) *)
Theorem wrss_tripleT L n (E : list (K * list K * K)) (a : list K) : rows_len n L -> length a = n ->
  wrss (map (tripleT L n) E) a = wrss E (matvec L a).
Proof.
  intros HL Ha. unfold wrss. rewrite map_map. apply sumK_ext_in. intros e _. cbn [tripleT fst snd].
  rewrite (dot_vecmat L _ a n HL Ha). reflexivity.
Qed.

(* normal matrix and right-hand side: A_T a = (A_B (L a)) L  (= L' A_B L a),  r_T = r_B L  (= L' r_B) *)
Theorem matvec_nmat_tripleT L n m (E : list (K * list K * K)) (a : list K) : rows_len n L -> length a = n -> wf_rows m E ->
  matvec (nmat n (map (tripleT L n) E)) a = vecmat (matvec (nmat m E) (matvec L a)) L n.
Proof.
  intros HL Ha HE. rewrite (matvec_nmat F n _ a (tripleT_wf L n E)), (matvec_nmat F m E _ HE).
  induction HE as [|e E He HE IH]; cbn [map fold_right]; [symmetry; apply vecmat_vzero|].
  rewrite vecmat_vadd.
  - rewrite IH, vecmat_vscale. cbn [tripleT fst snd]. rewrite (dot_vecmat L _ a n HL Ha). reflexivity.
  - rewrite vscale_length, He. symmetry.
    clear IH. induction HE as [|e' E' He' _ IH']; cbn [fold_right]; [apply vzero_length|]. rewrite vadd_length; rewrite vscale_length; lia.
Qed.
Theorem nrhs_tripleT L n m (E : list (K * list K * K)) : wf_rows m E ->
  nrhs n (map (tripleT L n) E) = vecmat (nrhs m E) L n.
Proof.
  intro HE. induction HE as [|e E He HE IH]; cbn [map nrhs fold_right]; [symmetry; apply vecmat_vzero|].
  fold (nrhs n (map (tripleT L n) E)). fold (nrhs m E).
  rewrite vecmat_vadd by (rewrite vscale_length, (nrhs_length m E HE); exact He).
  rewrite IH, vecmat_vscale. reflexivity.
Qed.

(* ---------------------------------------------------------------------------------------------- *)
(* (B) Kronecker products: mixed product, chains, associativity of the row-wise product, identities *)
Lemma boxrow_map_seq (f g : nat -> K) nc nd :
  boxrow (map f (seq 0 nc)) (map g (seq 0 nd)) = flat_map (fun i => map (fun j => mul (f i) (g j)) (seq 0 nd)) (seq 0 nc).
Proof. unfold boxrow. rewrite flat_map_map. apply flat_map_ext_in'. intros i _. rewrite map_map. reflexivity. Qed.

(* (u x v)(A x B) = (u A) x (v B) *)
Lemma vecmat_boxrow (u v : list K) (A0 B : list (list K)) nc nd :
  rows_len nd B -> length B = length v ->
  vecmat (boxrow u v) (kronecker_product A0 B) (nc * nd) = boxrow (vecmat u A0 nc) (vecmat v B nd).
Proof.
  intros HB Hl. unfold vecmat at 1. rewrite (seq_mul_flat nc nd), map_flat_map.
  unfold vecmat. rewrite boxrow_map_seq. apply flat_map_ext_in'. intros i Hi. rewrite map_map. apply map_ext_in. intros j Hj. apply in_seq in Hj.
  rewrite (col_kron F nd) by (try exact HB; lia).
  apply (dot_boxrow F). unfold col. rewrite map_length. exact Hl.
Qed.

(* (A1 x B1)(A2 x B2) = (A1 A2) x (B1 B2) *)
Lemma mmul_kron (A1 B1 A2 B2 : list (list K)) nc nd :
  rows_len nd B2 -> rows_len (length B2) B1 ->
  mmul (kronecker_product A1 B1) (kronecker_product A2 B2) (nc * nd)
  = kronecker_product (mmul A1 A2 nc) (mmul B1 B2 nd).
Proof.
  intros H2 H1. rewrite !mmul_as_vecmat. unfold kronecker_product at 2 3. rewrite map_flat_map, flat_map_map.
  apply flat_map_ext_in'. intros ra _. rewrite !map_map. apply map_ext_in. intros rb Hrb.
  apply vecmat_boxrow; [exact H2|]. symmetry. exact (proj1 (Forall_forall _ _) H1 rb Hrb).
Qed.

(* chains folded left to right, as calc_penalty folds them: factors (n_i, A_i, B_i) *)
Lemma chain_mmul : forall (W : list (nat * list (list K) * list (list K))) n0 (A0 B0 : list (list K)),
  Forall (fun t => rows_len (fst (fst t)) (snd t) /\ rows_len (length (snd t)) (snd (fst t))) W ->
  mmul (fold_left (fun X t => kronecker_product X (snd (fst t))) W A0)
       (fold_left (fun X t => kronecker_product X (snd t)) W B0)
       (fold_left (fun a t => a * fst (fst t)) W n0)
  = fold_left (fun X t => kronecker_product X (mmul (snd (fst t)) (snd t) (fst (fst t)))) W (mmul A0 B0 n0).
Proof.
  induction W as [|[[w Ai] Bi] W IH]; intros n0 A0 B0 H; [reflexivity|]. cbn [fold_left fst snd].
  destruct (Forall_inv H) as [H1 H2]. cbn [fst snd] in H1, H2.
  rewrite <- (mmul_kron A0 Ai B0 Bi n0 w H1 H2). apply IH. exact (Forall_inv_tail H).
Qed.
(* the same for one row: factors (n_i, r_i, B_i) *)
Lemma chain_vecmat : forall (W : list (nat * list K * list (list K))) n0 (r0 : list K) (B0 : list (list K)),
  Forall (fun t => rows_len (fst (fst t)) (snd t) /\ length (snd t) = length (snd (fst t))) W ->
  vecmat (fold_left (fun x t => boxrow x (snd (fst t))) W r0)
         (fold_left (fun X t => kronecker_product X (snd t)) W B0)
         (fold_left (fun a t => a * fst (fst t)) W n0)
  = fold_left (fun x t => boxrow x (vecmat (snd (fst t)) (snd t) (fst (fst t)))) W (vecmat r0 B0 n0).
Proof.
  induction W as [|[[w ri] Bi] W IH]; intros n0 r0 B0 H; [reflexivity|]. cbn [fold_left fst snd].
  destruct (Forall_inv H) as [H1 H2]. cbn [fst snd] in H1, H2.
  rewrite <- (vecmat_boxrow r0 ri B0 Bi n0 w H1 H2). apply IH. exact (Forall_inv_tail H).
Qed.

(* the row-wise product is associative and has the unit [one]: design rows (nested to the right, FitModel.kronrow) are left folds *)
Lemma boxrow_assoc (u v w : list K) : boxrow (boxrow u v) w = boxrow u (boxrow v w).
Proof.
  unfold boxrow. induction u as [|a u IH]; [reflexivity|]. cbn [flat_map]. rewrite flat_map_app, IH. f_equal.
  rewrite flat_map_map, map_flat_map. apply flat_map_ext_in'. intros b _. rewrite map_map. apply map_ext. intro c. ring.
Qed.
Lemma boxrow_one_r (r : list K) : boxrow r [one] = r.
Proof. induction r as [|a r IH]; [reflexivity|]. rewrite boxrow_cons, IH. cbn [map app]. f_equal. ring. Qed.
Lemma boxrow_fold_left : forall (rs : list (list K)) (r r2 : list K),
  boxrow r (fold_left (@boxrow A) rs r2) = fold_left (@boxrow A) rs (boxrow r r2).
Proof. induction rs as [|x rs IH]; intros r r2; [reflexivity|]. cbn [fold_left]. rewrite IH, boxrow_assoc. reflexivity. Qed.
Lemma kronrow_left : forall (rs : list (list K)) (r : list K), kronrow (r :: rs) = fold_left (@boxrow A) rs r.
Proof.
  induction rs as [|r2 rs IH]; intro r.
  - cbn [kronrow fold_left]. apply boxrow_one_r.
  - change (kronrow (r :: r2 :: rs)) with (boxrow r (kronrow (r2 :: rs))). rewrite IH, boxrow_fold_left. reflexivity.
Qed.

(* identities *)
Lemma vecmat_eye (r : list K) n : length r = n -> vecmat r (eye n) n = r.
Proof.
  intro H. transitivity (map (fun i => nth i r zero) (seq 0 n)); [|rewrite <- H; symmetry; apply list_as_map_nth].
  unfold vecmat. apply map_ext_in. intros j Hj. apply in_seq in Hj.
  rewrite (col_eye n j) by lia. rewrite (dot_indicator_nth F j n 0) by (try lia; exact H). f_equal. lia.
Qed.
Lemma mmul_eye_r (M : list (list K)) n : rows_len n M -> mmul M (eye n) n = M.
Proof.
  intro H. rewrite mmul_as_vecmat. rewrite <- (map_id M) at 2. apply map_ext_in. intros r Hr.
  apply vecmat_eye. exact (proj1 (Forall_forall _ _) H r Hr).
Qed.
Lemma matrix_as_map_nth (M : list (list K)) n : length M = n -> rows_len n M ->
  M = map (fun i => map (fun j => nth j (nth i M []) zero) (seq 0 n)) (seq 0 n).
Proof.
  intros Hl Hr. apply (nth_ext _ _ [] []); [rewrite map_length, seq_length; exact Hl|].
  intros i Hi. rewrite Hl in Hi. rewrite (nth_map_seq _ n i []) by exact Hi.
  assert (Hin : In (nth i M []) M) by (apply nth_In; lia).
  pose proof (proj1 (Forall_forall _ _) Hr _ Hin) as Hlen. rewrite <- Hlen. apply list_as_map_nth.
Qed.
Lemma mmul_eye_l (M : list (list K)) n : length M = n -> rows_len n M -> mmul (eye n) M n = M.
Proof.
  intros Hl Hr. rewrite (matrix_as_map_nth M n Hl Hr) at 2. rewrite mmul_as_vecmat. unfold eye. rewrite map_map.
  apply map_ext_in. intros i Hi. apply in_seq in Hi. unfold vecmat. apply map_ext_in. intros j Hj. apply in_seq in Hj.
  rewrite (dot_comm F).
  rewrite (map_ext (fun j0 => if Nat.eqb i j0 then one else zero) (fun k => if Nat.eqb k i then one else zero))
    by (intro k; rewrite Nat.eqb_sym; reflexivity).
  rewrite (dot_indicator_nth F i n 0) by (try lia; unfold col; rewrite map_length; exact Hl).
  replace (i - 0) with i by lia. apply nth_col.
Qed.

(* ---------------------------------------------------------------------------------------------- *)
(* (C) list bookkeeping, then the chains of the model: Lbig, the penalty roots, the design rows *)
Lemma fold_left_map' {X Y Z} (f : Z -> Y -> Z) (g : X -> Y) (l : list X) (a : Z) :
  fold_left f (map g l) a = fold_left (fun a x => f a (g x)) l a.
Proof. revert a. induction l as [|x l IH]; intro a; [reflexivity|]. cbn [map fold_left]. apply IH. Qed.

Lemma combine_as_seq {X Y} (l : list X) (l' : list Y) dx dy : length l = length l' ->
  combine l l' = map (fun i => (nth i l dx, nth i l' dy)) (seq 0 (length l)).
Proof.
  revert l'. induction l as [|x l IH]; intros [|y l'] H; cbn [length] in H; try lia; [reflexivity|].
  cbn [combine length seq map nth]. f_equal. rewrite <- seq_shift, map_map. cbn [nth]. apply IH. lia.
Qed.

Lemma prod_fold_idx : forall (l pre : list nat) k acc, length pre = k ->
  fold_left (fun a i => a * nth i (pre ++ l) 0) (seq k (length l)) acc = acc * fold_right Nat.mul 1 l.
Proof.
  induction l as [|x l IH]; intros pre k acc Hk; [cbn; lia|]. cbn [length seq fold_left fold_right].
  rewrite app_nth2 by lia. replace (k - length pre) with 0 by lia. cbn [nth].
  replace (pre ++ x :: l) with ((pre ++ [x]) ++ l) by (rewrite <- app_assoc; reflexivity).
  rewrite (IH (pre ++ [x]) (S k) (acc * x)) by (rewrite app_length; cbn [length]; lia). lia.
Qed.

(* one-row and matrix chains with the first factor as the initial accumulator, over a list of factors *)
Lemma kronrow_chain (t0 : nat * list K * list (list K)) (W : list (nat * list K * list (list K))) :
  Forall (fun t => rows_len (fst (fst t)) (snd t) /\ length (snd t) = length (snd (fst t))) W ->
  vecmat (kronrow (map (fun t => snd (fst t)) (t0 :: W))) (fold_left kronecker_product (map snd W) (snd t0))
         (fold_left (fun a t => a * fst (fst t)) W (fst (fst t0)))
  = kronrow (map (fun t => vecmat (snd (fst t)) (snd t) (fst (fst t))) (t0 :: W)).
Proof.
  intro H. cbn [map]. rewrite !kronrow_left, !fold_left_map'. apply chain_vecmat. exact H.
Qed.
Lemma kron_chain_mmul (t0 : nat * list (list K) * list (list K)) (W : list (nat * list (list K) * list (list K))) :
  Forall (fun t => rows_len (fst (fst t)) (snd t) /\ rows_len (length (snd t)) (snd (fst t))) W ->
  mmul (fold_left kronecker_product (map (fun t => snd (fst t)) W) (snd (fst t0))) (fold_left kronecker_product (map snd W) (snd t0))
       (fold_left (fun a t => a * fst (fst t)) W (fst (fst t0)))
  = fold_left kronecker_product (map (fun t => mmul (snd (fst t)) (snd t) (fst (fst t))) W) (mmul (snd (fst t0)) (snd t0) (fst (fst t0))).
Proof. intro H. rewrite !fold_left_map'. apply chain_mmul. exact H. Qed.

(* tril *)
Lemma tril_length n : length (@tril A n) = n.
Proof. unfold tril. rewrite map_length, seq_length. reflexivity. Qed.
Lemma tril_rows n : rows_len n (@tril A n).
Proof. unfold rows_len, tril. apply Forall_map. apply Forall_forall. intros r _. cbn beta. rewrite map_length, seq_length. reflexivity. Qed.
Lemma mmul_rows (M N : list (list K)) n : rows_len n (mmul M N n).
Proof. rewrite mmul_as_vecmat. unfold rows_len. apply Forall_map. apply Forall_forall. intros r _. apply vecmat_length. Qed.
Lemma mmul_length (M N : list (list K)) n : length (mmul M N n) = length M.
Proof. rewrite mmul_as_vecmat. apply map_length. Qed.

(* the factor of Lbig in slot i *)
Definition Lfac (ns : list nat) (md i : nat) : list (list K) := if Nat.eqb i md then tril (nth i ns 0) else eye (nth i ns 0).
Lemma Lfac_rows ns md i : rows_len (nth i ns 0) (Lfac ns md i).
Proof. unfold Lfac. destruct (Nat.eqb i md); [apply tril_rows | apply eye_rows]. Qed.
Lemma Lfac_length ns md i : length (Lfac ns md i) = nth i ns 0.
Proof. unfold Lfac. destruct (Nat.eqb i md); [apply tril_length | unfold eye; rewrite map_length, seq_length; reflexivity]. Qed.

Lemma Lbig_cons n0 ns md :
  Lbig (n0 :: ns) md = fold_left kronecker_product (map (Lfac (n0 :: ns) md) (seq 1 (length ns))) (Lfac (n0 :: ns) md 0).
Proof. reflexivity. Qed.

Lemma Lbig_shape (ns : list nat) md : ns <> [] ->
  rows_len (fold_right Nat.mul 1 ns) (@Lbig A ns md).
Proof.
  intro Hne. destruct ns as [|n0 ns]; [congruence|]. rewrite Lbig_cons.
  pose (WM := map (fun i => (nth i (n0 :: ns) 0, Lfac (n0 :: ns) md i)) (seq 1 (length ns))).
  assert (HWM : Forall (fun p => rows_len (fst p) (snd p)) WM).
  { unfold WM. apply Forall_map. apply Forall_forall. intros i _. cbn [fst snd]. apply Lfac_rows. }
  pose proof (chain_rows WM (nth 0 (n0 :: ns) 0) (Lfac (n0 :: ns) md 0) (Lfac_rows _ _ _) HWM) as H.
  unfold WM in H. rewrite !fold_left_map' in H. cbn [fst snd] in H.
  pose proof (prod_fold_idx ns [n0] 1 (nth 0 (n0 :: ns) 0) eq_refl) as Hp. cbn [app] in Hp.
  rewrite Hp in H. cbn [nth] in H. cbn [fold_right].
  rewrite fold_left_map'. exact H.
Qed.

(* ---- penalty: calc_penalty_mono is the Gram matrix of  root_B Lbig ------------------------------------------------ *)
Definition root_fac_mono (nsplines : list nat) (kn : nat -> K) (dim order porder md i : nat) : list (list K) :=
  let nspl := nth dim nsplines 0 in
  let D0 := finitediff kn order porder nspl in
  if Nat.eqb i dim then (if Nat.eqb md dim then mmul D0 (tril nspl) nspl else D0)
  else if Nat.eqb i md then tril (nth i nsplines 0) else eye (nth i nsplines 0).
Definition penalty_root_mono (nsplines : list nat) (kn : nat -> K) (dim order porder md : nat) : list (list K) :=
  match map (root_fac_mono nsplines kn dim order porder md) (seq 0 (length nsplines)) with
  | [] => []
  | f :: fs => fold_left kronecker_product fs f
  end.

Lemma root_fac_mono_rows nsplines kn dim order porder md i :
  rows_len (nth i nsplines 0) (root_fac_mono nsplines kn dim order porder md i).
Proof.
  unfold root_fac_mono. destruct (Nat.eqb_spec i dim) as [->|_].
  - destruct (Nat.eqb md dim); [apply mmul_rows | apply finitediff_rows].
  - destruct (Nat.eqb i md); [apply tril_rows | apply eye_rows].
Qed.

Lemma calc_penalty_mono_is_gram (nsplines : list nat) (kn : nat -> K) dim order porder md : nsplines <> [] ->
  calc_penalty_mono nsplines kn dim order porder md
  = gram (fold_right Nat.mul 1 nsplines) (penalty_root_mono nsplines kn dim order porder md)
  /\ rows_len (fold_right Nat.mul 1 nsplines) (penalty_root_mono nsplines kn dim order porder md).
Proof.
  intro Hne. unfold calc_penalty_mono, penalty_root_mono. cbv zeta.
  set (Mi := root_fac_mono nsplines kn dim order porder md).
  set (wi := fun i => nth i nsplines 0).
  assert (Hrows : forall i, rows_len (wi i) (Mi i)) by (intro i; apply root_fac_mono_rows).
  match goal with |- context [map ?f (seq 0 (length nsplines))] =>
    assert (Hfac : map f (seq 0 (length nsplines)) = map (fun i => gram (wi i) (Mi i)) (seq 0 (length nsplines))) end.
  { apply map_ext. intro i. unfold Mi, wi, root_fac_mono. destruct (Nat.eqb_spec i dim) as [->|_].
    - apply mmul_transpose_gram.
    - destruct (Nat.eqb i md); [apply mmul_transpose_gram | symmetry; apply (gram_eye F)]. }
  rewrite Hfac.
  destruct nsplines as [|n0 ns]; [congruence|]. cbn [length seq map].
  rewrite <- seq_shift, !map_map.
  pose (WM := map (fun i => (wi (S i), Mi (S i))) (seq 0 (length ns))).
  assert (HWM : Forall (fun p => rows_len (fst p) (snd p)) WM).
  { unfold WM. apply Forall_map. apply Forall_forall. intros i _. cbn [fst snd]. apply Hrows. }
  replace (map (fun x => gram (wi (S x)) (Mi (S x))) (seq 0 (length ns))) with (map (fun p => gram (fst p) (snd p)) WM)
    by (unfold WM; rewrite map_map; reflexivity).
  replace (fold_left kronecker_product (map (fun x => Mi (S x)) (seq 0 (length ns))) (Mi 0))
    with (fold_left (fun X p => kronecker_product X (snd p)) WM (Mi 0))
    by (unfold WM; rewrite !fold_left_map'; reflexivity).
  assert (Hprod : fold_left (fun a p => a * fst p) WM (wi 0) = fold_right Nat.mul 1 (n0 :: ns)).
  { unfold WM, wi. cbn [nth fold_right]. apply (prod_fold ns n0 (fun i => Mi (S i))). }
  rewrite (gram_chain F WM (wi 0) (Mi 0) HWM), Hprod. split; [reflexivity|].
  rewrite <- Hprod. apply chain_rows; [apply Hrows | exact HWM].
Qed.

(* root_T = root_B Lbig:  the mixed product along the chain, factor by factor  D0 L | D0 I | I L | I I *)
Lemma penalty_root_mono_is_product (nsplines : list nat) (kn : nat -> K) dim order porder md : nsplines <> [] ->
  penalty_root_mono nsplines kn dim order porder md
  = mmul (penalty_root nsplines kn dim order porder) (Lbig nsplines md) (fold_right Nat.mul 1 nsplines).
Proof.
  intro Hne. destruct nsplines as [|n0 ns]; [congruence|]. rewrite Lbig_cons. set (nsp := n0 :: ns).
  unfold penalty_root_mono, penalty_root. cbv zeta.
  set (D0 := finitediff kn order porder (nth dim nsp 0)).
  set (RB := fun i => if Nat.eqb i dim then D0 else eye (nth i nsp 0)).
  set (RT := root_fac_mono nsp kn dim order porder md).
  change (length nsp) with (S (length ns)). cbn [seq map].
  pose (t0 := (nth 0 nsp 0, RB 0, Lfac nsp md 0)).
  pose (W := map (fun i => (nth i nsp 0, RB i, Lfac nsp md i)) (seq 1 (length ns))).
  assert (HW : Forall (fun t => rows_len (fst (fst t)) (snd t) /\ rows_len (length (snd t)) (snd (fst t))) W).
  { unfold W. apply Forall_map. apply Forall_forall. intros i _. cbn [fst snd]. split; [apply Lfac_rows|].
    rewrite Lfac_length. unfold RB. destruct (Nat.eqb_spec i dim) as [->|_]; [apply finitediff_rows | apply eye_rows]. }
  pose proof (kron_chain_mmul t0 W HW) as H. unfold t0, W in H. rewrite !map_map in H. cbn [fst snd] in H.
  rewrite (fold_left_map' (fun (a : nat) (t : nat * list (list K) * list (list K)) => a * fst (fst t))) in H. cbn [fst snd] in H.
  pose proof (prod_fold_idx ns [n0] 1 (nth 0 nsp 0) eq_refl) as Hp. cbn [app] in Hp. fold nsp in Hp.
  rewrite Hp in H.
  assert (Hpt : forall i, mmul (RB i) (Lfac nsp md i) (nth i nsp 0) = RT i).
  { intro i. unfold RB, RT, Lfac, root_fac_mono. fold D0. destruct (Nat.eqb_spec i dim) as [->|Hd].
    - rewrite (Nat.eqb_sym md dim). destruct (Nat.eqb dim md); [reflexivity | apply mmul_eye_r; apply finitediff_rows].
    - destruct (Nat.eqb i md).
      + apply mmul_eye_l; [apply tril_length | apply tril_rows].
      + apply mmul_eye_r. apply eye_rows. }
  rewrite (map_ext (fun x => mmul (RB x) (Lfac nsp md x) (nth x nsp 0)) RT Hpt) in H. rewrite (Hpt 0) in H.
  symmetry. exact H.
Qed.

(* ---- design rows: the Kronecker product of the T-spline basis rows is the design row of the B-spline bases times Lbig ---- *)
Definition bas_mono (md : nat) (id : nat * @dimspec A) : list (list K) := basis_mono md (fst id) (snd id).
Definition xs_of (dims : list (@dimspec A)) : list (nat * dimspec) := combine (seq 0 (length dims)) dims.
Definition dim0 : @dimspec A := mkDim 0 [] [].

Lemma valid_idx_nth : forall (rs idx : list N) i, valid_idx rs idx -> i < length rs -> (nth i idx 0 < nth i rs 0)%N.
Proof.
  intros rs idx i H. revert i. induction H as [|a r idx rs Ha H IH]; intros i Hi; cbn [length] in Hi; [lia|].
  destruct i as [|i]; cbn [nth]; [exact Ha | apply IH; lia].
Qed.

Lemma basis_of_rows (d : @dimspec A) r : r < length (ds_coords d) -> length (nth r (basis_of d) []) = ds_nsplines d.
Proof.
  intro Hr. destruct (basis_of_wf d) as [H1 H2]. unfold ncoords in H2.
  apply (proj1 (Forall_forall _ _) H1). apply nth_In. lia.
Qed.

Lemma design_row_mono (dims : list dimspec) (md : nat) (idx : list N) :
  dims <> [] ->
  valid_idx (map (fun d => N.of_nat (length (ds_coords d))) dims) idx ->
  design_row (map (bas_mono md) (xs_of dims)) idx
  = vecmat (design_row (map basis_of dims) idx) (Lbig (map ds_nsplines dims) md) (fold_right Nat.mul 1 (map ds_nsplines dims)).
Proof.
  intros Hne Hv.
  set (n := length dims). set (ns := map ds_nsplines dims).
  pose proof (valid_idx_length _ _ Hv) as Hli. rewrite map_length in Hli. fold n in Hli.
  pose (rB := fun i => nth (N.to_nat (nth i idx 0%N)) (basis_of (nth i dims dim0)) []).
  pose (rT := fun i => nth (N.to_nat (nth i idx 0%N)) (basis_mono md i (nth i dims dim0)) []).
  assert (Hidx : forall i, i < n -> N.to_nat (nth i idx 0%N) < length (ds_coords (nth i dims dim0))).
  { intros i Hi. pose proof (valid_idx_nth _ _ i Hv) as H. rewrite map_length in H. specialize (H Hi).
    rewrite (nth_map_lt (fun d => N.of_nat (length (ds_coords d))) dims i dim0 0%N) in H by exact Hi. lia. }
  assert (Hns : forall i, i < n -> nth i ns 0 = ds_nsplines (nth i dims dim0)).
  { intros i Hi. unfold ns. apply (nth_map_lt ds_nsplines dims i dim0 0). exact Hi. }
  assert (HB : design_row (map basis_of dims) idx = kronrow (map rB (seq 0 n))).
  { unfold design_row. rewrite (combine_as_seq (map basis_of dims) idx [] 0%N) by (rewrite map_length; lia).
    rewrite map_map, map_length. fold n. f_equal. apply map_ext_in. intros i Hi. apply in_seq in Hi. cbn [fst snd]. unfold rB.
    rewrite (nth_map_lt basis_of dims i dim0 []) by lia. reflexivity. }
  assert (HT : design_row (map (bas_mono md) (xs_of dims)) idx = kronrow (map rT (seq 0 n))).
  { assert (Hlx : length (xs_of dims) = n) by (unfold xs_of; rewrite combine_length, seq_length; fold n; lia).
    unfold design_row. rewrite (combine_as_seq (map (bas_mono md) (xs_of dims)) idx [] 0%N) by (rewrite map_length; lia).
    rewrite map_map, map_length, Hlx. f_equal. apply map_ext_in. intros i Hi. apply in_seq in Hi. cbn [fst snd]. unfold rT.
    rewrite (nth_map_lt (bas_mono md) (xs_of dims) i (0, dim0) []) by lia.
    unfold xs_of. rewrite combine_nth by (rewrite seq_length; reflexivity). rewrite seq_nth by (fold n; lia).
    reflexivity. }
  assert (Hlen : forall i, i < n -> length (rB i) = nth i ns 0).
  { intros i Hi. unfold rB. rewrite (Hns i Hi). apply basis_of_rows. apply Hidx. exact Hi. }
  assert (Hstep : forall i, i < n -> rT i = vecmat (rB i) (Lfac ns md i) (nth i ns 0)).
  { intros i Hi. unfold rT, rB, basis_mono, Lfac. fold (basis_of (nth i dims dim0)). rewrite (Hns i Hi).
    rewrite (Nat.eqb_sym md i). destruct (Nat.eqb i md).
    - rewrite mmul_as_vecmat. apply (nth_map_lt (fun row => vecmat row _ _) (basis_of (nth i dims dim0)) _ [] []).
      destruct (basis_of_wf (nth i dims dim0)) as [_ H2]. unfold ncoords in H2. rewrite H2. apply Hidx. exact Hi.
    - symmetry. apply vecmat_eye. apply basis_of_rows. apply Hidx. exact Hi. }
  rewrite HB, HT. clear HB HT.
  destruct dims as [|d0 dims']; [congruence|].
  assert (Hn : n = S (length dims')) by reflexivity.
  assert (Hnsl : ns = ds_nsplines d0 :: map ds_nsplines dims') by reflexivity.
  rewrite Hn. cbn [seq map].
  pose (t0 := (nth 0 ns 0, rB 0, Lfac ns md 0)).
  pose (W := map (fun i => (nth i ns 0, rB i, Lfac ns md i)) (seq 1 (length dims'))).
  assert (HW : Forall (fun t => rows_len (fst (fst t)) (snd t) /\ length (snd t) = length (snd (fst t))) W).
  { unfold W. apply Forall_map. apply Forall_forall. intros i Hi. apply in_seq in Hi. cbn [fst snd]. split; [apply Lfac_rows|].
    rewrite Lfac_length. symmetry. apply Hlen. lia. }
  pose proof (kronrow_chain t0 W HW) as H. unfold t0, W in H. cbn [map] in H. rewrite !map_map in H. cbn [fst snd] in H.
  rewrite (fold_left_map' (fun (a : nat) (t : nat * list K * list (list K)) => a * fst (fst t))) in H. cbn [fst snd] in H.
  pose proof (prod_fold_idx (map ds_nsplines dims') [ds_nsplines d0] 1 (nth 0 ns 0) eq_refl) as Hp. cbn [app] in Hp.
  rewrite <- Hnsl in Hp. rewrite map_length in Hp. rewrite Hp in H.
  rewrite (map_ext_in (fun x => vecmat (rB x) (Lfac ns md x) (nth x ns 0)) rT) in H
    by (intros i Hi; apply in_seq in Hi; symmetry; apply Hstep; lia).
  rewrite <- (Hstep 0) in H by lia.
  rewrite <- H. f_equal.
  - unfold ns. change (map ds_nsplines (d0 :: dims')) with (ds_nsplines d0 :: map ds_nsplines dims').
    rewrite Lbig_cons, map_length. reflexivity.
Qed.

(* ---------------------------------------------------------------------------------------------- *)
(* (D) the system of the monotone fit *)
Lemma scaled_rows_mmul lam (M L : list (list K)) n :
  scaled_rows lam (mmul M L n) = map (tripleT L n) (scaled_rows lam M).
Proof. unfold scaled_rows. rewrite mmul_as_vecmat, !map_map. reflexivity. Qed.

(* the penalty triples of the monotone fit, per dimension *)
Definition pen_triples_of_mono (nsplines : list nat) (md : nat) (smoothing : list K) (porders : list nat) (id : nat * @dimspec A)
  : list (K * list K * K) :=
  let lam := pick zero smoothing (fst id) in
  if eqK lam zero then []
  else scaled_rows lam (penalty_root_mono nsplines (fun k => nth k (ds_knots (snd id)) zero) (fst id) (ds_order (snd id))
                                          (pick 0%nat porders (fst id)) md).

Lemma pen_triples_of_mono_is_tripleT (nsplines : list nat) md smoothing porders id : nsplines <> [] ->
  pen_triples_of_mono nsplines md smoothing porders id
  = map (tripleT (Lbig nsplines md) (fold_right Nat.mul 1 nsplines)) (pen_triples_of nsplines smoothing porders id).
Proof.
  intro Hne. unfold pen_triples_of_mono, pen_triples_of. cbv zeta. destruct (eqK (pick zero smoothing (fst id)) zero); [reflexivity|].
  rewrite (penalty_root_mono_is_product nsplines _ _ _ _ md Hne). apply scaled_rows_mmul.
Qed.

Lemma penalty_fold_mono (nsplines : list nat) (md : nat) (smoothing : list K) (porders : list nat) :
  nsplines <> [] ->
  let n := fold_right Nat.mul 1%nat nsplines in
  forall (ids : list (nat * dimspec)) (Pl : list (K * list K * K)), wf_rows n Pl ->
  fold_left (fun pen id => let i := fst id in let d := snd id in
                           add_penalty_term_mono nsplines (fun k => nth k (ds_knots d) zero) i (ds_order d)
                                                 (pick 0%nat porders i) (pick zero smoothing i) md pen) ids (nmat n Pl)
  = nmat n (Pl ++ flat_map (pen_triples_of_mono nsplines md smoothing porders) ids)
  /\ wf_rows n (Pl ++ flat_map (pen_triples_of_mono nsplines md smoothing porders) ids).
Proof.
  intros Hne n. induction ids as [|[i d] ids IH]; intros Pl HPl; cbn [fold_left flat_map fst snd].
  - rewrite app_nil_r. split; [reflexivity | exact HPl].
  - destruct (calc_penalty_mono_is_gram nsplines (fun k => nth k (ds_knots d) zero) i (ds_order d) (pick 0%nat porders i) md Hne) as [Hg Hr].
    fold n in Hg, Hr.
    assert (Hstep : add_penalty_term_mono nsplines (fun k => nth k (ds_knots d) zero) i (ds_order d) (pick 0%nat porders i) (pick zero smoothing i) md (nmat n Pl)
                    = nmat n (Pl ++ pen_triples_of_mono nsplines md smoothing porders (i, d))
                    /\ wf_rows n (Pl ++ pen_triples_of_mono nsplines md smoothing porders (i, d))).
    { unfold add_penalty_term_mono, pen_triples_of_mono. cbn [fst snd]. destruct (eqK (pick zero smoothing i) zero).
      - rewrite app_nil_r. split; [reflexivity | exact HPl].
      - pose proof (scaled_rows_wf n (pick zero smoothing i) _ Hr) as Hs. split.
        + rewrite (nmat_app F n Pl _ HPl Hs). f_equal. rewrite Hg, (gram_is_nmat F n _ Hr). apply (nmat_scaled_rows F). exact Hr.
        + apply Forall_app. split; assumption. }
    destruct Hstep as [E1 W1]. rewrite E1. rewrite app_assoc. apply IH. exact W1.
Qed.

Theorem penalty_matrix_mono_is_nmat (dims : list dimspec) (md : nat) (smoothing : list K) (porders : list nat) : dims <> [] ->
  let ns := map ds_nsplines dims in
  let n := fold_right Nat.mul 1%nat ns in
  penalty_matrix_mono dims md smoothing porders = nmat n (map (tripleT (Lbig ns md) n) (pen_triples dims smoothing porders)).
Proof.
  intros Hne ns n.
  assert (Hns : ns <> []) by (unfold ns; destruct dims; [congruence | discriminate]).
  pose proof (proj1 (penalty_fold_mono ns md smoothing porders Hns (combine (seq 0 (length dims)) dims) [] (Forall_nil _))) as H.
  cbn [app] in H. unfold penalty_matrix_mono. cbv zeta. refine (eq_trans H _). fold n. f_equal.
  unfold pen_triples. fold ns. rewrite map_flat_map. apply flat_map_ext_in'. intros id _.
  apply pen_triples_of_mono_is_tripleT. exact Hns.
Qed.

(* the data part through C09's generic GLAM theorem, instantiated with the T-spline bases *)
Lemma fold_double_index {X Z} (f : Z -> nat * (nat * X) -> Z) : forall (l : list X) k a,
  fold_left f (combine (seq k (length l)) (combine (seq k (length l)) l)) a
  = fold_left (fun a id => f a (fst id, id)) (combine (seq k (length l)) l) a.
Proof. induction l as [|x l IH]; intros k a; [reflexivity|]. cbn [length seq combine fold_left fst]. apply IH. Qed.
Lemma map_snd_combine_seq {X Y} (g : X -> Y) : forall (l : list X) k, map (fun id : nat * X => g (snd id)) (combine (seq k (length l)) l) = map g l.
Proof. induction l as [|x l IH]; intro k; [reflexivity|]. cbn [length seq combine map snd]. rewrite IH. reflexivity. Qed.

Notation nspX := (fun id : nat * @dimspec A => ds_nsplines (snd id)).
Notation nrwX := (fun id : nat * @dimspec A => ncoords (snd id)).

Lemma xs_of_length (dims : list (@dimspec A)) : length (xs_of dims) = length dims.
Proof. unfold xs_of. rewrite combine_length, seq_length. lia. Qed.

Lemma bas_mono_wf md (dims : list dimspec) : Forall (wf_basis (nat * dimspec) (bas_mono md) nspX nrwX) (xs_of dims).
Proof.
  apply Forall_forall. intros [i d] _. unfold wf_basis, bas_mono, basis_mono. cbn [fst snd].
  destruct (basis_of_wf d) as [H1 H2]. fold (basis_of d).
  destruct (Nat.eqb md i); [split; [apply mmul_rows | rewrite mmul_length; exact H2] | split; assumption].
Qed.

Lemma Farr_mono_is_generic (dims : list dimspec) md data :
  Farr_mono dims md data = Farr_g (nat * dimspec) (bas_mono md) nspX nrwX (xs_of dims) data.
Proof.
  unfold Farr_g, Farr_mono. rewrite xs_of_length. unfold xs_of. rewrite fold_double_index.
  unfold nrwN, ncoords. rewrite (map_snd_combine_seq (fun d => N.of_nat (length (ds_coords d))) dims 0). reflexivity.
Qed.
Lemma Rarr_mono_is_generic (dims : list dimspec) md data :
  Rarr_mono dims md data = Rarr_g (nat * dimspec) (bas_mono md) nspX nrwX (xs_of dims) data.
Proof.
  unfold Rarr_g, Rarr_mono. rewrite xs_of_length. unfold xs_of. rewrite fold_double_index.
  unfold nrwN, ncoords. rewrite (map_snd_combine_seq (fun d => N.of_nat (length (ds_coords d))) dims 0). reflexivity.
Qed.

Lemma ncoef_xs (dims : list (@dimspec A)) : ncoef (nat * dimspec) nspX (xs_of dims) = fold_right Nat.mul 1%nat (map ds_nsplines dims).
Proof. unfold ncoef, xs_of. rewrite (map_snd_combine_seq ds_nsplines dims 0). reflexivity. Qed.

Lemma Etriples_mono (dims : list dimspec) md (data : list (list N * K * K)) : dims <> [] ->
  Forall (fun e => valid_idx (map (fun d => N.of_nat (length (ds_coords d))) dims) (fst (fst e))) data ->
  Etriples (nat * dimspec) (bas_mono md) (xs_of dims) data
  = map (tripleT (Lbig (map ds_nsplines dims) md) (fold_right Nat.mul 1%nat (map ds_nsplines dims))) (data_triples dims data).
Proof.
  intros Hne Hdata. unfold Etriples, data_triples. rewrite map_map. apply map_ext_in. intros e He.
  unfold tripleT. cbn [fst snd]. f_equal. f_equal.
  apply (design_row_mono dims md (fst (fst e)) Hne). exact (proj1 (Forall_forall _ _) Hdata e He).
Qed.

(* THE THEOREM: for every number of dimensions and every monotonic dimension the system of the monotone fit is the normal system of
   C09's objective triples in the variables a with c = Lbig a *)
Theorem fit_system_mono_is_congruence (dims : list dimspec) (md : nat) (smoothing : list K) (porders : list nat) (data : list (list N * K * K)) :
  dims <> [] ->
  Forall (fun e => valid_idx (map (fun d => N.of_nat (length (ds_coords d))) dims) (fst (fst e))) data ->
  let ns := map ds_nsplines dims in
  let n := fold_right Nat.mul 1%nat ns in
  let ET := map (tripleT (Lbig ns md) n) (objective_triples dims smoothing porders data) in
  fit_system_mono dims md smoothing porders data = (nmat n ET, nrhs n ET) /\ wf_rows n ET.
Proof.
  intros Hne Hdata ns n ET.
  assert (Hdata' : Forall (fun e : list N * K * K => valid_idx (map (nrwN (nat * dimspec) nrwX) (xs_of dims)) (fst (fst e))) data).
  { unfold nrwN, ncoords, xs_of. rewrite (map_snd_combine_seq (fun d => N.of_nat (length (ds_coords d))) dims 0). exact Hdata. }
  pose proof (glam_F_is_BtWB F (nat * dimspec) (bas_mono md) nspX nrwX (xs_of dims) data (bas_mono_wf md dims) Hdata') as HF.
  pose proof (glam_R_is_BtWz F (nat * dimspec) (bas_mono md) nspX nrwX (xs_of dims) data (bas_mono_wf md dims) Hdata') as HR.
  rewrite <- Farr_mono_is_generic in HF. rewrite <- Rarr_mono_is_generic in HR.
  rewrite ncoef_xs in HF, HR. fold ns in HF, HR. fold n in HF, HR.
  rewrite (Etriples_mono dims md data Hne Hdata) in HF, HR. fold ns in HF, HR. fold n in HF, HR.
  pose proof (penalty_matrix_mono_is_nmat dims md smoothing porders Hne) as HP. cbv zeta in HP. fold ns in HP. fold n in HP.
  destruct (penalty_matrix_is_nmat F dims smoothing porders) as [_ [_ Hpz]].
  set (L := Lbig ns md) in *.
  assert (Hz : Forall (fun e : K * list K * K => zval e = zero) (map (tripleT L n) (pen_triples dims smoothing porders))).
  { apply Forall_map. exact Hpz. }
  unfold ET, objective_triples. rewrite map_app. split.
  - unfold fit_system_mono. cbv zeta. fold ns. fold n. rewrite HF, HR, HP.
    rewrite (nmat_app F n _ _ (tripleT_wf L n _) (tripleT_wf L n _)).
    rewrite (nrhs_app_zero F n _ _ (tripleT_wf L n _) (tripleT_wf L n _) Hz). reflexivity.
  - apply Forall_app. split; apply tripleT_wf.
Qed.

End Congruence.
