(* C11_Spec2.v — Prop-level vocabulary for the exit theorems of the PJV block-pivoting solvers (definitions only).
   These solvers accept slightly negative coefficients: their exit test is x_i >= -KKT_TOL on the passive set and
   y_i >= -KKT_TOL on the active set. *)
From Coq Require Import List Bool.
From PS Require Import Arith NnlsModel C11_Spec.
Import ListNotations.

Section Spec2.
Context {A : Arith}.
Notation K := (T A).

(* KKT within (tx, tg): per component, with g = Mx - b:
     either the gradient is zero and x_i >= -tx      (a passive coefficient),
     or     x_i = 0 and g_i >= -tg                   (an active coefficient).
   tx = 0 is [kkt_tol tg] (C11_Spec.v) — see kkt_tol2_nonneg in C11_Pjv_Proofs.v. *)
Definition kkt_tol2 (tx tg : K) (M : list (list K)) (b x : list K) : Prop :=
  Forall2 (fun xi gi => (le (opp tx) xi /\ gi = zero) \/ (xi = zero /\ le (opp tg) gi)) x (gradient M b x).
End Spec2.
