(* CApiModel.v — executable model of the extern "C" layer src/cinter/splinetable.cpp (C18).  No proofs in this file.

   State: the C++ object world of C20 (ObjModel.world: slot k holds the object behind handle k, None = table->data is
   NULL) PLUS what the glue itself owns: the storage of `new photospline::splinetable<>` per handle, the caller-held
   `ndsparse*` results of splinetable_grideval (object + the arrays of ndsparse_allocate), and the caller-held
   splinetable_buffer.data of writesplinefitstable_mem — one list of ObjModel slots `gs`, in an allocator `gm` of its own.

   Every wrapper is  glue ∘ C++ member:  the glue (which pointers the leading check tests, what it returns, whether the
   body is inside try/catch, what the catch blocks return, which delete expression ndsparse_destroy uses) is DATA, read
   off the source by tools/translators/cinter.py (Generated_cinter.wrappers : list CGlue.glue); the member is
   ObjModel.step (cpp_step).  c_call interprets the two. *)
From Coq Require Import List Arith Bool String.
From PS Require Import ObjResource ObjModel CGlue.
Import ListNotations.
Open Scope string_scope.

(* ---------------------------------------------------------------------------------------------- *)
(** * Calls *)

Inductive acc := AccNdim | AccOrder | AccNknots | AccKnots | AccKnot | AccLower | AccUpper | AccPeriod | AccNcoeffs
               | AccTotal | AccStride | AccCoeff.

Inductive cargs :=
| AInit | AFree
| ARead (f : file)                         (* readsplinefitstable(path, table) *)
| AWrite (fails : bool)                    (* writesplinefitstable; fails = cfitsio reports an error (unwritable path) *)
| AGetKey (k : nat)
| AReadKey (k : nat) (parses : bool)       (* parses = the stored text converts to the requested type *)
| AWriteKey (invalid : bool) (e : auxent)
| AAcc (a : acc)
| ASearch (inside : bool)                  (* tablesearchcenters; inside = x lies in the support *)
| AEval | ADeriv | AGrad
| AConvolve (dim nk : nat)
| AReadMem (f : file)
| AWriteMem (b : nat) (bytes : nat) (fails : bool)
| ABufFree (b : nat)                       (* the CALLER's free(buffer.data) — not a wrapper *)
| AFit (s : fitspec)
| AGrideval (r : nat) (rows : nat)         (* rows = number of non-zero coefficients (0 makes the ndsparse constructor throw) *)
| ANdDestroy (r : nat)
| APermute (p : list nat).

Record ccall := { c_h : nat;                  (* which handle `table` points to *)
                  c_nulls : list string;      (* the pointer ARGUMENTS that are NULL in this call, by parameter name;
                                                 "buffer->data" for a buffer struct whose data member is NULL *)
                  c_args : cargs }.

Definition acc_name (a : acc) : string :=
  match a with
  | AccNdim => "splinetable_ndim" | AccOrder => "splinetable_order" | AccNknots => "splinetable_nknots"
  | AccKnots => "splinetable_knots" | AccKnot => "splinetable_knot" | AccLower => "splinetable_lower_extent"
  | AccUpper => "splinetable_upper_extent" | AccPeriod => "splinetable_period" | AccNcoeffs => "splinetable_ncoeffs"
  | AccTotal => "splinetable_total_ncoeffs" | AccStride => "splinetable_stride" | AccCoeff => "splinetable_coefficients"
  end.

Definition fname (a : cargs) : string :=
  match a with
  | AInit => "splinetable_init" | AFree => "splinetable_free" | ARead _ => "readsplinefitstable"
  | AWrite _ => "writesplinefitstable" | AGetKey _ => "splinetable_get_key" | AReadKey _ _ => "splinetable_read_key"
  | AWriteKey _ _ => "splinetable_write_key" | AAcc a => acc_name a | ASearch _ => "tablesearchcenters"
  | AEval => "ndsplineeval" | ADeriv => "ndsplineeval_deriv" | AGrad => "ndsplineeval_gradient"
  | AConvolve _ _ => "splinetable_convolve" | AReadMem _ => "readsplinefitstable_mem"
  | AWriteMem _ _ _ => "writesplinefitstable_mem" | ABufFree _ => "free" | AFit _ => "splinetable_glamfit"
  | AGrideval _ _ => "splinetable_grideval" | ANdDestroy _ => "ndsparse_destroy" | APermute _ => "splinetable_permute"
  end.

(* the pointers the BODY of the wrapper (or the member behind it) dereferences without looking *)
Definition derefs (a : cargs) : list string :=
  match a with
  | AInit | AFree => ["table"]
  | ARead _ => ["table"; "path"]
  | AWrite _ => ["table"; "table->data"; "path"]
  | AGetKey _ => ["table"; "table->data"; "key"]
  | AReadKey _ _ => ["table"; "table->data"; "key"; "result"]
  | AWriteKey _ _ => ["table"; "table->data"; "key"; "value"]
  | AAcc _ => ["table"; "table->data"]
  | ASearch _ => ["table"; "table->data"; "x"; "centers"]
  | AEval => ["table"; "table->data"; "x"; "centers"]
  | ADeriv => ["table"; "table->data"; "x"; "centers"; "derivatives"]
  | AGrad => ["table"; "table->data"; "x"; "centers"; "evaluates"]
  | AConvolve _ _ => ["table"; "table->data"; "knots"]
  | AReadMem _ => ["table"; "buffer"; "buffer->data"]
  | AWriteMem _ _ _ => ["table"; "table->data"; "buffer"]
  | ABufFree _ => []
  | AFit _ => ["table"; "table->data"; "data"; "weights"; "coords"; "splineOrder"; "knots"; "nknots"; "smoothing"; "penaltyOrder"]
  | AGrideval _ _ => ["table"; "table->data"; "coords"; "ncoords"; "result"]
  | ANdDestroy _ => []                                   (* delete NULL is a no-op *)
  | APermute _ => ["table"; "table->data"; "permutation"]
  end.

(* ---------------------------------------------------------------------------------------------- *)
(** * State *)

Record cstate := {
  cw : world;              (* the C++ objects (C20's model) *)
  gm : mem;                (* the allocator as the glue uses it *)
  gs : list slot;          (* what the glue / the C caller holds: see the positions below *)
  dead : bool              (* std::terminate or a crash has ended the process *)
}.
Definition p_h (k : nat) : nat := k.                (* table->data of handle k  (k < 4)            *)
Definition p_b (b : nat) : nat := 4 + b.            (* buffer b's data          (b < 2)            *)
Definition p_rs (r : nat) : nat := 6 + 2 * r.       (* result r: the ndsparse object (r < 2)       *)
Definition p_rp (r : nat) : nat := 7 + 2 * r.       (* result r: the arrays of ndsparse_allocate   *)
Definition cstate0 : cstate :=
  {| cw := world0; gm := mem0; gs := [Null; Null; Null; Null; Null; Null; Null; Null; Null; Null]; dead := false |}.

Definition gget (cs : cstate) (p : nat) : slot := nth p (gs cs) Null.
Definition with_cw (cs : cstate) (w : world) : cstate := {| cw := w; gm := gm cs; gs := gs cs; dead := dead cs |}.
Definition with_g (cs : cstate) (m : mem) (l : list slot) : cstate := {| cw := cw cs; gm := m; gs := l; dead := dead cs |}.
Definition kill (cs : cstate) : cstate := {| cw := cw cs; gm := gm cs; gs := gs cs; dead := true |}.

Definition sz_table : nat := 104.      (* sizeof(photospline::splinetable<>)  *)
Definition sz_nd : nat := 48.          (* sizeof(photospline::ndsparse): the C struct (40) + entriesInserted *)
Definition sz_nd_base : nat := 40.     (* sizeof(::ndsparse) *)
(* ndsparse_allocate (splineutil.c:8-40): i, ranges, x, i[0..ndim-1] — allocated together, released together by
   ndsparse_free, never handed out one by one: modelled as ONE block *)
Definition nd_bytes (nd rows : nat) : nat := 8 * nd + 4 * nd + 8 * rows + 4 * rows * nd.

(* p = new …  /  p = malloc(…): the previous value of the pointer variable is overwritten (a block it held is lost) *)
Definition g_new (GF : nat -> bool) (cs : cstate) (p bytes : nat) : option cstate * mem :=
  match m_alloc GF (gm cs) bytes with
  | (None, m') => (None, m')
  | (Some id, m') => (Some (with_g cs (m_lose m' (gget cs p)) (set_nth (gs cs) p (Owned id bytes))), m')
  end.
(* delete p / free(p), then p = NULL.  `claimed` = the size the delete expression's static type implies *)
Definition g_del (cs : cstate) (p claimed : nat) : cstate :=
  match gget cs p with
  | Null => cs                                                  (* delete NULL / free(NULL) *)
  | s => with_g cs (m_free (gm cs) s claimed) (set_nth (gs cs) p Null)
  end.
Definition slot_bytes (s : slot) : nat := match s with Owned _ b => b | _ => 0 end.

(* ---------------------------------------------------------------------------------------------- *)
(** * The bodies: glue around cpp_step *)

Inductive bres := BOk | BFalse | BThrow (r : reason) | BUB.

(* table->data != NULL *)
Definition live (cs : cstate) (k : nat) : bool := negb (is_null (gget cs (p_h k))).

(* one C++ member call on the object world *)
Definition lift_step (c : cfg) (F : nat -> bool) (cs : cstate) (x : op) : cstate * bres :=
  match cpp_step c F (cw cs) x with
  | (w', Ok) => (with_cw cs w', BOk)
  | (w', Failed r) => (with_cw cs w', BThrow r)
  | (w', UB) => (with_cw cs w', BUB)
  | (w', Skipped) => (with_cw cs w', BUB)          (* no object: the wrapper dereferenced a NULL table->data *)
  end.

(* delete static_cast<splinetable<>*>(table->data); table->data=NULL   (splinetable.cpp:25-27) *)
Definition do_free (c : cfg) (F : nat -> bool) (cs : cstate) (k : nat) : cstate * bres :=
  if live cs k then
    match lift_step c F cs (ODestroy k) with
    | (cs1, BOk) => (g_del cs1 (p_h k) sz_table, BOk)
    | r => r
    end
  else (cs, BOk).

(* table->data = <something else> while it still points to an object: the object and its storage become unreachable *)
Definition abandon (cs : cstate) (k : nat) : cstate :=
  match get_obj (cw cs) k with
  | Some o => with_cw cs (set_obj (cw cs) k None (lose_all (wm (cw cs)) o))
  | None => cs
  end.

Definition obj_of (cs : cstate) (k : nat) : obj := match get_obj (cw cs) k with Some o => o | None => empty_obj end.

Definition body (g : glue) (c : cfg) (F GF : nat -> bool) (cs : cstate) (call : ccall) : cstate * bres :=
  let k := c_h call in
  match c_args call with
  | AInit =>                                                            (* splinetable.cpp:11-12 *)
      match g_new GF (abandon cs k) (p_h k) sz_table with
      | (None, m') => (with_g cs m' (gs cs), BThrow RAlloc)
      | (Some cs1, _) => lift_step c F cs1 (ONew k)
      end
  | AFree => do_free c F cs k                                           (* :25-27 *)
  | ARead f =>                                                          (* :33-36 *)
      match (if g_free_first g then do_free c F cs k else (abandon cs k, BOk)) with
      | (cs1, BOk) =>
          match g_new GF cs1 (p_h k) sz_table with
          | (None, m') => (with_g cs1 m' (gs cs1), BThrow RAlloc)
          | (Some cs2, _) =>
              match lift_step c F cs2 (ONewRead k f) with
              | (cs3, BThrow r) => (g_del cs3 (p_h k) sz_table, BThrow r)   (* the constructor threw: operator delete of the storage *)
              | r => r
              end
          end
      | r => r
      end
  | AWrite fails => lift_step c F cs (OWrite k fails)                   (* :50-51 *)
  | AGetKey key =>                                                      (* :65-66; get_aux_value walks aux[i][0] *)
      if aux_ok (obj_of cs k) then match find_key key (auxs (obj_of cs k)) 0 with Some _ => (cs, BOk) | None => (cs, BFalse) end
      else (cs, BUB)
  | AReadKey key parses =>                                              (* :81-91 *)
      if aux_ok (obj_of cs k) then
        match find_key key (auxs (obj_of cs k)) 0 with Some _ => if parses then (cs, BOk) else (cs, BFalse) | None => (cs, BFalse) end
      else (cs, BUB)
  | AWriteKey inv e => lift_step c F cs (OWriteKey k inv e)             (* :106-114 *)
  | AAcc a =>                                                           (* :125-199: plain reads, nothing thrown (reached only with
                                                                           table->data != NULL when the glue checks it) *)
      match a with
      | AccNdim | AccTotal | AccCoeff => if live cs k then (cs, BOk) else (cs, BUB)
      | _ => if built (obj_of cs k) && has_extents (obj_of cs k) then (cs, BOk) else (cs, BUB)
      end
  | ASearch inside =>                                                   (* :176-177 *)
      match lift_step c F cs (OEval k) with (cs1, BOk) => (cs1, if inside then BOk else BFalse) | r => r end
  | AEval | ADeriv => lift_step c F cs (OEval k)                        (* :182-183, :194-195 *)
  | AGrad =>                                                            (* :188-189; bspline_multi.h:310 throws when ndim+1 > PHOTOSPLINE_MAXDIM (8) *)
      match lift_step c F cs (OEval k) with
      | (cs1, BOk) => if Nat.ltb 8 (ndim (obj_of cs k) + 1) then (cs1, BThrow RInvalid) else (cs1, BOk)
      | r => r
      end
  | AConvolve dim nk => lift_step c F cs (OConvolve k dim nk)           (* :200-201 *)
  | AReadMem f =>                                                       (* :210-213 *)
      if live cs k then lift_step c F cs (ORead k f)
      else match g_new GF cs (p_h k) sz_table with
           | (None, m') => (with_g cs m' (gs cs), BThrow RAlloc)
           | (Some cs1, _) => match lift_step c F cs1 (ONew k) with
                              | (cs2, BOk) => lift_step c F cs2 (ORead k f)
                              | r => r
                              end
           end
  | AWriteMem b bytes fails =>                                          (* :228-231 *)
      match lift_step c F cs (OWrite k fails) with
      | (cs1, BOk) => match g_new GF cs1 (p_b b) bytes with                (* cfitsio's memory file: malloc *)
                      | (None, m') => (with_g cs1 m' (gs cs1), BThrow RAlloc)
                      | (Some cs2, _) => (cs2, BOk)
                      end
      | r => r
      end
  | ABufFree b => (g_del cs (p_b b) (slot_bytes (gget cs (p_b b))), BOk)
  | AFit s => lift_step c F cs (OFit k s)                               (* :251-271 *)
  | AGrideval r rows =>                                                 (* :287-293; grideval.h:23-30; splinetable.h:47-55 *)
      let o := obj_of cs k in
      if negb (built o && has_extents o) then (cs, BUB)                 (* reads naxes[0]*strides[0] of the table *)
      else if Nat.eqb rows 0 then (cs, BThrow RInvalid)                 (* "Tried to allocate an ndsparse with 0 entries" *)
      else match g_new GF cs (p_rs r) sz_nd with
           | (None, m') => (with_g cs m' (gs cs), BThrow RAlloc)
           | (Some cs1, _) =>
               match g_new GF cs1 (p_rp r) (nd_bytes (ndim o) rows) with
               | (None, m') => (g_del (with_g cs1 m' (gs cs1)) (p_rs r) sz_nd, BThrow RAlloc)   (* constructor threw bad_alloc *)
               | (Some cs2, _) => (cs2, BOk)
               end
           end
  | ANdDestroy r =>                                                     (* :305-307 *)
      if is_null (gget cs (p_rs r)) then (cs, BOk)
      else if String.eqb (g_member g) "delete photospline::ndsparse"
      then (g_del (g_del cs (p_rp r) (slot_bytes (gget cs (p_rp r)))) (p_rs r) sz_nd, BOk)      (* ~ndsparse(): ndsparse_free, then the object *)
      else (* delete through ::ndsparse*: the derived destructor does not run; the arrays stay allocated and the only
              pointer to them is gone; the storage is released as a 40-byte object *)
           let cs1 := g_del cs (p_rs r) sz_nd_base in
           (with_g cs1 (m_lose (gm cs1) (gget cs1 (p_rp r))) (set_nth (gs cs1) (p_rp r) Null), BOk)
  | APermute p => lift_step c F cs (OPermute k p)                       (* :312-316 *)
  end.

(* ---------------------------------------------------------------------------------------------- *)
(** * The wrapper around the body *)

(* RNaN: not-a-number handed to the caller — returned by a double-valued wrapper (CRNaN) or filled into the output buffer
   of the void ndsplineeval_gradient (CRNaNFill) *)
Inductive cres := RInt (n : nat) | RPtr (nonnull : bool) | RVal | RVoid | RNaN | Escaped (r : reason) | Crashed.

Definition ret_of (x : cret) : cres :=
  match x with CR0 => RInt 0 | CR1 => RInt 1 | CRNull => RPtr false | CRVoid => RVoid | CRNaN => RNaN | CRNaNFill => RNaN | CRValue => RVal | CRNone => RVoid end.
Definition ret_ok (g : glue) : cres :=
  match g_ok_ret g with
  | CRValue => if String.eqb (g_rtype g) "const char*" then RPtr true else if String.eqb (g_rtype g) "int" then RInt 1 else RVal
  | x => ret_of x
  end.
(* the member reported failure by VALUE (false / NULL) *)
Definition ret_false (g : glue) : cres :=
  match g_false_ret g with
  | CRNone => if String.eqb (g_rtype g) "const char*" then RPtr false else RInt 0
  | x => ret_of x
  end.

(* the NULL pointers this call presents, table->data and buffer->data included *)
Definition eff_nulls (cs : cstate) (call : ccall) : list string :=
  c_nulls call
  ++ (if inb "table" (c_nulls call) then [] else if live cs (c_h call) then [] else ["table->data"])
  ++ match c_args call with
     | AWriteMem b _ _ => if inb "buffer" (c_nulls call) then [] else if is_null (gget cs (p_b b)) then [] else ["buffer->data:nonnull"]
     | _ => []
     end.

Definition c_call (gt : list glue) (c : cfg) (F GF : nat -> bool) (cs : cstate) (call : ccall) : cstate * cres :=
  if dead cs then (cs, Crashed) else
  let g := glue_of gt (fname (c_args call)) in
  let nl := eff_nulls cs call in
  if existsb (fun a => inb a (c_nulls call)) (g_pre_deref g) then (kill cs, Crashed)          (* `*result=NULL` with result==NULL *)
  else if existsb (fun a => inb a nl) (g_checked g) then (cs, ret_of (g_check_ret g))         (* the leading check refuses *)
  else if existsb (fun a => inb a nl) (derefs (c_args call)) then (kill cs, Crashed)          (* unchecked NULL dereferenced *)
  else match body g c F GF cs call with
       | (cs', BOk) => (cs', ret_ok g)
       | (cs', BFalse) => (cs', ret_false g)
       | (cs', BThrow r) => if g_try g then (cs', ret_of (g_catch_ret g)) else (kill cs', Escaped r)
       | (cs', BUB) => (kill cs', Crashed)
       end.

Fixpoint c_run (gt : list glue) (c : cfg) (F GF : nat -> bool) (cs : cstate) (calls : list ccall) : cstate * list cres :=
  match calls with
  | [] => (cs, [])
  | x :: t => match c_call gt c F GF cs x with
              | (cs', r) => match c_run gt c F GF cs' t with (cs'', rs) => (cs'', r :: rs) end
              end
  end.

(* ---------------------------------------------------------------------------------------------- *)
(** * What the theorems talk about *)

(* a failure indication the C caller can see *)
Definition signals_failure (r : cres) : bool :=
  match r with RInt (S _) => true | RPtr false => true | RNaN => true | _ => false end.

(* the functions whose member can throw (by reading; every call of the correspondence run tests it) *)
Definition may_throw (a : cargs) : bool :=
  match a with
  | AFree | AGetKey _ | AReadKey _ _ | AAcc _ | ASearch _ | AEval | ADeriv | ABufFree _ | ANdDestroy _ => false
  | _ => true
  end.

Definition all_accs : list acc := [AccNdim; AccOrder; AccNknots; AccKnots; AccKnot; AccLower; AccUpper; AccPeriod; AccNcoeffs; AccTotal; AccStride; AccCoeff].
Definition sample_file : file := {| f_open_fails := false; f_fail := PNone; f_ndim := 0; f_orders := []; f_nknots := []; f_naxes := []; f_aux := [] |}.
Definition sample_fit : fitspec := {| ft_invalid := false; ft_fails := false; ft_orders := []; ft_nknots := [] |}.
Definition sample_aux : auxent := {| akey := 0; aklen := 0; avlen := 0 |}.
(* one representative of every constructor: fname/may_throw/derefs do not look at the payload *)
Definition all_shapes : list cargs :=
  [AInit; AFree; ARead sample_file; AWrite false; AGetKey 0; AReadKey 0 false; AWriteKey false sample_aux]
  ++ map AAcc all_accs
  ++ [ASearch false; AEval; ADeriv; AGrad; AConvolve 0 0; AReadMem sample_file; AWriteMem 0 0 false; AFit sample_fit;
      AGrideval 0 0; ANdDestroy 0; APermute []].

(* OBLIGATIONS on a glue table (checked on Generated_cinter.wrappers by vm_compute) *)
Definition glue_protected (gt : list glue) (a : cargs) : bool := g_try (glue_of gt (fname a)) || negb (may_throw a).
Definition catch_signals (g : glue) : bool :=
  negb (g_try g) || match g_catch_ret g with CR1 | CRNull | CRNaNFill => true | _ => false end.
(* what the leading check hands back is the function's failure value where it has one (1 / NULL; tablesearchcenters: 0, the
   value of searchcenters for a point outside the support) and otherwise the value the header documents for a handle
   without a table: 0 for the counts (an empty table has none), NULL for the arrays, NaN for the double-valued accessors and
   evaluators, NaN in the output buffer for the void gradient *)
Definition check_signals (g : glue) : bool :=
  match g_check_ret g with
  | CR1 | CRNone => true
  | CRNull => String.eqb (g_rtype g) "const char*" || String.eqb (g_rtype g) "const double*" || String.eqb (g_rtype g) "const float*"
  | CRVoid | CRNaNFill => String.eqb (g_rtype g) "void"
  | CRNaN => String.eqb (g_rtype g) "double"
  | CR0 => String.eqb (g_rtype g) "uint32_t" || String.eqb (g_rtype g) "uint64_t" || String.eqb (g_name g) "tablesearchcenters"
  | CRValue => false
  end.
(* every handle / struct / string / result pointer the body dereferences is tested first — by EVERY wrapper (since F18_1 the
   value-returning ones too) — and nothing is dereferenced before the check *)
Definition null_checked (gt : list glue) (a : cargs) : bool :=
  let g := glue_of gt (fname a) in
  forallb (fun p => inb p (g_checked g) || negb (inb p ["table"; "table->data"; "buffer"; "buffer->data"; "path"; "key"; "result"; "value"; "data"]))
          (derefs a) && forallb (fun p => negb (inb p (g_pre_deref g))) (g_params g).
Definition glue_ok (gt : list glue) : bool :=
  forallb (glue_protected gt) all_shapes && forallb catch_signals gt && forallb check_signals gt
  && String.eqb (g_member (glue_of gt "ndsparse_destroy")) "delete photospline::ndsparse"
  && g_free_first (glue_of gt "readsplinefitstable").

(* what each wrapper has to forward to, and with which arguments in which order (the C++ twin) *)
Definition forwarding (gt : list glue) : list (string * string * list string) :=
  map (fun g => (g_name g, g_member g, g_fwd g)) gt.

(* validity of a call in a state: what the C caller is responsible for *)
Definition valid_call (cs : cstate) (call : ccall) : bool :=
  Nat.ltb (c_h call) 3
  && match c_nulls call with [] => true | _ => false end
  && match c_args call with
     | AInit => negb (live cs (c_h call))                          (* initialising a handle twice abandons the first table *)
     | AWriteMem b _ _ => Nat.ltb b 2 && is_null (gget cs (p_b b))        (* the buffer struct is empty, as the wrapper demands *)
     | ABufFree b => Nat.ltb b 2
     | AGrideval r _ => Nat.ltb r 2 && is_null (gget cs (p_rs r)) && is_null (gget cs (p_rp r))   (* the result variable is free *)
     | ANdDestroy r => Nat.ltb r 2
     | _ => true
     end.

Fixpoint valid_sequence (gt : list glue) (c : cfg) (F GF : nat -> bool) (cs : cstate) (calls : list ccall) : bool :=
  match calls with
  | [] => true
  | x :: t => valid_call cs x && valid_sequence gt c F GF (fst (c_call gt c F GF cs x)) t
  end.

Definition all_released (cs : cstate) : bool := forallb is_null (gs cs).

(* the wrappers that are ONE member call on an existing object, and that member (the C++ twin) *)
Definition single_twin (a : cargs) (k : nat) : option op :=
  match a with
  | AWrite fails => Some (OWrite k fails) | AWriteKey i e => Some (OWriteKey k i e) | AConvolve d n => Some (OConvolve k d n)
  | AFit s => Some (OFit k s) | APermute p => Some (OPermute k p) | AEval | ADeriv => Some (OEval k) | _ => None
  end.
(* what the C caller gets for an outcome of the twin *)
Definition lift (g : glue) (o : outcome) : cres :=
  match o with
  | Ok => ret_ok g
  | Failed r => if g_try g then ret_of (g_catch_ret g) else Escaped r
  | UB | Skipped => Crashed
  end.
Definition after (g : glue) (cs : cstate) (w' : world) (o : outcome) : cstate :=
  match o with
  | Ok => with_cw cs w'
  | Failed _ => if g_try g then with_cw cs w' else kill (with_cw cs w')     (* std::terminate *)
  | _ => kill (with_cw cs w')
  end.

(* the glue table of the UNCHANGED tree (a37ac82 + the fixes of other properties), for the refutations *)
Definition nd_destroy_orig : glue :=
  mkGlue "ndsparse_destroy" "void" ["nd"] [] [] CRNone false false CRNone CRNone "delete ::ndsparse" ["nd"] CRVoid.
Definition convolve_orig : glue :=
  mkGlue "splinetable_convolve" "int" ["table"; "dim"; "knots"; "n_knots"] [] [] CRNone false false CRNone CRNone "convolve" ["dim"; "knots"; "n_knots"] CR0.
Definition gradient_orig : glue :=
  mkGlue "ndsplineeval_gradient" "void" ["table"; "x"; "centers"; "evaluates"] [] [] CRNone false false CRNone CRNone "ndsplineeval_gradient" ["x"; "centers"; "evaluates"] CRVoid.
Definition write_orig : glue :=
  mkGlue "writesplinefitstable" "int" ["path"; "table"] [] ["path"; "table"] CR1 false true CR1 CRNone "write_fits" ["path"] CR0.
Definition permute_orig : glue :=
  mkGlue "splinetable_permute" "int" ["table"; "permutation"] [] [] CRNone false true CR1 CRNone "permuteDimensions" ["permutationv"] CR0.
(* the value-returning wrappers as they were up to 07dbb30 (unchanged since a37ac82): no leading check at all *)
Definition value_orig (n rt : string) (ps : list string) (m : string) (fwd : list string) : glue :=
  mkGlue n rt ps [] [] CRNone false false CRNone CRNone m fwd CRValue.
Definition accessors_orig : list glue :=
  [value_orig "splinetable_ndim" "uint32_t" ["table"] "get_ndim" [];
   value_orig "splinetable_order" "uint32_t" ["table"; "dim"] "get_order" ["dim"];
   value_orig "splinetable_nknots" "uint64_t" ["table"; "dim"] "get_nknots" ["dim"];
   value_orig "splinetable_knots" "const double*" ["table"; "dim"] "get_knots" ["dim"];
   value_orig "splinetable_knot" "double" ["table"; "dim"; "knot"] "get_knot" ["dim"; "knot"];
   value_orig "splinetable_lower_extent" "double" ["table"; "dim"] "lower_extent" ["dim"];
   value_orig "splinetable_upper_extent" "double" ["table"; "dim"] "upper_extent" ["dim"];
   value_orig "splinetable_period" "double" ["table"; "dim"] "get_period" ["dim"];
   value_orig "splinetable_ncoeffs" "uint64_t" ["table"; "dim"] "get_ncoeffs" ["dim"];
   value_orig "splinetable_total_ncoeffs" "uint64_t" ["table"] "get_ncoeffs" [];
   value_orig "splinetable_stride" "uint64_t" ["table"; "dim"] "get_stride" ["dim"];
   value_orig "splinetable_coefficients" "const float*" ["table"] "get_coefficients" [];
   value_orig "tablesearchcenters" "int" ["table"; "x"; "centers"] "searchcenters" ["x"; "centers"];
   value_orig "ndsplineeval" "double" ["table"; "x"; "centers"; "derivatives"] "ndsplineeval" ["x"; "centers"; "derivatives"];
   value_orig "ndsplineeval_deriv" "double" ["table"; "x"; "centers"; "derivatives"] "ndsplineeval_deriv" ["x"; "centers"; "derivatives"]].
(* ndsplineeval_gradient between 7998991 and 07dbb30: inside try/catch (NaN fill), the handle not tested *)
Definition gradient_unchecked : glue :=
  mkGlue "ndsplineeval_gradient" "void" ["table"; "x"; "centers"; "evaluates"] [] [] CRNone false true CRNaNFill CRNone "ndsplineeval_gradient" ["x"; "centers"; "evaluates"] CRVoid.
(* the original versions override the current ones (glue_of returns the first match) *)
Definition orig_over (gt : list glue) : list glue :=
  [nd_destroy_orig; convolve_orig; gradient_orig; write_orig; permute_orig] ++ accessors_orig ++ gt.
(* the tree as it was just before F18_1 (07dbb30): everything fixed except the value-returning wrappers *)
Definition unchecked_over (gt : list glue) : list glue := gradient_unchecked :: accessors_orig ++ gt.
