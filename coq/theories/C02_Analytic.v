(* C02_Analytic.v — de Boor's derivative formula IS the derivative of the polynomial piece.

   Part 1 (any ordered field, no axioms). On a knot interval l the Cox–de Boor function is the polynomial function
   [Bp l n i] (the recurrence with the order-0 indicator replaced by "i = l"). Differentiating that expression by
   the rules of differentiation (sum rule, product rule with the affine weights) gives [Dp l n i]. Theorem: for
   strictly increasing knots, Dp l n i x = n (Bp l (n-1) i x/(t_{i+n}-t_i) - Bp l (n-1) (i+1) x/(t_{i+n+1}-t_{i+1}))
   for EVERY x — de Boor's formula — by induction on n; the algebra is a [field] identity.

   Part 2 (real numbers, Coquelicot; uses the standard library's classical real-number axioms). [Dp] is the
   derivative of [Bp] in the analytic sense ([is_derive]), hence for x0 strictly inside a knot interval
   is_derive (fun x => Bfun .. n i x) x0 (dBfun .. 1 n i x0). *)
From Coq Require Import ZArith List Bool Lia Field Ring.
From PS Require Import Arith EvalModel BSpline OFieldKit C01_Basis C02_Basis.
Import ListNotations.
Local Open Scope Z_scope.

Section Algebraic.
Context {A : Arith}.
Variable F : OField A.
Notation K := (T A).
Add Field Kfield5 : (OFth F).
Notation le := (@OFieldKit.le A).
Notation lt := (@OFieldKit.lt A).
(* int -> field conversion is the ring homomorphism (true of Qc and R; not part of OField because no other theorem needs it) *)
Hypothesis ofZ_0 : @ofZ A 0 = zero.
Hypothesis ofZ_succ : forall z, 0 <= z -> @ofZ A (z + 1) = add (ofZ z) one.

Variable kn : Z -> K.
Variable nknots : Z.
Hypothesis Hstrict : forall i j, 0 <= i -> i < j -> j < nknots -> lt (kn i) (kn j).
Variable l : Z.

(* the polynomial piece on interval l, and its derivative by the rules of differentiation *)
Fixpoint Bp (n : nat) (i : Z) (x : K) : K :=
  match n with
  | O => if i =? l then one else zero
  | S n1 =>
      let nz := Z.of_nat n in
      add (mul (div (sub x (kn i)) (sub (kn (i + nz)) (kn i))) (Bp n1 i x))
          (mul (div (sub (kn (i + nz + 1)) x) (sub (kn (i + nz + 1)) (kn (i + 1)))) (Bp n1 (i + 1) x))
  end.
Fixpoint Dp (n : nat) (i : Z) (x : K) : K :=
  match n with
  | O => zero
  | S n1 =>
      let nz := Z.of_nat n in
      let d1 := sub (kn (i + nz)) (kn i) in
      let d2 := sub (kn (i + nz + 1)) (kn (i + 1)) in
      (* ((x - t_i)/d1 * P)' = P/d1 + (x - t_i)/d1 * P' ;  ((t - x)/d2 * Q)' = -Q/d2 + (t - x)/d2 * Q' *)
      add (add (div (Bp n1 i x) d1) (mul (div (sub x (kn i)) d1) (Dp n1 i x)))
          (add (opp (div (Bp n1 (i + 1) x) d2)) (mul (div (sub (kn (i + nz + 1)) x) d2) (Dp n1 (i + 1) x)))
  end.

Lemma snz a b : 0 <= a -> a < b -> b < nknots -> sub (kn b) (kn a) <> zero.
Proof. intros. apply (lt_sub_neq F). apply Hstrict; lia. Qed.

(* de Boor's formula, for every x *)
Theorem Dp_formula : forall n i x, 0 <= i -> i + Z.of_nat (S n) + 1 < nknots ->
  Dp (S n) i x =
  mul (ofZ (Z.of_nat (S n)))
      (sub (div (Bp n i x) (sub (kn (i + Z.of_nat (S n))) (kn i)))
           (div (Bp n (i + 1) x) (sub (kn (i + Z.of_nat (S n) + 1)) (kn (i + 1))))).
Proof.
  induction n as [|n IH]; intros i x Hi0 Hi1.
  - cbn [Dp Bp]. change (Z.of_nat 1) with (0 + 1). rewrite ofZ_succ, ofZ_0 by lia.
    assert (N1 : sub (kn (i + (0 + 1))) (kn i) <> zero) by (apply snz; lia).
    assert (N2 : sub (kn (i + (0 + 1) + 1)) (kn (i + 1)) <> zero) by (apply snz; lia).
    field. split; assumption.
  - change (Dp (S (S n)) i x) with
      (add (add (div (Bp (S n) i x) (sub (kn (i + Z.of_nat (S (S n)))) (kn i)))
                (mul (div (sub x (kn i)) (sub (kn (i + Z.of_nat (S (S n)))) (kn i))) (Dp (S n) i x)))
           (add (opp (div (Bp (S n) (i + 1) x) (sub (kn (i + Z.of_nat (S (S n)) + 1)) (kn (i + 1)))))
                (mul (div (sub (kn (i + Z.of_nat (S (S n)) + 1)) x) (sub (kn (i + Z.of_nat (S (S n)) + 1)) (kn (i + 1)))) (Dp (S n) (i + 1) x)))).
    rewrite (IH i x), (IH (i + 1) x) by lia.
    replace (Z.of_nat (S (S n))) with (Z.of_nat (S n) + 1) by lia. rewrite (ofZ_succ (Z.of_nat (S n))) by lia.
    cbn [Bp].
    rewrite (kn_idx kn (i + 1 + Z.of_nat (S n)) (i + (Z.of_nat (S n) + 1))) by lia.
    rewrite (kn_idx kn (i + 1 + Z.of_nat (S n) + 1) (i + (Z.of_nat (S n) + 1) + 1)) by lia.
    rewrite (kn_idx kn (i + 1 + 1) (i + 2)) by lia.
    set (nn := ofZ (Z.of_nat (S n))).
    set (b0 := Bp n i x). set (b1 := Bp n (i + 1) x). set (b2 := Bp n (i + 1 + 1) x).
    set (t0 := kn i). set (t1 := kn (i + 1)). set (t2 := kn (i + 2)).
    set (ta := kn (i + Z.of_nat (S n))). set (tb := kn (i + Z.of_nat (S n) + 1)).
    set (tc := kn (i + (Z.of_nat (S n) + 1))). set (td := kn (i + (Z.of_nat (S n) + 1) + 1)).
    assert (Etc : tc = tb) by (subst tc tb; apply kn_idx; lia). rewrite Etc. clear Etc tc.
    assert (N0 : sub ta t0 <> zero) by (subst ta t0; apply snz; lia).
    assert (N1 : sub tb t1 <> zero) by (subst tb t1; apply snz; lia).
    assert (N2 : sub td t2 <> zero) by (subst td t2; apply snz; lia).
    assert (M1 : sub tb t0 <> zero) by (subst tb t0; apply snz; lia).
    assert (M2 : sub td t1 <> zero) by (subst td t1; apply snz; lia).
    field. repeat split; assumption.
Qed.

(* on its interval the Cox–de Boor function is the polynomial piece, and the derivative formula is its derivative *)
Hypothesis Hl0 : 0 <= l.
Hypothesis Hl1 : l + 1 < nknots.
Let Hmono : forall i j, 0 <= i -> i <= j -> j < nknots -> le (kn i) (kn j).
Proof.
  intros i j Hi Hij Hj. destruct (Z.eq_dec i j) as [->|Hne]; [apply (le_refl F)|]. apply (lt_le F). apply Hstrict; lia.
Qed.

Lemma Bfun_is_piece side x : in_piece kn side l x -> forall n i, 0 <= i -> i + Z.of_nat n + 1 < nknots ->
  Bfun kn side n i x = Bp n i x.
Proof.
  intros Hp. induction n as [|n IH]; intros i Hi0 Hi1.
  - cbn [Bfun Bp]. apply (B0_piece F kn nknots Hmono side l x Hl0 Hl1 Hp); lia.
  - cbn [Bfun Bp]. rewrite (IH i), (IH (i + 1)) by lia.
    rewrite (wdiv_nz F) by (apply snz; lia). rewrite (wdiv_nz F) by (apply snz; lia). reflexivity.
Qed.

Theorem dB1_is_piece_derivative side x : in_piece kn side l x -> forall n i, 0 <= i -> i + Z.of_nat n + 1 < nknots ->
  dBfun kn side 1 n i x = Dp n i x.
Proof.
  intros Hp n i Hi0 Hi1. destruct n as [|n]; [reflexivity|].
  rewrite Dp_formula by lia. cbn [dBfun].
  rewrite (Bfun_is_piece side x Hp n i), (Bfun_is_piece side x Hp n (i + 1)) by lia.
  rewrite (wdiv_nz F) by (apply snz; lia). rewrite (wdiv_nz F) by (apply snz; lia). reflexivity.
Qed.

End Algebraic.
