(* OFieldKit.v — lemma kit over an abstract ordered field ([OField] laws of Arith.v): the [field]/[ring]
   tactics, order reasoning on [leb]/[ltb], and the 0/0 := 0 division of the Cox–de Boor definition.
   Everything here is proved from the laws only; nothing unfolds an instance. *)
From Coq Require Import ZArith List Bool Lia Field Ring.
From PS Require Import Arith EvalModel BSpline.
Import ListNotations.

Section Kit.
Context {A : Arith}.
Variable F : OField A.
Notation K := (T A).

Definition OFth : field_theory (@zero A) one add mul sub opp div inv (@eq K) := OF_field A F.
Add Field Kfield : OFth.

Definition le (a b : K) : Prop := leb a b = true.
Definition lt (a b : K) : Prop := ltb a b = true.

Lemma rnd_id (x : K) : rnd x = x.
Proof. apply (OF_rnd A F). Qed.

Lemma le_refl (a : K) : le a a.
Proof. apply (OF_leb_refl A F). Qed.
Lemma le_trans (a b c : K) : le a b -> le b c -> le a c.
Proof. apply (OF_leb_trans A F). Qed.
Lemma le_total (a b : K) : le a b \/ le b a.
Proof. apply (OF_leb_total A F). Qed.
Lemma le_antisym (a b : K) : le a b -> le b a -> a = b.
Proof. apply (OF_leb_antisym A F). Qed.

Lemma ltb_negb (a b : K) : ltb a b = negb (leb b a).
Proof. apply (OF_ltb_leb A F). Qed.
Lemma lt_iff_nle (a b : K) : lt a b <-> leb b a = false.
Proof. unfold lt. rewrite ltb_negb. destruct (leb b a); simpl; split; congruence. Qed.
Lemma nlt_le (a b : K) : ltb a b = false -> le b a.
Proof. unfold le. rewrite ltb_negb. destruct (leb b a); simpl; congruence. Qed.
Lemma nle_lt (a b : K) : leb a b = false -> lt b a.
Proof. intro H. apply lt_iff_nle. exact H. Qed.
Lemma lt_le (a b : K) : lt a b -> le a b.
Proof. intro H. apply lt_iff_nle in H. destruct (le_total a b) as [L|L]; [exact L|]. unfold le in L. congruence. Qed.
Lemma lt_irrefl (a : K) : ~ lt a a.
Proof. intro H. apply lt_iff_nle in H. pose proof (le_refl a) as R. unfold le in R. congruence. Qed.
Lemma lt_neq (a b : K) : lt a b -> a <> b.
Proof. intros H E. subst. exact (lt_irrefl b H). Qed.
Lemma le_lt_trans (a b c : K) : le a b -> lt b c -> lt a c.
Proof.
  intros H1 H2. apply lt_iff_nle. destruct (leb c a) eqn:E; [|reflexivity]. exfalso.
  apply lt_iff_nle in H2. assert (le c b) by (eapply le_trans; eauto). unfold le in *. congruence.
Qed.
Lemma lt_le_trans (a b c : K) : lt a b -> le b c -> lt a c.
Proof.
  intros H1 H2. apply lt_iff_nle. destruct (leb c a) eqn:E; [|reflexivity]. exfalso.
  apply lt_iff_nle in H1. assert (le b a) by (eapply le_trans; eauto). unfold le in *. congruence.
Qed.
Lemma lt_not_le (a b : K) : lt a b -> ~ le b a.
Proof. intros H L. apply lt_iff_nle in H. unfold le in L. congruence. Qed.
Lemma le_not_lt (a b : K) : le a b -> ltb b a = false.
Proof. intro H. rewrite ltb_negb. unfold le in H. rewrite H. reflexivity. Qed.

(* b - a = 0 -> a = b *)
Lemma sub_zero_eq (a b : K) : sub b a = zero -> a = b.
Proof. intro E. transitivity (sub b (sub b a)); [ring | rewrite E; ring]. Qed.
Lemma lt_sub_neq (a b : K) : lt a b -> sub b a <> zero.
Proof. intros H E. apply (lt_neq a b H). apply sub_zero_eq. exact E. Qed.

Lemma eqbK_true (a b : K) : eqbK a b = true <-> a = b.
Proof.
  unfold eqbK. rewrite andb_true_iff. split.
  - intros [H1 H2]. apply le_antisym; assumption.
  - intros ->. split; apply le_refl.
Qed.
Lemma eqbK_false (a b : K) : a <> b -> eqbK a b = false.
Proof. intro H. destruct (eqbK a b) eqn:E; [|reflexivity]. apply eqbK_true in E. contradiction. Qed.

Lemma wdiv_nz (a b : K) : b <> zero -> wdiv a b = div a b.
Proof. intro H. unfold wdiv. rewrite eqbK_false by exact H. reflexivity. Qed.
Lemma wdiv_z (a b : K) : b = zero -> wdiv a b = zero.
Proof. intros ->. unfold wdiv. replace (eqbK zero zero) with true; [reflexivity|]. symmetry. apply eqbK_true. reflexivity. Qed.

Lemma mul_zero_r (a : K) : mul a zero = zero.
Proof. ring. Qed.
Lemma mul_zero_l (a : K) : mul zero a = zero.
Proof. ring. Qed.

End Kit.
