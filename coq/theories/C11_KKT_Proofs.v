(* C11_KKT_Proofs.v — the Karush-Kuhn-Tucker conditions characterise the minimiser of x'Mx - 2 b'x over
   x >= 0 when M is symmetric positive definite: a KKT point minimises, and it is unique. Proved over any
   ordered field ([OField] laws), then instantiated at the executed exact instance [QcA]. *)
From Coq Require Import List Bool ZArith QArith Qcanon Lia Field Ring PeanoNat.
From PS Require Import Arith NnlsModel C11_Spec.
Import ListNotations.

Section KKT.
Context {A : Arith}.
Variable OF : OField A.
Notation K := (T A).

Add Field Kf : (OF_field A OF).

(* [ofZ] has no law in [OField]; the objective [qobj] uses [ofZ 2]. Discharged for [QcA] below. *)
Hypothesis ofZ_two : @ofZ A 2 = add one one.

(* ---- order kit ------------------------------------------------------------------------------------ *)
Lemma le_refl (a : K) : le a a.
Proof. apply (OF_leb_refl A OF). Qed.

Lemma le_trans (a b c : K) : le a b -> le b c -> le a c.
Proof. apply (OF_leb_trans A OF). Qed.

Lemma le_antisym (a b : K) : le a b -> le b a -> a = b.
Proof. apply (OF_leb_antisym A OF). Qed.

Lemma le_total (a b : K) : le a b \/ le b a.
Proof. apply (OF_leb_total A OF). Qed.

Lemma le_add_r (a b c : K) : le a b -> le (add a c) (add b c).
Proof. apply (OF_add_le A OF). Qed.

Lemma le_sub0 (a b : K) : le a b <-> le zero (sub b a).
Proof.
  split; intro H.
  - pose proof (le_add_r a b (opp a) H) as H1.
    replace (add a (opp a)) with (@zero A) in H1 by ring.
    replace (add b (opp a)) with (sub b a) in H1 by ring. exact H1.
  - pose proof (le_add_r _ _ a H) as H1.
    replace (add zero a) with a in H1 by ring.
    replace (add (sub b a) a) with b in H1 by ring. exact H1.
Qed.

Lemma le0_add (a b : K) : le zero a -> le zero b -> le zero (add a b).
Proof.
  intros Ha Hb. apply le_trans with (b := b); [exact Hb|].
  pose proof (le_add_r zero a b Ha) as H1.
  replace (add zero b) with b in H1 by ring. exact H1.
Qed.

Lemma le0_mul (a b : K) : le zero a -> le zero b -> le zero (mul a b).
Proof. apply (OF_mul_pos A OF). Qed.

Lemma le_add_compat (a b c d : K) : le a b -> le c d -> le (add a c) (add b d).
Proof.
  intros H1 H2. apply le_trans with (b := add b c).
  - apply le_add_r. exact H1.
  - replace (add b c) with (add c b) by ring. replace (add b d) with (add d b) by ring.
    apply le_add_r. exact H2.
Qed.

Lemma le0_opp (a : K) : le zero a -> le (opp a) zero.
Proof.
  intro H. pose proof (le_add_r zero a (opp a) H) as H1.
  replace (add zero (opp a)) with (opp a) in H1 by ring.
  replace (add a (opp a)) with (@zero A) in H1 by ring. exact H1.
Qed.

Lemma lt_not_le (a b : K) : lt a b <-> ~ le b a.
Proof.
  unfold lt, le. rewrite (OF_ltb_leb A OF). destruct (leb b a); simpl; split; intro H; congruence.
Qed.

Lemma lt_le (a b : K) : lt a b -> le a b.
Proof.
  intro H. apply lt_not_le in H. destruct (le_total a b) as [H1|H1]; [exact H1 | contradiction].
Qed.

Lemma lt_irrefl (a : K) : ~ lt a a.
Proof. intro H. apply lt_not_le in H. apply H. apply le_refl. Qed.

Lemma add_nonneg_zero (a b : K) : le zero a -> le zero b -> add a b = zero -> a = zero /\ b = zero.
Proof.
  intros Ha Hb H.
  assert (Ea : a = opp b) by (replace a with (sub (add a b) b) by ring; rewrite H; ring).
  assert (Ha0 : a = zero).
  { apply le_antisym; [|exact Ha]. rewrite Ea. apply le0_opp. exact Hb. }
  split; [exact Ha0|]. rewrite Ha0 in H. rewrite <- H. ring.
Qed.

Lemma eqK_true (a b : K) : eqK a b = true <-> a = b.
Proof.
  unfold eqK. rewrite andb_true_iff. split.
  - intros [H1 H2]. apply le_antisym; assumption.
  - intros ->. split; apply le_refl.
Qed.

Definition K_eq_dec (a b : K) : {a = b} + {a <> b}.
Proof.
  destruct (eqK a b) eqn:E.
  - left. apply eqK_true. exact E.
  - right. intro H. apply eqK_true in H. congruence.
Defined.

(* ---- vectors -------------------------------------------------------------------------------------- *)
Lemma dot_comm (u v : list K) : dot u v = dot v u.
Proof.
  revert v. induction u as [|a u IH]; intros [|c v]; cbn [dot]; try reflexivity.
  rewrite IH. ring.
Qed.

Lemma dot_nil_r (u : list K) : dot u [] = zero.
Proof. destruct u; reflexivity. Qed.

Lemma dot_vsub_l (u w v : list K) : length u = length w ->
  dot (vsub u w) v = sub (dot u v) (dot w v).
Proof.
  revert w v. induction u as [|a u IH]; intros [|c w] v Hl; cbn [length] in Hl; try discriminate.
  - cbn [vsub dot]. ring.
  - destruct v as [|e v]; cbn [vsub dot]; [ring|].
    rewrite IH by (injection Hl; auto). ring.
Qed.

Lemma dot_vsub_r (v u w : list K) : length u = length w ->
  dot v (vsub u w) = sub (dot v u) (dot v w).
Proof.
  intro Hl. rewrite (dot_comm v (vsub u w)), (dot_comm v u), (dot_comm v w). apply dot_vsub_l. exact Hl.
Qed.

Lemma dot_zeros_l (n : nat) (v : list K) : dot (zeros n) v = zero.
Proof.
  revert v. induction n as [|n IH]; intros [|c v]; cbn [zeros repeat dot]; try reflexivity.
  change (repeat zero n) with (@zeros A n). rewrite IH. ring.
Qed.

Lemma length_mv (M : list (list K)) (v : list K) : length (mv M v) = length M.
Proof. unfold mv. apply map_length. Qed.

Lemma length_vsub (u v : list K) : length u = length v -> length (vsub u v) = length u.
Proof.
  revert v. induction u as [|a u IH]; intros [|c v] Hl; cbn [length] in Hl; try discriminate; cbn [vsub length].
  - reflexivity.
  - rewrite IH by (injection Hl; auto). reflexivity.
Qed.

Lemma mv_vsub (M : list (list K)) (u w : list K) : length u = length w ->
  mv M (vsub u w) = vsub (mv M u) (mv M w).
Proof.
  intro Hl. induction M as [|r M IH]; cbn [mv map vsub]; [reflexivity|].
  fold (mv M (vsub u w)) (mv M u) (mv M w). rewrite IH. rewrite dot_vsub_r by exact Hl. reflexivity.
Qed.

Lemma vsub_zeros_eq (u v : list K) : length u = length v -> vsub u v = zeros (length u) -> u = v.
Proof.
  revert v. induction u as [|a u IH]; intros [|c v] Hl Hz; cbn [length] in Hl; try discriminate.
  - reflexivity.
  - cbn [vsub length zeros repeat] in Hz. injection Hz as H1 H2.
    f_equal.
    + replace a with (add (sub a c) c) by ring. rewrite H1. ring.
    + apply IH; [injection Hl; auto | exact H2].
Qed.

Definition vec_eq_dec : forall u v : list K, {u = v} + {u <> v} := list_eq_dec K_eq_dec.

(* ---- the quadratic identity ----------------------------------------------------------------------- *)
(* q(x') - q(x) = 2 g.d + d'Md  with  d = x' - x,  g = Mx - b ; only  x.(Mx') = x'.(Mx)  is used of symmetry *)
Lemma qobj_diff (M : list (list K)) (b x x' : list K) :
  length b = length M -> length x' = length x ->
  dot x (mv M x') = dot x' (mv M x) ->
  sub (qobj M b x') (qobj M b x) =
  add (add (dot (gradient M b x) (vsub x' x)) (dot (gradient M b x) (vsub x' x)))
      (dot (vsub x' x) (mv M (vsub x' x))).
Proof.
  intros Hb Hx Hs. unfold qobj, gradient. rewrite ofZ_two.
  rewrite (dot_vsub_l (mv M x) b) by (rewrite length_mv; symmetry; exact Hb).
  rewrite !(dot_vsub_r _ x' x) by exact Hx.
  rewrite (dot_vsub_l x' x) by exact Hx.
  rewrite (mv_vsub M x' x) by exact Hx.
  rewrite !(dot_vsub_r _ (mv M x') (mv M x)) by (rewrite !length_mv; reflexivity).
  rewrite (dot_comm (mv M x) x'), (dot_comm (mv M x) x), Hs.
  ring.
Qed.

(* ---- g.d >= 0 from the KKT conditions ----------------------------------------------------------- *)
Lemma kkt_gd_nonneg (x g x' : list K) :
  Forall2 (fun xi gi => le zero xi /\ (gi = zero \/ (xi = zero /\ le (opp zero) gi))) x g ->
  nonneg x' -> length x' = length x ->
  le zero (dot g (vsub x' x)).
Proof.
  intro HF. revert x'. induction HF as [|xi gi x g [Hxi Hg] HF IH]; intros [|c x'] Hn Hl;
    cbn [length] in Hl; try discriminate.
  - cbn [dot]. apply le_refl.
  - cbn [vsub dot]. inversion Hn as [|c0 x0 Hc Hn']; subst.
    apply le0_add; [| apply IH; [exact Hn' | injection Hl; auto]].
    destruct Hg as [Hg | [Hx0 Hg]].
    + rewrite Hg. replace (mul zero (sub c xi)) with (@zero A) by ring. apply le_refl.
    + rewrite Hx0. replace (sub c zero) with c by ring.
      apply le0_mul; [|exact Hc]. replace (opp zero) with (@zero A) in Hg by ring. exact Hg.
Qed.

Lemma kkt_nonneg (M : list (list K)) (b x : list K) : kkt M b x -> nonneg x.
Proof.
  unfold kkt, kkt_tol, nonneg. generalize (gradient M b x). intros g HF.
  induction HF as [|xi gi x g [Hxi _] HF IH]; constructor; assumption.
Qed.

(* ---- d'Md >= 0, = 0 only for d = 0 ------------------------------------------------------------- *)
Lemma pos_def_nonneg (n : nat) (M : list (list K)) (d : list K) :
  pos_def n M -> length d = n -> le zero (dot d (mv M d)).
Proof.
  intros Hp Hl. destruct (vec_eq_dec d (zeros n)) as [E|E].
  - rewrite E at 1. rewrite dot_zeros_l. apply le_refl.
  - apply lt_le. apply Hp; assumption.
Qed.

Lemma pos_def_zero (n : nat) (M : list (list K)) (d : list K) :
  pos_def n M -> length d = n -> dot d (mv M d) = zero -> d = zeros n.
Proof.
  intros Hp Hl H0. destruct (vec_eq_dec d (zeros n)) as [E|E]; [exact E|].
  exfalso. apply (lt_irrefl zero). rewrite <- H0 at 2. apply Hp; assumption.
Qed.

(* ---- the theorems, with symmetry as the bilinear-form statement ---------------------------------- *)
Theorem kkt_minimises_form : forall n (M : list (list K)) (b x : list K),
  wf_mat n M -> sym_form M -> pos_def n M -> length b = n -> length x = n -> kkt M b x ->
  forall x', length x' = n -> nonneg x' -> le (qobj M b x) (qobj M b x').
Proof.
  intros n M b x [HM _] Hs Hp Hb Hx Hk x' Hx' Hn.
  apply (proj2 (le_sub0 _ _)). rewrite qobj_diff; [| congruence | congruence | apply Hs].
  assert (Hg : le zero (dot (gradient M b x) (vsub x' x))).
  { apply kkt_gd_nonneg; [exact Hk | exact Hn | congruence]. }
  apply le0_add; [apply le0_add; exact Hg|].
  apply (pos_def_nonneg n); [exact Hp|]. rewrite length_vsub; congruence.
Qed.

Theorem kkt_unique_form : forall n (M : list (list K)) (b x x' : list K),
  wf_mat n M -> sym_form M -> pos_def n M -> length b = n -> length x = n -> length x' = n ->
  kkt M b x -> kkt M b x' -> x = x'.
Proof.
  intros n M b x x' HW Hs Hp Hb Hx Hx' Hk Hk'.
  assert (Hq : qobj M b x' = qobj M b x).
  { apply le_antisym.
    - apply (kkt_minimises_form n); auto. apply (kkt_nonneg M b). exact Hk.
    - apply (kkt_minimises_form n); auto. apply (kkt_nonneg M b). exact Hk'. }
  destruct HW as [HM _].
  assert (Hd : sub (qobj M b x') (qobj M b x) = zero) by (rewrite Hq; ring).
  rewrite qobj_diff in Hd; [| congruence | congruence | apply Hs].
  assert (Hg : le zero (dot (gradient M b x) (vsub x' x))).
  { apply kkt_gd_nonneg; [exact Hk | apply (kkt_nonneg M b); exact Hk' | congruence]. }
  assert (Hl : length (vsub x' x) = n) by (rewrite length_vsub; congruence).
  apply add_nonneg_zero in Hd; [| apply le0_add; exact Hg | apply (pos_def_nonneg n); assumption].
  destruct Hd as [_ Hd].
  apply (pos_def_zero n) in Hd; [| exact Hp | exact Hl].
  symmetry. apply vsub_zeros_eq; [congruence|]. rewrite Hx'. exact Hd.
Qed.

(* ---- entry-wise symmetry implies symmetry of the bilinear form ------------------------------------ *)
(* finite sums  f 0 + ... + f (n-1) *)
Fixpoint sumn (n : nat) (f : nat -> K) : K :=
  match n with O => zero | S m => add (f O) (sumn m (fun i => f (S i))) end.

Lemma sumn_ext (n : nat) (f g : nat -> K) : (forall i, f i = g i) -> sumn n f = sumn n g.
Proof.
  revert f g. induction n as [|n IH]; intros f g H; cbn [sumn]; [reflexivity|].
  rewrite H. rewrite (IH (fun i => f (S i)) (fun i => g (S i))) by (intro i; apply H). reflexivity.
Qed.

Lemma sumn_zero (n : nat) (f : nat -> K) : (forall i, f i = zero) -> sumn n f = zero.
Proof.
  revert f. induction n as [|n IH]; intros f H; cbn [sumn]; [reflexivity|].
  rewrite H. rewrite IH by (intro i; apply H). ring.
Qed.

Lemma sumn_add (n : nat) (f g : nat -> K) :
  sumn n (fun i => add (f i) (g i)) = add (sumn n f) (sumn n g).
Proof.
  revert f g. induction n as [|n IH]; intros f g; cbn [sumn]; [ring|].
  rewrite (IH (fun i => f (S i)) (fun i => g (S i))). ring.
Qed.

Lemma sumn_mul_l (n : nat) (a : K) (f : nat -> K) :
  mul a (sumn n f) = sumn n (fun i => mul a (f i)).
Proof.
  revert f. induction n as [|n IH]; intros f; cbn [sumn]; [ring|].
  rewrite <- (IH (fun i => f (S i))). ring.
Qed.

Lemma sumn_swap (n m : nat) (f : nat -> nat -> K) :
  sumn n (fun i => sumn m (fun j => f i j)) = sumn m (fun j => sumn n (fun i => f i j)).
Proof.
  revert f. induction n as [|n IH]; intros f; cbn [sumn].
  - symmetry. apply sumn_zero. reflexivity.
  - rewrite (IH (fun i j => f (S i) j)).
    rewrite <- (sumn_add m (fun j => f O j) (fun j => sumn n (fun i => f (S i) j))). reflexivity.
Qed.

Lemma nthK_nil (i : nat) : @nthK A [] i = zero.
Proof. unfold nthK. destruct i; reflexivity. Qed.

Lemma dot_sumn (N : nat) (u v : list K) : (length u <= N)%nat ->
  dot u v = sumn N (fun i => mul (nthK u i) (nthK v i)).
Proof.
  revert u v. induction N as [|N IH]; intros u v Hl.
  - destruct u; [reflexivity | cbn [length] in Hl; lia].
  - destruct u as [|a u].
    + cbn [dot]. symmetry. apply sumn_zero. intro i. rewrite nthK_nil. ring.
    + destruct v as [|c v].
      * cbn [dot]. symmetry. apply sumn_zero. intro i. rewrite nthK_nil. ring.
      * cbn [dot sumn]. unfold nthK at 1 2. cbn [nth].
        rewrite (IH u v) by (cbn [length] in Hl; lia). reflexivity.
Qed.

Lemma nthK_mv (M : list (list K)) (v : list K) (i : nat) : nthK (mv M v) i = dot (row M i) v.
Proof.
  unfold nthK, mv, row. change (@zero A) with (dot (@nil K) v).
  apply (map_nth (fun r => dot r v)).
Qed.

Lemma form_sumn (N : nat) (M : list (list K)) (u v : list K) : (length u <= N)%nat -> (length v <= N)%nat ->
  dot u (mv M v) =
  sumn N (fun i => sumn N (fun j => mul (nthK u i) (mul (nthK (row M i) j) (nthK v j)))).
Proof.
  intros Hu Hv. rewrite (dot_sumn N) by exact Hu. apply sumn_ext. intro i.
  rewrite nthK_mv. rewrite (dot_comm (row M i) v). rewrite (dot_sumn N v) by exact Hv.
  rewrite sumn_mul_l. apply sumn_ext. intro j. ring.
Qed.

Theorem symmetric_sym_form (M : list (list K)) : symmetric M -> sym_form M.
Proof.
  intros Hs u v.
  rewrite (form_sumn (length u + length v) M u v) by lia.
  rewrite (form_sumn (length u + length v) M v u) by lia.
  rewrite sumn_swap. apply sumn_ext. intro j. apply sumn_ext. intro i.
  rewrite (Hs i j). ring.
Qed.

(* ---- the theorems ----------------------------------------------------------------------------------- *)
(* x minimises x'Mx - 2 b'x (= twice 1/2 x'Mx - b'x) over x' >= 0 *)
Theorem kkt_minimises : forall n (M : list (list K)) (b x : list K),
  spd n M -> length b = n -> length x = n -> kkt M b x ->
  forall x', length x' = n -> nonneg x' -> le (qobj M b x) (qobj M b x').
Proof.
  intros n M b x (HW & Hs & Hp). apply kkt_minimises_form; [exact HW | | exact Hp].
  apply symmetric_sym_form. exact Hs.
Qed.

Theorem kkt_unique : forall n (M : list (list K)) (b x x' : list K),
  spd n M -> length b = n -> length x = n -> length x' = n ->
  kkt M b x -> kkt M b x' -> x = x'.
Proof.
  intros n M b x x' (HW & Hs & Hp). apply kkt_unique_form; [exact HW | | exact Hp].
  apply symmetric_sym_form. exact Hs.
Qed.

(* ---- the boolean checks decide the Prop-level conditions ------------------------------------------- *)
Lemma kktb_sound (t : K) (x g : list K) : kktb t x g = true ->
  Forall2 (fun xi gi => le zero xi /\ (gi = zero \/ (xi = zero /\ le (opp t) gi))) x g.
Proof.
  revert g. induction x as [|xi x IH]; intros [|gi g] H; cbn [kktb] in H; try discriminate.
  - constructor.
  - apply andb_true_iff in H. destruct H as [H H3]. apply andb_true_iff in H. destruct H as [H1 H2].
    constructor; [| apply IH; exact H3]. split; [exact H1|].
    apply orb_true_iff in H2. destruct H2 as [H2|H2].
    + left. apply eqK_true. exact H2.
    + right. apply andb_true_iff in H2. destruct H2 as [H2 H4]. split; [apply eqK_true; exact H2 | exact H4].
Qed.

Lemma kktb_complete (t : K) (x g : list K) :
  Forall2 (fun xi gi => le zero xi /\ (gi = zero \/ (xi = zero /\ le (opp t) gi))) x g ->
  kktb t x g = true.
Proof.
  intro HF. induction HF as [|xi gi x g [H1 H2] HF IH]; cbn [kktb]; [reflexivity|].
  rewrite IH, andb_true_r. apply andb_true_iff. split; [exact H1|].
  apply orb_true_iff. destruct H2 as [H2|[H2 H3]].
  - left. apply eqK_true. exact H2.
  - right. apply andb_true_iff. split; [apply eqK_true; exact H2 | exact H3].
Qed.

Theorem kkt_check_iff (t : K) (M : list (list K)) (b x : list K) :
  kkt_check t M b x = true <-> kkt_tol t M b x.
Proof. unfold kkt_check, kkt_tol. split; [apply kktb_sound | apply kktb_complete]. Qed.

Corollary kkt_check_false (M : list (list K)) (b x : list K) :
  kkt_check zero M b x = false -> ~ kkt M b x.
Proof. intros H Hk. apply kkt_check_iff in Hk. congruence. Qed.

Lemma nonnegb_iff (x : list K) : nonnegb x = true <-> nonneg x.
Proof.
  unfold nonneg. induction x as [|a x IH]; cbn [nonnegb].
  - split; [constructor | reflexivity].
  - rewrite andb_true_iff, IH. split.
    + intros [H1 H2]. constructor; assumption.
    + intro H. inversion H; subst. split; assumption.
Qed.

Lemma entry_out_of_range (M : list (list K)) (i j : nat) :
  Forall (fun r => length r = length M) M -> (length M <= i \/ length M <= j)%nat ->
  nthK (row M i) j = zero.
Proof.
  intros HF Hij. unfold row. destruct (Compare_dec.le_lt_dec (length M) i) as [Hi|Hi].
  - rewrite (nth_overflow M [] Hi). apply nthK_nil.
  - destruct Hij as [Hij|Hij]; [lia|].
    unfold nthK. apply nth_overflow.
    rewrite Forall_forall in HF. rewrite (HF (nth i M [])); [exact Hij | apply nth_In; exact Hi].
Qed.

Theorem symb_sound (M : list (list K)) : symb M = true -> symmetric M /\ wf_mat (length M) M.
Proof.
  unfold symb. intro H. apply andb_true_iff in H. destruct H as [H1 H2].
  assert (HF : Forall (fun r => length r = length M) M).
  { apply Forall_forall. intros r Hr. rewrite forallb_forall in H2. apply Nat.eqb_eq. apply H2. exact Hr. }
  split; [| split; [reflexivity | exact HF]].
  intros i j.
  destruct (Compare_dec.le_lt_dec (length M) i) as [Hi|Hi].
  { rewrite (entry_out_of_range M i j), (entry_out_of_range M j i); auto. }
  destruct (Compare_dec.le_lt_dec (length M) j) as [Hj|Hj].
  { rewrite (entry_out_of_range M i j), (entry_out_of_range M j i); auto. }
  rewrite forallb_forall in H1.
  assert (Hi' : In i (seq 0 (length M))) by (apply in_seq; lia).
  assert (Hj' : In j (seq 0 (length M))) by (apply in_seq; lia).
  specialize (H1 i Hi'). rewrite forallb_forall in H1. apply eqK_true. apply H1. exact Hj'.
Qed.

(* ---- a point that is KKT within t is within 2 t sum(x') of any feasible x' ------------------------- *)
Fixpoint vsum (x : list K) : K := match x with [] => zero | a :: x' => add a (vsum x') end.

Lemma kkt_tol_gd (t : K) (x g x' : list K) :
  Forall2 (fun xi gi => le zero xi /\ (gi = zero \/ (xi = zero /\ le (opp t) gi))) x g ->
  le zero t -> nonneg x' -> length x' = length x ->
  le (opp (mul t (vsum x'))) (dot g (vsub x' x)).
Proof.
  intros HF Ht. revert x'. induction HF as [|xi gi x g [Hxi Hg] HF IH]; intros [|c x'] Hn Hl;
    cbn [length] in Hl; try discriminate.
  - cbn [dot vsum]. replace (opp (mul t zero)) with (@zero A) by ring. apply le_refl.
  - cbn [vsub dot vsum]. inversion Hn as [|c0 x0 Hc Hn']; subst.
    replace (opp (mul t (add c (vsum x')))) with (add (opp (mul t c)) (opp (mul t (vsum x')))) by ring.
    apply le_add_compat; [| apply IH; [exact Hn' | injection Hl; auto]].
    destruct Hg as [Hg | [Hx0 Hg]].
    + rewrite Hg. replace (mul zero (sub c xi)) with (@zero A) by ring.
      apply le0_opp. apply le0_mul; assumption.
    + rewrite Hx0. apply (proj2 (le_sub0 _ _)).
      replace (sub (mul gi (sub c zero)) (opp (mul t c))) with (mul (sub gi (opp t)) c) by ring.
      apply le0_mul; [|exact Hc]. apply (proj1 (le_sub0 _ _)). exact Hg.
Qed.

Theorem kkt_tol_gap : forall n (M : list (list K)) (b x x' : list K) (t : K),
  spd n M -> length b = n -> length x = n -> length x' = n -> le zero t ->
  kkt_tol t M b x -> nonneg x' ->
  le (sub (qobj M b x) (qobj M b x')) (mul (add one one) (mul t (vsum x'))).
Proof.
  intros n M b x x' t ([HM HR] & Hs & Hp) Hb Hx Hx' Ht Hk Hn.
  apply (proj2 (le_sub0 _ _)).
  replace (sub (mul (add one one) (mul t (vsum x'))) (sub (qobj M b x) (qobj M b x')))
    with (add (mul (add one one) (mul t (vsum x'))) (sub (qobj M b x') (qobj M b x))) by ring.
  rewrite qobj_diff; [| congruence | congruence | apply symmetric_sym_form; exact Hs].
  pose proof (kkt_tol_gd t x (gradient M b x) x' Hk Ht Hn) as Hg.
  assert (Hl : length x' = length x) by congruence. specialize (Hg Hl).
  apply (proj1 (le_sub0 _ _)) in Hg.
  assert (Hd : le zero (dot (vsub x' x) (mv M (vsub x' x)))).
  { apply (pos_def_nonneg n); [exact Hp|]. rewrite length_vsub; congruence. }
  set (G := dot (gradient M b x) (vsub x' x)) in *.
  set (D := dot (vsub x' x) (mv M (vsub x' x))) in *.
  set (S := mul t (vsum x')) in *.
  replace (add (mul (add one one) S) (add (add G G) D))
    with (add (add (sub G (opp S)) (sub G (opp S))) D) by ring.
  apply le0_add; [apply le0_add; exact Hg | exact Hd].
Qed.

End KKT.

(* ---- the executed exact instance --------------------------------------------------------------------- *)
Lemma QcA_ofZ_two : @ofZ QcA 2 = @add QcA one one.
Proof. apply Qc_is_canon. reflexivity. Qed.

Theorem kkt_minimises_Qc : forall n (M : list (list (T QcA))) (b x : list (T QcA)),
  spd n M -> length b = n -> length x = n -> kkt M b x ->
  forall x', length x' = n -> nonneg x' -> le (qobj M b x) (qobj M b x').
Proof. exact (@kkt_minimises QcA QcA_OField QcA_ofZ_two). Qed.

Theorem kkt_unique_Qc : forall n (M : list (list (T QcA))) (b x x' : list (T QcA)),
  spd n M -> length b = n -> length x = n -> length x' = n ->
  kkt M b x -> kkt M b x' -> x = x'.
Proof. exact (@kkt_unique QcA QcA_OField QcA_ofZ_two). Qed.

Theorem kkt_tol_gap_Qc : forall n (M : list (list (T QcA))) (b x x' : list (T QcA)) (t : T QcA),
  spd n M -> length b = n -> length x = n -> length x' = n -> le zero t ->
  kkt_tol t M b x -> nonneg x' ->
  le (sub (qobj M b x) (qobj M b x')) (mul (add one one) (mul t (vsum x'))).
Proof. exact (@kkt_tol_gap QcA QcA_OField QcA_ofZ_two). Qed.

Print Assumptions kkt_minimises_Qc.
Print Assumptions kkt_unique_Qc.
Print Assumptions kkt_tol_gap_Qc.
Print Assumptions symb_sound.
Print Assumptions kkt_check_iff.
