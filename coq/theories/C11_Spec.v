(* C11_Spec.v — the Prop-level vocabulary of the C11 theorems (definitions only): symmetric positive
   definite systems, non-negativity, the Karush-Kuhn-Tucker conditions (exact and within a tolerance) of
   minimising 1/2 x'Ax - b'x over x >= 0, over the vectors/matrices of NnlsModel.v. *)
From Coq Require Import List Bool.
From PS Require Import Arith NnlsModel.
Import ListNotations.

Section Spec.
Context {A : Arith}.
Notation K := (T A).

Definition le (a b : K) : Prop := leb a b = true.
Definition lt (a b : K) : Prop := ltb a b = true.

(* n x n *)
Definition wf_mat (n : nat) (M : list (list K)) : Prop := length M = n /\ Forall (fun r => length r = n) M.
(* symmetric: entry-wise *)
Definition symmetric (M : list (list K)) : Prop :=
  forall i j, nthK (row M i) j = nthK (row M j) i.
(* symmetric, as a statement about the bilinear form (what the proofs use; follows from [symmetric] + [wf_mat]) *)
Definition sym_form (M : list (list K)) : Prop := forall u v, dot u (mv M v) = dot v (mv M u).
(* positive definite: v'Mv > 0 for every non-zero v of length n *)
Definition pos_def (n : nat) (M : list (list K)) : Prop :=
  forall v, length v = n -> v <> zeros n -> lt zero (dot v (mv M v)).
Definition spd (n : nat) (M : list (list K)) : Prop := wf_mat n M /\ symmetric M /\ pos_def n M.

Definition nonneg (x : list K) : Prop := Forall (fun a => le zero a) x.

(* KKT within t: x_i >= 0 and (g_i = 0, or x_i = 0 and g_i >= -t), g = Mx - b. t = 0: the exact conditions
   (zero gradient on the positive components, non-negative gradient on the zero components). *)
Definition kkt_tol (t : K) (M : list (list K)) (b x : list K) : Prop :=
  Forall2 (fun xi gi => le zero xi /\ (gi = zero \/ (xi = zero /\ le (opp t) gi))) x (gradient M b x).
Definition kkt (M : list (list K)) (b x : list K) : Prop := kkt_tol zero M b x.
End Spec.
