(* C06_Proofs.v — lemmas and proofs for the FITS round-trip property (C06). *)
From Coq Require Import List NArith ZArith Bool Lia ZifyBool Decimal DecimalN DecimalPos Arith.
From PS Require Import Generated_fits FitsModel FitsWf.
Import ListNotations.
Open Scope N_scope.

(* ================================================================================================ *)
(* generic list helpers *)
Lemma repeat_app_len {A} (x : A) n : length (repeat x n) = n.
Proof. apply repeat_length. Qed.

Lemma firstn_app_exact {A} (l r : list A) n : length l = n -> firstn n (l ++ r) = l.
Proof. intros <-. rewrite firstn_app, Nat.sub_diag, firstn_all. simpl. apply app_nil_r. Qed.

Lemma skipn_app_exact {A} (l r : list A) n : length l = n -> skipn n (l ++ r) = r.
Proof. intros <-. rewrite skipn_app, Nat.sub_diag, skipn_all. reflexivity. Qed.

Lemma str_eqb_refl a : str_eqb a a = true.
Proof. induction a; simpl; auto. rewrite N.eqb_refl. auto. Qed.

Lemma str_eqb_eq a b : str_eqb a b = true <-> a = b.
Proof.
  revert b; induction a as [|x a IH]; destruct b as [|y b]; simpl; split; intros H; try congruence; auto.
  - apply andb_true_iff in H as [H1 H2]. apply N.eqb_eq in H1. apply IH in H2. congruence.
  - inversion H; subst. rewrite N.eqb_refl. apply IH. reflexivity.
Qed.

Lemma str_eqb_neq a b : a <> b -> str_eqb a b = false.
Proof. intros H. destruct (str_eqb a b) eqn:E; auto. apply str_eqb_eq in E. contradiction. Qed.

Lemma starts_with_app p x : starts_with p (p ++ x) = true.
Proof. induction p; simpl; auto. rewrite N.eqb_refl. auto. Qed.

(* ================================================================================================ *)
(* A. big-endian words *)
Lemma be_bytes_length n w : length (be_bytes n w) = n.
Proof. revert w; induction n; intros; simpl; auto. rewrite app_length, IHn. simpl. lia. Qed.

Lemma be_word_app l x : be_word (l ++ [x]) = be_word l * 256 + x.
Proof. unfold be_word. rewrite fold_left_app. reflexivity. Qed.

Lemma be_word_be_bytes n w : w < 256 ^ N.of_nat n -> be_word (be_bytes n w) = w.
Proof.
  revert w; induction n; intros w H.
  - simpl in *. unfold be_word. simpl. lia.
  - cbn [be_bytes]. rewrite be_word_app, IHn.
    + pose proof (N.div_mod w 256). lia.
    + rewrite Nat2N.inj_succ, N.pow_succ_r' in H. apply N.div_lt_upper_bound; lia.
Qed.

Lemma be_bytes_range n w : Forall (fun b => b < 256) (be_bytes n w).
Proof.
  revert w; induction n; intros; simpl; auto. apply Forall_app; split; auto.
  constructor; auto. apply N.mod_lt. lia.
Qed.

(* ================================================================================================ *)
(* B. decimal *)
Definition is_digit (c : N) : bool := (48 <=? c) && (c <=? 57).

Lemma uint_roundtrip u : str_to_uint (uint_to_str u) = Some u.
Proof. induction u; simpl; auto; rewrite IHu; reflexivity. Qed.

Lemma uint_digits u : forallb is_digit (uint_to_str u) = true.
Proof. induction u; simpl; auto. Qed.

Lemma dec_digits n : forallb is_digit (dec n) = true.
Proof. apply uint_digits. Qed.

Lemma uint_to_str_nonnil u : u <> Nil -> uint_to_str u <> [].
Proof. destruct u; simpl; congruence. Qed.

Lemma dec_nonnil n : dec n <> [].
Proof.
  unfold dec. apply uint_to_str_nonnil. destruct n; simpl.
  - discriminate.
  - apply DecimalPos.Unsigned.to_uint_nonnil.
Qed.

Lemma parse_nat_dec n : parse_nat (dec n) = Some n.
Proof.
  unfold parse_nat. pose proof (dec_nonnil n) as H. destruct (dec n) eqn:E; [congruence|].
  rewrite <- E. unfold dec. rewrite uint_roundtrip. simpl. f_equal. apply DecimalN.Unsigned.of_to.
Qed.

Lemma dec_inj a b : dec a = dec b -> a = b.
Proof. intros H. pose proof (parse_nat_dec a) as Ha. rewrite H, parse_nat_dec in Ha. congruence. Qed.

Lemma dec_head n : exists c r, dec n = c :: r /\ is_digit c = true.
Proof.
  pose proof (dec_nonnil n). pose proof (dec_digits n). destruct (dec n) as [|c r]; [congruence|].
  exists c, r. simpl in H0. apply andb_true_iff in H0 as [H0 _]. auto.
Qed.

Lemma parse_int_digit_head c r : is_digit c = true ->
  parse_int (c :: r) = option_map Z.of_N (parse_nat (c :: r)).
Proof.
  intros D. unfold parse_int. destruct c as [|q]; [reflexivity|].
  do 7 (try (destruct q as [q|q|]; try reflexivity)); vm_compute in D; discriminate.
Qed.

Lemma parse_int_print z : parse_int (print_int z) = Some z.
Proof.
  destruct z as [|p|p]; unfold print_int.
  - reflexivity.
  - destruct (dec_head (Z.to_N (Z.pos p))) as (c & r & E & D).
    rewrite E, parse_int_digit_head by auto. rewrite <- E, parse_nat_dec. simpl. reflexivity.
  - unfold parse_int. rewrite parse_nat_dec. simpl. reflexivity.
Qed.

(* ================================================================================================ *)
(* C. blanks: padding and stripping *)
Lemma drop_spaces_repeat n l : drop_spaces (repeat sp n ++ l) = drop_spaces l.
Proof. induction n; simpl; auto. Qed.

Lemma drop_spaces_all n : drop_spaces (repeat sp n) = [].
Proof. induction n; simpl; auto. Qed.

Lemma drop_spaces_head c r : c <> sp -> drop_spaces (c :: r) = c :: r.
Proof. intros H. simpl. apply N.eqb_neq in H. rewrite H. reflexivity. Qed.

Lemma strip_trailing_blank n : strip_trailing (repeat sp n) = [].
Proof. induction n; simpl; auto. rewrite IHn. reflexivity. Qed.

Lemma strip_trailing_repeat l n : strip_trailing (l ++ repeat sp n) = strip_trailing l.
Proof. induction l; simpl. apply strip_trailing_blank. rewrite IHl. reflexivity. Qed.

Lemma until_space_app key n : no_char sp key = true -> until_space (key ++ repeat sp n) = key.
Proof.
  induction key; simpl; intros H.
  - destruct n; reflexivity.
  - apply andb_true_iff in H as [H1 H2]. apply negb_true_iff in H1. rewrite H1. f_equal. auto.
Qed.

Lemma take_tok_app t n : tok_chars t = true -> take_tok (t ++ repeat sp n) = t.
Proof.
  induction t; simpl; intros H.
  - destruct n; reflexivity.
  - apply andb_true_iff in H as [H1 H2]. apply andb_true_iff in H1 as [Ha Hb].
    apply negb_true_iff in Ha, Hb. rewrite Ha, Hb. simpl. f_equal. auto.
Qed.

Lemma pad_right_length n l : (length l <= n)%nat -> length (pad_right n l) = n.
Proof. intros. unfold pad_right. rewrite app_length, repeat_length. lia. Qed.

(* ================================================================================================ *)
(* D. quoted strings *)
Lemma scan_str_cons c r : scan_str (c :: r) =
  if c =? quote then
    match r with
    | c2 :: r2 => if c2 =? quote then cv_cons quote (cv_cons quote (scan_str r2)) else VStr []
    | [] => VStr []
    end
  else cv_cons c (scan_str r).
Proof. reflexivity. Qed.

Lemma scan_str_paired n : forall raw rest, (length raw <= n)%nat -> paired raw = true ->
  (match rest with c :: _ => c <> quote | [] => True end) ->
  scan_str (raw ++ quote :: rest) = VStr raw.
Proof.
  assert (B : forall rest, (match rest with c :: _ => c <> quote | [] => True end) -> scan_str ([] ++ quote :: rest) = VStr []).
  { intros rest R. cbn [List.app]. rewrite scan_str_cons, N.eqb_refl. destruct rest as [|c r]; auto.
    apply N.eqb_neq in R. rewrite R. reflexivity. }
  induction n; intros raw rest L P R.
  - destruct raw; [|simpl in L; lia]. auto.
  - destruct raw as [|c raw]; auto.
    simpl in P. rewrite <- app_comm_cons, scan_str_cons. destruct (c =? quote) eqn:E.
    + destruct raw as [|c2 raw]; [discriminate|]. apply andb_true_iff in P as [P1 P2].
      rewrite <- app_comm_cons. rewrite P1. rewrite IHn; auto. 2:{ simpl in L. lia. }
      apply N.eqb_eq in E, P1. subst. reflexivity.
    + rewrite IHn; auto. simpl in L. lia.
Qed.

Lemma paired_no_quote raw : no_char quote raw = true -> paired raw = true.
Proof.
  induction raw; simpl; auto. intros H. apply andb_true_iff in H as [H1 H2].
  apply negb_true_iff in H1. rewrite H1. auto.
Qed.

(* ================================================================================================ *)
(* E. cards *)
Lemma parse_value_text v n : wf_value v = true -> parse_value (value_text v ++ repeat sp n) = v.
Proof.
  destruct v as [raw|raw|t]; simpl; intros W; try discriminate.
  - unfold parse_value. cbn [List.app drop_spaces]. change (quote =? sp) with false. cbn iota.
    rewrite N.eqb_refl. rewrite <- app_assoc. cbn [List.app].
    apply (scan_str_paired (length raw)); auto. destruct n; simpl; auto. discriminate.
  - unfold parse_value, pad_left. rewrite <- app_assoc, drop_spaces_repeat.
    apply andb_true_iff in W as [W1 W2]. destruct t as [|c r].
    + simpl. rewrite drop_spaces_all. reflexivity.
    + assert (c <> sp) as Hc.
      { simpl in W1. apply andb_true_iff in W1 as [W1 _]. apply andb_true_iff in W1 as [W1 _].
        apply negb_true_iff, N.eqb_neq in W1. auto. }
      cbn [List.app]. rewrite drop_spaces_head by auto. apply negb_true_iff in W2. rewrite W2.
      change (c :: r ++ repeat sp n) with ((c :: r) ++ repeat sp n). rewrite take_tok_app; auto.
Qed.

Lemma starts_with_hier9_short k8 rest : length k8 = 8%nat -> starts_with s_HIER9 (k8 ++ eqc :: rest) = false.
Proof.
  intros L. do 9 (destruct k8 as [|? k8]; try (simpl in L; lia)).
  cbn [List.app s_HIER9 starts_with]. change (32 =? eqc) with false. rewrite !andb_false_r. reflexivity.
Qed.

Lemma split_eq_key key rest : no_char eqc key = true -> split_eq (key ++ eqc :: rest) = Some (key, rest).
Proof.
  induction key; simpl; intros H.
  - reflexivity.
  - apply andb_true_iff in H as [H1 H2]. apply negb_true_iff in H1. rewrite H1, IHkey; auto.
Qed.

Lemma strip_trailing_cons c r : strip_trailing (c :: r) =
  match strip_trailing r with [] => if c =? sp then [] else [c] | r' => c :: r' end.
Proof. reflexivity. Qed.

Lemma strip_trailing_id l : l <> [] -> last l sp <> sp -> strip_trailing l = l.
Proof.
  induction l as [|c l IH]; intros H1 H2; [congruence|].
  destruct l as [|d l].
  - simpl in *. apply N.eqb_neq in H2. rewrite H2. reflexivity.
  - rewrite strip_trailing_cons, IH; [reflexivity|discriminate|exact H2].
Qed.

Lemma strip_trailing_snoc_sp l : strip_trailing (l ++ [sp]) = strip_trailing l.
Proof. apply (strip_trailing_repeat l 1). Qed.

Lemma decode_encode_card c : wf_card c = true -> decode_card (encode_card c) = c.
Proof.
  unfold wf_card. intros W. apply andb_true_iff in W as [WL W]. apply Nat.leb_le in WL.
  destruct c as [key v|key text].
  - apply andb_true_iff in W as [WV W]. unfold encode_card, card_text in *.
    destruct (length key <=? 8)%nat eqn:LK.
    + apply Nat.leb_le in LK. apply andb_true_iff in W as [WK WC]. apply negb_true_iff in WC.
      unfold pad_right at 1. rewrite <- !app_assoc. cbn [List.app].
      set (fill := repeat sp _).
      unfold decode_card. rewrite starts_with_hier9_short by (apply pad_right_length; auto).
      rewrite firstn_app_exact by (apply pad_right_length; auto). rewrite WC. cbn [orb].
      rewrite skipn_app_exact by (apply pad_right_length; auto). cbn [starts_with]. rewrite !N.eqb_refl. cbn [andb negb].
      change (pad_right 8 key ++ eqc :: sp :: value_text v ++ fill) with (pad_right 8 key ++ [eqc; sp] ++ value_text v ++ fill).
      rewrite app_assoc. rewrite skipn_app_exact.
      2:{ rewrite app_length, pad_right_length by auto. reflexivity. }
      unfold pad_right at 1. rewrite until_space_app by auto. subst fill. rewrite parse_value_text by auto. reflexivity.
    + apply Nat.leb_gt in LK. apply andb_true_iff in W as [W W3]. apply andb_true_iff in W as [W1 W2].
      apply negb_true_iff, N.eqb_neq in W2, W3.
      unfold pad_right. rewrite <- !app_assoc. set (fill := repeat sp _).
      unfold decode_card. rewrite starts_with_app.
      rewrite skipn_app_exact by reflexivity. cbn [List.app].
      change (key ++ sp :: eqc :: sp :: value_text v ++ fill) with (key ++ [sp] ++ eqc :: sp :: value_text v ++ fill).
      rewrite app_assoc. rewrite split_eq_key.
      2:{ unfold no_char in *. rewrite forallb_app, W1. reflexivity. }
      destruct key as [|k0 kr]; [simpl in LK; lia|]. cbn [hd] in W2.
      rewrite <- app_comm_cons, drop_spaces_head by auto. rewrite app_comm_cons, strip_trailing_snoc_sp.
      replace (strip_trailing (k0 :: kr)) with (k0 :: kr).
      2:{ symmetry. apply strip_trailing_id; [discriminate|auto]. }
      f_equal. unfold parse_value. cbn [drop_spaces]. rewrite N.eqb_refl.
      fold (parse_value (value_text v ++ fill)). subst fill. apply parse_value_text; auto.
  - unfold decode_card.
    repeat (apply andb_true_iff in W; destruct W as [W ?]).
    match goal with H : negb (starts_with s_HIER9 _) = true |- _ => apply negb_true_iff in H; rewrite H end.
    assert (L8 : length (pad_right 8 key) = 8%nat) by (apply pad_right_length; apply Nat.leb_le; auto).
    assert (E : encode_card (Commentary key text) = pad_right 8 key ++ (text ++ repeat sp (80 - length (card_text (Commentary key text))))).
    { unfold encode_card, card_text. unfold pad_right at 1. rewrite <- app_assoc. reflexivity. }
    rewrite E in *. rewrite firstn_app_exact by auto. rewrite skipn_app_exact in * by auto.
    match goal with H : (_ || _) = true |- _ => rewrite H end.
    unfold pad_right at 1. rewrite until_space_app by auto. rewrite strip_trailing_repeat.
    match goal with H : str_eqb _ _ = true |- _ => apply str_eqb_eq in H; rewrite H end. reflexivity.
Qed.

Lemma encode_card_length c : (length (card_text c) <= 80)%nat -> length (encode_card c) = 80%nat.
Proof. apply pad_right_length. Qed.

Lemma wf_card_not_end c : wf_card c = true -> is_end (encode_card c) = false.
Proof.
  unfold wf_card. intros W. apply andb_true_iff in W as [WL W]. apply Nat.leb_le in WL.
  destruct c as [key v|key text].
  - apply andb_true_iff in W as [WV W]. unfold is_end, encode_card, card_text.
    destruct (length key <=? 8)%nat eqn:LK.
    + apply Nat.leb_le in LK. apply andb_true_iff in W as [WK WC]. apply negb_true_iff in WC.
      unfold pad_right at 1. rewrite <- !app_assoc. rewrite firstn_app_exact by (apply pad_right_length; auto).
      unfold is_commentary8 in WC. apply orb_false_iff in WC as [_ WC]. exact WC.
    + unfold pad_right. rewrite <- !app_assoc. reflexivity.
  - repeat (apply andb_true_iff in W; destruct W as [W ?]).
    match goal with H : negb (is_end _) = true |- _ => apply negb_true_iff in H; exact H end.
Qed.

(* ================================================================================================ *)
(* F. headers, G. data words, H. HDUs and documents *)
Ltac Zify.zify_post_hook ::= Z.div_mod_to_equations.

Lemma wf_card_len c : wf_card c = true -> (length (card_text c) <= 80)%nat.
Proof. unfold wf_card. intros W. apply andb_true_iff in W as [WL _]. apply Nat.leb_le in WL. auto. Qed.

Lemma end_card_length : length end_card = 80%nat.
Proof. reflexivity. Qed.

Lemma read_cards_encoded cs : forallb wf_card cs = true -> forall fuel n rest, (length cs < fuel)%nat ->
  read_cards fuel (concat (map encode_card cs) ++ end_card ++ rest) n = Ok (cs, S (n + length cs), rest).
Proof.
  induction cs as [|c cs IH]; intros W fuel n rest F; (destruct fuel as [|f]; [simpl in F; lia|]).
  - cbn [map concat List.app read_cards]. rewrite firstn_app_exact by reflexivity.
    rewrite skipn_app_exact by reflexivity. rewrite end_card_length. cbn [Nat.ltb Nat.leb].
    change (is_end end_card) with true. cbn iota. rewrite Nat.add_0_r. reflexivity.
  - cbn [forallb] in W. apply andb_true_iff in W as [W1 W2].
    cbn [map concat]. rewrite <- app_assoc. cbn [read_cards].
    pose proof (encode_card_length c (wf_card_len c W1)) as L80.
    rewrite firstn_app_exact by auto. rewrite skipn_app_exact by auto. rewrite L80.
    change (80 <? 80)%nat with false. cbn iota. rewrite wf_card_not_end by auto.
    rewrite IH; auto. 2:{ simpl in F. lia. }
    cbn [bind]. rewrite decode_encode_card by auto. cbn [length]. do 3 f_equal. lia.
Qed.

Lemma take_words_encoded ws data : forallb (fun w => w <? 256 ^ N.of_nat ws) data = true -> forall rest,
  take_words ws (length data) (concat (map (be_bytes ws) data) ++ rest) = Ok (data, rest).
Proof.
  induction data as [|w data IH]; intros W rest; [reflexivity|].
  cbn [forallb] in W. apply andb_true_iff in W as [W1 W2]. apply N.ltb_lt in W1.
  cbn [length map concat take_words]. rewrite <- app_assoc.
  rewrite firstn_app_exact by apply be_bytes_length. rewrite skipn_app_exact by apply be_bytes_length.
  rewrite be_bytes_length, Nat.ltb_irrefl. rewrite IH by auto. cbn [bind fst snd].
  rewrite be_word_be_bytes by auto. reflexivity.
Qed.

Lemma concat_be_length ws data : length (concat (map (be_bytes ws) data)) = (length data * ws)%nat.
Proof. induction data; simpl; auto. rewrite app_length, be_bytes_length, IHdata. lia. Qed.

Lemma concat_cards_length cs : forallb wf_card cs = true -> length (concat (map encode_card cs)) = (length cs * 80)%nat.
Proof.
  induction cs; simpl; auto. intros W. apply andb_true_iff in W as [W1 W2].
  rewrite app_length, encode_card_length, IHcs; auto. apply wf_card_len; auto.
Qed.

Lemma decode_hdu_encoded h : wf_hdu h = true -> forall fuel rest, (length (h_cards h) < fuel)%nat ->
  decode_hdu fuel (encode_hdu h ++ rest) = Ok (h, rest).
Proof.
  unfold wf_hdu. intros W fuel rest F. apply andb_true_iff in W as [WC W].
  destruct (hdu_layout (h_cards h)) as [ly|] eqn:EL; [|discriminate].
  destruct (word_size (l_bitpix ly)) as [ws|] eqn:EW; [|discriminate].
  apply andb_true_iff in W as [WN WD]. apply Nat.eqb_eq in WN.
  unfold decode_hdu, encode_hdu, encode_header, encode_data, hdu_word_size, pad_block. rewrite EL, EW.
  rewrite <- !app_assoc. rewrite read_cards_encoded by auto. cbn [bind].
  rewrite !app_length, concat_cards_length, end_card_length by auto.
  replace (S (0 + length (h_cards h)) * 80)%nat with (length (h_cards h) * 80 + 80)%nat by lia.
  rewrite skipn_app_exact by apply repeat_length.
  rewrite EL. cbn [bind]. rewrite EW. rewrite <- WN.
  rewrite take_words_encoded by auto. cbn [bind fst snd].
  rewrite concat_be_length. rewrite skipn_app_exact by apply repeat_length.
  destruct h; reflexivity.
Qed.

Lemma pad_block_ge f l : l <> [] -> (2880 <= length (pad_block f l))%nat.
Proof.
  intros H. unfold pad_block, pad_len, block. rewrite app_length, repeat_length.
  assert (0 < length l)%nat as P by (destruct l; simpl; [congruence|lia]).
  generalize dependent (length l). intros n P.
  pose proof (Nat.div_mod_eq n 2880). pose proof (Nat.mod_upper_bound n 2880 ltac:(lia)).
  destruct (Nat.eq_dec (n mod 2880) 0) as [E|E].
  - rewrite E in *. rewrite Nat.sub_0_r, Nat.mod_same by lia. lia.
  - rewrite Nat.mod_small by lia. lia.
Qed.

Lemma encode_hdu_ge h : (2880 <= length (encode_hdu h))%nat /\ (S (length (h_cards h)) * 80 <= length (encode_hdu h))%nat.
Proof.
  unfold encode_hdu, encode_header. rewrite app_length. split.
  - assert (2880 <= length (pad_block sp (concat (map encode_card (h_cards h)) ++ end_card)))%nat.
    { apply pad_block_ge. destruct (concat (map encode_card (h_cards h))); discriminate. }
    lia.
  - unfold pad_block. rewrite !app_length, end_card_length.
    assert (forall cs, length cs * 80 <= length (concat (map encode_card cs)))%nat.
    { induction cs; simpl; auto. rewrite app_length. unfold encode_card at 1, pad_right. rewrite app_length, repeat_length. lia. }
    specialize (H (h_cards h)). lia.
Qed.

Lemma decode_hdus_encoded d : forallb wf_hdu d = true -> forall fuel, (length d < fuel)%nat ->
  decode_hdus fuel (encode d) = (d, None).
Proof.
  induction d as [|h d IH]; intros W fuel F; (destruct fuel as [|f]; [simpl in F; lia|]).
  - reflexivity.
  - cbn [forallb] in W. apply andb_true_iff in W as [W1 W2].
    unfold encode. cbn [map concat]. fold (encode d). cbn [decode_hdus].
    destruct (encode_hdu_ge h) as [G1 G2].
    destruct (encode_hdu h ++ encode d) as [|b0 br] eqn:EB.
    { apply (f_equal (@length N)) in EB. rewrite app_length in EB. simpl in EB. lia. }
    rewrite <- EB. rewrite decode_hdu_encoded; auto.
    2:{ rewrite app_length. apply Nat.lt_succ_r. apply Nat.div_le_lower_bound; lia. }
    rewrite IH; auto. simpl in F. lia.
Qed.

Lemma encode_length_ge d : (length d * 2880 <= length (encode d))%nat.
Proof.
  induction d as [|a d IH]; [cbn; lia|]. unfold encode in *. cbn [map concat length]. rewrite app_length.
  destruct (encode_hdu_ge a) as [G _]. lia.
Qed.

Theorem roundtrip_L2 d : wf_doc d = true -> decode (encode d) = Ok d.
Proof.
  intros W. unfold decode, decode_prefix. destruct d as [|h d]; [discriminate|].
  unfold wf_doc in W. rewrite decode_hdus_encoded; auto.
  pose proof (encode_length_ge (h :: d)). apply Nat.lt_succ_r. apply Nat.div_le_lower_bound; lia.
Qed.
